// Demo for: WRED (moisture threshold of the mineralisation reduction, top layer) is
// derived from table values that are NOT scaled by the stone content, while field
// capacity W and wilting point WMIN of the layers ARE scaled by (1-STEIN).
//
// Copy this file into   <repo>/hermes/   (package hermes) and run from that directory:
//
//	go test -vet=off -count=1 -run Test_WRED_between_wilting_point_and_field_capacity .
//
// The test builds a project in t.TempDir() from the shipped examples
// (../examples/parameter and ../examples/project/myP), replaces the soil file by
// profiles without explicit FC/WP (-> texture-table route, HYPAR.TRU) and with
// different stone contents in the top horizon, runs hermes.Input (the routine the
// simulation uses to set up the soil) and checks the property itself:
//
//	WMIN[0] < WRED < W[0]     (W, WMIN as used by the simulation)
//
// and that the relative position of WRED between wilting point and field capacity
// does not depend on the stone content.
package hermes

import (
	"fmt"
	"math"
	"os"
	"path/filepath"
	"strings"
	"testing"
)

func Test_WRED_between_wilting_point_and_field_capacity(t *testing.T) {
	examples, err := filepath.Abs(filepath.Join("..", "examples"))
	if err != nil {
		t.Fatal(err)
	}
	root := t.TempDir()
	copyDir := func(src, dst string) {
		entries, err := os.ReadDir(src)
		if err != nil {
			t.Fatal(err)
		}
		if err := os.MkdirAll(dst, 0o755); err != nil {
			t.Fatal(err)
		}
		for _, e := range entries {
			if e.IsDir() {
				continue
			}
			data, err := os.ReadFile(filepath.Join(src, e.Name()))
			if err != nil {
				t.Fatal(err)
			}
			if err := os.WriteFile(filepath.Join(dst, e.Name()), data, 0o644); err != nil {
				t.Fatal(err)
			}
		}
	}
	copyDir(filepath.Join(examples, "parameter"), filepath.Join(root, "parameter"))
	copyDir(filepath.Join(examples, "project", "myP"), filepath.Join(root, "project", "myP"))

	// soil profiles: texture-table route (FieldCapacity/WiltingPoint/PoreVolume = 0),
	// two horizons, stones only varied in the top horizon
	type soilCase struct {
		sid     string
		texture string
		ld      int
		stone   int // percent
	}
	cases := []soilCase{
		{"100", "UU", 1, 0}, // control: no stones
		{"101", "UU", 1, 10},
		{"102", "UU", 1, 30}, // reported case
		{"103", "UU", 1, 50},
		{"110", "SL2", 3, 0}, // control, sand branch of calcWRed (factor 0.6)
		{"111", "SL2", 3, 30},
		{"120", "LT2", 4, 0},
		{"121", "LT2", 4, 40},
	}
	var sb strings.Builder
	sb.WriteString("SID,C_org,Texture,LayerDepth,BulkDensityClass,Stone,C/N,C/S,RootDepth,NumberHorizon,FieldCapacity,WiltingPoint,PoreVolume,Sand,Silt,Clay,DrainageDepth,Drainage%,GroundWaterLevel\n")
	for _, c := range cases {
		fmt.Fprintf(&sb, "%s,1.00,%s,03,%d,%02d,10,00,10,02,00,00,00,00,00,00,20,00,99\n", c.sid, c.texture, c.ld, c.stone)
		fmt.Fprintf(&sb, "%s,0.30,%s,20,%d,00,10,00,,,00,00,00,00,00,00,20,00,   \n", c.sid, c.texture, c.ld)
	}
	if err := os.WriteFile(filepath.Join(root, "project", "myP", "soil_myP.csv"), []byte(sb.String()), 0o644); err != nil {
		t.Fatal(err)
	}

	// same preparation as in HermesSession.Run up to the call of Input
	setup := func(soilID string) *GlobalVarsMain {
		session := NewHermesSession()
		defer session.Close()
		g := NewGlobalVarsMain()
		g.Session = session
		g.LOGID = "demo"
		g.SNAM = "10001"
		g.POLYD = "1"
		argValues := map[string]string{"project": "myP", "plotNr": "10001", "soilId": soilID}
		herPath := NewHermesFilePath(root, "myP", g.POLYD+g.SNAM, "", "")
		driConfig := readConfig(&g, argValues, &herPath)
		herPath.SetOutputExtension(driConfig.ResultFileExt)
		herPath.crop = filepath.Join(herPath.path, "crop_"+herPath.locid+".txt")
		herPath.auto = filepath.Join(herPath.path, "automan"+".txt")
		herPath.polnamTemplate = filepath.Join(herPath.path, "%s_"+herPath.locid+".txt")
		herPath.SetPolnam(driConfig.PolygonGridFileName)
		herPath.obs = filepath.Join(herPath.path, "endit_"+herPath.locid+".txt")
		g.SLNR = int(ValAsInt(g.SNAM, "none", g.SNAM))
		herPath.SetBofile(driConfig.SoilFile, driConfig.SoilFileExtension)
		if g.PTF != 0 {
			t.Fatalf("expected PTF 0 (table/explicit route), got %d", g.PTF)
		}
		var in InputSharedVars
		if err := Input(&in, &g, &herPath, &driConfig, soilID, ""); err != nil {
			t.Fatalf("Input(soil %s): %v", soilID, err)
		}
		if g.CAPPAR != 0 {
			t.Fatalf("soil %s: expected the texture-table route (CAPPAR 0)", soilID)
		}
		return &g
	}

	relPos := map[string]float64{} // texture -> relative position of WRED without stones
	for _, c := range cases {
		g := setup(c.sid)
		if math.Abs(g.STEIN[0]-float64(c.stone)/100) > 1e-12 {
			t.Fatalf("soil %s: stone content not read as expected: %v", c.sid, g.STEIN[0])
		}
		wp, fc, wred := g.WMIN[0], g.W[0], g.WRED
		pos := (wred - wp) / (fc - wp)
		t.Logf("%-3s LD%d stones %2d%%: WMIN[0]=%.4f WRED=%.4f W[0]=%.4f WNOR[0]=%.4f  (WRED-WMIN)/(W-WMIN)=%.3f",
			c.texture, c.ld, c.stone, wp, wred, fc, g.WNOR[0], pos)
		if !(wp < wred && wred < fc) {
			t.Errorf("%s LD%d stones %d%%: WRED=%.4f is not strictly between wilting point WMIN[0]=%.4f and field capacity W[0]=%.4f",
				c.texture, c.ld, c.stone, wred, wp, fc)
		}
		if !(wred < g.WNOR[0]) {
			t.Errorf("%s LD%d stones %d%%: WRED=%.4f is not below the uncorrected field capacity WNOR[0]=%.4f used by mineral()",
				c.texture, c.ld, c.stone, wred, g.WNOR[0])
		}
		key := fmt.Sprintf("%s/%d", c.texture, c.ld)
		if c.stone == 0 {
			relPos[key] = pos
		} else if ref, ok := relPos[key]; ok && math.Abs(pos-ref) > 1e-9 {
			t.Errorf("%s LD%d stones %d%%: relative position of WRED between wilting point and field capacity is %.3f, without stones it is %.3f",
				c.texture, c.ld, c.stone, pos, ref)
		}
	}
}
