package hermes

import (
	"os"
	"path/filepath"
	"strings"
	"testing"
)

// Boundary of the postponement ("zeit > SAAT" vs "zeit >= SAAT"), uses the helpers of demo_test.go.
//
// The check below the postponement rejects a tillage date only if SAAT < date <= ERNTE, i.e. a tillage dated ON the
// sowing day is valid input; with a fixed harvest date it is carried out on the day after (EINTE+1).
// With automatic harvest the same input has to give the same tillage day. This holds with "zeit > SAAT";
// with "zeit >= SAAT" (and on the unchanged tree) the tillage slides through the season and the run aborts.
func TestDemoTillageOnSowingDay(t *testing.T) {
	for _, date := range []string{"05141981", "05151981"} { // day before sowing, sowing day (sowing 05151981)
		var tillage [2]string
		for ah := 0; ah < 2; ah++ {
			root, res, err := demoRunEx1With(t, func(root string) {
				tf := filepath.Join(root, "project", "ex1", "til_ex1.txt")
				b, e := os.ReadFile(tf)
				if e != nil {
					t.Fatal(e)
				}
				os.WriteFile(tf, []byte(strings.Replace(string(b), "SOYSM1     5 1   02151981", "SOYSM1     5 1   "+date, 1)), 0o644)
			}, "AutoSowingHarvest=0", "AutoHarvest="+string(rune('0'+ah)))
			_ = root
			if err != nil {
				t.Errorf("tillage %s AutoHarvest=%d: run returned an error: %v", date, ah, err)
			}
			for _, l := range demoReadLines(t, filepath.Join(res, "M2987210001.txt")) {
				f := strings.Fields(l)
				if len(f) > 1 && f[1] == "tillage" && strings.HasSuffix(f[0], ".1981") {
					tillage[ah] += f[0] + " "
				}
			}
			t.Logf("tillage dated %s AutoHarvest=%d: carried out %q", date, ah, tillage[ah])
		}
		if tillage[0] != tillage[1] {
			t.Errorf("tillage dated %s: carried out %q with fixed harvest, %q with automatic harvest", date, tillage[0], tillage[1])
		}
	}
}
