package hermes

import (
	"bufio"
	"fmt"
	"io"
	"os"
	"path/filepath"
	"strings"
	"testing"
	"time"
)

// Demo for C16/C10: example project ex1 (fixed sowing dates, AutoSowingHarvest=0) with automatic
// harvest switched on (AutoHarvest=1).
//
// til_ex1.txt schedules one tillage per year on 15 February (1981..1989), i.e. between the harvest of
// the previous crop (autumn) and the fixed sowing date of the next one (15 May). Each of these has to be
// carried out on its date or one day later, the run has to finish, and every crop of the rotation has
// to get a crop record.

const demoMgmtConf = `eventformats:
  tillage:
    eventname: tillage
    enabled: true
    additionalfields:
      Depth: '%dcm'
      Type: '%d'
  irrigation:
    eventname: irrigation
    enabled: false
    additionalfields:
      Amount: '%dmm'
  sowing:
    eventname: sowing
    enabled: true
    additionalfields:
      Crop: '%s'
  harvest:
    eventname: harvest
    enabled: true
    additionalfields:
      Crop: '%s'
  fertilization:
    eventname: fertilization
    enabled: false
    additionalfields:
      Amount: '%d'
seperatorrune: 32
`

func demoCopyTree(t *testing.T, src, dst string) {
	t.Helper()
	err := filepath.Walk(src, func(p string, info os.FileInfo, err error) error {
		if err != nil {
			return err
		}
		rel, _ := filepath.Rel(src, p)
		target := filepath.Join(dst, rel)
		if info.IsDir() {
			return os.MkdirAll(target, 0o755)
		}
		in, err := os.Open(p)
		if err != nil {
			return err
		}
		defer in.Close()
		out, err := os.Create(target)
		if err != nil {
			return err
		}
		defer out.Close()
		_, err = io.Copy(out, in)
		return err
	})
	if err != nil {
		t.Fatal(err)
	}
}

func demoReadLines(t *testing.T, file string) []string {
	t.Helper()
	f, err := os.Open(file)
	if err != nil {
		t.Fatal(err)
	}
	defer f.Close()
	var lines []string
	sc := bufio.NewScanner(f)
	sc.Buffer(make([]byte, 1024*1024), 1024*1024)
	for sc.Scan() {
		lines = append(lines, sc.Text())
	}
	return lines
}

type demoEvent struct {
	date time.Time
	name string
	raw  string
}

// demoRunEx1 runs ex1 / plot 10001 (field SOYSM1) like the first line of all_muencheberg_batch.txt plus extra args
func demoRunEx1(t *testing.T, extra ...string) (root, resultDir string, runErr error) {
	t.Helper()
	return demoRunEx1With(t, nil, extra...)
}

// demoRunEx1With: prepare may change the copied project before the run
func demoRunEx1With(t *testing.T, prepare func(root string), extra ...string) (root, resultDir string, runErr error) {
	t.Helper()
	examples, err := filepath.Abs(filepath.Join("..", "examples"))
	if err != nil {
		t.Fatal(err)
	}
	root = t.TempDir()
	demoCopyTree(t, filepath.Join(examples, "project", "ex1"), filepath.Join(root, "project", "ex1"))
	demoCopyTree(t, filepath.Join(examples, "parameter"), filepath.Join(root, "parameter"))
	demoCopyTree(t, filepath.Join(examples, "weather", "historical"), filepath.Join(root, "weather", "historical"))
	if err := os.WriteFile(filepath.Join(root, "project", "ex1", "managementout_conf.yml"), []byte(demoMgmtConf), 0o644); err != nil {
		t.Fatal(err)
	}
	if prepare != nil {
		prepare(root)
	}
	resultDir = filepath.Join(root, "RESULT", "hist")
	args := []string{"project=ex1", "WeatherFolder=historical", "soilId=075", "fcode=109_120", "plotNr=10001",
		"Altitude=73", "Latitude=52.6732", "poligonID=29872", "ManagementEvents=1", "resultfolder=" + filepath.ToSlash(resultDir)}
	args = append(args, extra...)

	session := NewHermesSession()
	out := make(chan *RunReturn, 1)
	logout := make(chan string, 1000)
	done := make(chan struct{})
	go func() {
		for range logout {
		}
		close(done)
	}()
	session.Run(filepath.ToSlash(root), args, "demo", out, logout)
	res := <-out
	close(logout)
	<-done
	session.Close()
	return root, resultDir, res.Err
}

func demoCheck(t *testing.T, root, resultDir string, runErr error) {
	t.Helper()
	const field = "SOYSM1" // poly_ex1.txt: plot 10001 -> SOYSM1
	simStart := time.Date(1980, 9, 30, 0, 0, 0, 0, time.UTC) // harvest of the initial crop ("0931"1980)
	simEnd := time.Date(2010, 12, 31, 0, 0, 0, 0, time.UTC)

	// ---- management events that were written (also after an aborted run) ----
	var events []demoEvent
	mfile := filepath.Join(resultDir, "M2987210001.txt")
	if _, err := os.Stat(mfile); err == nil {
		for _, line := range demoReadLines(t, mfile) {
			tok := strings.Fields(line)
			if len(tok) < 2 {
				continue
			}
			d, err := time.Parse("01.02.2006", tok[0]) // DateENlong: mm.dd.yyyy
			if err != nil {
				t.Fatalf("management line %q: %v", line, err)
			}
			events = append(events, demoEvent{date: d, name: tok[1], raw: line})
		}
	}
	for _, e := range events {
		if e.date.Year() <= 1981 {
			t.Logf("event: %s", e.raw)
		}
	}

	if runErr != nil {
		t.Errorf("run returned an error: %v", runErr)
	}

	// ---- crop windows (sowing..harvest) as carried out ----
	type window struct{ from, to time.Time }
	var windows []window
	var open *time.Time
	for i := range events {
		switch events[i].name {
		case "sowing":
			d := events[i].date
			open = &d
		case "harvest":
			if open != nil {
				windows = append(windows, window{*open, events[i].date})
				open = nil
			}
		}
	}
	if open != nil && runErr == nil {
		// a crop still standing at the end of a complete run
		windows = append(windows, window{*open, simEnd})
	}

	// ---- scheduled tillage of the field ----
	scheduled := 0
	for _, line := range demoReadLines(t, filepath.Join(root, "project", "ex1", "til_ex1.txt")) {
		tok := strings.Fields(line)
		if len(tok) != 4 || tok[0] != field {
			continue
		}
		d, err := time.Parse("01022006", tok[3])
		if err != nil {
			t.Fatalf("tillage line %q: %v", line, err)
		}
		if d.Before(simStart) || d.After(simEnd) {
			continue
		}
		inCrop := false
		for _, w := range windows {
			if !d.Before(w.from) && !d.After(w.to) {
				inCrop = true
			}
		}
		if inCrop {
			t.Logf("scheduled tillage %s is inside a crop window, skipped", d.Format("2006-01-02"))
			continue
		}
		scheduled++
		n := 0
		for _, e := range events {
			if e.name != "tillage" {
				continue
			}
			if e.date.Equal(d) || e.date.Equal(d.AddDate(0, 0, 1)) {
				n++
			}
		}
		if n != 1 {
			// where did it go?
			next := "never"
			for _, e := range events {
				if e.name == "tillage" && e.date.After(d) {
					next = e.date.Format("2006-01-02")
					break
				}
			}
			t.Errorf("tillage scheduled %s: carried out %d times on that day or the day after (next tillage event after it: %s)",
				d.Format("2006-01-02"), n, next)
		}
	}
	if scheduled != 9 {
		t.Errorf("expected 9 scheduled tillage events outside crop windows (15.02.1981..1989), found %d", scheduled)
	}
	nTill := 0
	for _, e := range events {
		if e.name == "tillage" {
			nTill++
		}
	}
	if nTill != scheduled {
		t.Errorf("%d tillage events carried out, %d scheduled", nTill, scheduled)
	}

	// ---- crop records: one per rotation entry after the initial one ----
	rotation := 0
	for _, line := range demoReadLines(t, filepath.Join(root, "project", "ex1", "crop_ex1.csv")) {
		if strings.HasPrefix(line, field+",") {
			rotation++
		}
	}
	rotation-- // the first entry is only the pre-crop (its harvest is the start of the simulation)
	records := 0
	cfile := filepath.Join(resultDir, "C2987210001.RES")
	if _, err := os.Stat(cfile); err == nil {
		for i, line := range demoReadLines(t, cfile) {
			if i < 2 || strings.TrimSpace(line) == "" { // two head lines
				continue
			}
			records++
		}
	}
	if records != rotation {
		t.Errorf("crop records: got %d, rotation has %d crops", records, rotation)
	}
	nSow, nHar := 0, 0
	for _, e := range events {
		if e.name == "sowing" {
			nSow++
		}
		if e.name == "harvest" {
			nHar++
		}
	}
	t.Logf("sowing events %d, harvest events %d, tillage events %d, crop records %d (rotation %d)", nSow, nHar, nTill, records, rotation)
	if nSow != rotation || nHar != rotation {
		t.Errorf("sowing events %d / harvest events %d, rotation has %d crops", nSow, nHar, rotation)
	}
}

// control: the project as shipped (AutoSowingHarvest=0, AutoHarvest=0, AutoIrrigation=1, AutoFertilization=0) fulfils the assertions
func TestDemoTillageFixedSowingFixedHarvest(t *testing.T) {
	root, res, err := demoRunEx1(t, "AutoSowingHarvest=0", "AutoHarvest=0")
	demoCheck(t, root, res, err)
}

// the suspected defect: fixed sowing dates + automatic harvest, other switches as shipped
func TestDemoTillageFixedSowingAutoHarvest(t *testing.T) {
	root, res, err := demoRunEx1(t, "AutoSowingHarvest=0", "AutoHarvest=1")
	demoCheck(t, root, res, err)
}

// all on/off combinations of the four automation switches
func TestDemoTillageAllSwitchCombinations(t *testing.T) {
	for i := 0; i < 16; i++ {
		args := []string{
			fmt.Sprintf("AutoSowingHarvest=%d", i&1),
			fmt.Sprintf("AutoHarvest=%d", (i>>1)&1),
			fmt.Sprintf("AutoIrrigation=%d", (i>>2)&1),
			fmt.Sprintf("AutoFertilization=%d", (i>>3)&1),
		}
		// no '=' in the name: it becomes part of t.TempDir() and Run splits key=value arguments at '='
		name := fmt.Sprintf("sow%d_harvest%d_irrigation%d_fertilization%d", i&1, (i>>1)&1, (i>>2)&1, (i>>3)&1)
		t.Run(name, func(t *testing.T) {
			root, res, err := demoRunEx1(t, args...)
			demoCheck(t, root, res, err)
		})
	}
}
