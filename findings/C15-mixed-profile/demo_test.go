// Demo for: soil parameters of a mixed soil profile change for good at the first ground water change.
//
// Copy this file into   <repo>/hermes/   (package hermes) and run, from inside <repo>/hermes:
//
//	go test -vet=off -count=1 -run Test_DemoMixedProfileGroundWaterRecurrence .
//
// The test uses the shipped example project examples/project/ex3 (ground water from a time series),
// examples/parameter and examples/weather/historical/109_120.csv. It copies them to t.TempDir() and
// replaces the soil file, the ground water time series and the daily output configuration.
//
// Property checked: whenever the moving ground water table is back at a level it had before, every
// 10 cm layer has the same field capacity (W), wilting point (WMIN), pore volume (PORGES), uncorrected
// field capacity (WNOR) - and the reduced field capacity of the top layer (WRED) - as it had then,
// no matter whether a horizon takes its parameters from the texture table (HYPAR.TRU) or from explicit
// FieldCapacity/WiltingPoint/PoreVolume columns of the soil file.
//
// The quantities are read from the daily output of a real run (Run), which can print any exported
// field of the global state; no expected numbers are hard coded.
package hermes

import (
	"fmt"
	"io"
	"math"
	"os"
	"path/filepath"
	"strconv"
	"strings"
	"testing"
)

func Test_DemoMixedProfileGroundWaterRecurrence(t *testing.T) {
	const nLayers = 20
	examples, err := filepath.Abs(filepath.Join("..", "examples"))
	if err != nil {
		t.Fatal(err)
	}
	root := t.TempDir()

	copyFile := func(src, dst string) {
		t.Helper()
		if err := os.MkdirAll(filepath.Dir(dst), 0o755); err != nil {
			t.Fatal(err)
		}
		in, err := os.Open(src)
		if err != nil {
			t.Fatal(err)
		}
		defer in.Close()
		out, err := os.Create(dst)
		if err != nil {
			t.Fatal(err)
		}
		defer out.Close()
		if _, err := io.Copy(out, in); err != nil {
			t.Fatal(err)
		}
	}
	copyDirFlat := func(src, dst string) {
		t.Helper()
		entries, err := os.ReadDir(src)
		if err != nil {
			t.Fatal(err)
		}
		for _, e := range entries {
			if e.IsDir() {
				continue
			}
			copyFile(filepath.Join(src, e.Name()), filepath.Join(dst, e.Name()))
		}
	}
	writeFile := func(name, content string) {
		t.Helper()
		if err := os.WriteFile(name, []byte(content), 0o644); err != nil {
			t.Fatal(err)
		}
	}

	project := filepath.Join(root, "project", "ex3")
	copyDirFlat(filepath.Join(examples, "parameter"), filepath.Join(root, "parameter"))
	copyDirFlat(filepath.Join(examples, "project", "ex3"), project)
	copyFile(filepath.Join(examples, "weather", "historical", "109_120.csv"), filepath.Join(root, "weather", "historical", "109_120.csv"))

	// the simulation of ex3 starts on 1 Oct 1980 (harvest of the preceding crop); stop at the end of 1980
	cfgName := filepath.Join(project, "config.yml")
	cfg, err := os.ReadFile(cfgName)
	if err != nil {
		t.Fatal(err)
	}
	if !strings.Contains(string(cfg), `EndDate: "12312010"`) {
		t.Fatal("examples/project/ex3/config.yml: EndDate line not found")
	}
	writeFile(cfgName, strings.Replace(string(cfg), `EndDate: "12312010"`, `EndDate: "12311980"`, 1))

	// Four profiles, same textures (SL2 0-3 dm, SL4 3-20 dm) as soil 075 of the example:
	//   EXPL: both horizons with explicit FC/WP/PV           (control)
	//   TABL: both horizons from the texture table            (control)
	//   MIXA: explicit top horizon, table sub soil            (suspected defect)
	//   MIXB: table top horizon, explicit sub soil            (reverse order)
	// The explicit values are plausible "measured" values that differ from the table values.
	const soilHeader = "SID,C_org,Texture,LayerDepth,BulkDensityClass,Stone,C/N,C/S,RootDepth,NumberHorizon,FieldCapacity,WiltingPoint,PoreVolume,Sand,Silt,Clay,DrainageDepth,Drainage%,GroundWaterLevel\n"
	topExpl := "%s,0.90,SL2,03,3,00,10,00,13,02,30,12,42,73,21,06,20,00,99\n"
	topTabl := "%s,0.90,SL2,03,3,00,10,00,13,02,0,0,0,73,21,06,20,00,99\n"
	subExpl := "%s,0.30,SL4,20,3,00,10,00,,,31,14,44,61,27,12,20,00,   \n"
	subTabl := "%s,0.30,SL4,20,3,00,10,00,,,0,0,0,61,27,12,20,00,   \n"
	soil := soilHeader +
		fmt.Sprintf(topExpl, "EXPL") + fmt.Sprintf(subExpl, "EXPL") +
		fmt.Sprintf(topTabl, "TABL") + fmt.Sprintf(subTabl, "TABL") +
		fmt.Sprintf(topExpl, "MIXA") + fmt.Sprintf(subTabl, "MIXA") +
		fmt.Sprintf(topTabl, "MIXB") + fmt.Sprintf(subExpl, "MIXB")
	writeFile(filepath.Join(project, "soil_ex3.csv"), soil)

	// ground water (dates mmddyyyy): 25 dm (below the 20 dm profile), up to 12 dm, back to 25 dm, up to 15 dm,
	// back to 25 dm. The start level is below the profile on purpose: the treatment of the one layer that
	// contains the water table differs between Input/Init and the daily update (for every kind of profile),
	// which is a separate matter and would blur this demo.
	gwNodes := []string{"10011980,25", "10101980,25", "10201980,12", "10301980,25", "11101980,25", "11201980,15", "11301980,25", "12311980,25"}
	gw := "SID,DATE,Level\n"
	for _, sid := range []string{"EXPL", "TABL", "MIXA", "MIXB"} {
		for _, n := range gwNodes {
			gw += sid + "," + n + "\n"
		}
	}
	writeFile(filepath.Join(project, "gw_ex3.csv"), gw)

	// daily output: date, ground water level, WRED, then W, WMIN, PORGES, WNOR of all layers
	quantities := []string{"W", "WMIN", "PORGES", "WNOR"}
	dailyOut := "endFillCharacter: ' '\nSeperatorCharacter: ','\nNaValue: n.a.\nDataColumns:\n" +
		"- Format: '%s'\n  VariableName: AKTUELL\n" +
		"- Format: '%.9f'\n  VariableName: GRW\n" +
		"- Format: '%.9f'\n  VariableName: WRED\n"
	colNames := []string{"WRED"}
	for _, q := range quantities {
		for i := 0; i < nLayers; i++ {
			dailyOut += fmt.Sprintf("- Format: '%%.9f'\n  VariableName: %s\n  VarIndex1: %d\n", q, i)
			colNames = append(colNames, fmt.Sprintf("%s[layer %d]", q, i+1))
		}
	}
	writeFile(filepath.Join(project, "dailyout_conf.yml"), dailyOut)

	type day struct {
		date   string
		level  string
		values []float64
	}
	runProfile := func(sid string) []day {
		t.Helper()
		resultFolder := filepath.Join(root, "RESULT_"+sid)
		args := []string{"project=ex3", "WeatherFolder=historical", "soilId=" + sid, "fcode=109_120", "plotNr=10001",
			"Altitude=73", "Latitude=52.6732", "poligonID=29872", "resultfolder=" + resultFolder}
		session := NewHermesSession()
		out := make(chan *RunReturn, 1)
		logout := make(chan string, 1000)
		session.Run(root, args, sid, out, logout)
		res := <-out
		session.Close()
		if !res.Success {
			t.Fatalf("run %s failed: %v", sid, res.Err)
		}
		data, err := os.ReadFile(filepath.Join(resultFolder, "V2987210001.csv"))
		if err != nil {
			t.Fatal(err)
		}
		var days []day
		for _, line := range strings.Split(strings.TrimSpace(string(data)), "\n") {
			tokens := strings.Split(strings.TrimSpace(line), ",")
			if len(tokens) != 2+len(colNames) {
				continue // header lines, if any
			}
			if _, err := strconv.ParseFloat(tokens[1], 64); err != nil {
				continue
			}
			d := day{date: tokens[0], level: tokens[1]}
			for _, tok := range tokens[2:] {
				v, err := strconv.ParseFloat(tok, 64)
				if err != nil {
					t.Fatalf("%s: cannot parse %q in line %q", sid, tok, line)
				}
				d.values = append(d.values, v)
			}
			days = append(days, d)
		}
		if len(days) < 80 {
			t.Fatalf("%s: only %d daily records", sid, len(days))
		}
		return days
	}

	for _, sid := range []string{"EXPL", "TABL", "MIXA", "MIXB"} {
		days := runProfile(sid)

		// the check must not be vacuous: the start level has to come back after the level was different
		recurrences := 0
		for i := 1; i < len(days); i++ {
			if days[i].level == days[0].level && days[i-1].level != days[0].level {
				recurrences++
			}
		}
		if recurrences < 2 {
			t.Fatalf("%s: ground water level %s does not recur (%d)", sid, days[0].level, recurrences)
		}

		// same level -> same parameters as the first time the level was seen
		firstSeen := map[string]day{}
		reported := map[string]bool{}
		for _, d := range days {
			ref, ok := firstSeen[d.level]
			if !ok {
				firstSeen[d.level] = d
				continue
			}
			for c := range d.values {
				if math.Abs(d.values[c]-ref.values[c]) > 1e-7 && !reported[colNames[c]] {
					reported[colNames[c]] = true
					t.Errorf("profile %s: %s is %.4f on %s but was %.4f on %s, ground water level %s dm on both days",
						sid, colNames[c], d.values[c], d.date, ref.values[c], ref.date, d.level)
				}
			}
		}
	}
}
