package hermes

// Demo: automatic harvest (AutoHarvest: 1) with FIXED sowing dates (AutoSowingHarvest: 0).
// When an EMERGED crop is force-harvested on its latest harvest date and the following crop's
// fixed sowing date lies before that forced harvest, the following crop's sowing date is not
// moved behind the harvest (PhytoOut has two copies of the forced harvest, only the copy that
// is reached for a NOT emerged crop shifts the next sowing date). The next crop's sowing day is
// then already in the past when the rotation advances, its sowing initialisation never runs and
// PhytoOut panics with "index out of range [-1]" (g.SUM[g.INTWICK.Index]) on the day after the
// harvest. The panic is not recovered anywhere: in the batch executable it ends the whole process.
//
// Copy this file into   <repo>/hermes   (package hermes) and run from inside that directory:
//
//	export GOPROXY=off GOSUMDB=off GOTOOLCHAIN=local GOFLAGS= ; unset GOWORK
//	go test -vet=off -count=1 -run 'Test_ForcedHarvestShiftsFollowingFixedSowing' .
//
// The test makes full simulation runs (HermesSession.Run) of the shipped example project
// examples/project/MUN (copied to t.TempDir(), plot 00001 = field NEU000001, shipped weather
// examples/weather/MUN, shipped parameter folder incl. the shipped automan.txt) with
// AutoHarvest switched on and a short rotation
//
//	winter wheat 2009/10  ->  silage maize SM sown 22.04.2011  ->  winter wheat WW sown <date> 2011
//
// The latest harvest date of SM in the shipped automan.txt is 10.10. Maize is emerged long before
// that; in 2011 the automatic harvest criteria are not met before 10.10., so SM is force-harvested
// on 10.10.2011. The WW sowing date of the crop file is varied; the control dates lie after the
// forced harvest, the others before it.
//
// In addition the two sowing dates next to the forced harvest (its eve and the harvest day itself)
// are run, and one group of runs where the preceding crop (winter wheat 2009/10) is harvested by
// the automatic harvest criteria and a catch crop has its fixed sowing date on / around that day:
// the conditions that shift the next sowing date read "sowing date < today", which misses a sowing
// date on the harvest day (and, for the forced harvest, on its eve) - same panic.
//
// Property checked for every run (nothing is compared against stored numbers):
//   - the run terminates (no panic) and does not end with an error,
//   - the crop output lists the crops of the rotation in rotation order,
//   - every crop is sown after the harvest of its predecessor and harvested after its sowing,
//   - SM is harvested not later than its latest harvest date 10.10.2011.

import (
	"bufio"
	"fmt"
	"os"
	"path/filepath"
	"strconv"
	"strings"
	"sync"
	"testing"
	"time"
)

func sowshiftCopyDir(t *testing.T, src, dst string) {
	t.Helper()
	err := filepath.Walk(src, func(p string, info os.FileInfo, err error) error {
		if err != nil {
			return err
		}
		rel, _ := filepath.Rel(src, p)
		target := filepath.Join(dst, rel)
		if info.IsDir() {
			return os.MkdirAll(target, 0o755)
		}
		data, err := os.ReadFile(p)
		if err != nil {
			return err
		}
		return os.WriteFile(target, data, 0o644)
	})
	if err != nil {
		t.Fatal(err)
	}
}

func Test_ForcedHarvestShiftsFollowingFixedSowing(t *testing.T) {
	examples, err := filepath.Abs(filepath.Join("..", "examples"))
	if err != nil {
		t.Fatal(err)
	}
	latestHarvestSM := time.Date(2011, 10, 10, 0, 0, 0, 0, time.UTC) // automan.txt: SM har2 = 1010

	// the shipped automan.txt must still say so
	autoData, err := os.ReadFile(filepath.Join(examples, "project", "MUN", "automan.txt"))
	if err != nil {
		t.Fatal(err)
	}
	foundSM := false
	for _, line := range strings.Split(string(autoData), "\n") {
		if strings.HasPrefix(line, "SM ") && len(line) > 18 {
			foundSM = true
			if line[14:18] != "1010" {
				t.Fatalf("shipped automan.txt: latest harvest of SM is %q, test expects 1010", line[14:18])
			}
		}
	}
	if !foundSM {
		t.Fatal("no SM line in the shipped automan.txt")
	}

	type cropLine struct {
		crop    string
		sow     time.Time
		harvest time.Time
	}
	show := func(crops []cropLine) []string {
		var seq []string
		for _, c := range crops {
			seq = append(seq, fmt.Sprintf("%s %s-%s", c.crop, c.sow.Format("02.01.2006"), c.harvest.Format("02.01.2006")))
		}
		return seq
	}

	// simulate makes a full run of field NEU000001 with the given rotation lines (crop, sowing, harvest of the
	// crop file) and returns the lines of the crop output. It fails the test if the run panics or ends with an error.
	simulate := func(t *testing.T, rotation [][3]string) []cropLine {
		t.Helper()
		root := t.TempDir()
		prj := filepath.Join(root, "project", "MUN")
		sowshiftCopyDir(t, filepath.Join(examples, "project", "MUN"), prj)
		sowshiftCopyDir(t, filepath.Join(examples, "parameter"), filepath.Join(root, "parameter"))
		sowshiftCopyDir(t, filepath.Join(examples, "weather", "MUN"), filepath.Join(root, "weather", "MUN"))

		write := func(name, content string) {
			if err := os.WriteFile(filepath.Join(prj, name), []byte(content), 0o644); err != nil {
				t.Fatal(err)
			}
		}
		// the first line (harvest of the preceding crop = start of the simulation) is the shipped one
		cropFile := "Field_ID crp sowing harvst Re  yld autorg\n" +
			"NEU000001 WRA 23082008 27072009 100  54  0\n"
		for _, r := range rotation {
			cropFile += fmt.Sprintf("NEU000001 %-3s %s %s 100      0\n", r[0], r[1], r[2])
		}
		write("crop_MUN.txt", cropFile+"end\n")
		// no tillage (tillage dates are moved around by the automatic harvest, keep that out of this test)
		write("til_MUN.txt", "Field_ID  Ti Typ date\n          cm  \nend\n")
		// switch the automatic harvest on, everything else stays as shipped (fixed sowing dates)
		conf, err := os.ReadFile(filepath.Join(prj, "config.yml"))
		if err != nil {
			t.Fatal(err)
		}
		if !strings.Contains(string(conf), "AutoHarvest: 0") || !strings.Contains(string(conf), "AutoSowingHarvest: 0") {
			t.Fatal("shipped MUN config.yml does not contain 'AutoHarvest: 0' and 'AutoSowingHarvest: 0'")
		}
		write("config.yml", strings.Replace(string(conf), "AutoHarvest: 0", "AutoHarvest: 1", 1))

		resultDir := filepath.Join(root, "RESULT")
		args := []string{"project=MUN", "WeatherFolder=MUN", "soilId=001", "fcode=NEU", "plotNr=00001",
			"Altitude=55", "Latitude=54.00", "poligonID=MUN", "parameter=./parameter",
			"StartYear=2009", "EndDate=31122012", "resultfolder=" + resultDir}

		session := NewHermesSession()
		out := make(chan *RunReturn, 1)
		logout := make(chan string, 100)
		var wg sync.WaitGroup
		wg.Add(1)
		go func() {
			defer wg.Done()
			for range logout {
			}
		}()
		var panicked interface{}
		func() {
			defer func() { panicked = recover() }()
			session.Run(root, args, "sowshift", out, logout)
		}()
		close(logout)
		wg.Wait()
		if panicked != nil {
			t.Fatalf("the run did not terminate regularly, it panicked: %v", panicked)
		}
		result := <-out
		session.Close()
		if !result.Success {
			t.Fatalf("legitimate input, but the run ended with an error: %v", result.Err)
		}

		// crop output (blank separated): SowDate, SowDOY, EmergDOY, AnthDOY, MatDOY, HarvestYear, HarvestDOY, Crop, ...
		matches, _ := filepath.Glob(filepath.Join(resultDir, "C*"))
		if len(matches) != 1 {
			all, _ := filepath.Glob(filepath.Join(resultDir, "*"))
			t.Fatalf("crop output not found: %v", all)
		}
		f, err := os.Open(matches[0])
		if err != nil {
			t.Fatal(err)
		}
		defer f.Close()
		var crops []cropLine
		lines := bufio.NewScanner(f)
		for lines.Scan() {
			tok := strings.Fields(lines.Text())
			if len(tok) < 8 {
				continue
			}
			sow, err := time.Parse("02.01.2006", tok[0])
			if err != nil {
				continue // headlines
			}
			hYear, err1 := strconv.Atoi(tok[5])
			hDoy, err2 := strconv.Atoi(tok[6])
			if err1 != nil || err2 != nil {
				t.Fatalf("crop output line not understood: %s", lines.Text())
			}
			harvest := time.Date(hYear, 1, 1, 0, 0, 0, 0, time.UTC).AddDate(0, 0, hDoy-1)
			crops = append(crops, cropLine{tok[7], sow, harvest})
		}
		t.Logf("crops grown: %v", show(crops))
		return crops
	}

	// checkOrder: the crops of the rotation are grown in rotation order, each one sown after the harvest of its
	// predecessor and harvested after its own sowing
	checkOrder := func(t *testing.T, crops []cropLine, want ...string) {
		t.Helper()
		if len(crops) != len(want) {
			t.Fatalf("crops are not grown in rotation order %v: %v", want, show(crops))
		}
		for i, c := range crops {
			if c.crop != want[i] {
				t.Fatalf("crops are not grown in rotation order %v: %v", want, show(crops))
			}
			if !c.harvest.After(c.sow) {
				t.Errorf("%s harvested %s, not after its sowing %s", c.crop, c.harvest.Format("02.01.2006"), c.sow.Format("02.01.2006"))
			}
			if i > 0 && !c.sow.After(crops[i-1].harvest) {
				t.Errorf("%s sown %s, not after the harvest of the preceding %s on %s", c.crop, c.sow.Format("02.01.2006"), crops[i-1].crop, crops[i-1].harvest.Format("02.01.2006"))
			}
		}
	}

	// ---- forced harvest of an emerged crop on its latest harvest date -----------------------------------------
	// the harvest date of SM in the crop file (30.09.) lies before the WW sowing date, as the reader demands;
	// with AutoHarvest the latest harvest date comes from automan.txt (10.10.)
	type scenario struct {
		name  string
		sowWW string // fixed sowing date of the winter wheat that follows the maize (DDMMYYYY)
	}
	scenarios := []scenario{
		{"control: WW sown 20.10.2011, after the latest harvest date of SM", "20102011"},
		{"control: WW sown 11.10.2011, the day after the latest harvest date of SM", "11102011"},
		{"WW sown 01.10.2011, 9 days before the latest harvest date of SM", "01102011"},
		{"WW sown 05.10.2011, 5 days before the latest harvest date of SM", "05102011"},
		{"WW sown 09.10.2011, the day before the latest harvest date of SM", "09102011"},
		{"WW sown 10.10.2011, on the latest harvest date of SM", "10102011"},
	}
	for _, sc := range scenarios {
		sc := sc
		t.Run(sc.name, func(t *testing.T) {
			crops := simulate(t, [][3]string{
				{"WW", "18092009", "16082010"},
				{"SM", "22042011", "30092011"},
				{"WW", sc.sowWW, "16082012"}})
			checkOrder(t, crops, "WW", "SM", "WW")
			if sm := crops[1]; sm.harvest.After(latestHarvestSM) {
				t.Errorf("SM harvested %s, later than its latest harvest date %s", sm.harvest.Format("02.01.2006"), latestHarvestSM.Format("02.01.2006"))
			}
		})
	}

	// ---- harvest by the automatic harvest criteria (before the latest harvest date) ----------------------------
	// the day the criteria harvest the 2009/10 winter wheat is taken from a first run; then a catch crop WRC
	// is given a fixed sowing date relative to that day
	t.Run("criteria harvest", func(t *testing.T) {
		first := simulate(t, [][3]string{
			{"WW", "18092009", "16072010"},
			{"SM", "22042011", "30092011"}})
		checkOrder(t, first, "WW", "SM")
		harvestWW := first[0].harvest
		for _, offset := range []int{1, -3, 0} {
			sowWRC := harvestWW.AddDate(0, 0, offset)
			// (no '=' in the name: it becomes part of the temp dir and so of the key=value arguments of the run)
			t.Run(fmt.Sprintf("WRC sown %s, day %d after the WW harvest", sowWRC.Format("02.01.2006"), offset), func(t *testing.T) {
				crops := simulate(t, [][3]string{
					{"WW", "18092009", "16072010"},
					{"WRC", sowWRC.Format("02012006"), "20032011"},
					{"SM", "22042011", "30092011"}})
				checkOrder(t, crops, "WW", "WRC", "SM")
				if !crops[0].harvest.Equal(harvestWW) {
					t.Errorf("WW harvested %s, without the catch crop it was harvested %s", crops[0].harvest.Format("02.01.2006"), harvestWW.Format("02.01.2006"))
				}
			})
		}
	})
}
