package hermes

// C04 triage demo: a weather file whose first record lies in the start year but AFTER the
// simulation start day must end the run with an error. On the unpatched tree the CSV (layout 1)
// and @YYYYJJJ (layout 2) readers accept such a file and the uncovered days are simulated with
// all-zero weather. The one-file-per-year layout (0) already rejects the file ("missing days").
//
// The test copies ../examples into a temp dir, rewrites the weather file and runs HermesSession.Run.

import (
	"bufio"
	"fmt"
	"io"
	"io/fs"
	"os"
	"path/filepath"
	"strings"
	"testing"
	"time"
)

const c04DailyOut = `FillCharacter: ' '
SeperatorCharacter: ','
NaValue: n.a.
DataColumns:
- Format: '%s'
  VariableName: AKTUELL
- Format: '%05.2f'
  VariableName: TEMPdaily
- Format: '%05.2f'
  VariableName: TMINdaily
- Format: '%05.2f'
  VariableName: TMAXdaily
- Format: '%05.2f'
  VariableName: RHdaily
- Format: '%05.2f'
  VariableName: RADdaily
- Format: '%05.2f'
  VariableName: WINDdaily
- Format: '%06.3f'
  VariableName: REGENdaily
Headlines:
  1:
  - ColumnName: Date
  - ColumnName: TEMPdaily
  - ColumnName: TMINdaily
  - ColumnName: TMAXdaily
  - ColumnName: RHdaily
  - ColumnName: RADdaily
  - ColumnName: WINDdaily
  - ColumnName: REGENdaily
`

func c04CopyExamples(t *testing.T) string {
	t.Helper()
	src, err := filepath.Abs(filepath.Join("..", "examples"))
	if err != nil {
		t.Fatal(err)
	}
	dst := t.TempDir()
	err = filepath.WalkDir(src, func(p string, d fs.DirEntry, err error) error {
		if err != nil {
			return err
		}
		rel, _ := filepath.Rel(src, p)
		target := filepath.Join(dst, rel)
		if d.IsDir() {
			return os.MkdirAll(target, 0o755)
		}
		in, err := os.Open(p)
		if err != nil {
			return err
		}
		defer in.Close()
		out, err := os.Create(target)
		if err != nil {
			return err
		}
		defer out.Close()
		_, err = io.Copy(out, in)
		return err
	})
	if err != nil {
		t.Fatal(err)
	}
	return dst
}

// c04LastFiles holds name -> content of every result file of the last successful c04Run.
var c04LastFiles map[string]string

// c04Run runs one simulation and returns the error of the run (nil on success) and the data rows
// of the daily output file (csv result format, first line is the header).
func c04Run(t *testing.T, root string, args []string, poly, plot string) (error, [][]string) {
	t.Helper()
	resultDir := filepath.Join(root, "c04result")
	os.RemoveAll(resultDir)
	// result folder and weather root are resolved against the process working directory: pass them absolute
	args = append(args, "resultfolder="+resultDir, "WeatherRootFolder="+filepath.Join(root, "weather"), "ResultFileFormat=1", "ResultFileExt=csv", "OutputIntervall=1")
	out := make(chan *RunReturn, 1)
	logout := make(chan string, 100000)
	session := NewHermesSession()
	defer session.Close()
	done := make(chan struct{})
	go func() {
		session.Run(root, args, "[c04]", out, logout)
		close(done)
	}()
	var res *RunReturn
	select {
	case res = <-out:
	case <-time.After(5 * time.Minute):
		t.Fatal("run timed out")
	}
	<-done
	if !res.Success {
		return res.Err, nil
	}
	c04LastFiles = map[string]string{}
	entries, _ := os.ReadDir(resultDir)
	for _, e := range entries {
		b, _ := os.ReadFile(filepath.Join(resultDir, e.Name()))
		c04LastFiles[e.Name()] = string(b)
	}
	f, err := os.Open(filepath.Join(resultDir, "V"+poly+plot+".csv"))
	if err != nil {
		t.Fatalf("daily output: %v", err)
	}
	defer f.Close()
	var rows [][]string
	sc := bufio.NewScanner(f)
	first := true
	for sc.Scan() {
		if first {
			first = false
			continue
		}
		fields := strings.Split(sc.Text(), ",")
		for i := range fields {
			fields[i] = strings.TrimSpace(fields[i])
		}
		rows = append(rows, fields)
	}
	return nil, rows
}

// c04Record is one data line of a weather file with its date.
type c04Record struct {
	date time.Time
	line string
}

func c04ReadLines(t *testing.T, file string) []string {
	t.Helper()
	b, err := os.ReadFile(file)
	if err != nil {
		t.Fatal(err)
	}
	return strings.Split(strings.TrimRight(strings.ReplaceAll(string(b), "\r\n", "\n"), "\n"), "\n")
}

func c04WriteLines(t *testing.T, file string, lines []string) {
	t.Helper()
	if err := os.WriteFile(file, []byte(strings.Join(lines, "\n")+"\n"), 0o644); err != nil {
		t.Fatal(err)
	}
}

// c04Split separates header lines and dated records. dateOf parses the date of a data line.
func c04Split(t *testing.T, lines []string, numHeader int, dateOf func(string) (time.Time, error)) ([]string, []c04Record) {
	t.Helper()
	var recs []c04Record
	for _, l := range lines[numHeader:] {
		if strings.TrimSpace(l) == "" {
			continue
		}
		d, err := dateOf(l)
		if err != nil {
			t.Fatalf("weather line %q: %v", l, err)
		}
		recs = append(recs, c04Record{d, l})
	}
	return lines[:numHeader], recs
}

// c04From returns the weather file without the records before 'from'. In the @YYYYJJJ layout only the
// first record of the shipped file carries the optional CO2 value ("persists until the next value"):
// it is carried over to the new first record so that only the covered period differs.
func c04From(header []string, recs []c04Record, from time.Time) []string {
	out := append([]string{}, header...)
	numCols := len(strings.Fields(header[0]))
	firstFields := strings.Fields(recs[0].line)
	for _, r := range recs {
		if !r.date.Before(from) {
			line := r.line
			if len(out) == len(header) && strings.HasPrefix(header[0], "@YYYYJJJ") &&
				len(firstFields) == numCols && len(strings.Fields(line)) == numCols-1 {
				line = line + "  " + firstFields[numCols-1]
			}
			out = append(out, line)
		}
	}
	return out
}

func c04Date(y int, m time.Month, d int) time.Time {
	return time.Date(y, m, d, 0, 0, 0, 0, time.UTC)
}

// c04AllZero tells whether every weather column of a daily row (TEMP..RAD, REGEN) is zero;
// WIND is floored to 0.5 by the reader so it is not looked at.
func c04AllZero(row []string) bool {
	for _, i := range []int{1, 2, 3, 4, 5, 7} {
		if strings.Trim(row[i], "0.-") != "" {
			return false
		}
	}
	return true
}

type c04Layout struct {
	name      string
	args      []string
	poly      string
	plot      string
	weather   string // weather file below the examples copy
	numHeader int
	dateOf    func(string) (time.Time, error)
	// rewriteYear returns the data line with its date moved to year y (same day of year); used to prepend a year
	rewriteYear func(line string, from, to int) string
	startYear   int
	outDate     string // layout of the date column of the daily output (follows the project's Dateformat)
}

func c04Layouts() []c04Layout {
	return []c04Layout{
		{
			name:      "csv_layout1",
			args:      strings.Fields("project=ex1 WeatherFolder=historical soilId=075 fcode=109_120 plotNr=10001 Altitude=73 Latitude=52.6732 poligonID=29872 EndDate=06301981"),
			poly:      "29872",
			plot:      "10001",
			weather:   "weather/historical/109_120.csv",
			numHeader: 2,
			dateOf: func(l string) (time.Time, error) {
				return time.Parse("2006-01-02", strings.SplitN(l, ",", 2)[0])
			},
			rewriteYear: func(l string, from, to int) string {
				return strings.Replace(l, fmt.Sprint(from), fmt.Sprint(to), 1)
			},
			startYear: 1980,
			outDate:   "01.02.2006", // ex1: Dateformat DateENlong
		},
		{
			name:      "cz_layout2",
			args:      strings.Fields("project=rue WeatherFolder=historical fcode=109_120 plotNr=10001 soilId=001 Altitude=73 Latitude=52.6732 poligonID=29872 EndDate=30061981"),
			poly:      "29872",
			plot:      "10001",
			weather:   "weather/historical/109_120.w6d",
			numHeader: 1,
			dateOf: func(l string) (time.Time, error) {
				return time.Parse("2006002", strings.Fields(l)[0])
			},
			rewriteYear: func(l string, from, to int) string {
				return strings.Replace(l, fmt.Sprint(from), fmt.Sprint(to), 1)
			},
			startYear: 1980,
			outDate:   "02.01.2006", // rue: Dateformat DateDElong
		},
	}
}

// Test_C04_WeatherStartsAfterSimulationStart is the demonstrator: FAILS on the unpatched tree.
func Test_C04_WeatherStartsAfterSimulationStart(t *testing.T) {
	for _, lay := range c04Layouts() {
		lay := lay
		t.Run(lay.name, func(t *testing.T) {
			root := c04CopyExamples(t)
			project := strings.TrimPrefix(lay.args[0], "project=")
			if err := os.WriteFile(filepath.Join(root, "project", project, "dailyout_conf.yml"), []byte(c04DailyOut), 0o644); err != nil {
				t.Fatal(err)
			}
			wfile := filepath.Join(root, filepath.FromSlash(lay.weather))
			header, recs := c04Split(t, c04ReadLines(t, wfile), lay.numHeader, lay.dateOf)

			// reference run with the shipped file (first record 1 January of the start year)
			err, ref := c04Run(t, root, lay.args, lay.poly, lay.plot)
			if err != nil {
				t.Fatalf("reference run failed: %v", err)
			}
			start, perr := time.Parse(lay.outDate, ref[0][0])
			if perr != nil {
				t.Fatalf("cannot parse first output date %q", ref[0][0])
			}
			t.Logf("simulation start (first daily record): %s = day %d of %d", ref[0][0], start.YearDay(), start.Year())
			if start.Year() != lay.startYear {
				t.Fatalf("unexpected start year %d", start.Year())
			}

			// file starts 6 weeks after the simulation start, same year
			late := start.AddDate(0, 0, 42)
			if late.Year() != start.Year() {
				t.Fatalf("test setup: late start leaves the start year")
			}
			c04WriteLines(t, wfile, c04From(header, recs, late))
			err, rows := c04Run(t, root, lay.args, lay.poly, lay.plot)
			if err == nil {
				zero := 0
				for i := 0; i < 42 && i < len(rows); i++ {
					if c04AllZero(rows[i]) {
						zero++
					}
				}
				t.Logf("first output rows of the run on the truncated file (Date,TEMP,TMIN,TMAX,RH,RAD,WIND,REGEN):")
				for i := 0; i < 3; i++ {
					t.Logf("  got %v   reference %v", rows[i], ref[i])
				}
				t.Logf("  row 41 got %v   reference %v", rows[41], ref[41])
				t.Logf("  row 42 got %v   reference %v (first covered day)", rows[42], ref[42])
				t.Errorf("%s: weather file starts %s, simulation starts %s: Run returned NO error; %d of the 42 uncovered days were simulated with all-zero weather",
					lay.name, late.Format("2006-01-02"), start.Format("2006-01-02"), zero)
			} else {
				t.Logf("run ended with error (expected): %v", err)
			}

			// file starts one day after the simulation start
			c04WriteLines(t, wfile, c04From(header, recs, start.AddDate(0, 0, 1)))
			err, _ = c04Run(t, root, lay.args, lay.poly, lay.plot)
			if err == nil {
				t.Errorf("%s: weather file starts one day after the simulation start: Run returned NO error", lay.name)
			} else {
				t.Logf("one day late: run ended with error (expected): %v", err)
			}
		})
	}
}

// Test_C04_AcceptedWeatherStarts holds the files that must stay accepted: PASSES before and after the patch.
func Test_C04_AcceptedWeatherStarts(t *testing.T) {
	for _, lay := range c04Layouts() {
		lay := lay
		t.Run(lay.name, func(t *testing.T) {
			root := c04CopyExamples(t)
			project := strings.TrimPrefix(lay.args[0], "project=")
			if err := os.WriteFile(filepath.Join(root, "project", project, "dailyout_conf.yml"), []byte(c04DailyOut), 0o644); err != nil {
				t.Fatal(err)
			}
			wfile := filepath.Join(root, filepath.FromSlash(lay.weather))
			header, recs := c04Split(t, c04ReadLines(t, wfile), lay.numHeader, lay.dateOf)
			err, ref := c04Run(t, root, lay.args, lay.poly, lay.plot)
			if err != nil {
				t.Fatalf("reference run (file starts 1 January of the start year) failed: %v", err)
			}
			start, perr := time.Parse(lay.outDate, ref[0][0])
			if perr != nil {
				t.Fatalf("cannot parse first output date %q", ref[0][0])
			}
			refFiles := c04LastFiles
			same := func(label string, rows [][]string) {
				// every result file (yearly, crop, daily, management) is byte-identical to the reference run
				if len(c04LastFiles) != len(refFiles) || len(refFiles) < 3 {
					t.Errorf("%s: %d result files, reference %d", label, len(c04LastFiles), len(refFiles))
				}
				for name, content := range refFiles {
					if c04LastFiles[name] != content {
						t.Errorf("%s: result file %s differs from the reference run", label, name)
					}
				}
				if len(rows) != len(ref) {
					t.Errorf("%s: %d daily rows, reference %d", label, len(rows), len(ref))
					return
				}
				for i := range rows {
					if strings.Join(rows[i], ",") != strings.Join(ref[i], ",") {
						t.Errorf("%s: row %d differs: %v, reference %v", label, i, rows[i], ref[i])
						return
					}
				}
			}

			// mid-year start, before the simulation start
			c04WriteLines(t, wfile, c04From(header, recs, start.AddDate(0, 0, -60)))
			err, rows := c04Run(t, root, lay.args, lay.poly, lay.plot)
			if err != nil {
				t.Errorf("file starting 60 days before the simulation start rejected: %v", err)
			} else {
				same("60 days before", rows)
			}

			// start exactly on the simulation start day
			c04WriteLines(t, wfile, c04From(header, recs, start))
			err, rows = c04Run(t, root, lay.args, lay.poly, lay.plot)
			if err != nil {
				t.Errorf("file starting on the simulation start day rejected: %v", err)
			} else {
				same("on the start day", rows)
			}

			// file starts before the start year: prepend a (non-leap) year made of the records of start year + 1
			var full []string
			full = append(full, header...)
			for _, r := range recs {
				if r.date.Year() == lay.startYear+1 {
					full = append(full, lay.rewriteYear(r.line, lay.startYear+1, lay.startYear-1))
				}
			}
			for _, r := range recs {
				full = append(full, r.line)
			}
			c04WriteLines(t, wfile, full)
			err, rows = c04Run(t, root, lay.args, lay.poly, lay.plot)
			if err != nil {
				t.Errorf("file starting one year before the start year rejected: %v", err)
			} else {
				same("year before", rows)
			}

			// file starts mid-year of the year before the start year
			var half []string
			half = append(half, header...)
			for _, r := range recs {
				if r.date.Year() == lay.startYear+1 && r.date.YearDay() >= 200 {
					half = append(half, lay.rewriteYear(r.line, lay.startYear+1, lay.startYear-1))
				}
			}
			for _, r := range recs {
				half = append(half, r.line)
			}
			c04WriteLines(t, wfile, half)
			err, rows = c04Run(t, root, lay.args, lay.poly, lay.plot)
			if err != nil {
				t.Errorf("file starting mid-year before the start year rejected: %v", err)
			} else {
				same("mid-year of the year before", rows)
			}
		})
	}
}

// Test_C04_OneFilePerYear documents layout 0 (WetterK): a first-year file that starts after 1 January is
// always rejected ("missing days"), so no day is ever simulated without its record. PASSES before and after.
func Test_C04_OneFilePerYear(t *testing.T) {
	root := c04CopyExamples(t)
	if err := os.WriteFile(filepath.Join(root, "project", "MUN", "dailyout_conf.yml"), []byte(c04DailyOut), 0o644); err != nil {
		t.Fatal(err)
	}
	args := strings.Fields("project=MUN WeatherFolder=MUN soilId=001 fcode=NEU plotNr=00001 Altitude=55 Latitude=54.00 poligonID=MUN parameter=./parameter StartYear=2009 EndDate=31052010")
	err, ref := c04Run(t, root, args, "MUN", "00001")
	if err != nil {
		t.Fatalf("reference run failed: %v", err)
	}
	t.Logf("simulation start (first daily record): %s", ref[0][0])
	start, perr := time.Parse("02.01.2006", ref[0][0]) // MUN: Dateformat DateDElong
	if perr != nil {
		t.Fatalf("cannot parse first output date %q", ref[0][0])
	}
	wfile := filepath.Join(root, "weather", "MUN", "MET_NEU.009")
	lines := c04ReadLines(t, wfile)
	keepFrom := func(doy int) []string {
		out := append([]string{}, lines[:3]...)
		for _, l := range lines[3:] {
			tok := Explode(l, []rune{',', ';'})
			if len(tok) < 11 {
				continue
			}
			if int(ValAsInt(tok[10], "t", l)) >= doy {
				out = append(out, l)
			}
		}
		return out
	}
	for _, c := range []struct {
		label string
		doy   int
	}{
		{"6 weeks after the simulation start", start.YearDay() + 42},
		{"on the simulation start day", start.YearDay()},
		{"60 days before the simulation start", start.YearDay() - 60},
	} {
		c04WriteLines(t, wfile, keepFrom(c.doy))
		err, _ := c04Run(t, root, args, "MUN", "00001")
		if err == nil {
			t.Errorf("layout 0, first year file starts %s (day %d): Run returned NO error", c.label, c.doy)
		} else {
			t.Logf("layout 0, first year file starts %s (day %d): error: %v", c.label, c.doy, err)
		}
	}
}
