package hermes

import (
	"bufio"
	"fmt"
	"os"
	"path/filepath"
	"strconv"
	"strings"
	"testing"
)

// C10 demo: a user fertilisation dated exactly on the simulation start day must be
// carried out one day after its date (like every other fertilisation), not two days after.
//
// Project examples/project/rue, plot 10001 (field L2F3R1): the initial crop is harvested on
// 04.08.1980, this is the simulation start (g.BEGINN = g.ERNTE[0]).

const (
	demoStartDate = "04081980" // DateDElong (ddmmyyyy) - simulation start of field L2F3R1
	demoField     = "L2F3R1"
)

type demoFertEvent struct {
	date string // dd.mm.yyyy as written by the management output
	name string // fertiliser name ("" = harvest residue pseudo event of the initial crop)
	line string
}

func demoCopyFile(t *testing.T, src, dst string) {
	t.Helper()
	data, err := os.ReadFile(src)
	if err != nil {
		t.Fatal(err)
	}
	if err := os.MkdirAll(filepath.Dir(dst), 0o755); err != nil {
		t.Fatal(err)
	}
	if err := os.WriteFile(dst, data, 0o644); err != nil {
		t.Fatal(err)
	}
}

func demoCopyDir(t *testing.T, src, dst string) {
	t.Helper()
	entries, err := os.ReadDir(src)
	if err != nil {
		t.Fatal(err)
	}
	for _, e := range entries {
		if e.IsDir() {
			demoCopyDir(t, filepath.Join(src, e.Name()), filepath.Join(dst, e.Name()))
		} else {
			demoCopyFile(t, filepath.Join(src, e.Name()), filepath.Join(dst, e.Name()))
		}
	}
}

// demoRun runs project rue / plot 10001 with manual fertilisation and the given fertiliser schedule,
// returns the fertilisation events of the management output and the first day on which the
// mineral N of the top layer rises by more than 10 kg N/ha (daily output, informative only).
func demoRun(t *testing.T, fertLines []string) (events []demoFertEvent, firstNminJump string) {
	t.Helper()
	examples, err := filepath.Abs(filepath.Join("..", "examples"))
	if err != nil {
		t.Fatal(err)
	}
	root := t.TempDir()
	demoCopyDir(t, filepath.Join(examples, "project", "rue"), filepath.Join(root, "project", "rue"))
	demoCopyDir(t, filepath.Join(examples, "parameter"), filepath.Join(root, "parameter"))
	demoCopyFile(t, filepath.Join(examples, "weather", "historical", "109_120.w6d"), filepath.Join(root, "weather", "historical", "109_120.w6d"))

	fert := "Field_ID  N   Frt date\n" + strings.Join(fertLines, "\n") + "\nend\n"
	if err := os.WriteFile(filepath.Join(root, "project", "rue", "fert_rue.txt"), []byte(fert), 0o644); err != nil {
		t.Fatal(err)
	}
	resultDir := filepath.Join(root, "OUT")
	args := []string{
		"project=rue", "WeatherFolder=historical", "fcode=109_120", "plotNr=10001", "soilId=001",
		"Altitude=73", "Latitude=52.6732", "poligonID=29872",
		"AutoFertilization=0", // real (scheduled) fertilisation from fert_rue.txt
		"EndDate=31121981",    // two years are enough
		"resultfolder=" + resultDir,
	}
	session := NewHermesSession()
	out := make(chan *RunReturn, 1)
	logs := make(chan string, 10000)
	done := make(chan struct{})
	go func() {
		for range logs {
		}
		close(done)
	}()
	session.Run(root, args, "demo", out, logs)
	res := <-out
	close(logs)
	<-done
	session.Close()
	if !res.Success {
		t.Fatalf("run failed: %v", res.Err)
	}

	// management events: "05.08.1980 fertilization Fertilizer: KAS NH4: 50 Ndirect: 100.0"
	mfile, err := os.Open(filepath.Join(resultDir, "M2987210001.txt"))
	if err != nil {
		t.Fatal(err)
	}
	defer mfile.Close()
	sc := bufio.NewScanner(mfile)
	for sc.Scan() {
		tok := strings.Fields(sc.Text())
		if len(tok) < 3 || tok[1] != "fertilization" {
			continue
		}
		ev := demoFertEvent{date: tok[0], line: sc.Text()}
		// tok[2] == "Fertilizer:", the name is empty for the residue pseudo event
		if len(tok) > 3 && !strings.HasSuffix(tok[3], ":") {
			ev.name = tok[3]
		}
		events = append(events, ev)
	}

	// daily output: Date,...,Nmin0_1 (column 11)
	vfile, err := os.Open(filepath.Join(resultDir, "V2987210001.csv"))
	if err != nil {
		t.Fatal(err)
	}
	defer vfile.Close()
	sc = bufio.NewScanner(vfile)
	sc.Buffer(make([]byte, 1024*1024), 1024*1024)
	col := -1
	prev := -1.0
	for sc.Scan() {
		tok := strings.Split(sc.Text(), ",")
		if col < 0 {
			for i, h := range tok {
				if h == "Nmin0_1" {
					col = i
				}
			}
			if col < 0 {
				t.Fatal("Nmin0_1 column not found in daily output")
			}
			continue
		}
		val, err := strconv.ParseFloat(strings.TrimSpace(tok[col]), 64)
		if err != nil {
			continue
		}
		if prev >= 0 && val-prev > 10 && firstNminJump == "" {
			firstNminJump = tok[0]
		}
		prev = val
	}
	return events, firstNminJump
}

func demoUserEvents(events []demoFertEvent) (dates []string) {
	for _, e := range events {
		if e.name != "" {
			dates = append(dates, e.date)
		}
	}
	return dates
}

func demoResidueEvents(events []demoFertEvent) (dates []string) {
	for _, e := range events {
		if e.name == "" {
			dates = append(dates, e.date)
		}
	}
	return dates
}

func demoLine(amount int, fert, date string) string {
	return fmt.Sprintf("%-9s %d %s  %s", demoField, amount, fert, date)
}

func TestDemoC10FertilisationOnStartDay(t *testing.T) {
	// (b) reference: same event five days after the start -> applied one day after its date
	t.Run("start+5", func(t *testing.T) {
		events, jump := demoRun(t, []string{demoLine(100, "KAS", "09081980")})
		t.Logf("scheduled 09.08.1980; management events: %v; first Nmin0_1 jump: %s", events, jump)
		user := demoUserEvents(events)
		if len(user) != 1 || user[0] != "10.08.1980" {
			t.Errorf("fertilisation scheduled 09.08.1980 applied on %v, want [10.08.1980]", user)
		}
		if res := demoResidueEvents(events); len(res) != 1 || res[0] != "05.08.1980" {
			t.Errorf("residue pseudo event of the initial crop applied on %v, want [05.08.1980]", res)
		}
	})
	// (a) the event dated on the simulation start day -> must also be applied one day after its date
	t.Run("start", func(t *testing.T) {
		events, jump := demoRun(t, []string{demoLine(100, "KAS", demoStartDate)})
		t.Logf("scheduled 04.08.1980; management events: %v; first Nmin0_1 jump: %s", events, jump)
		user := demoUserEvents(events)
		if len(user) != 1 || user[0] != "05.08.1980" {
			t.Errorf("fertilisation scheduled 04.08.1980 (simulation start) applied on %v, want [05.08.1980]", user)
		}
		if res := demoResidueEvents(events); len(res) != 1 || res[0] != "05.08.1980" {
			t.Errorf("residue pseudo event of the initial crop applied on %v, want [05.08.1980]", res)
		}
		if len(events) > 0 && events[0].name != "" {
			t.Errorf("residue pseudo event is not the first fertilisation event: %v", events)
		}
	})
	// two user fertilisations on the start day: consecutive days, the first one day after its date
	t.Run("start twice", func(t *testing.T) {
		events, _ := demoRun(t, []string{demoLine(100, "KAS", demoStartDate), demoLine(50, "AHL", demoStartDate), demoLine(30, "KAS", "20081980")})
		t.Logf("scheduled 04.08.1980 twice + 20.08.1980; management events: %v", events)
		user := demoUserEvents(events)
		want := []string{"05.08.1980", "06.08.1980", "21.08.1980"}
		if fmt.Sprint(user) != fmt.Sprint(want) {
			t.Errorf("applied on %v, want %v", user, want)
		}
		if res := demoResidueEvents(events); len(res) != 1 || res[0] != "05.08.1980" {
			t.Errorf("residue pseudo event of the initial crop applied on %v, want [05.08.1980]", res)
		}
	})
	// two user fertilisations on the same later day: consecutive days (unchanged behaviour)
	t.Run("later twice", func(t *testing.T) {
		events, _ := demoRun(t, []string{demoLine(100, "KAS", "09081980"), demoLine(50, "AHL", "09081980"), demoLine(30, "KAS", "20081980")})
		t.Logf("scheduled 09.08.1980 twice + 20.08.1980; management events: %v", events)
		user := demoUserEvents(events)
		want := []string{"10.08.1980", "11.08.1980", "21.08.1980"}
		if fmt.Sprint(user) != fmt.Sprint(want) {
			t.Errorf("applied on %v, want %v", user, want)
		}
	})
}
