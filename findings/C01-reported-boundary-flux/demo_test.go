package hermes

// Demonstration of two water-balance findings (C01).
//
// The tests run shipped example projects (copied to t.TempDir()) through HermesSession.Run with a
// daily output configuration that prints the model state with full precision, and check for every
// simulated day
//
//	dS = P + I - Ea - sum(TP) - Qbottom - Qdrain
//
// where dS is the change in water stored in the layers above the balance depth and Qbottom is the
// net flux that the model itself reports for that depth (daily increment of SICKER + CAPSUM; CAPSUM
// is the negative part, so SICKER+CAPSUM == "SICKER - |CAPSUM|" as printed in the result files).
//
// TestA: roots reach the (integer) groundwater layer -> the uptake of that layer is subtracted from
//        the layer storage and booked once more as groundwater supply (GWAUF) in CAPSUM/PERG.
// TestB: profile shallower than the leaching depth -> Q1[OUTN] is never written, the reported
//        bottom flux stays 0 while water leaves through Q1[N].

import (
	"encoding/csv"
	"fmt"
	"io"
	"math"
	"os"
	"path/filepath"
	"strconv"
	"strings"
	"testing"
)

const c01MaxLayer = 20

// c01CopyDir copies a directory tree
func c01CopyDir(t *testing.T, src, dst string) {
	t.Helper()
	err := filepath.Walk(src, func(p string, info os.FileInfo, err error) error {
		if err != nil {
			return err
		}
		rel, err := filepath.Rel(src, p)
		if err != nil {
			return err
		}
		target := filepath.Join(dst, rel)
		if info.IsDir() {
			return os.MkdirAll(target, 0o755)
		}
		in, err := os.Open(p)
		if err != nil {
			return err
		}
		defer in.Close()
		out, err := os.Create(target)
		if err != nil {
			return err
		}
		defer out.Close()
		_, err = io.Copy(out, in)
		return err
	})
	if err != nil {
		t.Fatal(err)
	}
}

// c01Columns is the list of printed variables: name, index1, index2 (-1 = not used)
type c01Col struct {
	key  string
	name string
	i1   int
	i2   int
}

func c01Columns() []c01Col {
	cols := []c01Col{
		{"date", "AKTUELL", -1, -1},
		{"N", "N", -1, -1},
		{"OUTN", "OUTN", -1, -1},
		{"DRAIDEP", "DRAIDEP", -1, -1},
		{"WURZ", "WURZ", -1, -1},
		{"GRW", "GRW", -1, -1},
		{"rain", "REGENdaily", -1, -1},
		{"irr", "EffectiveIRRIG", -1, -1},
		{"ETA", "ETA", -1, -1},
		{"FLUSS0", "FLUSS0", -1, -1},
		{"SICKER", "SICKER", -1, -1},
		{"CAPSUM", "CAPSUM", -1, -1},
		{"PERG", "PERG", -1, -1},
		{"DRAISUM", "DRAISUM", -1, -1},
	}
	for i := 0; i <= c01MaxLayer; i++ {
		cols = append(cols, c01Col{fmt.Sprintf("WG%d", i), "WG", 1, i})
	}
	for i := 0; i <= c01MaxLayer; i++ {
		cols = append(cols, c01Col{fmt.Sprintf("TP%d", i), "TP", i, -1})
	}
	for i := 0; i <= c01MaxLayer+1; i++ {
		cols = append(cols, c01Col{fmt.Sprintf("Q%d", i), "Q1", i, -1})
	}
	for i := 0; i <= c01MaxLayer; i++ {
		cols = append(cols, c01Col{fmt.Sprintf("W%d", i), "W", i, -1})
	}
	for i := 0; i <= c01MaxLayer; i++ {
		cols = append(cols, c01Col{fmt.Sprintf("PORGES%d", i), "PORGES", i, -1})
	}
	return cols
}

// c01WriteDailyConfig writes a dailyout_conf.yml printing all balance terms with full precision
func c01WriteDailyConfig(t *testing.T, file string) {
	t.Helper()
	var b strings.Builder
	b.WriteString("FillCharacter: ' '\nSeperatorCharacter: ','\nNaValue: n.a.\nDataColumns:\n")
	for _, c := range c01Columns() {
		format := "%.17g"
		if c.name == "AKTUELL" {
			format = "%s"
		} else if c.name == "N" || c.name == "OUTN" || c.name == "DRAIDEP" || c.name == "WURZ" {
			format = "%d"
		}
		fmt.Fprintf(&b, "- Format: '%s'\n  DataAlignment: left\n  Width: 25\n  VariableName: %s\n", format, c.name)
		if c.i1 > 0 {
			fmt.Fprintf(&b, "  VarIndex1: %d\n", c.i1)
		}
		if c.i2 > 0 {
			fmt.Fprintf(&b, "  VarIndex2: %d\n", c.i2)
		}
	}
	b.WriteString("Headlines:\n  1:\n")
	for _, c := range c01Columns() {
		fmt.Fprintf(&b, "  - ColumnName: %s\n    TextAlignment: left\n", c.key)
	}
	if err := os.WriteFile(file, []byte(b.String()), 0o644); err != nil {
		t.Fatal(err)
	}
}

type c01Day struct {
	date string
	v    map[string]float64
}

func (d *c01Day) wg(i int) float64 { return d.v[fmt.Sprintf("WG%d", i)] }
func (d *c01Day) tp(i int) float64 { return d.v[fmt.Sprintf("TP%d", i)] }
func (d *c01Day) q(i int) float64  { return d.v[fmt.Sprintf("Q%d", i)] }

// c01Run copies the examples, installs the daily configuration, runs one simulation and parses the daily file
func c01Run(t *testing.T, project string, prepare func(root string), args ...string) []c01Day {
	t.Helper()
	root := t.TempDir()
	c01CopyDir(t, filepath.Join("..", "examples"), root)
	c01WriteDailyConfig(t, filepath.Join(root, "project", project, "dailyout_conf.yml"))
	if prepare != nil {
		prepare(root)
	}
	resultDir := filepath.Join(root, "RESULT_c01")
	runArgs := append([]string{
		"project=" + project,
		"resultfolder=" + resultDir,
		"ResultFileFormat=1",
		"ResultFileExt=csv",
		"OutputIntervall=1",
	}, args...)

	session := NewHermesSession()
	defer session.Close()
	out := make(chan *RunReturn, 1)
	logout := make(chan string, 1000)
	go session.Run(root, runArgs, "c01", out, logout)
	var res *RunReturn
	for res == nil {
		select {
		case res = <-out:
		case msg := <-logout:
			t.Log(strings.TrimSpace(msg))
		}
	}
	if !res.Success {
		t.Fatalf("run failed: %v", res.Err)
	}
	files, _ := filepath.Glob(filepath.Join(resultDir, "V*.csv"))
	if len(files) != 1 {
		t.Fatalf("expected one daily result file, got %v", files)
	}
	f, err := os.Open(files[0])
	if err != nil {
		t.Fatal(err)
	}
	defer f.Close()
	r := csv.NewReader(f)
	r.FieldsPerRecord = -1
	records, err := r.ReadAll()
	if err != nil {
		t.Fatal(err)
	}
	cols := c01Columns()
	var days []c01Day
	for li, rec := range records {
		if li == 0 {
			continue // header
		}
		if len(rec) < len(cols) {
			t.Fatalf("line %d: %d columns, expected %d", li, len(rec), len(cols))
		}
		d := c01Day{date: strings.TrimSpace(rec[0]), v: map[string]float64{}}
		for ci := 1; ci < len(cols); ci++ {
			val, err := strconv.ParseFloat(strings.TrimSpace(rec[ci]), 64)
			if err != nil {
				t.Fatalf("line %d column %s: %v", li, cols[ci].key, err)
			}
			d.v[cols[ci].key] = val
		}
		days = append(days, d)
	}
	if len(days) < 300 {
		t.Fatalf("only %d daily lines", len(days))
	}
	return days
}

type c01Balance struct {
	date     string
	depth    int     // balance depth (layers)
	dS       float64 // cm
	surface  float64 // P + I - Ea (cm)
	uptake   float64 // sum TP above balance depth (cm)
	qRep     float64 // reported net bottom flux, daily increment of SICKER+CAPSUM (cm)
	qDrain   float64 // cm
	residual float64 // dS - (surface - uptake - qRep - qDrain)
	gwauf    float64 // uptake of the groundwater layer (cm), 0 if roots do not reach it
	qN       float64 // Q1[N] of the last sub step (cm)
	perg     float64 // daily increment of PERG (cm)
}

// c01Balances evaluates the daily balance above depth min(OUTN, N) with the reported fluxes.
// annualReset is the date string (as printed) after which SICKER/CAPSUM are reset.
func c01Balances(t *testing.T, days []c01Day, annualReset string) []c01Balance {
	t.Helper()
	const dz = 10.0
	var res []c01Balance
	for i := 1; i < len(days); i++ {
		prev, cur := &days[i-1], &days[i]
		n := int(cur.v["N"])
		depth := int(cur.v["OUTN"])
		if depth > n {
			depth = n
		}
		var b c01Balance
		b.date = cur.date
		b.depth = depth
		for l := 0; l < depth; l++ {
			b.dS += (cur.wg(l) - prev.wg(l)) * dz
			b.uptake += cur.tp(l)
		}
		b.surface = cur.v["rain"] + cur.v["irr"] - cur.v["ETA"]
		if math.Abs(b.surface-cur.v["FLUSS0"]) > 1e-12 {
			t.Fatalf("%s: P+I-Ea=%g differs from FLUSS0=%g", cur.date, b.surface, cur.v["FLUSS0"])
		}
		prevS, prevC := prev.v["SICKER"], prev.v["CAPSUM"]
		if strings.HasPrefix(prev.date, annualReset) {
			prevS, prevC = 0, 0 // sums are set to 0 after the annual output
		}
		b.qRep = (cur.v["SICKER"] - prevS + cur.v["CAPSUM"] - prevC) / 10
		if int(cur.v["DRAIDEP"]) <= depth {
			b.qDrain = (cur.v["DRAISUM"] - prev.v["DRAISUM"]) / 10
		}
		b.residual = b.dS - (b.surface - b.uptake - b.qRep - b.qDrain)
		grw := cur.v["GRW"]
		if grw == math.Trunc(grw) && grw >= 1 && grw <= float64(n) && grw <= cur.v["WURZ"] {
			b.gwauf = cur.tp(int(grw) - 1)
		}
		b.qN = cur.q(n)
		b.perg = (cur.v["PERG"] - prev.v["PERG"]) / 10
		res = append(res, b)
	}
	return res
}

// TestA_GroundwaterLayerUptakeBookedTwice : soil 075 of project myP with the groundwater table at 8 dm
// and a rooting depth of 13 dm (GroundWaterFrom: soilfile -> constant groundwater level).
func TestA_GroundwaterLayerUptakeBookedTwice(t *testing.T) {
	days := c01Run(t, "myP", func(root string) {
		soil := filepath.Join(root, "project", "myP", "soil_myP.csv")
		data, err := os.ReadFile(soil)
		if err != nil {
			t.Fatal(err)
		}
		old := "075,0.90,SL2,03,3,00,10,00,13,02,22,09,38,73,21,06,20,00,99"
		if !strings.Contains(string(data), old) {
			t.Fatal("soil 075 not found in soil_myP.csv")
		}
		data = []byte(strings.Replace(string(data), old, strings.TrimSuffix(old, "99")+"08", 1))
		if err := os.WriteFile(soil, data, 0o644); err != nil {
			t.Fatal(err)
		}
	}, "soilId=075", "plotNr=10001", "poligonID=29872", "WeatherFolder=historical", "Altitude=73", "Latitude=52.6732",
		"EndDate=12311985")

	bal := c01Balances(t, days, "10.31.")
	const tol = 1e-9
	var off, offGw, explained int
	var maxRes, sumRes, sumGw, sumQ, sumStorageGw, maxAbs float64
	var worst c01Balance
	minWgGw, maxWgGw := math.Inf(1), math.Inf(-1)
	for i, b := range bal {
		grw := int(days[i+1].v["GRW"])
		w := days[i+1].wg(grw - 1)
		minWgGw = math.Min(minWgGw, w)
		maxWgGw = math.Max(maxWgGw, w)
		sumGw += b.gwauf
		sumQ += b.qRep
		sumStorageGw += (days[i+1].wg(grw-1) - days[i].wg(grw-1)) * 10
		maxAbs = math.Max(maxAbs, math.Abs(b.residual))
		if math.Abs(b.residual) > tol {
			off++
			sumRes += b.residual
			if b.gwauf > 0 {
				offGw++
			}
			if math.Abs(b.residual+b.gwauf) <= tol {
				explained++
			}
			if math.Abs(b.residual) > math.Abs(maxRes) {
				maxRes = b.residual
				worst = b
			}
		}
	}
	t.Logf("days checked %d, GRW=%g N=%g OUTN=%g, max |residual| over all days %.3g cm", len(bal), days[1].v["GRW"], days[1].v["N"], days[1].v["OUTN"], maxAbs)
	t.Logf("water content of groundwater layer (layer %d): min %.4f max %.4f, net storage change %.4f cm", int(days[1].v["GRW"]), minWgGw, maxWgGw, sumStorageGw)
	for l := 6; l <= 9; l++ {
		t.Logf("layer %d: field capacity W=%.4f pore volume=%.4f, WG first day %.4f, last day %.4f", l+1,
			days[1].v[fmt.Sprintf("W%d", l)], days[1].v[fmt.Sprintf("PORGES%d", l)], days[0].wg(l), days[len(days)-1].wg(l))
	}
	t.Logf("days with |residual| > %g cm: %d (of these with uptake from groundwater layer: %d, residual == -GWAUF: %d)", tol, off, offGw, explained)
	t.Logf("sum of residuals %.6f cm, sum GWAUF %.6f cm, reported net bottom flux sum %.6f cm", sumRes, sumGw, sumQ)
	t.Logf("largest residual %.6f cm on %s: dS=%.6f surface=%.6f uptake=%.6f qReported=%.6f GWAUF=%.6f dPERG=%.6f",
		maxRes, worst.date, worst.dS, worst.surface, worst.uptake, worst.qRep, worst.gwauf, worst.perg)
	if off > 0 {
		t.Errorf("daily water balance with the reported bottom flux does not close on %d of %d days (max %.6f cm/day, total %.4f cm)",
			off, len(bal), maxRes, sumRes)
	}
}

// TestB_LeachingDepthBelowProfile : soil 001 of project ex1 has 3 layers, the leaching depth is 15 dm.
func TestB_LeachingDepthBelowProfile(t *testing.T) {
	days := c01Run(t, "ex1", nil,
		"soilId=001", "plotNr=10001", "poligonID=29872", "fcode=109_120", "WeatherFolder=historical", "Altitude=73", "Latitude=52.6732",
		"EndDate=12311985")

	bal := c01Balances(t, days, "10.31.")
	const tol = 1e-9
	var off int
	var maxRes, sumRes, sumRain, sumQrep, maxAbs float64
	var worst c01Balance
	for _, b := range bal {
		sumRain += b.surface
		sumQrep += b.qRep
		maxAbs = math.Max(maxAbs, math.Abs(b.residual))
		if math.Abs(b.residual) > tol {
			off++
			sumRes += b.residual
			if math.Abs(b.residual) > math.Abs(maxRes) {
				maxRes = b.residual
				worst = b
			}
		}
	}
	last := days[len(days)-1]
	t.Logf("days checked %d, N=%g OUTN=%g GRW=%g, max |residual| over all days %.3g cm", len(bal), last.v["N"], last.v["OUTN"], last.v["GRW"], maxAbs)
	t.Logf("sum of P+I-Ea %.3f cm; reported net bottom flux (SICKER+CAPSUM increments) %.6f cm", sumRain, sumQrep)
	t.Logf("days with |residual| > %g cm: %d, sum of residuals %.4f cm (= water that left the profile unreported)", tol, off, sumRes)
	t.Logf("largest residual %.6f cm on %s: dS=%.6f surface=%.6f uptake=%.6f qReported=%.6f Q1[N] (last sub step)=%.6f",
		maxRes, worst.date, worst.dS, worst.surface, worst.uptake, worst.qRep, worst.qN)
	if int(last.v["OUTN"]) > int(last.v["N"]) {
		t.Errorf("leaching depth OUTN=%d is below the profile (N=%d layers)", int(last.v["OUTN"]), int(last.v["N"]))
	}
	if off > 0 {
		t.Errorf("daily water balance with the reported bottom flux does not close on %d of %d days (max %.6f cm/day, total %.4f cm)",
			off, len(bal), maxRes, sumRes)
	}
}
