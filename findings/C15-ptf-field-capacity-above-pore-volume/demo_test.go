package hermes

// C15 demo: soil parameters used by the simulation when a pedotransfer function (PTF 1..4) is selected.
//
// Property: for every 10 cm layer the simulation uses 0 < WMIN < W <= PORGES < 1, the top layer
// mineralisation threshold WRED lies strictly between WMIN[0] and W[0], and below the groundwater
// table W equals PORGES (never less than the field capacity of the unsaturated layer).
//
// The tests copy the shipped example project ex1 to a temp dir, replace the soil by one horizon set
// with a texture triple inside the PTF domain (>= 5 % of each fraction, <= 85 % sand), run the
// real model (HermesSession.Run) with PTF=n and read W/WMIN/PORGES/WRED back from the daily output.

import (
	"bufio"
	"fmt"
	"io"
	"io/fs"
	"os"
	"path/filepath"
	"strconv"
	"strings"
	"testing"
)

type c15Case struct {
	name             string
	ptf              int
	sand, silt, clay int
	corg             float64
	ps               string // pore volume column of the soil file (Vol%), "" = missing
	gw               int    // ground water level (dm), 99 = none
}

type c15Row struct {
	date   string
	w      []float64
	wmin   []float64
	porges []float64
	wred   float64
}

const c15Layers = 20

func c15CopyTree(t *testing.T, src, dst string) {
	t.Helper()
	err := filepath.WalkDir(src, func(p string, d fs.DirEntry, err error) error {
		if err != nil {
			return err
		}
		rel, _ := filepath.Rel(src, p)
		target := filepath.Join(dst, rel)
		if d.IsDir() {
			return os.MkdirAll(target, 0o755)
		}
		in, err := os.Open(p)
		if err != nil {
			return err
		}
		defer in.Close()
		out, err := os.Create(target)
		if err != nil {
			return err
		}
		defer out.Close()
		_, err = io.Copy(out, in)
		return err
	})
	if err != nil {
		t.Fatal(err)
	}
}

// c15Setup builds a runnable copy of examples/project/ex1 with the soil of the case
func c15Setup(t *testing.T, c c15Case) (root string) {
	t.Helper()
	examples, err := filepath.Abs(filepath.Join("..", "examples"))
	if err != nil {
		t.Fatal(err)
	}
	root = t.TempDir()
	c15CopyTree(t, filepath.Join(examples, "parameter"), filepath.Join(root, "parameter"))
	c15CopyTree(t, filepath.Join(examples, "project", "ex1"), filepath.Join(root, "project", "ex1"))
	if err := os.MkdirAll(filepath.Join(root, "weather", "historical"), 0o755); err != nil {
		t.Fatal(err)
	}
	c15CopyTree(t, filepath.Join(examples, "weather", "historical", "109_120.csv"), filepath.Join(root, "weather", "historical", "109_120.csv"))

	// soil: two horizons (0-3 dm, 3-20 dm), same texture, no explicit field capacity / wilting point
	texture := SandAndClayToKa5Texture(c.sand, c.clay)
	var sb strings.Builder
	sb.WriteString("SID,C_org,Texture,LayerDepth,BulkDensityClass,Stone,C/N,C/S,RootDepth,NumberHorizon,FieldCapacity,WiltingPoint,PoreVolume,Sand,Silt,Clay,DrainageDepth,Drainage%,GroundWaterLevel\n")
	fmt.Fprintf(&sb, "001,%.2f,%s,03,2,00,10,00,10,02,,,%s,%02d,%02d,%02d,20,00,%02d\n", c.corg, texture, c.ps, c.sand, c.silt, c.clay, c.gw)
	fmt.Fprintf(&sb, "001,%.2f,%s,20,2,00,10,00,,,,,%s,%02d,%02d,%02d,20,00,\n", c.corg, texture, c.ps, c.sand, c.silt, c.clay)
	if err := os.WriteFile(filepath.Join(root, "project", "ex1", "soil_ex1.csv"), []byte(sb.String()), 0o644); err != nil {
		t.Fatal(err)
	}

	// daily output: the parameters the simulation uses
	var ob strings.Builder
	ob.WriteString("FillCharacter: ' '\nSeperatorCharacter: ','\nNaValue: n.a.\nDataColumns:\n")
	ob.WriteString("- Format: '%s'\n  DataAlignment: left\n  Width: 10\n  VariableName: AKTUELL\n")
	for _, name := range []string{"W", "WMIN", "PORGES"} {
		for i := 0; i < c15Layers; i++ {
			fmt.Fprintf(&ob, "- Format: '%%.6f'\n  DataAlignment: left\n  Width: 9\n  VariableName: %s\n  VarIndex1: %d\n", name, i)
		}
	}
	ob.WriteString("- Format: '%.6f'\n  DataAlignment: left\n  Width: 9\n  VariableName: WRED\n")
	if err := os.WriteFile(filepath.Join(root, "project", "ex1", "dailyout_conf.yml"), []byte(ob.String()), 0o644); err != nil {
		t.Fatal(err)
	}
	return root
}

// c15Run runs the model, returns the run error (nil on success) and the parsed daily output
func c15Run(t *testing.T, c c15Case) (runErr error, rows []c15Row, resultDir string) {
	t.Helper()
	root := c15Setup(t, c)
	args := []string{
		"project=ex1", "soilId=001", "fcode=109_120", "plotNr=10001", "poligonID=c15",
		"SoilFileExtension=csv",
		"WeatherRootFolder=" + filepath.Join(root, "weather"),
		"EndDate=12311981",
		"ResultFileFormat=1", "ResultFileExt=csv",
		fmt.Sprintf("PTF=%d", c.ptf),
	}
	session := NewHermesSession()
	defer session.Close()
	out := make(chan *RunReturn, 1)
	logout := make(chan string, 10000)
	session.Run(root, args, c.name, out, logout)
	res := <-out
	if !res.Success {
		return res.Err, nil, ""
	}
	resultDir = filepath.Join(root, "project", "ex1", "RESULT")
	file := filepath.Join(resultDir, "Vc1510001.csv")
	raw, err := os.ReadFile(file)
	if err != nil {
		t.Fatal(err)
	}
	sc := bufio.NewScanner(strings.NewReader(string(raw)))
	for sc.Scan() {
		tok := strings.Split(sc.Text(), ",")
		if len(tok) != 2+3*c15Layers {
			continue
		}
		vals := make([]float64, 0, len(tok)-1)
		ok := true
		for _, s := range tok[1:] {
			v, err := strconv.ParseFloat(strings.TrimSpace(s), 64)
			if err != nil {
				ok = false
				break
			}
			vals = append(vals, v)
		}
		if !ok {
			continue // header line
		}
		rows = append(rows, c15Row{
			date:   strings.TrimSpace(tok[0]),
			w:      vals[0:c15Layers],
			wmin:   vals[c15Layers : 2*c15Layers],
			porges: vals[2*c15Layers : 3*c15Layers],
			wred:   vals[3*c15Layers],
		})
	}
	if len(rows) < 365 {
		t.Fatalf("%s: only %d daily rows parsed from %s", c.name, len(rows), file)
	}
	return nil, rows, resultDir
}

// c15Check returns the violations of the property in the daily rows (first per kind and layer only)
func c15Check(c c15Case, rows []c15Row) (violations []string) {
	seen := map[string]bool{}
	add := func(key, msg string) {
		if !seen[key] {
			seen[key] = true
			violations = append(violations, msg)
		}
	}
	for _, r := range rows {
		for i := 0; i < c15Layers; i++ {
			w, wmin, pv := r.w[i], r.wmin[i], r.porges[i]
			if !(wmin > 0) {
				add(fmt.Sprintf("wp0-%d", i), fmt.Sprintf("%s layer %d: WMIN=%.4f <= 0", r.date, i+1, wmin))
			}
			if !(wmin < w) {
				add(fmt.Sprintf("wpfc-%d", i), fmt.Sprintf("%s layer %d: WMIN=%.4f >= W=%.4f", r.date, i+1, wmin, w))
			}
			if !(w <= pv) {
				add(fmt.Sprintf("fcpv-%d", i), fmt.Sprintf("%s layer %d: W=%.4f > PORGES=%.4f", r.date, i+1, w, pv))
			}
			if !(pv < 1) {
				add(fmt.Sprintf("pv1-%d", i), fmt.Sprintf("%s layer %d: PORGES=%.4f >= 1", r.date, i+1, pv))
			}
			// below the ground water table (layers from gw+1 on are fully below it) W == PORGES
			if c.gw < c15Layers && i+1 > c.gw+1 && w != pv {
				add(fmt.Sprintf("gw-%d", i), fmt.Sprintf("%s layer %d (below groundwater at %d dm): W=%.4f != PORGES=%.4f", r.date, i+1, c.gw, w, pv))
			}
		}
		if !(r.wmin[0] < r.wred && r.wred < r.w[0]) {
			add("wred", fmt.Sprintf("%s: WRED=%.4f not strictly between WMIN[0]=%.4f and W[0]=%.4f", r.date, r.wred, r.wmin[0], r.w[0]))
		}
	}
	return violations
}

func c15Cases() []c15Case {
	return []c15Case{
		// field capacity of the PTF above an ordinary pore volume (all triples inside the PTF domain)
		{name: "ptf3_clay60_silt30_sand10_ps45", ptf: 3, sand: 10, silt: 30, clay: 60, corg: 1.5, ps: "45", gw: 99},
		{name: "ptf3_clay60_silt30_sand10_ps45_gw8", ptf: 3, sand: 10, silt: 30, clay: 60, corg: 1.5, ps: "45", gw: 8},
		{name: "ptf1_clay60_silt30_sand10_ps40", ptf: 1, sand: 10, silt: 30, clay: 60, corg: 2.0, ps: "40", gw: 99},
		{name: "ptf2_clay70_silt25_sand05_ps38", ptf: 2, sand: 5, silt: 25, clay: 70, corg: 2.0, ps: "38", gw: 99},
		{name: "ptf4_clay55_silt35_sand10_ps40", ptf: 4, sand: 10, silt: 35, clay: 55, corg: 2.0, ps: "40", gw: 99},
		// pore volume column empty in the soil file
		{name: "ptf2_clay20_silt40_sand40_ps_missing", ptf: 2, sand: 40, silt: 40, clay: 20, corg: 1.0, ps: "", gw: 99},
		// controls: PTF field capacity below the pore volume, must run and satisfy the property
		{name: "control_ptf3_clay60_silt30_sand10_ps60", ptf: 3, sand: 10, silt: 30, clay: 60, corg: 1.5, ps: "60", gw: 99},
		{name: "control_ptf1_clay20_silt40_sand40_ps45_gw8", ptf: 1, sand: 40, silt: 40, clay: 20, corg: 1.0, ps: "45", gw: 8},
		{name: "control_ptf2_clay20_silt40_sand40_ps45", ptf: 2, sand: 40, silt: 40, clay: 20, corg: 1.0, ps: "45", gw: 99},
		{name: "control_ptf4_clay20_silt40_sand40_ps45", ptf: 4, sand: 40, silt: 40, clay: 20, corg: 1.0, ps: "45", gw: 99},
	}
}

// TestC15_PTFParametersUsedBySimulation fails when a simulation RUNS with parameters that violate the property.
// A run that is refused with an error does not use any parameters and is accepted,
// except for the control cases (consistent input) which have to run.
func TestC15_PTFParametersUsedBySimulation(t *testing.T) {
	saveDir := os.Getenv("C15_SAVE_DIR") // optional: keep the result files for a before/after comparison
	for _, c := range c15Cases() {
		c := c
		t.Run(c.name, func(t *testing.T) {
			var fc, wp float64
			switch c.ptf {
			case 1:
				fc, wp = PTF1(c.corg, float64(c.clay), float64(c.silt))
			case 2:
				fc, wp = PTF2(c.corg, float64(c.clay), float64(c.silt))
			case 3:
				fc, wp = PTF3(c.corg, float64(c.clay), float64(c.silt))
			case 4:
				fc, wp = PTF4(c.corg, float64(c.clay), float64(c.sand))
			}
			t.Logf("PTF%d(corg=%.1f clay=%d silt=%d sand=%d) -> fc=%.4f wp=%.4f ; soil file PS=%q", c.ptf, c.corg, c.clay, c.silt, c.sand, fc, wp, c.ps)
			runErr, rows, resultDir := c15Run(t, c)
			isControl := strings.HasPrefix(c.name, "control_")
			if runErr != nil {
				t.Logf("run refused: %v", runErr)
				if isControl {
					t.Errorf("control case with consistent input must run, got error: %v", runErr)
				}
				return
			}
			if saveDir != "" {
				// daily (V), yearly (Y) and crop (C) result files of the run
				c15CopyTree(t, resultDir, filepath.Join(saveDir, c.name))
			}
			r0 := rows[0]
			t.Logf("first day %s: W[0]=%.4f WMIN[0]=%.4f PORGES[0]=%.4f WRED=%.4f | W[9]=%.4f PORGES[9]=%.4f | W[19]=%.4f PORGES[19]=%.4f",
				r0.date, r0.w[0], r0.wmin[0], r0.porges[0], r0.wred, r0.w[9], r0.porges[9], r0.w[19], r0.porges[19])
			v := c15Check(c, rows)
			for i, msg := range v {
				if i >= 6 {
					t.Errorf("... %d more violations", len(v)-i)
					break
				}
				t.Error(msg)
			}
		})
	}
}

// TestC15_PTFSweepNumbers is informational (never fails): range of the four PTFs over the stated domain
// (sand, silt, clay >= 5 %, sand <= 85 %, 1 % steps) for several organic carbon contents.
func TestC15_PTFSweepNumbers(t *testing.T) {
	for ptf := 1; ptf <= 4; ptf++ {
		for _, corg := range []float64{0.5, 1, 2, 3} {
			n, nWpGeFc, nWpLe0, nFcGe1 := 0, 0, 0, 0
			above := map[int]int{35: 0, 40: 0, 45: 0, 50: 0}
			maxFc, minGap := -1.0, 10.0
			var maxAt, gapAt [3]int
			for clay := 5; clay <= 90; clay++ {
				for sand := 5; sand <= 85; sand++ {
					silt := 100 - clay - sand
					if silt < 5 {
						continue
					}
					var fc, wp float64
					switch ptf {
					case 1:
						fc, wp = PTF1(corg, float64(clay), float64(silt))
					case 2:
						fc, wp = PTF2(corg, float64(clay), float64(silt))
					case 3:
						fc, wp = PTF3(corg, float64(clay), float64(silt))
					case 4:
						fc, wp = PTF4(corg, float64(clay), float64(sand))
					}
					n++
					if wp >= fc {
						nWpGeFc++
					}
					if wp <= 0 {
						nWpLe0++
					}
					if fc >= 1 {
						nFcGe1++
					}
					for ps := range above {
						if fc > float64(ps)/100 {
							above[ps]++
						}
					}
					if fc > maxFc {
						maxFc, maxAt = fc, [3]int{sand, silt, clay}
					}
					if fc-wp < minGap {
						minGap, gapAt = fc-wp, [3]int{sand, silt, clay}
					}
				}
			}
			t.Logf("PTF%d corg=%.1f: %d triples; max fc=%.4f at sand/silt/clay=%v; min(fc-wp)=%.4f at %v; wp>=fc: %d; wp<=0: %d; fc>=1: %d; fc>0.35: %d, >0.40: %d, >0.45: %d, >0.50: %d",
				ptf, corg, n, maxFc, maxAt, minGap, gapAt, nWpGeFc, nWpLe0, nFcGe1, above[35], above[40], above[45], above[50])
		}
	}
}
