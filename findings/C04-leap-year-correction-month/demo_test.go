package hermes

import (
	"bufio"
	"fmt"
	"math"
	"os"
	"path/filepath"
	"strconv"
	"strings"
	"sync"
	"testing"
	"time"
)

// in-memory result writer, keeps the daily output of the run
type c04leapMemOut struct {
	mu  *sync.Mutex
	buf *strings.Builder
}

func (m c04leapMemOut) Write(s string) (int, error) {
	m.mu.Lock()
	defer m.mu.Unlock()
	return m.buf.WriteString(s)
}
func (m c04leapMemOut) WriteBytes(b []byte) (int, error) {
	m.mu.Lock()
	defer m.mu.Unlock()
	return m.buf.Write(b)
}
func (m c04leapMemOut) WriteRune(r rune) (int, error) {
	m.mu.Lock()
	defer m.mu.Unlock()
	return m.buf.WriteRune(r)
}
func (m c04leapMemOut) WriteError(err error) (int, error) {
	m.mu.Lock()
	defer m.mu.Unlock()
	return m.buf.WriteString(err.Error())
}
func (m c04leapMemOut) Close() {}

type c04leapRecord struct {
	tmin, tavg, tmax, precip, globrad, wind, relhumid float64
}

func c04leapCopyDir(t *testing.T, src, dst string) {
	t.Helper()
	entries, err := os.ReadDir(src)
	if err != nil {
		t.Fatal(err)
	}
	if err := os.MkdirAll(dst, 0o755); err != nil {
		t.Fatal(err)
	}
	for _, e := range entries {
		if e.IsDir() {
			continue
		}
		data, err := os.ReadFile(filepath.Join(src, e.Name()))
		if err != nil {
			t.Fatal(err)
		}
		if err := os.WriteFile(filepath.Join(dst, e.Name()), data, 0o644); err != nil {
			t.Fatal(err)
		}
	}
}

// TestC04MonthlyCorrectionInLeapYear runs the shipped example project ex1 for 1983 and the leap year 1984
// (copy to hermes/demo_test.go; go test -vet=off -count=1 -run TestC04MonthlyCorrectionInLeapYear .) with the precipitation correction switched on (one distinct factor per month in preco.txt) and a
// weather series with 2 mm precipitation on every day (file starts in 1980, before the start year).
// Property C04: each simulated day is driven by the record of its own date after the documented normalisations
// only - here: precipitation in cm = mm/10 * correction factor of the month the date lies in.
func TestC04MonthlyCorrectionInLeapYear(t *testing.T) {
	examples, err := filepath.Abs(filepath.Join("..", "examples"))
	if err != nil {
		t.Fatal(err)
	}
	root := t.TempDir()
	// project folder (copy of ex1), parameter folder (link to the shipped one)
	projDir := filepath.Join(root, "project", "ex1")
	c04leapCopyDir(t, filepath.Join(examples, "project", "ex1"), projDir)
	if err := os.Symlink(filepath.Join(examples, "parameter"), filepath.Join(root, "parameter")); err != nil {
		t.Fatal(err)
	}

	// the simulation starts at the harvest date of the first crop line: make it 1 January 1983
	cropFile := filepath.Join(projDir, "crop_ex1.csv")
	cropData, err := os.ReadFile(cropFile)
	if err != nil {
		t.Fatal(err)
	}
	cropLines := strings.Split(string(cropData), "\n")
	if !strings.Contains(cropLines[1], "09311980") {
		t.Fatalf("unexpected first crop line: %s", cropLines[1])
	}
	cropLines[1] = strings.Replace(cropLines[1], "09311980", "01011983", 1)
	// drop the crops of 1981 and 1982, which now lie before the start
	cropLines = append(cropLines[:2], cropLines[4:]...)
	if err := os.WriteFile(cropFile, []byte(strings.Join(cropLines, "\n")), 0o644); err != nil {
		t.Fatal(err)
	}

	// daily output: date + echo of the weather variables only
	var dailyConf strings.Builder
	dailyConf.WriteString("FillCharacter: ' '\nSeperatorCharacter: ','\nNaValue: n.a.\nDataColumns:\n")
	dailyConf.WriteString("- Format: '%s'\n  DataAlignment: left\n  Width: 10\n  VariableName: AKTUELL\n")
	echoVars := []string{"TEMPdaily", "TMINdaily", "TMAXdaily", "RHdaily", "RADdaily", "WINDdaily", "REGENdaily"}
	for _, v := range echoVars {
		dailyConf.WriteString("- Format: '%.6f'\n  DataAlignment: left\n  Width: 12\n  VariableName: " + v + "\n")
	}
	dailyConf.WriteString("Headlines:\n  1:\n  - ColumnName: Date\n")
	for _, v := range echoVars {
		dailyConf.WriteString("  - ColumnName: " + v + "\n")
	}
	if err := os.WriteFile(filepath.Join(projDir, "dailyout_conf.yml"), []byte(dailyConf.String()), 0o644); err != nil {
		t.Fatal(err)
	}

	// weather: the shipped series with 2 mm precipitation on every day
	weatherSrc, err := os.ReadFile(filepath.Join(examples, "weather", "historical", "109_120.csv"))
	if err != nil {
		t.Fatal(err)
	}
	wLines := strings.Split(string(weatherSrc), "\n")
	for i := 2; i < len(wLines); i++ {
		tok := strings.Split(wLines[i], ",")
		if len(tok) > 4 {
			tok[4] = "2.0"
			wLines[i] = strings.Join(tok, ",")
		}
	}
	// monthly correction factors, one distinct value per month
	var factor [12]float64
	preco := "Mo Corr"
	for m := 1; m <= 12; m++ {
		factor[m-1] = 1 + float64(m)/100
		preco += fmt.Sprintf("\n%2d %4.2f", m, factor[m-1])
	}
	weatherDir := filepath.Join(root, "weather", "historical")
	if err := os.MkdirAll(weatherDir, 0o755); err != nil {
		t.Fatal(err)
	}
	if err := os.WriteFile(filepath.Join(weatherDir, "TST.csv"), []byte(strings.Join(wLines, "\n")), 0o644); err != nil {
		t.Fatal(err)
	}
	if err := os.WriteFile(filepath.Join(weatherDir, "preco.txt"), []byte(preco), 0o644); err != nil {
		t.Fatal(err)
	}
	// the records by date (columns: iso-date,tmin,tavg,tmax,precip,globrad,wind,relhumid,...)
	records := make(map[string]c04leapRecord)
	for _, line := range wLines[2:] {
		tok := strings.Split(strings.TrimSpace(line), ",")
		if len(tok) < 8 {
			continue
		}
		var v [7]float64
		for i := 0; i < 7; i++ {
			if v[i], err = strconv.ParseFloat(tok[i+1], 64); err != nil {
				t.Fatal(err)
			}
		}
		records[tok[0]] = c04leapRecord{v[0], v[1], v[2], v[3], v[4], v[5], v[6]}
	}

	// run
	session := NewHermesSession()
	var mu sync.Mutex
	outputs := make(map[string]*strings.Builder)
	session.HermesOutWriter = func(p string, _ bool) (OutWriter, error) {
		mu.Lock()
		defer mu.Unlock()
		b := &strings.Builder{}
		outputs[filepath.Base(p)] = b
		return c04leapMemOut{mu: &mu, buf: b}, nil
	}
	args := strings.Fields("project=ex1 WeatherFolder=historical soilId=075 fcode=TST plotNr=10001 Altitude=73 Latitude=52.6732 poligonID=29872 " +
		"StartYear=1983 EndDate=12311984 ResultFileFormat=1 AutoIrrigation=0 CorrectionPrecipitation=1")
	resultChan := make(chan *RunReturn, 1)
	logChan := make(chan string, 1000)
	go session.Run(root, args, "C04", resultChan, logChan)
	var result *RunReturn
	select {
	case result = <-resultChan:
	case <-time.After(50 * time.Second):
		t.Fatal("run timed out")
	}
	if !result.Success {
		// a run that ends with an error does not violate the property
		t.Skipf("run ended with an error: %v", result.Err)
	}

	var daily string
	for name, b := range outputs {
		if strings.HasPrefix(name, "V") {
			daily = b.String()
		}
	}
	if daily == "" {
		t.Fatal("no daily output captured")
	}
	checked, bad := 0, 0
	scanner := bufio.NewScanner(strings.NewReader(daily))
	for scanner.Scan() {
		tok := strings.Split(scanner.Text(), ",")
		if len(tok) < 8 {
			continue
		}
		// DateENlong: MM.DD.YYYY
		date, err := time.Parse("01.02.2006", strings.TrimSpace(tok[0]))
		if err != nil {
			continue // head line
		}
		rec, ok := records[date.Format("2006-01-02")]
		if !ok {
			t.Errorf("%s simulated without a weather record", tok[0])
			bad++
			continue
		}
		var got [7]float64
		for i := 0; i < 7; i++ {
			got[i], err = strconv.ParseFloat(strings.TrimSpace(tok[i+1]), 64)
			if err != nil {
				t.Fatalf("daily output %q: %v", scanner.Text(), err)
			}
		}
		want := [7]float64{rec.tavg, rec.tmin, rec.tmax, rec.relhumid, rec.globrad / 2, math.Max(rec.wind, 0.5), rec.precip / 10 * factor[int(date.Month())-1]}
		checked++
		for i := range want {
			if math.Abs(got[i]-want[i]) > 1e-5 {
				bad++
				if bad <= 10 {
					t.Errorf("%s: %s = %v in the daily output, the weather file's record of %s gives %v",
						strings.TrimSpace(tok[0]), echoVars[i], got[i], date.Format("2006-01-02"), want[i])
				}
				break
			}
		}
	}
	if checked < 731 {
		t.Errorf("expected 731 simulated days (1983-01-01 .. 1984-12-31), found %d", checked)
	}
	if bad > 0 {
		t.Errorf("%d of %d simulated days did not get their own record with the correction factor of their own month", bad, checked)
	}
	fmt.Printf("checked %d days, %d mismatches\n", checked, bad)
}
