package hermes

import (
	"path/filepath"
	"testing"
)

// Texture-table route (no explicit FC/WP/PS in the soil file, PTF = 0): Hydro looks up field capacity and pore
// volume in HYPAR.TRU and then adds the organic-matter / groundwater corrections KRR (to field capacity) and
// KRG (to pore volume).  For silt, loam and clay textures KRG is always 0 while KRR grows with organic
// carbon, and nothing caps field capacity at pore volume.
func TestDemoTableRouteFieldCapacityAbovePoreVolume(t *testing.T) {
	cases := []struct {
		texture string
		ld      int
		corg    float64
		grw     float64
	}{
		{"UU ", 3, 4.0, 99}, // humic silt, medium density, no groundwater
		{"TT ", 4, 1.0, 5},  // clay, dense, groundwater at 5 dm
	}
	for _, c := range cases {
		session := NewHermesSession()
		g := NewGlobalVarsMain()
		g.Session = session
		g.N = 20
		g.AZHO = 1
		g.BART[0] = c.texture
		g.LD[0] = c.ld
		g.CGEHALT[0] = c.corg
		g.GRW = c.grw
		par, _ := filepath.Abs("../examples/parameter")
		hp := HFilePath{hypar: filepath.Join(par, "HYPAR.TRU"), parcap: filepath.Join(par, "PARCAP.TRU")}
		var local InputSharedVars
		if _, err := Hydro(1, &g, &local, &hp); err != nil {
			t.Fatal(err)
		}
		session.Close()
		fc, wp, pv := g.FELDW[0], g.LIM[0], g.PRGES[0]
		t.Logf("%s LD%d Corg %.1f GW %.0f dm: wilting point %.3f field capacity %.3f pore volume %.3f", c.texture, c.ld, c.corg, c.grw, wp, fc, pv)
		if !(0 < wp && wp < fc && fc <= pv && pv < 1) {
			t.Errorf("%s LD%d Corg %.1f GW %.0f dm: parameters not ordered: 0 < %.3f < %.3f <= %.3f < 1 fails", c.texture, c.ld, c.corg, c.grw, wp, fc, pv)
		}
	}
}
