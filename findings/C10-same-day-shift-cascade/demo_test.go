package hermes

import (
	"bufio"
	"fmt"
	"os"
	"path/filepath"
	"strconv"
	"strings"
	"testing"
)

// C10 demo: a user fertilisation dated exactly on the simulation start day must be
// carried out one day after its date (like every other fertilisation), not two days after.
//
// Project examples/project/rue, plot 10001 (field L2F3R1): the initial crop is harvested on
// 04.08.1980, this is the simulation start (g.BEGINN = g.ERNTE[0]).

const (
	demoStartDate = "04081980" // DateDElong (ddmmyyyy) - simulation start of field L2F3R1
	demoField     = "L2F3R1"
)

type demoFertEvent struct {
	date string // dd.mm.yyyy as written by the management output
	name string // fertiliser name ("" = harvest residue pseudo event of the initial crop)
	line string
}

func demoCopyFile(t *testing.T, src, dst string) {
	t.Helper()
	data, err := os.ReadFile(src)
	if err != nil {
		t.Fatal(err)
	}
	if err := os.MkdirAll(filepath.Dir(dst), 0o755); err != nil {
		t.Fatal(err)
	}
	if err := os.WriteFile(dst, data, 0o644); err != nil {
		t.Fatal(err)
	}
}

func demoCopyDir(t *testing.T, src, dst string) {
	t.Helper()
	entries, err := os.ReadDir(src)
	if err != nil {
		t.Fatal(err)
	}
	for _, e := range entries {
		if e.IsDir() {
			demoCopyDir(t, filepath.Join(src, e.Name()), filepath.Join(dst, e.Name()))
		} else {
			demoCopyFile(t, filepath.Join(src, e.Name()), filepath.Join(dst, e.Name()))
		}
	}
}

// demoRun runs project rue / plot 10001 with manual fertilisation and the given fertiliser schedule,
// returns the fertilisation events of the management output and the first day on which the
// mineral N of the top layer rises by more than 10 kg N/ha (daily output, informative only).
func demoRun(t *testing.T, fertLines []string) (events []demoFertEvent, firstNminJump string) {
	events, firstNminJump, _ = demoRunTil(t, fertLines, nil)
	return
}

func demoRunTil(t *testing.T, fertLines, tilLines []string) (events []demoFertEvent, firstNminJump string, tillages []string) {
	t.Helper()
	examples, err := filepath.Abs(filepath.Join("..", "examples"))
	if err != nil {
		t.Fatal(err)
	}
	root := t.TempDir()
	demoCopyDir(t, filepath.Join(examples, "project", "rue"), filepath.Join(root, "project", "rue"))
	demoCopyDir(t, filepath.Join(examples, "parameter"), filepath.Join(root, "parameter"))
	demoCopyFile(t, filepath.Join(examples, "weather", "historical", "109_120.w6d"), filepath.Join(root, "weather", "historical", "109_120.w6d"))

	fert := "Field_ID  N   Frt date\n" + strings.Join(fertLines, "\n") + "\nend\n"
	if err := os.WriteFile(filepath.Join(root, "project", "rue", "fert_rue.txt"), []byte(fert), 0o644); err != nil {
		t.Fatal(err)
	}
	if tilLines != nil {
		til := "Field_ID  Ti Typ date\n          cm\n" + strings.Join(tilLines, "\n") + "\n"
		if err := os.WriteFile(filepath.Join(root, "project", "rue", "til_rue.txt"), []byte(til), 0o644); err != nil {
			t.Fatal(err)
		}
	}
	resultDir := filepath.Join(root, "OUT")
	args := []string{
		"project=rue", "WeatherFolder=historical", "fcode=109_120", "plotNr=10001", "soilId=001",
		"Altitude=73", "Latitude=52.6732", "poligonID=29872",
		"AutoFertilization=0", // real (scheduled) fertilisation from fert_rue.txt
		"EndDate=31121981",    // two years are enough
		"resultfolder=" + resultDir,
	}
	session := NewHermesSession()
	out := make(chan *RunReturn, 1)
	logs := make(chan string, 10000)
	done := make(chan struct{})
	go func() {
		for range logs {
		}
		close(done)
	}()
	session.Run(root, args, "demo", out, logs)
	res := <-out
	close(logs)
	<-done
	session.Close()
	if !res.Success {
		t.Fatalf("run failed: %v", res.Err)
	}

	// management events: "05.08.1980 fertilization Fertilizer: KAS NH4: 50 Ndirect: 100.0"
	mfile, err := os.Open(filepath.Join(resultDir, "M2987210001.txt"))
	if err != nil {
		t.Fatal(err)
	}
	defer mfile.Close()
	sc := bufio.NewScanner(mfile)
	for sc.Scan() {
		tok := strings.Fields(sc.Text())
		if len(tok) >= 2 && tok[1] == "tillage" {
			tillages = append(tillages, tok[0])
		}
		if len(tok) < 3 || tok[1] != "fertilization" {
			continue
		}
		ev := demoFertEvent{date: tok[0], line: sc.Text()}
		// tok[2] == "Fertilizer:", the name is empty for the residue pseudo event
		if len(tok) > 3 && !strings.HasSuffix(tok[3], ":") {
			ev.name = tok[3]
		}
		events = append(events, ev)
	}

	// daily output: Date,...,Nmin0_1 (column 11)
	vfile, err := os.Open(filepath.Join(resultDir, "V2987210001.csv"))
	if err != nil {
		t.Fatal(err)
	}
	defer vfile.Close()
	sc = bufio.NewScanner(vfile)
	sc.Buffer(make([]byte, 1024*1024), 1024*1024)
	col := -1
	prev := -1.0
	for sc.Scan() {
		tok := strings.Split(sc.Text(), ",")
		if col < 0 {
			for i, h := range tok {
				if h == "Nmin0_1" {
					col = i
				}
			}
			if col < 0 {
				t.Fatal("Nmin0_1 column not found in daily output")
			}
			continue
		}
		val, err := strconv.ParseFloat(strings.TrimSpace(tok[col]), 64)
		if err != nil {
			continue
		}
		if prev >= 0 && val-prev > 10 && firstNminJump == "" {
			firstNminJump = tok[0]
		}
		prev = val
	}
	return events, firstNminJump, tillages
}

func demoUserEvents(events []demoFertEvent) (dates []string) {
	for _, e := range events {
		if e.name != "" {
			dates = append(dates, e.date)
		}
	}
	return dates
}

func demoResidueEvents(events []demoFertEvent) (dates []string) {
	for _, e := range events {
		if e.name == "" {
			dates = append(dates, e.date)
		}
	}
	return dates
}

func demoLine(amount int, fert, date string) string {
	return fmt.Sprintf("%-9s %d %s  %s", demoField, amount, fert, date)
}

// Two fertilisations scheduled on day d and a third on d+1 (inside the domain of C10: at most two per day, events on
// consecutive days): the first two are carried out on d+1 and d+2, and the third must be carried out at most one day
// after ITS date, i.e. on d+2 as well.  The same-day shift compares each event with the already shifted date of its
// predecessor, so the third event is pushed to d+2 and carried out on d+3.
func TestDemoC10SameDayShiftCascades(t *testing.T) {
	events, _ := demoRun(t, []string{demoLine(100, "KAS", "09081980"), demoLine(50, "AHL", "09081980"), demoLine(30, "KAS", "10081980")})
	t.Logf("scheduled 09.08.1980 twice + 10.08.1980; management events: %v", events)
	user := demoUserEvents(events)
	if len(user) != 3 {
		t.Fatalf("%d fertilisations carried out, want 3: %v", len(user), user)
	}
	if user[0] != "10.08.1980" || user[1] != "11.08.1980" {
		t.Errorf("the two fertilisations of 09.08.1980 carried out on %v, want 10.08.1980 and 11.08.1980", user[:2])
	}
	if user[2] != "11.08.1980" {
		t.Errorf("fertilisation scheduled 10.08.1980 carried out on %s, want 11.08.1980 (at most one day after its date)", user[2])
	}
}

// The same for the tillage schedule (recorded as a known finding, not repaired): two tillages on day d and one on d+1.
func TestDemoC10SameDayShiftCascadesTillage(t *testing.T) {
	til := func(date string) string { return fmt.Sprintf("%-9s  20 1   %s", demoField, date) }
	_, _, tillages := demoRunTil(t, []string{demoLine(100, "KAS", "20081980")}, []string{til("09081980"), til("09081980"), til("10081980")})
	t.Logf("tillages scheduled 09.08.1980 twice + 10.08.1980; carried out: %v", tillages)
	if len(tillages) != 3 {
		t.Fatalf("%d tillages carried out, want 3: %v", len(tillages), tillages)
	}
	if tillages[0] != "10.08.1980" || tillages[1] != "11.08.1980" {
		t.Errorf("the two tillages of 09.08.1980 carried out on %v, want 10.08.1980 and 11.08.1980", tillages[:2])
	}
	if tillages[2] != "11.08.1980" {
		t.Errorf("tillage scheduled 10.08.1980 carried out on %s, want 11.08.1980 (at most one day after its date)", tillages[2])
	}
}
