package hermes

import (
	"math"
	"testing"
)

// Peat soils (top texture "H…") use Denitmo, which works on three fixed blocks
// of three layers.  On a profile thinner than nine layers the lower blocks have
// no pore volume; before the repair their relative water content was 0/0 and the
// N2O counters (and, with nitrate in the boundary slot, mineral N and the
// denitrification counter) became NaN for the rest of the run.
func TestFindingC07DenitmoThinPeatProfile(t *testing.T) {
	for _, n := range []int{2, 3, 5, 6, 8, 9, 20} {
		g := NewGlobalVarsMain()
		g.N = n
		g.TAG.SetByIndex(100)
		g.TEMP[100] = 14
		for i := 0; i < n; i++ {
			g.PORGES[i], g.WG[1][i], g.C1[i] = 0.8, 0.7, 12
		}
		g.C1[n] = 3 // transport leaves a value in the slot below the profile
		for day := 0; day < 5; day++ {
			Denitmo(&g)
		}
		check := func(name string, v float64) {
			if math.IsNaN(v) || math.IsInf(v, 0) || v < 0 {
				t.Errorf("%d-layer peat profile: %s = %v", n, name, v)
			}
		}
		check("CUMDENIT", g.CUMDENIT)
		check("N2Odencum", g.N2Odencum)
		check("N2OdenDaily", g.N2OdenDaily)
		for i := 0; i <= n; i++ {
			check("C1", g.C1[i])
		}
	}
}
