package hermes

// Demo: NaN from 0/0 in Evatra ("Reduktion bei Luftmangel", water.go) when a crop
// with LUKRIT = 0 (shipped potato file examples/parameter/PARAM.K) is growing and
// the water content of the top three 10-cm layers reaches/exceeds their pore volume.
//
// The test builds a complete project in a temp dir from the shipped examples
// (project "zuc", parameter folder, weather station 109_120) and only changes
//   - the crop rotation (initial winter wheat, then potato "K " in 1981),
//   - the soil profile (one new profile appended to soil_zuc.txt; hydraulic
//     parameters are left at 00 = "use the defaults of HYPAR.TRU"),
//   - optionally the groundwater columns of the polygon file.
// Then it runs the simulation through HermesSession.Run exactly like
// src/hermes2go/hermes_main.go does in batch mode and scans the result files.
//
// run (from the hermes/ module dir):
//   GOPROXY=off GOSUMDB=off GOTOOLCHAIN=local GOFLAGS= go test -run TestDemoPotatoAirDeficitNaN -v .

import (
	"bufio"
	"fmt"
	"io"
	"os"
	"path/filepath"
	"strings"
	"testing"
)

func demoCopyFile(t *testing.T, src, dst string) {
	t.Helper()
	in, err := os.Open(src)
	if err != nil {
		t.Fatal(err)
	}
	defer in.Close()
	if err := os.MkdirAll(filepath.Dir(dst), 0o755); err != nil {
		t.Fatal(err)
	}
	out, err := os.Create(dst)
	if err != nil {
		t.Fatal(err)
	}
	defer out.Close()
	if _, err := io.Copy(out, in); err != nil {
		t.Fatal(err)
	}
}

func demoCopyDir(t *testing.T, src, dst string) {
	t.Helper()
	entries, err := os.ReadDir(src)
	if err != nil {
		t.Fatal(err)
	}
	for _, e := range entries {
		if e.IsDir() {
			demoCopyDir(t, filepath.Join(src, e.Name()), filepath.Join(dst, e.Name()))
		} else {
			demoCopyFile(t, filepath.Join(src, e.Name()), filepath.Join(dst, e.Name()))
		}
	}
}

type demoScenario struct {
	name     string
	soilRows []string // soil profile "900" (fixed column format of soil_<project>.txt)
	gwHigh   string   // polygon file column GH (dm), "99" = no groundwater
	gwLow    string   // polygon file column GL (dm)
}

func TestDemoPotatoAirDeficitNaN(t *testing.T) {
	scenarios := []demoScenario{
		{
			// humus rich silt (loess) top soil, medium bulk density, no groundwater.
			// HYPAR.TRU: UU, LD 3 -> FC 37, PV 39 Vol%. Hydro() (input.go) adds +5 Vol% to the
			// field capacity for Corg > 3.5 % (and -1 for groundwater deeper than 35 dm) but
			// nothing to the pore volume -> W = 0.41 > PORGES = 0.39 in the top 30 cm.
			name: "humic_silt_no_groundwater",
			soilRows: []string{
				"900 4.00 UU  03 3 00 012 xxx 00 09 03   00 00 00 00 00 00 00  08   0.8",
				"900 0.40 UU  09 3 00 012 xxx 00         00 00 00 00 00 00 00  08   0.8",
				"900 0.00 UU  20 3 00 012 xxx 00         00 00 00 00 00 00 00  08   0.8",
			},
			gwHigh: "99", gwLow: "99",
		},
		{
			// same texture, Corg 2.4 % (+1 Vol% FC), constant groundwater level at 7 dm
			// (+1 Vol% FC for groundwater < 8 dm) -> W = 0.39 == PORGES = 0.39.
			// After a wet day all three top layers sit exactly at W and
			// (0.39+0.39+0.39-0.39-0.39-0.39)/3 evaluates to -3.7e-17 < 0 in float64.
			name: "silt_corg2.4_groundwater_7dm",
			soilRows: []string{
				"900 2.40 UU  03 3 00 012 xxx 00 09 03   00 00 00 00 00 00 00  08   0.8",
				"900 0.40 UU  09 3 00 012 xxx 00         00 00 00 00 00 00 00  08   0.8",
				"900 0.00 UU  20 3 00 012 xxx 00         00 00 00 00 00 00 00  08   0.8",
			},
			gwHigh: "07", gwLow: "07",
		},
	}
	for _, sc := range scenarios {
		sc := sc
		t.Run(sc.name, func(t *testing.T) {
			runDemoScenario(t, sc)
		})
	}
}

func runDemoScenario(t *testing.T, sc demoScenario) {
	examples, err := filepath.Abs(filepath.Join("..", "examples"))
	if err != nil {
		t.Fatal(err)
	}
	root := t.TempDir()
	projectDir := filepath.Join(root, "project", "zuc")
	demoCopyDir(t, filepath.Join(examples, "parameter"), filepath.Join(root, "parameter"))
	demoCopyDir(t, filepath.Join(examples, "project", "zuc"), projectDir)
	demoCopyFile(t, filepath.Join(examples, "weather", "historical", "109_120.csv"),
		filepath.Join(root, "weather", "historical", "109_120.csv"))

	// --- crop rotation: initial crop (as shipped) + one potato season -----------------
	crop := "Field_ID,crp,sowing,harvst,Rex,yld,autorg,variety,comment\n" +
		"L2F3R1,WW ,01101979,04081980,080,050,0,,initial\n" +
		"L2F3R1,K  ,20041981,10081981,000,000,0,,\n"
	if err := os.WriteFile(filepath.Join(projectDir, "crop_zuc.csv"), []byte(crop), 0o644); err != nil {
		t.Fatal(err)
	}

	// --- soil file: append profile 900 before the closing "end" line ------------------
	soilFile := filepath.Join(projectDir, "soil_zuc.txt")
	soilBytes, err := os.ReadFile(soilFile)
	if err != nil {
		t.Fatal(err)
	}
	var soilOut []string
	for _, line := range strings.Split(strings.ReplaceAll(string(soilBytes), "\r\n", "\n"), "\n") {
		if strings.HasPrefix(line, "end") || strings.TrimSpace(line) == "" {
			continue
		}
		soilOut = append(soilOut, line)
	}
	soilOut = append(soilOut, sc.soilRows...)
	soilOut = append(soilOut, "end")
	if err := os.WriteFile(soilFile, []byte(strings.Join(soilOut, "\n")+"\n"), 0o644); err != nil {
		t.Fatal(err)
	}

	// --- polygon file: groundwater high/low level of plot 10001 ------------------------
	poly := "Polyg SID  Field_ID  GH GL Ir comment\n" +
		fmt.Sprintf("10001 900 L2F3R1    %s %s 0 potato demo\n", sc.gwHigh, sc.gwLow) +
		"end\n"
	if err := os.WriteFile(filepath.Join(projectDir, "poly_zuc.txt"), []byte(poly), 0o644); err != nil {
		t.Fatal(err)
	}

	resultDir := filepath.Join(root, "RESULT")
	// same argument style as a line of examples/zuc_muencheberg_batch.txt
	args := []string{
		"project=zuc",
		"WeatherFolder=historical",
		"WeatherRootFolder=" + filepath.Join(root, "weather"),
		"fcode=109_120",
		"plotNr=10001",
		"soilId=900",
		"Altitude=73",
		"Latitude=52.6732",
		"poligonID=29872",
		"resultfolder=" + resultDir,
		"AutoIrrigation=0", // rain only, no irrigation water
		"EndDate=31101981", // stop after the potato harvest
	}

	// run the simulation like hermes_main.go (batch mode): session.Run(workingDir, args, id, out, logout)
	session := NewHermesSession()
	out := make(chan *RunReturn, 1)
	logout := make(chan string, 64)
	logDone := make(chan struct{})
	go func() {
		for range logout {
		}
		close(logDone)
	}()
	var panicValue interface{}
	func() {
		defer func() { panicValue = recover() }()
		session.Run(root, args, "demo", out, logout)
	}()
	close(logout)
	<-logDone
	session.Close()
	if panicValue != nil {
		t.Errorf("simulation panicked: %v", panicValue)
	}
	select {
	case res := <-out:
		if !res.Success {
			t.Fatalf("simulation returned an error (input problem?): %v", res.Err)
		}
	default:
	}

	// --- scan every written result file for NaN ------------------------------------------
	files, err := filepath.Glob(filepath.Join(resultDir, "*"))
	if err != nil || len(files) == 0 {
		t.Fatalf("no result files written in %s (%v)", resultDir, err)
	}
	sawPotato := false
	for _, file := range files {
		f, err := os.Open(file)
		if err != nil {
			t.Fatal(err)
		}
		scanner := bufio.NewScanner(f)
		scanner.Buffer(make([]byte, 1024*1024), 1024*1024)
		lineNo, nanLines := 0, 0
		first := ""
		for scanner.Scan() {
			lineNo++
			line := scanner.Text()
			if strings.HasPrefix(filepath.Base(file), "C") && strings.Contains(line, ",K  ,") {
				sawPotato = true
			}
			if strings.Contains(line, "NaN") {
				nanLines++
				if first == "" {
					first = fmt.Sprintf("line %d: %s", lineNo, line)
					if len(first) > 230 {
						first = first[:230] + " ..."
					}
				}
			}
		}
		f.Close()
		if nanLines > 0 {
			t.Errorf("%s: %d of %d lines contain NaN; first: %s", filepath.Base(file), nanLines, lineNo, first)
		}
	}
	if !sawPotato {
		t.Errorf("crop output does not contain a potato (K) harvest line - scenario did not run as intended")
	}
}
