package hermes

import (
	"bufio"
	"fmt"
	"io/fs"
	"os"
	"path/filepath"
	"strconv"
	"strings"
	"testing"
)

// C09 demo: "While a crop is growing ... rooting depth never exceeds the soil profile or the
// soil's root limit."
//
// The shipped MUN example (first line of examples/old_format_mun_batch.txt, plot 00001, soil 001 with
// root depth "Rd" = 09) is run unchanged; only the daily output configuration is replaced by one that
// prints the date, g.WURZ, g.WURZMAX, g.N, the index of the current crop, g.WUMAXPF and the field id.
// The test asserts WURZ <= WURZMAX (and WURZ <= N) on every day on which a crop grows (WURZ > 0: the
// model resets WURZ to 0 at harvest).

const demoC09DailyConf = `FillCharacter: ' '
SeperatorCharacter: ','
NaValue: n.a.
DataColumns:
- Format: '%s'
  DataAlignment: left
  Width: 10
  VariableName: AKTUELL
- Format: '%d'
  DataAlignment: left
  Width: 4
  VariableName: WURZ
- Format: '%d'
  DataAlignment: left
  Width: 4
  VariableName: WURZMAX
- Format: '%d'
  DataAlignment: left
  Width: 4
  VariableName: N
- Format: '%.0f'
  DataAlignment: left
  Width: 4
  VariableName: AKF.Num
- Format: '%.2f'
  DataAlignment: left
  Width: 6
  VariableName: WUMAXPF
- Format: '%s'
  DataAlignment: left
  Width: 12
  VariableName: PKT
`

func demoC09CopyTree(t *testing.T, src, dst string) {
	t.Helper()
	err := filepath.WalkDir(src, func(p string, d fs.DirEntry, err error) error {
		if err != nil {
			return err
		}
		rel, err := filepath.Rel(src, p)
		if err != nil {
			return err
		}
		target := filepath.Join(dst, rel)
		if d.IsDir() {
			return os.MkdirAll(target, 0o755)
		}
		data, err := os.ReadFile(p)
		if err != nil {
			return err
		}
		return os.WriteFile(target, data, 0o644)
	})
	if err != nil {
		t.Fatalf("copy %s -> %s: %v", src, dst, err)
	}
}

func TestDemoC09RootingDepthWithinSoilRootLimit(t *testing.T) {
	examples, err := filepath.Abs(filepath.Join("..", "examples"))
	if err != nil {
		t.Fatal(err)
	}
	root := t.TempDir()
	demoC09CopyTree(t, filepath.Join(examples, "project", "MUN"), filepath.Join(root, "project", "MUN"))
	demoC09CopyTree(t, filepath.Join(examples, "parameter"), filepath.Join(root, "parameter"))
	demoC09CopyTree(t, filepath.Join(examples, "weather", "MUN"), filepath.Join(root, "weather", "MUN"))

	// the only change to the shipped example: the daily output columns
	if err := os.WriteFile(filepath.Join(root, "project", "MUN", "dailyout_conf.yml"), []byte(demoC09DailyConf), 0o644); err != nil {
		t.Fatal(err)
	}

	// shipped batch line for plot 00001, unchanged
	batch, err := os.ReadFile(filepath.Join(examples, "old_format_mun_batch.txt"))
	if err != nil {
		t.Fatal(err)
	}
	batchLine := ""
	for _, l := range strings.Split(string(batch), "\n") {
		l = strings.TrimSpace(l)
		if strings.Contains(l, "project=MUN") && strings.Contains(l, "plotNr=00001") {
			batchLine = l
			break
		}
	}
	if batchLine == "" {
		t.Fatal("no batch line for project MUN plot 00001")
	}
	t.Logf("batch line: %s", batchLine)
	args := strings.Fields(batchLine)

	// resultfolder=MUN_RESULT and ./weather/ are relative to the working directory (like the shipped binary run from examples/)
	oldWd, err := os.Getwd()
	if err != nil {
		t.Fatal(err)
	}
	if err := os.Chdir(root); err != nil {
		t.Fatal(err)
	}
	t.Cleanup(func() { _ = os.Chdir(oldWd) })

	session := NewHermesSession()
	out := make(chan *RunReturn, 1)
	logout := make(chan string, 10000)
	session.Run(root, args, "c09", out, logout)
	res := <-out
	session.Close()
	close(logout)
	for l := range logout {
		if strings.Contains(l, "Error") {
			t.Logf("log: %s", l)
		}
	}
	if !res.Success {
		t.Fatalf("run failed: %v", res.Err)
	}

	// daily output file V<poligonID><plotNr>.<ext> in MUN_RESULT
	matches, _ := filepath.Glob(filepath.Join(root, "MUN_RESULT", "VMUN00001.*"))
	if len(matches) != 1 {
		all, _ := filepath.Glob(filepath.Join(root, "MUN_RESULT", "*"))
		t.Fatalf("daily output not found, result folder holds %v", all)
	}
	f, err := os.Open(matches[0])
	if err != nil {
		t.Fatal(err)
	}
	defer f.Close()

	type day struct {
		date             string
		wurz, wurzmax, n int
		akf              int
		wumaxpf          float64
		pkt              string
	}
	var days []day
	sc := bufio.NewScanner(f)
	for sc.Scan() {
		tok := strings.Fields(sc.Text())
		if len(tok) < 7 {
			continue
		}
		var d day
		d.date = tok[0]
		if d.wurz, err = strconv.Atoi(tok[1]); err != nil {
			t.Fatalf("line %q: %v", sc.Text(), err)
		}
		if d.wurzmax, err = strconv.Atoi(tok[2]); err != nil {
			t.Fatalf("line %q: %v", sc.Text(), err)
		}
		if d.n, err = strconv.Atoi(tok[3]); err != nil {
			t.Fatalf("line %q: %v", sc.Text(), err)
		}
		if d.akf, err = strconv.Atoi(tok[4]); err != nil {
			t.Fatalf("line %q: %v", sc.Text(), err)
		}
		if d.wumaxpf, err = strconv.ParseFloat(tok[5], 64); err != nil {
			t.Fatalf("line %q: %v", sc.Text(), err)
		}
		d.pkt = tok[6]
		days = append(days, d)
	}
	if len(days) < 3000 {
		t.Fatalf("only %d daily lines parsed", len(days))
	}

	// crop codes of the rotation of this field: AKF.Num is the 1-based row of the field in crop_MUN.txt
	var rotation []string
	cropFile, err := os.ReadFile(filepath.Join(root, "project", "MUN", "crop_MUN.txt"))
	if err != nil {
		t.Fatal(err)
	}
	for _, l := range strings.Split(string(cropFile), "\n") {
		tok := strings.Fields(l)
		if len(tok) >= 4 && tok[0] == days[0].pkt {
			rotation = append(rotation, fmt.Sprintf("%s (sown %s, harvest %s)", tok[1], tok[2], tok[3]))
		}
	}
	cropOf := func(akf int) string {
		if akf >= 1 && akf <= len(rotation) {
			return rotation[akf-1]
		}
		return fmt.Sprintf("crop #%d", akf)
	}

	growing, violating, aboveN := 0, 0, 0
	var first *day
	perCrop := map[int]int{}
	maxWurz := 0
	for i := range days {
		d := &days[i]
		if d.wurz <= 0 {
			continue // no crop in the ground
		}
		growing++
		if d.wurz > maxWurz {
			maxWurz = d.wurz
		}
		if d.wurz > d.n {
			aboveN++
		}
		if d.wurz > d.wurzmax {
			violating++
			perCrop[d.akf]++
			if first == nil {
				first = d
			}
		}
	}
	t.Logf("field %s: %d daily lines, %d with a growing crop (WURZ > 0), soil root limit WURZMAX=%d, layers N=%d, max WURZ=%d",
		days[0].pkt, len(days), growing, days[0].wurzmax, days[0].n, maxWurz)
	if aboveN > 0 {
		t.Errorf("rooting depth exceeds the soil profile (N) on %d days", aboveN)
	}
	if violating > 0 {
		t.Errorf("rooting depth exceeds the soil's root limit on %d of %d growing days; first on %s: crop %s, WURZ=%d > WURZMAX=%d (N=%d), WUMAXPF=%.2f (factor WUMAXPF/11=%.3f)",
			violating, growing, first.date, cropOf(first.akf), first.wurz, first.wurzmax, first.n, first.wumaxpf, first.wumaxpf/11)
		for akf := 1; akf <= len(rotation)+1; akf++ {
			if c, ok := perCrop[akf]; ok {
				t.Logf("  crop #%d %s: %d violating days", akf, cropOf(akf), c)
			}
		}
	}
}
