package hermes

import (
	"bufio"
	"os"
	"path/filepath"
	"strings"
	"testing"
)

// A soil table and a measurement table that simply do not have the optional
// columns must read like the fixed-width files without those columns: the
// optional values stay unset.  On the unrepaired tree a column that is absent
// from the header is looked up in a map whose zero value is 0, i.e. the value
// is read from column 0 — the soil id / field id — whenever that id happens to
// be numeric.

func TestFindingC13SoilCSVWithoutOptionalColumns(t *testing.T) {
	dir := t.TempDir()
	file := filepath.Join(dir, "soil.csv")
	csv := "SID,C_org,Texture,LayerDepth,BulkDensityClass,Stone,C/N,C/S,RootDepth,NumberHorizon,DrainageDepth,Drainage%,GroundWaterLevel\n" +
		"075,1.14,SL4,03,2,00,10,00,12,02,20,00,99\n" +
		"075,0.30,SL4,12,3,00,10,00,12,02,20,00,99\n"
	if err := os.WriteFile(file, []byte(csv), 0o644); err != nil {
		t.Fatal(err)
	}
	session := NewHermesSession()
	hp := &HFilePath{bofile: file}
	soil, err := LoadSoilCSV(true, "[t]", hp, "075", session)
	if err != nil {
		t.Fatal(err)
	}
	for i := 0; i < soil.AZHO; i++ {
		if soil.FKA[i] != 0 || soil.WP[i] != 0 || soil.GPV[i] != 0 || soil.SSAND[i] != 0 || soil.SLUF[i] != 0 || soil.TON[i] != 0 {
			t.Errorf("horizon %d: optional values read although the table has no such columns: FC=%v WP=%v PV=%v sand=%v silt=%v clay=%v (the soil id is 075)",
				i+1, soil.FKA[i], soil.WP[i], soil.GPV[i], soil.SSAND[i], soil.SLUF[i], soil.TON[i])
		}
	}
}

func TestFindingC13MeasurementCSVWithoutDeepColumns(t *testing.T) {
	run := func(text string, csv bool) *GlobalVarsMain {
		g := NewGlobalVarsMain()
		g.N = 20
		g.DATEFORMAT = DateDElong
		g.Datum = DateConverter(0, DateDElong)
		for i := 0; i < 21; i++ {
			g.W[i], g.WMIN[i], g.BD[i] = 0.3, 0.1, 1.5
		}
		sc := bufio.NewScanner(strings.NewReader(text))
		if csv {
			ExtractMeasuredDataCSV(sc, &g, "10001", "mem")
		} else {
			ExtractMeasuredDataTxt(sc, &g, "10001", "mem")
		}
		return &g
	}
	txt := "Field  Date     Nm03 Nm36 Nm69 M W0_3  W3_6  W6_9\n" +
		"10001 01101980 0010 0008 0005 1 0.700 0.660 0.666\n"
	csv := "Plot_ID,Date,Nm03,Nm36,Nm69,M,W0_3,W3_6,W6_9\n" +
		"10001,01101980,0010,0008,0005,1,0.700,0.660,0.666\n"
	a, b := run(txt, false), run(csv, true)
	for z := 0; z < 20; z++ {
		if a.CN[0][z] != b.CN[0][z] {
			t.Errorf("layer %d: measured mineral N text %v vs csv %v", z+1, a.CN[0][z], b.CN[0][z])
		}
		if a.WG[2][z] != b.WG[2][z] {
			t.Errorf("layer %d: measured water content text %v vs csv %v", z+1, a.WG[2][z], b.WG[2][z])
		}
	}
}
