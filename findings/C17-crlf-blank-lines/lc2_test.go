package main
import ("strings";"testing";"math/rand";"io")
type chunky struct{ r io.Reader; n int }
func (c chunky) Read(p []byte)(int,error){ if len(p)>c.n {p=p[:c.n]}; return c.r.Read(p) }
func TestLCRandom(t *testing.T){
 rng := rand.New(rand.NewSource(1))
 for it:=0; it<3000; it++ {
  var sb strings.Builder
  nl := "\n"; if rng.Intn(2)==0 { nl="\r\n" }
  n := rng.Intn(12)
  for i:=0;i<n;i++ { l:=rng.Intn(5); if rng.Intn(3)==0 {l=0}; sb.WriteString(strings.Repeat("x",l)); if i<n-1 || rng.Intn(2)==0 { sb.WriteString(nl) } }
  s := sb.String()
  for _, ch := range []int{8,11,16,32768} {
   c,_ := lineCounter(chunky{strings.NewReader(s), ch}); if int(c)!=simLines(s) { t.Fatalf("%q chunk %d: counted %d, simulator sees %d", s, ch, c, simLines(s)) }
  }
 }
}
