package main
import ("strings";"testing";"bufio")
func simLines(s string) int { n:=0; sc:=bufio.NewScanner(strings.NewReader(s)); for sc.Scan(){ if len(sc.Text())>0 {n++}}; return n }
func TestLC(t *testing.T){
 for _, s := range []string{"abc def\r\n\r\nghi jkl\r\n", "abc\n\nghi\n", "abc\r\nxyz\r\n\r\n\r\nq\r\n", "a\r\n\r\n", "\r\nabc\r\n"} {
  c,_ := lineCounter(strings.NewReader(s)); if int(c)!=simLines(s) { t.Errorf("%q: counted %d, simulator sees %d", s, c, simLines(s)) }
 }
}
