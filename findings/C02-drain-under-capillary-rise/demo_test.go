package hermes

// Copy this file into <repo>/hermes/ (package hermes) and run, from inside <repo>/hermes:
//
//	go test -vet=off -count=1 -run Test_DrainLossIsRemovedFromDrainLayer .
//
// Property checked: in every (sub) time step the change of mineral N summed over the profile equals
// the sources minus the losses (here: only the loss to the drain and through the profile bottom, no
// uptake, no mineralisation), i.e. every kg N that nmove books in DRAINLOSS is also taken out of C1.
//
// The test drives one simulated day through the same kernels and in the same order as hermes/run.go:
// Evatra (start-of-day water state, NFK, FLUSS0), the WDT sub-step rule of run.go, then per sub-step
// Water followed by nmove. Nothing of the critical state (Q1, QDRAIN) is set by hand, it is what
// Evatra + Water produce for a drained profile with shallow groundwater on a rainy day.

import (
	"math"
	"testing"
)

func Test_DrainLossIsRemovedFromDrainLayer(t *testing.T) {
	g := NewGlobalVarsMain()
	var wl WaterSharedVars
	var nl NitroSharedVars

	// --- profile: 20 layers of 1 dm, loamy sand (like soil 075 of examples/project/ex3) ---
	g.N = 20
	g.OUTN = 15
	for z := 0; z < g.N; z++ {
		g.W[z], g.WMIN[z], g.PORGES[z] = .22, .12, .43
		if z < 3 {
			g.WMIN[z], g.PORGES[z] = .09, .38
		}
		g.WNOR[z] = g.W[z]
		g.AD[z] = .004
	}
	g.PROP = 0.6
	// capillary rise table of texture SL4 (examples/parameter/PARCAP.TRU)
	g.CAPS = [21]float64{.055, .055, .055, .055, .055, .05, .035, .02, .015, .008, .005, .003, .002, .001, .0008, .0005, .0002}
	// drain pipe in 8 dm, 90 % of the seepage water reaching it goes into the pipe; groundwater in 11 dm
	g.DRAIDEP = 8
	g.DRAIFAK = 0.9
	g.GRW = 11
	setFieldCapacityWithGW(&g) // as Init()/run.go do: layers below the water table hold PORGES

	// --- water content at the end of the previous day (fraction of the available capacity) ---
	// top soil re-wetted by earlier rain, layer 6 still dry (<70 % nFK), wet again towards the groundwater
	for z := 0; z < g.N; z++ {
		frac := 0.95
		switch {
		case z == 5:
			frac = 0.60
		case z > 5:
			frac = 0.85
		}
		g.WG[1][z] = g.WMIN[z] + frac*(g.W[z]-g.WMIN[z])
		if float64(z+1) >= g.GRW {
			g.WG[1][z] = g.W[z] // run.go: water content below the water table = field capacity incl. groundwater
		}
		g.C1[z] = 10 // kg N/ha mineral N per layer
		g.DN[z] = 0  // no mineralisation
		g.PE[z] = 0  // no uptake
	}

	// --- the day: bare soil, 25 mm rain, ET0 1 mm read from the weather file (ETpot method 5) ---
	g.BEGINN = 100
	zeit := 200
	g.SAAT[g.AKF.Index] = 1000 // before sowing -> bare soil branch of Evatra
	g.TAG.SetByIndex(299)
	g.ETMETH = 5
	g.FKB = 0.4
	g.REGEN[g.TAG.Index] = 2.5 // cm
	g.ETNULL[g.TAG.Index] = 1  // mm

	Evatra(&wl, &g, nil, zeit)

	// WDT rule copied from run.go
	ZSR := 1.0
	pri := math.Abs(g.FLUSS0 * g.DZ.Num)
	factor := 1.0
	if 5.0 < pri && pri <= 10.0 {
		factor = 0.5
	} else if 10.0 < pri && pri <= 15.0 {
		factor = 0.25
	} else if pri > 15.0 {
		factor = 0.125
	}
	ZSR = 1 / factor
	FSCS := 0.0
	var FSCSUM [21]float64
	for i := 0; i < g.N; i++ {
		FSCS += (g.W[i] - g.WG[0][i]) * g.DZ.Num
		FSCSUM[i] = FSCS
	}
	for i := 0; i < g.N; i++ {
		if g.REGEN[g.TAG.Index]-FSCSUM[i] > g.W[i]*g.DZ.Num/3 {
			ZSR = math.Max(ZSR, (g.REGEN[g.TAG.Index]-FSCSUM[i])/(g.W[i]*g.DZ.Num/3))
		}
	}
	WDT := 1 / math.Ceil(ZSR)
	steps := int(math.Round(g.DT.Num / WDT))
	if WDT >= g.DT.Num {
		steps, WDT = 1, 1
	}

	sumN := func() float64 {
		s := 0.0
		for z := 0; z < g.N; z++ {
			s += g.C1[z]
		}
		return s
	}

	const tol = 1e-9 // kg N/ha
	dayStart := sumN()
	dayDrain0 := g.DRAINLOSS
	dayBottom := 0.0
	suspectSteps := 0
	failedSteps := 0
	for subd := 1; subd <= steps; subd++ {
		Water(WDT, subd, zeit, &g, &wl)

		before := sumN()
		drain0 := g.DRAINLOSS
		// N leaving through the profile bottom (only with downward flux there), as nmove computes it
		bottom := 0.0
		if g.Q1[g.N] > 0 {
			bottom = g.Q1[g.N] * g.C1[g.N-1] / (g.WG[0][g.N-1] * g.DZ.Num * 100) * 100
		}
		q1Drain, qDrain := g.Q1[g.DRAIDEP], g.QDRAIN
		suspect := qDrain > 0 && q1Drain < 0
		if suspect {
			suspectSteps++
		}

		nmove(WDT, subd, zeit, &g, &nl)

		if g.C1NotStable != "" {
			t.Fatalf("sub-step %d: %s - invalid test state", subd, g.C1NotStable)
		}
		drainN := g.DRAINLOSS - drain0
		dayBottom += bottom
		residual := before - sumN() - drainN - bottom
		t.Logf("sub-step %2d/%d: QDRAIN=%.4f cm  Q1[DRAIDEP]=%+.4f cm  booked drain loss=%.6f  profile lost=%.6f  residual=%+.3e kg N/ha",
			subd, steps, qDrain, q1Drain, drainN, before-sumN(), residual)
		if math.Abs(residual) > tol {
			failedSteps++
			t.Errorf("sub-step %d: mineral-N balance violated: profile lost %.9f kg N/ha but %.9f kg N/ha booked as drain loss (+%.9f through the bottom); QDRAIN=%g, Q1[DRAIDEP]=%g, Q1[DRAIDEP-1]=%g",
				subd, before-sumN(), drainN, bottom, qDrain, q1Drain, g.Q1[g.DRAIDEP-1])
		}
	}
	if suspectSteps == 0 {
		t.Fatalf("state 'drain running (QDRAIN>0) with upward flux below the drain layer (Q1[DRAIDEP]<0)' was not produced by Evatra+Water - test input does not exercise the property")
	}
	dayResidual := dayStart - sumN() - (g.DRAINLOSS - dayDrain0) - dayBottom
	t.Logf("day: %d of %d sub-steps with QDRAIN>0 and Q1[DRAIDEP]<0; drain loss booked %.6f kg N/ha, profile lost %.6f kg N/ha, residual %+.3e",
		suspectSteps, steps, g.DRAINLOSS-dayDrain0, dayStart-sumN(), dayResidual)
	if math.Abs(dayResidual) > tol*float64(steps) {
		t.Errorf("daily mineral-N balance violated by %.9f kg N/ha (%d sub-steps failed)", dayResidual, failedSteps)
	}
}
