package hermes

// C07 demo: N fixation is credited to the crop exactly once per day - and not at all when no crop grows.
//
// Scenario: example project myP, plot 10001 (rotation SOYSM1: soybean 1981, silage maize 1982, ...),
// the 1981 soybean is harvested early (30.06.1981) while it is still fixing N, and
// AutoSowingHarvest=1, so that the following maize has no sowing date (SAAT == 0) until the
// automatic sowing rule fires in spring 1982.
//
// nmove() credits g.SCHNORR (the day's fixation, only refreshed inside PhytoOut) to g.PESUM under
//   subd == 1 && zeit >= SAAT[AKF] && zeit <= ERNTE2[AKF]
// which holds on every fallow day when SAAT[AKF] == 0, although PhytoOut (guarded by SAAT[AKF] > 0)
// does not run: the stale fixation of the last soybean day is credited to PESUM every day.

import (
	"encoding/csv"
	"io"
	"math"
	"os"
	"path/filepath"
	"strconv"
	"strings"
	"testing"
)

const c07DailyOutConf = `FillCharacter: ' '
SeperatorCharacter: ','
NaValue: n.a.
DataColumns:
- Format: '%s'
  DataAlignment: left
  Width: 10
  VariableName: AKTUELL
- Format: '%.9f'
  DataAlignment: left
  Width: 14
  VariableName: PESUM
- Format: '%.9f'
  DataAlignment: left
  Width: 14
  VariableName: NFIXSUM
- Format: '%.9f'
  DataAlignment: left
  Width: 14
  VariableName: SCHNORR
- Format: '%.9f'
  DataAlignment: left
  Width: 14
  VariableName: AUFNASUM
- Format: '%.0f'
  DataAlignment: left
  Width: 3
  VariableName: INTWICK.Num
- Format: '%.0f'
  DataAlignment: left
  Width: 3
  VariableName: AKF.Num
- Format: '%.9f'
  DataAlignment: left
  Width: 14
  VariableName: OBMAS
- Format: '%.9f'
  DataAlignment: left
  Width: 14
  VariableName: WDORG
  VarIndex1: 1
- Format: '%.9f'
  DataAlignment: left
  Width: 14
  VariableName: WDORG
  VarIndex1: 2
Headlines:
  1:
  - ColumnName: Date
    TextAlignment: left
    StartColumn: 1
    EndColumn: 1
  - ColumnName: PESUM
    TextAlignment: left
    StartColumn: 2
    EndColumn: 2
  - ColumnName: NFIXSUM
    TextAlignment: left
    StartColumn: 3
    EndColumn: 3
  - ColumnName: SCHNORR
    TextAlignment: left
    StartColumn: 4
    EndColumn: 4
  - ColumnName: AUFNASUM
    TextAlignment: left
    StartColumn: 5
    EndColumn: 5
  - ColumnName: INTWICK
    TextAlignment: left
    StartColumn: 6
    EndColumn: 6
  - ColumnName: AKF
    TextAlignment: left
    StartColumn: 7
    EndColumn: 7
  - ColumnName: OBMAS
    TextAlignment: left
    StartColumn: 8
    EndColumn: 8
  - ColumnName: WDORG2
    TextAlignment: left
    StartColumn: 9
    EndColumn: 9
  - ColumnName: WDORG3
    TextAlignment: left
    StartColumn: 10
    EndColumn: 10
`

func c07CopyDir(t *testing.T, src, dst string) {
	t.Helper()
	err := filepath.Walk(src, func(p string, info os.FileInfo, err error) error {
		if err != nil {
			return err
		}
		rel, err := filepath.Rel(src, p)
		if err != nil {
			return err
		}
		target := filepath.Join(dst, rel)
		if info.IsDir() {
			return os.MkdirAll(target, 0o755)
		}
		in, err := os.Open(p)
		if err != nil {
			return err
		}
		defer in.Close()
		out, err := os.Create(target)
		if err != nil {
			return err
		}
		defer out.Close()
		_, err = io.Copy(out, in)
		return err
	})
	if err != nil {
		t.Fatal(err)
	}
}

type c07Day struct {
	date                                string
	pesum, nfixsum, schnorr, aufnasum   float64
	intwick, akf, obmas, wdorg2, wdorg3 float64
}

func Test_C07_FixationCreditedOncePerDayAndOnlyWhileCropGrows(t *testing.T) {
	examples, err := filepath.Abs(filepath.Join("..", "examples"))
	if err != nil {
		t.Fatal(err)
	}
	root := t.TempDir()
	c07CopyDir(t, filepath.Join(examples, "parameter"), filepath.Join(root, "parameter"))
	c07CopyDir(t, filepath.Join(examples, "weather", "historical"), filepath.Join(root, "weather", "historical"))
	c07CopyDir(t, filepath.Join(examples, "project", "myP"), filepath.Join(root, "project", "myP"))

	// the 1981 soybean of field SOYSM1 is harvested on 30.06.1981 (date format of the project: mmddyyyy)
	cropFile := filepath.Join(root, "project", "myP", "crop_myP.txt")
	raw, err := os.ReadFile(cropFile)
	if err != nil {
		t.Fatal(err)
	}
	const oldLine = "SOYSM1    SOY 05151981 09311981"
	const newLine = "SOYSM1    SOY 05151981 06301981"
	if !strings.Contains(string(raw), oldLine) {
		t.Fatalf("rotation line %q not found in %s", oldLine, cropFile)
	}
	if err := os.WriteFile(cropFile, []byte(strings.Replace(string(raw), oldLine, newLine, 1)), 0o644); err != nil {
		t.Fatal(err)
	}
	// daily output with the N uptake / fixation bookkeeping
	if err := os.WriteFile(filepath.Join(root, "project", "myP", "dailyout_conf.yml"), []byte(c07DailyOutConf), 0o644); err != nil {
		t.Fatal(err)
	}

	resultDir := filepath.Join(root, "RESULT_c07")
	args := []string{
		"project=myP", "WeatherFolder=historical", "soilId=075", "plotNr=10001",
		"Altitude=73", "Latitude=52.6732", "poligonID=29872",
		"resultfolder=" + resultDir,
		"AutoSowingHarvest=1", // the following crop has SAAT == 0 until the automatic sowing rule fires
		"AutoHarvest=0",       // harvest on the dates of the rotation file
		"ResultFileFormat=1",  // csv
		"OutputIntervall=1",   // daily
		"EndDate=12311982",    // mmddyyyy
	}
	session := NewHermesSession()
	defer session.Close()
	out := make(chan *RunReturn, 1)
	logout := make(chan string, 1024)
	done := make(chan struct{})
	go func() {
		for range logout {
		}
		close(done)
	}()
	session.Run(root, args, "c07", out, logout)
	res := <-out
	close(logout)
	<-done
	if !res.Success {
		t.Fatalf("run failed: %v", res.Err)
	}

	f, err := os.Open(filepath.Join(resultDir, "V2987210001.csv"))
	if err != nil {
		t.Fatal(err)
	}
	defer f.Close()
	r := csv.NewReader(f)
	r.FieldsPerRecord = -1
	records, err := r.ReadAll()
	if err != nil {
		t.Fatal(err)
	}
	var days []c07Day
	for _, rec := range records {
		if len(rec) < 10 {
			continue
		}
		num := make([]float64, 9)
		ok := true
		for i := 0; i < 9; i++ {
			num[i], err = strconv.ParseFloat(strings.TrimSpace(rec[i+1]), 64)
			if err != nil {
				ok = false
				break
			}
		}
		if !ok {
			continue // header
		}
		days = append(days, c07Day{strings.TrimSpace(rec[0]), num[0], num[1], num[2], num[3], num[4], num[5], num[6], num[7], num[8]})
	}
	if len(days) < 700 {
		t.Fatalf("expected two years of daily output, got %d lines", len(days))
	}

	const eps = 1e-6
	var fallowDays, growDays, growDaysExact, fixDays int
	var badFallow, badOnce int
	var firstBadFallow, lastBadFallow string
	var staleCredit, maxPesumFallow, nfixAtHarvest float64
	report := func(format string, a ...interface{}) {
		if badFallow+badOnce <= 12 {
			t.Errorf(format, a...)
		}
	}
	for i := 1; i < len(days); i++ {
		y, d := days[i-1], days[i]
		dPesum := d.pesum - y.pesum
		dFix := d.nfixsum - y.nfixsum
		dUptake := d.aufnasum - y.aufnasum
		switch {
		case y.intwick == 0 && d.intwick == 0:
			// no crop on the field yesterday evening and this evening: a day between a harvest and the next sowing
			fallowDays++
			maxPesumFallow = math.Max(maxPesumFallow, d.pesum)
			if dFix > eps {
				t.Errorf("%s: NFIXSUM grows by %.4f on a day without a crop", d.date, dFix)
			}
			if dPesum > eps {
				badFallow++
				staleCredit += dPesum
				if firstBadFallow == "" {
					firstBadFallow = d.date
				}
				lastBadFallow = d.date
				report("%s: no crop on the field (INTWICK=0, OBMAS=%.1f, AKF=%.0f) but PESUM grows by %.4f kg N/ha (%.4f -> %.4f); NFIXSUM unchanged at %.4f, stale SCHNORR=%.4f",
					d.date, d.obmas, d.akf, dPesum, y.pesum, d.pesum, d.nfixsum, d.schnorr)
			}
		case y.intwick >= 1 && d.intwick >= 1 && d.akf == y.akf:
			// the same crop is growing yesterday and today (neither sowing day nor harvest day)
			growDays++
			if dFix > eps {
				fixDays++
			}
			// PESUM changes by soil uptake (AUFNASUM) + fixation (NFIXSUM) - N in dying leaves/stems: never more than uptake + fixation
			if dPesum > dUptake+dFix+eps {
				badOnce++
				report("%s: PESUM grows by %.6f but soil uptake %.6f + fixation %.6f = %.6f: fixation credited more than once",
					d.date, dPesum, dUptake, dFix, dUptake+dFix)
			}
			// on days without dying organ mass the credit is exact
			if d.wdorg2 == y.wdorg2 && d.wdorg3 == y.wdorg3 {
				growDaysExact++
				if math.Abs(dPesum-dUptake-dFix) > eps {
					badOnce++
					report("%s: PESUM grows by %.6f, expected soil uptake %.6f + fixation %.6f = %.6f (credited exactly once)",
						d.date, dPesum, dUptake, dFix, dUptake+dFix)
				}
			}
		case y.intwick >= 1 && d.intwick == 0:
			// harvest day
			nfixAtHarvest = math.Max(nfixAtHarvest, dFix)
			t.Logf("harvest day %s: fixation on that day %.4f kg N/ha, PESUM %.4f -> %.4f, soil uptake of the day %.4f", d.date, dFix, y.pesum, d.pesum, dUptake)
		case y.intwick == 0 && d.intwick >= 1:
			t.Logf("sowing day %s: PESUM %.4f -> %.4f (fallow days so far %d)", d.date, y.pesum, d.pesum, fallowDays)
		}
	}
	t.Logf("days: fallow %d, growing %d (exact check on %d, fixing on %d); largest fixation on a harvest day %.4f kg N/ha",
		fallowDays, growDays, growDaysExact, fixDays, nfixAtHarvest)
	t.Logf("fallow days with a PESUM increase: %d (%s .. %s), sum of stale credits %.2f kg N/ha, max PESUM on a fallow day %.2f kg N/ha, final NFIXSUM %.2f",
		badFallow, firstBadFallow, lastBadFallow, staleCredit, maxPesumFallow, days[len(days)-1].nfixsum)
	if fallowDays < 200 || fixDays < 10 || growDaysExact < 10 {
		t.Fatalf("scenario not exercised: fallow %d, fixing days %d, exact-check days %d", fallowDays, fixDays, growDaysExact)
	}
	if nfixAtHarvest <= 0 {
		t.Fatalf("scenario not exercised: the soybean is not fixing N on its harvest day")
	}
	if badFallow+badOnce > 0 {
		t.Errorf("%d fallow days with a PESUM increase, %d growing days with a wrong fixation credit", badFallow, badOnce)
	}
}
