// Demo for: a plot number (first column of the polygon file) that the polygon file does not list
// kills the whole batch process (index out of range in Init) instead of failing only its own batch line.
//
// Copy this file to   <worktree>/src/hermes2go/demo_test.go   (package main) and run
//
//	cd <worktree>/src/hermes2go
//	export GOPROXY=off GOSUMDB=off GOTOOLCHAIN=local GOFLAGS= ; unset GOWORK
//	go test -vet=off -count=1 -run Test_UnknownPlotNumberFailsOnlyItsLine .
//
// The test uses the shipped examples (../../examples, copied to t.TempDir()) and runs
// doConcurrentBatchRun in a child process (the test binary re-executes itself), because the
// defect terminates the process.
package main

import (
	"bytes"
	"io/fs"
	"os"
	"os/exec"
	"path/filepath"
	"regexp"
	"sort"
	"strings"
	"testing"

	"github.com/zalf-rpm/Hermes2Go/hermes"
)

const plotDemoChildEnv = "PLOT_DEMO_CHILD_BATCH"

func Test_UnknownPlotNumberFailsOnlyItsLine(t *testing.T) {
	if batchFile := os.Getenv(plotDemoChildEnv); batchFile != "" {
		data, err := os.ReadFile(batchFile)
		if err != nil {
			t.Fatal(err)
		}
		var lines []string
		for _, l := range strings.Split(string(data), "\n") {
			if len(strings.TrimSpace(l)) > 0 {
				lines = append(lines, l)
			}
		}
		session := hermes.NewHermesSession()
		doConcurrentBatchRun(session, filepath.Dir(batchFile), 0, -1, false, lines)
		session.Close()
		return
	}
	examples, err := filepath.Abs(filepath.Join("..", "..", "examples"))
	if err != nil {
		t.Fatal(err)
	}
	work := t.TempDir()
	copyTree(t, examples, work)
	line := func(plot, polID, result string) string {
		return "project=ex3 WeatherFolder=historical soilId=075 fcode=109_120 plotNr=" + plot +
			" Altitude=73 Latitude=52.6732 poligonID=" + polID + " resultfolder=" + result
	}
	refBatch := filepath.Join(work, "ref_batch.txt")
	writeLines(t, refBatch, line("10001", "1", "R/ref"), line("10002", "3", "R/ref"))
	mixBatch := filepath.Join(work, "mix_batch.txt")
	writeLines(t, mixBatch, line("10001", "1", "R/mix"), line("99999", "2", "R/mix"), line("10002", "3", "R/mix"))

	refOut, refErr := runChild(t, refBatch)
	if refErr != nil {
		t.Fatalf("precondition: reference batch (good lines only) did not complete: %v\n%s", refErr, refOut)
	}
	if got := failedLines(refOut); len(got) != 0 {
		t.Fatalf("precondition: reference batch reports failed lines %v\n%s", got, refOut)
	}
	mixOut, mixErr := runChild(t, mixBatch)
	if mixErr != nil {
		t.Errorf("batch process was killed by the line with the unknown plot number: %v\n--- output ---\n%s", mixErr, head(mixOut, 12))
	}
	if got := failedLines(mixOut); len(got) != 1 || got[0] != "[1]" {
		t.Errorf("error summary lists failed lines %v, want exactly [[1]]", got)
	}
	refFiles := listFiles(t, filepath.Join(work, "R", "ref"))
	if len(refFiles) == 0 {
		t.Fatalf("precondition: reference batch wrote no result files")
	}
	for _, name := range refFiles {
		want, _ := os.ReadFile(filepath.Join(work, "R", "ref", name))
		got, err := os.ReadFile(filepath.Join(work, "R", "mix", name))
		if err != nil {
			t.Errorf("result %s of a good line is missing in the mixed batch", name)
			continue
		}
		if !bytes.Equal(want, got) {
			t.Errorf("result %s of a good line differs between mixed batch and reference batch", name)
		}
	}
}

func runChild(t *testing.T, batchFile string) (string, error) {
	t.Helper()
	cmd := exec.Command(os.Args[0], "-test.run=^Test_UnknownPlotNumberFailsOnlyItsLine$", "-test.count=1")
	cmd.Env = append(os.Environ(), plotDemoChildEnv+"="+batchFile)
	cmd.Dir = filepath.Dir(batchFile)
	out, err := cmd.CombinedOutput()
	return string(out), err
}

// failedLines returns the log ids ("[n]") listed after "Error Summary:"
func failedLines(out string) []string {
	var ids []string
	idx := strings.Index(out, "Error Summary:")
	if idx < 0 {
		return []string{"<no error summary printed>"}
	}
	re := regexp.MustCompile(`^(\[\d+\])`)
	for _, l := range strings.Split(out[idx:], "\n") {
		if m := re.FindStringSubmatch(strings.TrimSpace(l)); m != nil {
			ids = append(ids, m[1])
		}
	}
	sort.Strings(ids)
	return ids
}

func head(s string, n int) string {
	lines := strings.Split(strings.TrimRight(s, "\n"), "\n")
	if len(lines) > n {
		lines = lines[:n]
	}
	return strings.Join(lines, "\n")
}

func writeLines(t *testing.T, file string, lines ...string) {
	t.Helper()
	if err := os.WriteFile(file, []byte(strings.Join(lines, "\n")+"\n"), 0o644); err != nil {
		t.Fatal(err)
	}
}

func listFiles(t *testing.T, dir string) []string {
	t.Helper()
	entries, err := os.ReadDir(dir)
	if err != nil {
		t.Fatalf("cannot list %s: %v", dir, err)
	}
	var names []string
	for _, e := range entries {
		if !e.IsDir() {
			names = append(names, e.Name())
		}
	}
	sort.Strings(names)
	return names
}

func copyTree(t *testing.T, src, dst string) {
	t.Helper()
	err := filepath.WalkDir(src, func(p string, d fs.DirEntry, err error) error {
		if err != nil {
			return err
		}
		rel, _ := filepath.Rel(src, p)
		target := filepath.Join(dst, rel)
		if d.IsDir() {
			return os.MkdirAll(target, 0o755)
		}
		data, err := os.ReadFile(p)
		if err != nil {
			return err
		}
		return os.WriteFile(target, data, 0o644)
	})
	if err != nil {
		t.Fatal(err)
	}
}
