package hermes

import (
	"bufio"
	"os"
	"path/filepath"
	"strings"
	"testing"
)

// TestFindingC05YearlyRecordOnConfiguredDate: copy examples/ to a temp dir, run
// one line of the shipped myP batch and require every yearly record to carry
// the configured annual output date (config.yml: AnnualOutputDate "1031").
func TestFindingC05YearlyRecordOnConfiguredDate(t *testing.T) {
	src, _ := filepath.Abs("../examples")
	dst := t.TempDir()
	if err := copyTreeForFinding(src, dst); err != nil {
		t.Fatal(err)
	}
	// result folders are created relative to the process directory
	wd, _ := os.Getwd()
	if err := os.Chdir(dst); err != nil {
		t.Fatal(err)
	}
	defer os.Chdir(wd)
	session := NewHermesSession()
	out := make(chan *RunReturn, 1)
	logs := make(chan string, 100000)
	args := strings.Fields("project=myP WeatherFolder=historical soilId=075 plotNr=10001 Altitude=73 Latitude=52.6732 poligonID=29872 resultfolder=RESULT_f")
	go func() {
		for range logs {
		}
	}()
	go session.Run(dst, args, "[0]", out, logs)
	res := <-out
	if !res.Success {
		t.Fatal(res.String())
	}
	f, err := os.Open(filepath.Join(dst, "RESULT_f", "Y2987210001.csv"))
	if err != nil {
		t.Fatal(err)
	}
	defer f.Close()
	sc := bufio.NewScanner(f)
	n := 0
	for sc.Scan() {
		fields := strings.Fields(sc.Text())
		if len(fields) == 0 || len(fields[0]) != 10 || fields[0][2] != '.' {
			continue
		}
		n++
		if !strings.HasPrefix(fields[0], "10.31.") {
			t.Errorf("yearly record dated %s, configured annual output date is 10.31", fields[0])
		}
	}
	if n < 30 {
		t.Fatalf("only %d yearly records", n)
	}
}

func copyTreeForFinding(src, dst string) error {
	return filepath.Walk(src, func(p string, info os.FileInfo, err error) error {
		if err != nil {
			return err
		}
		rel, _ := filepath.Rel(src, p)
		to := filepath.Join(dst, rel)
		if info.IsDir() {
			return os.MkdirAll(to, 0o755)
		}
		b, err := os.ReadFile(p)
		if err != nil {
			return err
		}
		return os.WriteFile(to, b, 0o644)
	})
}
