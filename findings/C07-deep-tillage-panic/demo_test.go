package hermes

// Demo for: tillage mixing panics for tillage depths >= 45 cm (index out of range on
// g.MINAOS / g.MINFOS, which are [4]float64 while the mixing loops run to mixtief-1).
//
// Copy this file into   <repo>/hermes/   (package hermes) and run, from <repo>/hermes:
//
//	export GOPROXY=off GOSUMDB=off GOTOOLCHAIN=local GOFLAGS= ; unset GOWORK
//	go test -vet=off -count=1 -run 'TestTillageMixingDeepTillage' .
//
// The test calls the kernel hermes.Nitro on the day after a mixing tillage event (TILART = 1)
// of a given depth. Mineralisation (IZM = 0) and N transport (N = 0) are switched off so
// that the tillage block is the only thing that changes the pools. It then checks the
// property itself for every mixed pool (C1, NAOS, NFOS, MINAOS, MINFOS):
//   - the call returns (no panic, no error),
//   - the total of the pool is preserved,
//   - all tilled layers the pool has carry the same value (the average),
//   - layers below the tilled depth are untouched.
// On the unchanged tree the depths 45, 50 and 100 cm fail with
// "runtime error: index out of range [4] with length 4".

import (
	"fmt"
	"math"
	"testing"
)

func TestTillageMixingDeepTillage(t *testing.T) {

	const eps = 1e-9

	type pool struct {
		name   string
		before []float64
		after  []float64
	}

	runOne := func(depthCm float64) (pools []pool, tilled int, err error) {
		g := NewGlobalVarsMain() // DZ = 10 cm
		g.Kalender = KalenderConverter(DateDEshort, ".")
		g.IZM = 0 // no mineralisation layers -> mineral() does nothing
		g.N = 0   // no transport layers      -> nmove() does nothing
		g.EINTE[1] = 40000
		g.EINT[0] = depthCm
		g.TILART[0] = 1 // mixing tillage
		zeit := g.EINTE[1] + 1

		// distinct contents in every layer
		for z := range g.C1 {
			g.C1[z] = 10 + float64(z)
			g.NAOS[z] = 100 + 3*float64(z)
			g.NFOS[z] = 50 + 2*float64(z)
		}
		for z := range g.MINAOS {
			g.MINAOS[z] = 7 + 5*float64(z)
		}
		for z := range g.MINFOS {
			g.MINFOS[z] = 3 + 4*float64(z)
		}
		snapshot := func() [][]float64 {
			return [][]float64{
				append([]float64(nil), g.C1[:]...),
				append([]float64(nil), g.NAOS[:]...),
				append([]float64(nil), g.NFOS[:]...),
				append([]float64(nil), g.MINAOS[:]...),
				append([]float64(nil), g.MINFOS[:]...),
			}
		}
		names := []string{"C1", "NAOS", "NFOS", "MINAOS", "MINFOS"}
		before := snapshot()

		func() {
			defer func() {
				if r := recover(); r != nil {
					err = fmt.Errorf("Nitro panicked: %v", r)
				}
			}()
			var l NitroSharedVars
			var ln NitroBBBSharedVars
			var hPath HFilePath
			var out CropOutputVars
			_, runErr := Nitro(1, 1, zeit, &g, &l, &ln, &hPath, &out)
			if runErr != nil {
				err = fmt.Errorf("Nitro returned error: %v", runErr)
			}
		}()
		if err != nil {
			return nil, 0, err
		}
		if g.NTIL.Index != 1 {
			return nil, 0, fmt.Errorf("tillage event was not processed (NTIL index %d)", g.NTIL.Index)
		}
		after := snapshot()
		for i := range names {
			pools = append(pools, pool{names[i], before[i], after[i]})
		}
		return pools, int(math.Round(depthCm / g.DZ.Num)), nil
	}

	for _, depth := range []float64{30, 40, 44, 45, 50, 100} {
		pools, tilled, err := runOne(depth)
		if err != nil {
			t.Errorf("tillage depth %v cm: %v", depth, err)
			continue
		}
		for _, p := range pools {
			sumBefore, sumAfter := 0.0, 0.0
			for z := range p.before {
				sumBefore += p.before[z]
				sumAfter += p.after[z]
			}
			if math.Abs(sumBefore-sumAfter) > eps*math.Max(1, math.Abs(sumBefore)) {
				t.Errorf("tillage depth %v cm: %s total not preserved: before %v after %v", depth, p.name, sumBefore, sumAfter)
			}
			n := tilled
			if n > len(p.after) {
				n = len(p.after)
			}
			for z := 1; z < n; z++ {
				if math.Abs(p.after[z]-p.after[0]) > eps {
					t.Errorf("tillage depth %v cm: %s not averaged: layer %d = %v, layer 1 = %v", depth, p.name, z+1, p.after[z], p.after[0])
				}
			}
			for z := n; z < len(p.after); z++ {
				if p.after[z] != p.before[z] {
					t.Errorf("tillage depth %v cm: %s layer %d below tilled depth changed: %v -> %v", depth, p.name, z+1, p.before[z], p.after[z])
				}
			}
		}
	}
}
