package hermes

import (
	"bufio"
	"os"
	"path/filepath"
	"strconv"
	"strings"
	"sync"
	"testing"
	"time"
)

// in-memory result writer, keeps the daily output of the run
type c07n2oMemOut struct {
	mu  *sync.Mutex
	buf *strings.Builder
}

func (m c07n2oMemOut) Write(s string) (int, error) {
	m.mu.Lock()
	defer m.mu.Unlock()
	return m.buf.WriteString(s)
}
func (m c07n2oMemOut) WriteBytes(b []byte) (int, error) {
	m.mu.Lock()
	defer m.mu.Unlock()
	return m.buf.Write(b)
}
func (m c07n2oMemOut) WriteRune(r rune) (int, error) {
	m.mu.Lock()
	defer m.mu.Unlock()
	return m.buf.WriteRune(r)
}
func (m c07n2oMemOut) WriteError(err error) (int, error) {
	m.mu.Lock()
	defer m.mu.Unlock()
	return m.buf.WriteString(err.Error())
}
func (m c07n2oMemOut) Close() {}

func c07n2oCopyDir(t *testing.T, src, dst string) {
	t.Helper()
	entries, err := os.ReadDir(src)
	if err != nil {
		t.Fatal(err)
	}
	if err := os.MkdirAll(dst, 0o755); err != nil {
		t.Fatal(err)
	}
	for _, e := range entries {
		if e.IsDir() {
			continue
		}
		data, err := os.ReadFile(filepath.Join(src, e.Name()))
		if err != nil {
			t.Fatal(err)
		}
		if err := os.WriteFile(filepath.Join(dst, e.Name()), data, 0o644); err != nil {
			t.Fatal(err)
		}
	}
}

// TestC07DenitrificationN2ONeverNegative runs the shipped example project ex1 on its clay-loam soil 037
// (texture TL, bulk density class 1) with the hydraulic parameters taken from the texture table
// (field capacity 57 Vol%, pore volume 62 Vol%) and checks the daily and the cumulative N2O loss from
// denitrification on every day (copy to hermes/demo_test.go;
// go test -vet=off -count=1 -run TestC07DenitrificationN2ONeverNegative .)
func TestC07DenitrificationN2ONeverNegative(t *testing.T) {
	examples, err := filepath.Abs(filepath.Join("..", "examples"))
	if err != nil {
		t.Fatal(err)
	}
	root := t.TempDir()
	projDir := filepath.Join(root, "project", "ex1")
	c07n2oCopyDir(t, filepath.Join(examples, "project", "ex1"), projDir)
	if err := os.Symlink(filepath.Join(examples, "parameter"), filepath.Join(root, "parameter")); err != nil {
		t.Fatal(err)
	}
	if err := os.Symlink(filepath.Join(examples, "weather"), filepath.Join(root, "weather")); err != nil {
		t.Fatal(err)
	}
	// soil 037: no explicit field capacity / wilting point / pore volume, the texture table decides
	soilFile := filepath.Join(projDir, "soil_ex1.txt")
	soilData, err := os.ReadFile(soilFile)
	if err != nil {
		t.Fatal(err)
	}
	lines := strings.Split(string(soilData), "\n")
	changed := 0
	for i, l := range lines {
		if strings.HasPrefix(l, "037 ") && len(l) > 50 {
			lines[i] = l[:40] + "00 00 00" + l[48:]
			changed++
		}
	}
	if changed != 2 {
		t.Fatalf("precondition: expected two horizons of soil 037, found %d", changed)
	}
	if err := os.WriteFile(soilFile, []byte(strings.Join(lines, "\n")), 0o644); err != nil {
		t.Fatal(err)
	}
	var dailyConf strings.Builder
	dailyConf.WriteString("FillCharacter: ' '\nSeperatorCharacter: ','\nNaValue: n.a.\nDataColumns:\n")
	dailyConf.WriteString("- Format: '%s'\n  DataAlignment: left\n  Width: 10\n  VariableName: AKTUELL\n")
	vars := []string{"N2OdenDaily", "N2Odencum", "CUMDENIT"}
	for _, v := range vars {
		dailyConf.WriteString("- Format: '%.9f'\n  DataAlignment: left\n  Width: 16\n  VariableName: " + v + "\n")
	}
	dailyConf.WriteString("Headlines:\n  1:\n  - ColumnName: Date\n")
	for _, v := range vars {
		dailyConf.WriteString("  - ColumnName: " + v + "\n")
	}
	if err := os.WriteFile(filepath.Join(projDir, "dailyout_conf.yml"), []byte(dailyConf.String()), 0o644); err != nil {
		t.Fatal(err)
	}
	session := NewHermesSession()
	var mu sync.Mutex
	outputs := make(map[string]*strings.Builder)
	session.HermesOutWriter = func(p string, _ bool) (OutWriter, error) {
		mu.Lock()
		defer mu.Unlock()
		b := &strings.Builder{}
		outputs[filepath.Base(p)] = b
		return c07n2oMemOut{mu: &mu, buf: b}, nil
	}
	args := strings.Fields("project=ex1 WeatherFolder=historical soilId=037 fcode=109_120 plotNr=10001 Altitude=73 Latitude=52.6732 poligonID=29872 EndDate=12311982 ResultFileFormat=1")
	resultChan := make(chan *RunReturn, 1)
	logChan := make(chan string, 1000)
	go session.Run(root, args, "C07", resultChan, logChan)
	var result *RunReturn
	select {
	case result = <-resultChan:
	case <-time.After(50 * time.Second):
		t.Fatal("run timed out")
	}
	if !result.Success {
		t.Fatalf("run ended with an error: %v", result.Err)
	}
	var daily string
	for name, b := range outputs {
		if strings.HasPrefix(name, "V") {
			daily = b.String()
		}
	}
	days, negDaily, negCum := 0, 0, 0
	first := ""
	scanner := bufio.NewScanner(strings.NewReader(daily))
	for scanner.Scan() {
		tok := strings.Split(scanner.Text(), ",")
		if len(tok) < 4 {
			continue
		}
		if _, err := time.Parse("01.02.2006", strings.TrimSpace(tok[0])); err != nil {
			continue
		}
		d, err1 := strconv.ParseFloat(strings.TrimSpace(tok[1]), 64)
		c, err2 := strconv.ParseFloat(strings.TrimSpace(tok[2]), 64)
		if err1 != nil || err2 != nil {
			t.Fatalf("daily output %q", scanner.Text())
		}
		days++
		if d < 0 {
			negDaily++
			if first == "" {
				first = scanner.Text()
			}
		}
		if c < 0 {
			negCum++
		}
	}
	t.Logf("%d days, N2O loss negative on %d, cumulative counter negative on %d", days, negDaily, negCum)
	if days < 700 {
		t.Fatalf("expected more than 700 simulated days, found %d", days)
	}
	if negDaily > 0 || negCum > 0 {
		t.Errorf("N2O loss from denitrification negative on %d of %d days, cumulative counter negative on %d days; first: %s", negDaily, days, negCum, first)
	}
}
