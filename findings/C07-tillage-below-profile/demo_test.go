package hermes

// Demonstration: tillage mixing in Nitro() is not limited to the soil profile.
//
// Copy this file into   <repo>/hermes/   and run (from inside <repo>/hermes):
//
//	go test -vet=off -count=1 -run Test_TillageMixingStaysInsideProfile .
//
// Property checked (no magic numbers):
//   - the tillage mixing only redistributes the pools inside the soil profile (layers 1..N),
//     so on the day after a tillage event the sums over the profile obey
//     sum(NAOS+MINAOS), sum(NFOS+MINFOS) unchanged (mineralisation only moves NAOS->MINAOS, NFOS->MINFOS)
//     sum(C1) after - sum(C1) before = sum(DN)*wdt   (no water flux, no uptake, no fertiliser, no leaching)
//   - layers below the profile (index >= N) are not part of the simulated soil and must not receive anything.
//
// The state is a constructed one-day kernel state: N soil layers of 10 cm, no water movement,
// no crop, no fertiliser, a type-1 (mixing) tillage that was scheduled for yesterday.
// Cases with a profile at least as deep as the tillage are controls that pass on the unchanged tree.

import (
	"fmt"
	"math"
	"testing"
)

func Test_TillageMixingStaysInsideProfile(t *testing.T) {

	type tcase struct {
		name     string
		layers   int     // number of 10 cm layers of the soil profile (g.N)
		tillDept float64 // tillage depth in cm
	}
	cases := []tcase{
		{"control: 3-layer soil, 30 cm tillage", 3, 30},
		{"control: 2-layer soil, 20 cm tillage", 2, 20},
		{"control: 20-layer soil, 30 cm tillage", 20, 30},
		{"2-layer soil, 30 cm tillage", 2, 30},
		{"3-layer soil (like soils 343/380 of examples ex1), 40 cm tillage", 3, 40},
	}

	const zeit = 30000 // some day
	const wdt = 1.0
	const subd = 1

	for _, tc := range cases {
		g := NewGlobalVarsMain()
		g.Kalender = KalenderConverter(DateDEshort, ".")
		g.N = tc.layers
		// same limitation as in Input()/Hydro(): mineralisation depth is limited to the profile
		g.IZM = 30
		if g.IZM/g.DZ.Index > g.N {
			g.IZM = g.N * g.DZ.Index
		}
		g.OUTN = g.N  // leaching is accounted at the lower boundary of the profile
		g.DRAIDEP = 0 // no drain
		g.AUTOFERT = false
		// tillage (first and only entry of the tillage file) was yesterday
		g.EINTE[0] = zeit - 1
		g.EINTE[1] = zeit - 1
		g.EINT[0] = tc.tillDept
		g.TILART[0] = 1
		// no crop, no harvest, no fertiliser today
		g.SAAT[0], g.ERNTE[0], g.ERNTE2[0] = 0, 0, 0
		g.ZTDG[0] = 0

		// soil: a loamy sand, moist but below field capacity, 8 degree C, no water flux
		for z := 0; z <= 20; z++ {
			g.TD[z] = 8
		}
		for z := 0; z < g.N; z++ {
			g.W[z] = 0.30
			g.WNOR[z] = 0.30
			g.WMIN[z] = 0.16
			g.PORGES[z] = 0.47
			g.WG[0][z] = 0.25
			g.AD[z] = 0.005
			// pools of the profile: typical decreasing profile
			g.C1[z] = 20 / float64(z+1)
			g.NAOS[z] = 400 / float64(z+1)
			g.NFOS[z] = 30 / float64(z+1)
			g.MINAOS[z] = 3
			g.MINFOS[z] = 2
		}
		g.WRED = 0.2
		// layers below the profile carry nothing and have no soil properties (they are never loaded)

		profileSum := func(arr []float64) (sum float64) {
			for z := 0; z < g.N; z++ {
				sum += arr[z]
			}
			return sum
		}
		belowSum := func(arr []float64) (sum float64) {
			for z := g.N; z < len(arr); z++ {
				sum += math.Abs(arr[z])
			}
			return sum
		}
		slowBefore := profileSum(g.NAOS[:]) + profileSum(g.MINAOS[:])
		fastBefore := profileSum(g.NFOS[:]) + profileSum(g.MINFOS[:])
		nminBefore := profileSum(g.C1[:])
		belowBefore := belowSum(g.C1[:]) + belowSum(g.NAOS[:]) + belowSum(g.NFOS[:]) + belowSum(g.MINAOS[:]) + belowSum(g.MINFOS[:])

		var l NitroSharedVars
		var ln NitroBBBSharedVars
		var hPath HFilePath
		var out CropOutputVars
		if _, err := Nitro(wdt, subd, zeit, &g, &l, &ln, &hPath, &out); err != nil {
			t.Fatalf("%s: Nitro failed: %v", tc.name, err)
		}
		if g.NTIL.Index != 1 {
			t.Fatalf("%s: tillage event was not executed (test setup broken)", tc.name)
		}

		slowAfter := profileSum(g.NAOS[:]) + profileSum(g.MINAOS[:])
		fastAfter := profileSum(g.NFOS[:]) + profileSum(g.MINFOS[:])
		nminAfter := profileSum(g.C1[:])
		source := profileSum(g.DN[:]) * wdt
		belowAfter := belowSum(g.C1[:]) + belowSum(g.NAOS[:]) + belowSum(g.NFOS[:]) + belowSum(g.MINAOS[:]) + belowSum(g.MINFOS[:])

		const eps = 1e-8
		msg := ""
		if d := slowAfter - slowBefore; math.Abs(d) > eps {
			msg += fmt.Sprintf("\n   slow organic N pool (NAOS+MINAOS) of the profile changed by %+.4f kg N/ha (%.4f -> %.4f)", d, slowBefore, slowAfter)
		}
		if d := fastAfter - fastBefore; math.Abs(d) > eps {
			msg += fmt.Sprintf("\n   fast organic N pool (NFOS+MINFOS) of the profile changed by %+.4f kg N/ha (%.4f -> %.4f)", d, fastBefore, fastAfter)
		}
		if d := (nminAfter - nminBefore) - source; math.Abs(d) > eps {
			msg += fmt.Sprintf("\n   mineral N balance of the profile: change %+.4f, source (mineralisation) %+.4f, residual %+.4f kg N/ha", nminAfter-nminBefore, source, d)
		}
		if d := belowAfter - belowBefore; math.Abs(d) > eps {
			msg += fmt.Sprintf("\n   %.4f kg N/ha were put into layers below the %d-layer profile", d, g.N)
		}
		if msg != "" {
			t.Errorf("%s: tillage mixing does not preserve the pools of the soil profile:%s", tc.name, msg)
		} else {
			t.Logf("%s: ok (mineral N change %+.6f = source %+.6f)", tc.name, nminAfter-nminBefore, source)
		}
	}
}
