package hermes

import (
	"math"
	"testing"
)

type demoWeather struct {
	name                         string
	doy                          int // 1 based day of year
	lat                          float64
	temp, tmin, tmax             float64
	rh, wind                     float64
	par                          float64 // photosynthetic active radiation (MJ m-2), 0 = missing
	sund                         float64 // sunshine hours
	satDefHaude                  float64 // saturation deficit 14:00 (Haude)
	etRefFile                    float64 // reference ET delivered by weather file (mm)
	kc, haudeFactor, lai, wetFrc float64
}

// demoETDay sets up one day on a moist loam profile, cropped (crop=true) or bare
func demoETDay(w demoWeather, method int, crop bool) (*GlobalVarsMain, *WaterSharedVars, int) {
	g := NewGlobalVarsMain()
	l := &WaterSharedVars{}
	g.N = 20
	g.OUTN = 20
	fc, pwp, pore := 0.32, 0.12, 0.44
	for i := 0; i < g.N; i++ {
		g.W[i] = fc
		g.WNOR[i] = fc
		g.WMIN[i] = pwp
		g.PORGES[i] = pore
		g.WG[0][i] = pwp + w.wetFrc*(fc-pwp)
		g.WG[1][i] = g.WG[0][i]
	}
	g.WG[0][g.N] = g.WG[0][g.N-1]
	g.WG[1][g.N] = g.WG[0][g.N-1]
	for i := range g.LUKRIT {
		g.LUKRIT[i] = 0.02
	}
	g.PROP = 2
	g.GRW = 99
	g.BEGINN = 1
	zeit := 500
	if crop {
		g.SAAT[0] = 400
	} else {
		g.SAAT[0] = 550
	}
	g.ERNTE[0] = 600
	g.ERNTE2[0] = 600
	g.INTWICK.SetByIndex(3)
	g.TAG.SetByIndex(w.doy - 1)
	g.ETMETH = method
	g.LAT = w.lat
	g.ALTI = 60
	g.KCOA = 1
	g.CO2KONZ = 400
	g.CO2METH = 2
	g.MINTMP = 4
	g.FKC = w.kc
	g.FKB = w.kc
	for i := range g.FKF {
		g.FKF[i] = w.haudeFactor
		g.FKU[i] = w.haudeFactor
	}
	idx := g.TAG.Index
	g.TEMP[idx], g.TMIN[idx], g.TMAX[idx] = w.temp, w.tmin, w.tmax
	g.RH[idx], g.WIND[idx] = w.rh, w.wind
	g.RAD[idx], g.SUND[idx] = w.par, w.sund
	g.VERD[idx] = w.satDefHaude
	g.ETNULL[idx] = w.etRefFile
	g.LAI = w.lai
	g.WURZ = 9
	for i := 0; i < g.WURZ; i++ {
		g.WUDICH[i] = 2.0 * math.Exp(-0.3*float64(i))
	}
	return &g, l, zeit
}

// Potential and actual ET must not be negative for any of the five ET methods and any weather
// (C08: "all are non-negative ... for all five ET methods, all weather").
//   - Turc-Wendling (method 2): the factor (T + 22) is negative for a daily mean below -22 degC
//   - Haude (method 1) / reference ET from the weather file (method 5): a negative input value
//     (e.g. a missing-value sentinel that survived) is passed through
func TestPotentialETNotNegativeOnVeryColdDay(t *testing.T) {
	days := []demoWeather{
		{name: "continental cold spell, radiation measured", doy: 20, lat: 52.5, temp: -30, tmin: -36, tmax: -25, rh: 80, wind: 2, par: 1.5, sund: 3, satDefHaude: 0.1, etRefFile: 0.0},
		{name: "continental cold spell, radiation missing", doy: 20, lat: 52.5, temp: -30, tmin: -36, tmax: -25, rh: 80, wind: 2, par: 0, sund: 3, satDefHaude: 0.1, etRefFile: 0.0},
	}
	for _, d := range days {
		for _, crop := range []bool{true, false} {
			for method := 1; method <= 5; method++ {
				w := d
				w.kc, w.haudeFactor, w.lai, w.wetFrc = 1.0, 0.3, 2, 0.6
				g, l, zeit := demoETDay(w, method, crop)
				Evatra(l, g, nil, zeit)
				tra := 0.0
				for i := 0; i < g.N; i++ {
					tra += g.TP[i]
				}
				if !(g.VERDUNST >= 0) || !(g.ETA >= 0) || !(tra >= 0) || math.IsNaN(g.VERDUNST) {
					t.Errorf("%s, ET method %d, crop=%v: potential ET %.4f cm, actual evaporation %.4f cm, uptake %.4f cm", d.name, method, crop, g.VERDUNST, g.ETA, tra)
				}
			}
		}
	}
}
