package hermes

import (
	"fmt"
	"math"
	"os"
	"path/filepath"
	"strconv"
	"strings"
	"testing"
)

// TestC15GroundwaterSeriesStartsOnPlateau
//
// Property C15 (clause "below the groundwater table field capacity equals pore volume"):
// on every simulated day every 10 cm layer that lies completely below the groundwater
// table the simulation uses (GRW) must have W == PORGES, and the general ordering
// 0 < WMIN < W <= PORGES < 1 must hold.
//
// The groundwater comes from a measured time series which starts some months before the
// simulation and sits on a plateau (level 8 dm) around the first simulated day, while the
// first record of the series is a deeper level (15 dm).
func TestFindingC15SameLevelSameParameters(t *testing.T) {
	const nLayers = 20
	exDir, err := filepath.Abs(filepath.Join("..", "examples"))
	if err != nil {
		t.Fatal(err)
	}
	root := t.TempDir()
	c15CopyDir(t, filepath.Join(exDir, "parameter"), filepath.Join(root, "parameter"))
	proj := filepath.Join(root, "project", "c15")
	if err := os.MkdirAll(proj, 0o755); err != nil {
		t.Fatal(err)
	}
	ex3 := filepath.Join(exDir, "project", "ex3")
	for src, dst := range map[string]string{
		"crop_ex3.txt":       "crop_c15.txt",
		"fert_ex3.txt":       "fert_c15.txt",
		"irr_ex3.txt":        "irr_c15.txt",
		"til_ex3.txt":        "til_c15.txt",
		"automan.txt":        "automan.txt",
		"endit_ex3.csv":      "endit_c15.csv",
		"yearlyout_conf.yml": "yearlyout_conf.yml",
		"cropout_conf.yml":   "cropout_conf.yml",
	} {
		c15CopyFile(t, filepath.Join(ex3, src), filepath.Join(proj, dst))
	}

	// configuration of example ex3 (groundwater from time series, explicit soil values), ending 1981
	cfgBytes, err := os.ReadFile(filepath.Join(ex3, "config.yml"))
	if err != nil {
		t.Fatal(err)
	}
	cfg := string(cfgBytes)
	cfg = c15ReplaceLine(t, cfg, "WeatherRootFolder:", "WeatherRootFolder: \""+filepath.ToSlash(filepath.Join(exDir, "weather"))+"\"")
	cfg = c15ReplaceLine(t, cfg, "EndDate:", "EndDate: \"12311981\"")
	cfg = c15ReplaceLine(t, cfg, "ManagementEvents:", "ManagementEvents: 0")
	if !strings.Contains(cfg, "GroundWaterFrom: gwTimeSeries") {
		t.Fatal("example ex3 is expected to read the groundwater from a time series")
	}
	c15Write(t, filepath.Join(proj, "config.yml"), cfg)

	c15Write(t, filepath.Join(proj, "poly_c15.txt"),
		"Polyg SID  Field_ID  GH GL Ir comment\n"+
			"10001 075 SOYSM1    10 30 0 soy_maize\n"+
			"end\n")
	// one soil of example ex3 (explicit values with WP < FC <= PS)
	c15Write(t, filepath.Join(proj, "soil_c15.csv"),
		"SID,C_org,Texture,LayerDepth,BulkDensityClass,Stone,C/N,C/S,RootDepth,NumberHorizon,FieldCapacity,WiltingPoint,PoreVolume,Sand,Silt,Clay,DrainageDepth,Drainage%,GroundWaterLevel\n"+
			"075,1.14,ULS,03,2,00,10,00,12,02,31,16,45,26,63,11,20,00,99\n"+
			"075,0.40,ULS,20,2,00,10,00,,,29,19,44,26,63,11,20,00,   \n")
	// measured groundwater levels (dm below surface): the record starts in June 1980, the table is
	// on a plateau at 8 dm from September until November 1980 (the simulation starts on
	// 1 October 1980, the date of the initial values of example ex3) and moves afterwards
	// the table stands at 12.0 dm from before the start until the end of November 1980, falls to 14 dm and is back
	// at exactly 12.0 dm from February 1981 on
	c15Write(t, filepath.Join(proj, "gw_c15.csv"),
		"SID,DATE,Level\n"+
			"075,06011980,12\n"+
			"075,11301980,12\n"+
			"075,12311980,14\n"+
			"075,02011981,12\n"+
			"075,01011982,12\n")

	// daily output: date, groundwater level, threshold and the parameters per layer
	var conf strings.Builder
	conf.WriteString("FillCharacter: ' '\nSeperatorCharacter: ','\nNaValue: n.a.\nDataColumns:\n")
	conf.WriteString("- Format: '%s'\n  VariableName: AKTUELL\n")
	conf.WriteString("- Format: '%.12f'\n  VariableName: GRW\n")
	conf.WriteString("- Format: '%.12f'\n  VariableName: WRED\n")
	for _, name := range []string{"W", "WMIN", "PORGES"} {
		for i := 0; i < nLayers; i++ {
			conf.WriteString(fmt.Sprintf("- Format: '%%.12f'\n  VariableName: %s\n  VarIndex1: %d\n", name, i))
		}
	}
	conf.WriteString("Headlines:\n  1:\n  - ColumnName: Date\n  - ColumnName: GRW\n  - ColumnName: WRED\n")
	for _, name := range []string{"W", "WMIN", "PORGES"} {
		for i := 0; i < nLayers; i++ {
			conf.WriteString(fmt.Sprintf("  - ColumnName: %s%d\n", name, i+1))
		}
	}
	c15Write(t, filepath.Join(proj, "dailyout_conf.yml"), conf.String())

	resultDir := filepath.Join(root, "result")
	session := NewHermesSession()
	out := make(chan *RunReturn, 1)
	logout := make(chan string, 100000)
	session.Run(root, []string{
		"project=c15", "WeatherFolder=historical", "soilId=075", "fcode=109_120", "plotNr=10001",
		"Altitude=73", "Latitude=52.6732", "poligonID=29872", "resultfolder=" + filepath.ToSlash(resultDir),
	}, "c15", out, logout)
	res := <-out
	session.Close()
	if !res.Success {
		t.Fatalf("simulation failed: %v", res.Err)
	}

	data, err := os.ReadFile(filepath.Join(resultDir, "V2987210001.csv"))
	if err != nil {
		t.Fatal(err)
	}
	lines := strings.Split(strings.TrimSpace(string(data)), "\n")
	type params struct {
		date string
		w    [nLayers]float64
	}
	first := map[string]params{}
	violations := 0
	for _, line := range lines[1:] {
		tok := strings.Split(line, ",")
		if len(tok) != 3+3*nLayers {
			t.Fatalf("unexpected record: %s", line)
		}
		level := strings.TrimSpace(tok[1])
		var cur params
		cur.date = strings.TrimSpace(tok[0])
		for l := 0; l < nLayers; l++ {
			v, err := strconv.ParseFloat(strings.TrimSpace(tok[3+l]), 64)
			if err != nil {
				t.Fatal(err)
			}
			cur.w[l] = v
		}
		if ref, seen := first[level]; !seen {
			first[level] = cur
		} else {
			for l := 0; l < nLayers; l++ {
				if math.Abs(ref.w[l]-cur.w[l]) > 1e-12 {
					violations++
					if violations <= 5 {
						t.Errorf("groundwater table at %s dm on %s and on %s: field capacity of layer %d is %.4f and %.4f", level, ref.date, cur.date, l+1, ref.w[l], cur.w[l])
					}
				}
			}
		}
	}
	if violations > 0 {
		t.Errorf("%d layer-days whose field capacity differs from an earlier day with the same groundwater level", violations)
	}
}

func c15ReplaceLine(t *testing.T, text, prefix, replacement string) string {
	t.Helper()
	lines := strings.Split(text, "\n")
	found := false
	for i, line := range lines {
		if strings.HasPrefix(line, prefix) {
			lines[i] = replacement
			found = true
		}
	}
	if !found {
		t.Fatalf("no line starting with %q in configuration", prefix)
	}
	return strings.Join(lines, "\n")
}

func c15Write(t *testing.T, path, content string) {
	t.Helper()
	if err := os.WriteFile(path, []byte(content), 0o644); err != nil {
		t.Fatal(err)
	}
}

func c15CopyFile(t *testing.T, src, dst string) {
	t.Helper()
	data, err := os.ReadFile(src)
	if err != nil {
		t.Fatal(err)
	}
	if err := os.WriteFile(dst, data, 0o644); err != nil {
		t.Fatal(err)
	}
}

func c15CopyDir(t *testing.T, src, dst string) {
	t.Helper()
	if err := os.MkdirAll(dst, 0o755); err != nil {
		t.Fatal(err)
	}
	entries, err := os.ReadDir(src)
	if err != nil {
		t.Fatal(err)
	}
	for _, e := range entries {
		if e.IsDir() {
			continue
		}
		c15CopyFile(t, filepath.Join(src, e.Name()), filepath.Join(dst, e.Name()))
	}
}
