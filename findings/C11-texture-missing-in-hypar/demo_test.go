// Demo for: a soil texture that is listed in PARCAP.TRU but not in HYPAR.TRU
// kills the whole batch process instead of failing only its own batch line.
//
// Copy this file to   <worktree>/src/hermes2go/demo_test.go   (package main) and run
//
//	cd <worktree>/src/hermes2go
//	export GOPROXY=off GOSUMDB=off GOTOOLCHAIN=local GOFLAGS= ; unset GOWORK
//	go test -vet=off -count=1 -run Test_HyparMissingTextureFailsOnlyItsLine .
//
// The test uses the shipped examples (../../examples, copied to t.TempDir()).
// It runs doConcurrentBatchRun in a child process (the test binary re-executes
// itself), because the defect terminates the process (panic / log.Fatal).
package main

import (
	"bytes"
	"io/fs"
	"os"
	"os/exec"
	"path/filepath"
	"regexp"
	"sort"
	"strings"
	"testing"

	"github.com/zalf-rpm/Hermes2Go/hermes"
)

const hyparDemoChildEnv = "HYPAR_DEMO_CHILD_BATCH"

func Test_HyparMissingTextureFailsOnlyItsLine(t *testing.T) {
	// ---------------- child mode: behave like `hermes2go -module batch -batch <file>` ----------------
	if batchFile := os.Getenv(hyparDemoChildEnv); batchFile != "" {
		data, err := os.ReadFile(batchFile)
		if err != nil {
			t.Fatal(err)
		}
		var lines []string
		for _, l := range strings.Split(string(data), "\n") {
			if len(strings.TrimSpace(l)) > 0 {
				lines = append(lines, l)
			}
		}
		session := hermes.NewHermesSession()
		doConcurrentBatchRun(session, filepath.Dir(batchFile), 0, -1, false, lines)
		session.Close()
		return
	}

	// ---------------- parent mode ----------------
	examples, err := filepath.Abs(filepath.Join("..", "..", "examples"))
	if err != nil {
		t.Fatal(err)
	}
	work := t.TempDir()
	copyTree(t, examples, work)

	// a user parameter folder in which one row of HYPAR.TRU is missing (ST2),
	// PARCAP.TRU is unchanged and still lists ST2
	const texture = "ST2"
	copyTree(t, filepath.Join(work, "parameter"), filepath.Join(work, "parameter_nohy"))
	hypar, err := os.ReadFile(filepath.Join(work, "parameter", "HYPAR.TRU"))
	if err != nil {
		t.Fatal(err)
	}
	var kept []string
	removed := 0
	for _, l := range strings.Split(string(hypar), "\n") {
		if strings.HasPrefix(strings.ToUpper(l), texture) {
			removed++
			continue
		}
		kept = append(kept, l)
	}
	if removed != 1 {
		t.Fatalf("precondition: expected exactly one %s row in shipped HYPAR.TRU, found %d", texture, removed)
	}
	if err := os.WriteFile(filepath.Join(work, "parameter_nohy", "HYPAR.TRU"), []byte(strings.Join(kept, "\n")), 0o644); err != nil {
		t.Fatal(err)
	}
	parcap, _ := os.ReadFile(filepath.Join(work, "parameter_nohy", "PARCAP.TRU"))
	if !regexp.MustCompile(`(?m)^` + texture).Match(parcap) {
		t.Fatalf("precondition: %s must be listed in PARCAP.TRU", texture)
	}
	// soil 160 of project ex1 has an ST2 horizon, soil 075 (SL2/SL4) does not
	soil, _ := os.ReadFile(filepath.Join(work, "project", "ex1", "soil_ex1.txt"))
	if !regexp.MustCompile(`(?m)^160 +\S+ +` + texture + ` `).Match(soil) {
		t.Fatalf("precondition: soil 160 of ex1 is expected to contain a %s horizon", texture)
	}
	if regexp.MustCompile(`(?m)^075 +\S+ +` + texture + ` `).Match(soil) {
		t.Fatalf("precondition: soil 075 of ex1 must not contain a %s horizon", texture)
	}

	line := func(soilID, plot, polID, result string) string {
		return "project=ex1 WeatherFolder=historical soilId=" + soilID + " fcode=109_120 plotNr=" + plot +
			" Altitude=73 Latitude=52.6732 poligonID=" + polID + " resultfolder=" + result + " parameter=parameter_nohy"
	}
	// reference: only the two good lines
	refBatch := filepath.Join(work, "ref_batch.txt")
	writeLines(t, refBatch,
		line("075", "10001", "1", "R/ref"),
		line("075", "10002", "3", "R/ref"))
	// mixed: same two good lines, the bad line (index 1) in between
	mixBatch := filepath.Join(work, "mix_batch.txt")
	writeLines(t, mixBatch,
		line("075", "10001", "1", "R/mix"),
		line("160", "10001", "2", "R/mix"),
		line("075", "10002", "3", "R/mix"))

	refOut, refErr := runChild(t, refBatch)
	if refErr != nil {
		t.Fatalf("precondition: reference batch (good lines only) did not complete: %v\n%s", refErr, refOut)
	}
	if got := failedLines(refOut); len(got) != 0 {
		t.Fatalf("precondition: reference batch reports failed lines %v\n%s", got, refOut)
	}

	mixOut, mixErr := runChild(t, mixBatch)

	// property 1: the batch process survives the bad line
	if mixErr != nil {
		t.Errorf("batch process was killed by the line with texture %s (in PARCAP.TRU, not in HYPAR.TRU): %v\n--- output ---\n%s",
			texture, mixErr, head(mixOut, 12))
	}
	// property 2: the error summary lists exactly the failed line [1]
	if got := failedLines(mixOut); len(got) != 1 || got[0] != "[1]" {
		t.Errorf("error summary lists failed lines %v, want exactly [[1]]", got)
	}
	// property 3: all other lines complete with results identical to the run without the bad line
	refFiles := listFiles(t, filepath.Join(work, "R", "ref"))
	if len(refFiles) == 0 {
		t.Fatalf("precondition: reference batch wrote no result files")
	}
	for _, name := range refFiles {
		want, _ := os.ReadFile(filepath.Join(work, "R", "ref", name))
		got, err := os.ReadFile(filepath.Join(work, "R", "mix", name))
		if err != nil {
			t.Errorf("result %s of a good line is missing in the mixed batch", name)
			continue
		}
		if !bytes.Equal(want, got) {
			t.Errorf("result %s of a good line differs between mixed batch and reference batch", name)
		}
	}
}

func runChild(t *testing.T, batchFile string) (string, error) {
	t.Helper()
	cmd := exec.Command(os.Args[0], "-test.run=^Test_HyparMissingTextureFailsOnlyItsLine$", "-test.count=1")
	cmd.Env = append(os.Environ(), hyparDemoChildEnv+"="+batchFile)
	cmd.Dir = filepath.Dir(batchFile)
	out, err := cmd.CombinedOutput()
	return string(out), err
}

// failedLines returns the log ids ("[n]") listed after "Error Summary:"
func failedLines(out string) []string {
	var ids []string
	idx := strings.Index(out, "Error Summary:")
	if idx < 0 {
		return []string{"<no error summary printed>"}
	}
	re := regexp.MustCompile(`^(\[\d+\])`)
	for _, l := range strings.Split(out[idx:], "\n") {
		if m := re.FindStringSubmatch(strings.TrimSpace(l)); m != nil {
			ids = append(ids, m[1])
		}
	}
	sort.Strings(ids)
	return ids
}

func head(s string, n int) string {
	lines := strings.Split(strings.TrimRight(s, "\n"), "\n")
	if len(lines) > n {
		lines = lines[:n]
	}
	return strings.Join(lines, "\n")
}

func writeLines(t *testing.T, file string, lines ...string) {
	t.Helper()
	if err := os.WriteFile(file, []byte(strings.Join(lines, "\n")+"\n"), 0o644); err != nil {
		t.Fatal(err)
	}
}

func listFiles(t *testing.T, dir string) []string {
	t.Helper()
	entries, err := os.ReadDir(dir)
	if err != nil {
		t.Fatalf("cannot list %s: %v", dir, err)
	}
	var names []string
	for _, e := range entries {
		if !e.IsDir() {
			names = append(names, e.Name())
		}
	}
	sort.Strings(names)
	return names
}

func copyTree(t *testing.T, src, dst string) {
	t.Helper()
	err := filepath.WalkDir(src, func(p string, d fs.DirEntry, err error) error {
		if err != nil {
			return err
		}
		rel, _ := filepath.Rel(src, p)
		target := filepath.Join(dst, rel)
		if d.IsDir() {
			return os.MkdirAll(target, 0o755)
		}
		data, err := os.ReadFile(p)
		if err != nil {
			return err
		}
		return os.WriteFile(target, data, 0o644)
	})
	if err != nil {
		t.Fatal(err)
	}
}
