package hermes

// Demo: weather records missing at the END of a year (or a whole missing year / a file that
// ends before the simulation does) are accepted silently, the day-of-year counter of the
// simulation turns to the next year early and the missing days - and every later day - are
// driven by records of OTHER dates.
//
// Copy this file into   <repo>/hermes   (package hermes) and run from inside that directory:
//
//	go test -vet=off -count=1 -run 'Test_WeatherGapIsNotSilentlyBridged' .
//
// The test makes full simulation runs (HermesSession.Run) of the shipped example project
// examples/project/ex1 (copied to t.TempDir(), 10/1980 - 12/1983, plot 10001) with weather written
// from the shipped file examples/weather/historical/109_120.csv in each of the three weather file
// layouts (WeatherFileFormat 1 = csv with iso-date, 2 = cz/@YYYYJJJ, 0 = one file per year).
// The daily output is reduced to date, TMINdaily, TMAXdaily, RHdaily.
//
// Property checked for every run: either the run ends with an error, or every simulated day D
// shows exactly the tmin/tmax/relhumid of the weather record dated D (which therefore must exist).
// Nothing is compared against stored numbers: output is compared with the input records.

import (
	"bufio"
	"fmt"
	"os"
	"path/filepath"
	"strconv"
	"strings"
	"sync"
	"testing"
	"time"
)

type wgapRec struct {
	date                                            time.Time
	tmin, tavg, tmax, precip, globrad, wind, relhum float64
}

func wgapCopyDir(t *testing.T, src, dst string) {
	t.Helper()
	err := filepath.Walk(src, func(p string, info os.FileInfo, err error) error {
		if err != nil {
			return err
		}
		rel, _ := filepath.Rel(src, p)
		target := filepath.Join(dst, rel)
		if info.IsDir() {
			return os.MkdirAll(target, 0o755)
		}
		data, err := os.ReadFile(p)
		if err != nil {
			return err
		}
		return os.WriteFile(target, data, 0o644)
	})
	if err != nil {
		t.Fatal(err)
	}
}

// wgapReadRecords reads the shipped csv weather file (columns iso-date,tmin,tavg,tmax,precip,globrad,wind,relhumid,...)
func wgapReadRecords(t *testing.T, file string, fromYear, toYear int) []wgapRec {
	t.Helper()
	f, err := os.Open(file)
	if err != nil {
		t.Fatal(err)
	}
	defer f.Close()
	var recs []wgapRec
	sc := bufio.NewScanner(f)
	for sc.Scan() {
		tok := strings.Split(sc.Text(), ",")
		d, err := time.Parse("2006-01-02", tok[0])
		if err != nil || d.Year() < fromYear || d.Year() > toYear {
			continue // header lines, other years
		}
		v := make([]float64, 7)
		for i := range v {
			if v[i], err = strconv.ParseFloat(tok[i+1], 64); err != nil {
				t.Fatal(err)
			}
		}
		recs = append(recs, wgapRec{d, v[0], v[1], v[2], v[3], v[4], v[5], v[6]})
	}
	return recs
}

// wgapWriteWeather writes the records in one of the three layouts and returns the extra command line arguments
func wgapWriteWeather(t *testing.T, dir string, layout int, recs []wgapRec) []string {
	t.Helper()
	if err := os.MkdirAll(dir, 0o755); err != nil {
		t.Fatal(err)
	}
	write := func(name string, sb *strings.Builder) {
		if err := os.WriteFile(filepath.Join(dir, name), []byte(sb.String()), 0o644); err != nil {
			t.Fatal(err)
		}
	}
	switch layout {
	case 1: // csv, several years per file
		var sb strings.Builder
		sb.WriteString("iso-date,tmin,tavg,tmax,precip,globrad,wind,relhumid\n-,C,C,C,mm,MJ m-2,m s-1,%\n")
		for _, r := range recs {
			fmt.Fprintf(&sb, "%s,%.1f,%.1f,%.1f,%.1f,%.1f,%.1f,%.1f\n", r.date.Format("2006-01-02"), r.tmin, r.tavg, r.tmax, r.precip, r.globrad, r.wind, r.relhum)
		}
		write("gap.csv", &sb)
		return []string{"WeatherFileFormat=1", "WeatherFile=%s.csv", "WeatherNumHeader=2"}
	case 2: // cz format, several years per file
		var sb strings.Builder
		sb.WriteString("@YYYYJJJ   TMIN    TMAX     RAD    PREC    WIND      RH\n")
		for _, r := range recs {
			fmt.Fprintf(&sb, " %d%03d %6.1f %7.1f %7.2f %7.1f %7.1f %7.1f\n", r.date.Year(), r.date.YearDay(), r.tmin, r.tmax, r.globrad, r.precip, r.wind, r.relhum)
		}
		write("gap.w6d", &sb)
		return []string{"WeatherFileFormat=2", "WeatherFile=%s.w6d", "WeatherNumHeader=1"}
	case 0: // one file per year: MET_gap.980, MET_gap.981, ...
		files := map[int]*strings.Builder{}
		for _, r := range recs {
			sb, ok := files[r.date.Year()]
			if !ok {
				sb = &strings.Builder{}
				sb.WriteString("tavg;tmin;tmax;ET0;relhumid;vapp14;wind;sundu;globrad;precip;jday\n")
				sb.WriteString("C_deg;C_deg;C_deg;mm;%;mm_Hg;m/s;hours;MJ m-2;mm;\n")
				sb.WriteString("73;2;-----;-----;-----;-----;-----;-----;------;-- -;-\n")
				files[r.date.Year()] = sb
			}
			fmt.Fprintf(sb, "%.1f;%.1f;%.1f;999.9;%.1f;999.9;%.1f;999.9;%.1f;%.1f;%d\n", r.tavg, r.tmin, r.tmax, r.relhum, r.wind, r.globrad, r.precip, r.date.YearDay())
		}
		for year, sb := range files {
			write("MET_gap."+yearToExtension(year-1900), sb)
		}
		return []string{"WeatherFileFormat=0", "WeatherFile=MET_%s.", "WeatherNumHeader=3"}
	}
	t.Fatal("unknown layout")
	return nil
}

const wgapDailyOut = `FillCharacter: ' '
SeperatorCharacter: ','
NaValue: n.a.
DataColumns:
- Format: '%s'
  DataAlignment: left
  Width: 10
  VariableName: AKTUELL
- Format: '%.3f'
  DataAlignment: left
  Width: 10
  VariableName: TMINdaily
- Format: '%.3f'
  DataAlignment: left
  Width: 10
  VariableName: TMAXdaily
- Format: '%.3f'
  DataAlignment: left
  Width: 10
  VariableName: RHdaily
Headlines:
  1:
  - ColumnName: Date
    TextAlignment: left
    StartColumn: 1
    EndColumn: 1
    FillCharacter: ' '
  - ColumnName: TMINdaily
    TextAlignment: left
    StartColumn: 2
    EndColumn: 2
    FillCharacter: ' '
  - ColumnName: TMAXdaily
    TextAlignment: left
    StartColumn: 3
    EndColumn: 3
    FillCharacter: ' '
  - ColumnName: RHdaily
    TextAlignment: left
    StartColumn: 4
    EndColumn: 4
    FillCharacter: ' '
`

func Test_WeatherGapIsNotSilentlyBridged(t *testing.T) {
	examples, err := filepath.Abs(filepath.Join("..", "examples"))
	if err != nil {
		t.Fatal(err)
	}
	all := wgapReadRecords(t, filepath.Join(examples, "weather", "historical", "109_120.csv"), 1980, 1984)
	if len(all) != 366+365+365+365+366 {
		t.Fatalf("unexpected number of records in the shipped weather file: %d", len(all))
	}
	day := func(y, m, d int) time.Time { return time.Date(y, time.Month(m), d, 0, 0, 0, 0, time.UTC) }

	type scenario struct {
		name    string
		endDate string                 // EndDate of the simulation (MMDDYYYY, ex1 uses DateENlong)
		keep    func(d time.Time) bool // records written to the weather input
		layouts []int
		mustRun bool // legitimate input: the run has to succeed (with and without a fix)
	}
	scenarios := []scenario{
		{"control: file covers 1980-01-01 .. 1984-12-31, run ends 12/31/1983", "12311983",
			func(d time.Time) bool { return true }, []int{1, 2, 0}, true},
		{"control: file starts mid year 1980-07-01 and ends with the run on 06/30/1983", "06301983",
			func(d time.Time) bool { return !d.Before(day(1980, 7, 1)) && !d.After(day(1983, 6, 30)) }, []int{1, 2}, true},
		{"control: year files start 1 Jan 1980, last year file ends with the run on 06/30/1983", "06301983",
			func(d time.Time) bool { return !d.After(day(1983, 6, 30)) }, []int{0}, true},
		{"(a) December 1981 missing: 1981-11-30 is followed by 1982-01-01", "12311983",
			func(d time.Time) bool { return !(d.Year() == 1981 && d.Month() == time.December) }, []int{1, 2, 0}, false},
		{"(a) leap year: day 366 (1980-12-31) missing", "12311983",
			func(d time.Time) bool { return !d.Equal(day(1980, 12, 31)) }, []int{1, 2, 0}, false},
		{"(b) whole year 1982 missing: 1981-12-31 is followed by 1983-01-01", "12311983",
			func(d time.Time) bool { return d.Year() != 1982 }, []int{1, 2, 0}, false},
		{"(b) weather ends 1982-06-30, run ends 12/31/1983", "12311983",
			func(d time.Time) bool { return !d.After(day(1982, 6, 30)) }, []int{1, 2, 0}, false},
	}
	layoutName := map[int]string{0: "one file per year", 1: "csv", 2: "cz"}

	for _, sc := range scenarios {
		for _, layout := range sc.layouts {
			sc, layout := sc, layout
			t.Run(layoutName[layout]+"/"+sc.name, func(t *testing.T) {
				root := t.TempDir()
				wgapCopyDir(t, filepath.Join(examples, "project", "ex1"), filepath.Join(root, "project", "ex1"))
				wgapCopyDir(t, filepath.Join(examples, "parameter"), filepath.Join(root, "parameter"))
				if err := os.WriteFile(filepath.Join(root, "project", "ex1", "dailyout_conf.yml"), []byte(wgapDailyOut), 0o644); err != nil {
					t.Fatal(err)
				}
				byDate := map[string]wgapRec{}
				var recs []wgapRec
				for _, r := range all {
					if sc.keep(r.date) {
						recs = append(recs, r)
						byDate[r.date.Format("01.02.2006")] = r
					}
				}
				args := []string{"project=ex1", "WeatherFolder=gapweather", "soilId=075", "fcode=gap", "plotNr=10001",
					"Altitude=73", "Latitude=52.6732", "poligonID=29872", "resultfolder=" + filepath.Join(root, "RESULT", "gap"),
					"ResultFileFormat=1", "EndDate=" + sc.endDate,
					// annual output on 31 May: with an annual output date after the end date the run is extended to that date + 1
					"AnnualOutputDate=0531"}
				args = append(args, wgapWriteWeather(t, filepath.Join(root, "weather", "gapweather"), layout, recs)...)

				// full run
				session := NewHermesSession()
				out := make(chan *RunReturn, 1)
				logout := make(chan string, 100)
				var wg sync.WaitGroup
				wg.Add(1)
				go func() {
					defer wg.Done()
					for range logout {
					}
				}()
				session.Run(root, args, "wgap", out, logout)
				result := <-out
				close(logout)
				wg.Wait()
				session.Close()

				if !result.Success {
					if sc.mustRun {
						t.Fatalf("complete weather input, but the run ended with an error: %v", result.Err)
					}
					t.Logf("run ended with an error (as it should): %v", result.Err)
					return
				}

				// the run did not end with an error: every simulated day has to show the record of its own date
				matches, _ := filepath.Glob(filepath.Join(root, "RESULT", "gap", "V*"))
				if len(matches) != 1 {
					t.Fatalf("daily output not found: %v", matches)
				}
				f, err := os.Open(matches[0])
				if err != nil {
					t.Fatal(err)
				}
				defer f.Close()
				same := func(a, b float64) bool { return a-b < 0.0006 && b-a < 0.0006 }
				simulated, wrong := 0, 0
				lines := bufio.NewScanner(f)
				for lines.Scan() {
					tok := strings.Split(lines.Text(), ",")
					if _, err := time.Parse("01.02.2006", strings.TrimSpace(tok[0])); err != nil || len(tok) < 4 {
						continue // headlines
					}
					date := strings.TrimSpace(tok[0])
					var v [3]float64
					for i := range v {
						if v[i], err = strconv.ParseFloat(strings.TrimSpace(tok[i+1]), 64); err != nil {
							t.Fatalf("%s: %v", lines.Text(), err)
						}
					}
					simulated++
					rec, covered := byDate[date]
					if covered && same(rec.tmin, v[0]) && same(rec.tmax, v[1]) && same(rec.relhum, v[2]) {
						continue
					}
					wrong++
					if wrong <= 3 { // report the first wrong days only
						// which record drove this day?
						driver := "no record of the input"
						for _, r := range recs {
							if same(r.tmin, v[0]) && same(r.tmax, v[1]) && same(r.relhum, v[2]) {
								driver = "the record dated " + r.date.Format("01.02.2006")
								break
							}
						}
						if covered {
							t.Errorf("day %s: run used tmin/tmax/rh = %.1f/%.1f/%.1f = %s; the record of that day is %.1f/%.1f/%.1f", date, v[0], v[1], v[2], driver, rec.tmin, rec.tmax, rec.relhum)
						} else {
							t.Errorf("day %s: no weather record in the input, but the run went on and used tmin/tmax/rh = %.1f/%.1f/%.1f = %s", date, v[0], v[1], v[2], driver)
						}
					}
				}
				if simulated == 0 {
					t.Fatal("no simulated days found in the daily output")
				}
				if wrong > 0 {
					t.Errorf("run ended WITHOUT error, %d of %d simulated days were not driven by the weather record of their date", wrong, simulated)
				} else {
					t.Logf("run ended without error, all %d simulated days were driven by the record of their date", simulated)
				}
			})
		}
	}
}
