#!/usr/bin/env python3
"""Regenerates /verif/MANIFEST.json from tools/claims.json (one entry per claimed property)."""
import json, os
here = os.path.dirname(os.path.abspath(__file__))
claims = json.load(open(os.path.join(here, "claims.json")))
props = [json.loads(l) for l in open(os.path.join(here, "..", "properties.jsonl"))]
checks, na = [], []
for p in props:
    pid = p["id"]
    c = claims.get(pid)
    if not c or not c.get("claimed"):
        na.append({"property_id": pid, "reason": (c or {}).get("reason", "check not built yet (work in progress); see DESIGN.md")})
        continue
    checks.append({
        "property_id": pid,
        "quick_cmd": f"bin/hv check {pid} --tier quick",
        "thorough_cmd": f"bin/hv check {pid} --tier thorough",
        "evidence_file": f"/verif/evidence/{pid}.json",
        "replay_cmd_template": "bin/hv replay {path}",
        "engine": "hv",
        "level_claimed": {"category": "other", "text": c["text"], "design_ref": c.get("design_ref", f"DESIGN.md §2 {pid}")},
        "level_note": c["note"],
        "technique": c["technique"],
    })
m = {
    "version": 1,
    "setup_cmd": "cd /verif/hv && GOFLAGS=-mod=mod GOPROXY=off GOSUMDB=off GOTOOLCHAIN=local go build -o /verif/bin/hv .",
    "hooks": {"guard": "verif", "enable": "none needed: static analysis reads /repo's working tree, no hooks are compiled in", "baseline_off_cmd": "for m in hermes src/calcHermesBatch src/calcSoil src/climatefileconverter src/cropfileconverter src/hermes2go src/hermes_service src/hermes_service/capnp/hermes_service_capnp src/producer_consumer src/ptf_testing; do (cd /repo/$m && GOPROXY=off GOSUMDB=off GOTOOLCHAIN=local go test -json -vet=off -count=1 -timeout 25m ./...); done", "source_commits": [], "add_only": True},
    "engines": [{"name": "hv", "path": "/verif/hv", "serves_properties": [c["property_id"] for c in checks], "kind_free_text": "repository-specific static analyser (Go, x/tools v0.29.0): type-checked AST walker with algebraic normal forms and store forwarding, guard/loop context, field-access index with transitive mod-sets, CFG/SSA/call-graph rules; nothing is executed"}],
    "checks": checks,
    "not_applicable": na,
    "notes": "All claims are level 'other': structural necessary conditions of each property decided statically on the current /repo tree; the numeric behaviour itself is not decided (DESIGN.md §2/§3). Exit 2 = infrastructure failure (tree does not type-check etc.).",
}
json.dump(m, open(os.path.join(here, "..", "MANIFEST.json"), "w"), indent=1)
print("claimed", len(checks), "not_applicable", len(na))
