#!/bin/bash
# usage: seedrun.sh <patch.diff> <Cxx> [more Cxx...]   — apply a seeded change to /repo, run checks, undo.
set -u
patch=$1; shift
cd /verif
if ! git -C /repo diff --quiet; then echo "/repo not clean"; exit 3; fi
git -C /repo apply "$patch" || { echo "patch does not apply"; exit 3; }
for id in "$@"; do
  out=$(bin/hv check "$id" 2>&1); rc=$?
  echo "== $id rc=$rc"; echo "$out" | grep -E "VIOLATION|rule=|KNOWN|INFRA" | head -12
done
git -C /repo checkout -- .
