#!/usr/bin/env python3
"""Replaces the tables of DESIGN.md Appendix E by the output of gendesign_rules.py (evidence of the last run)."""
import subprocess
d = open('/verif/DESIGN.md').read().split('\n')
i = [n for n, l in enumerate(d) if l.startswith('## Appendix E')][0]
j = i + 1
while not d[j].startswith('**C01**'):
    j += 1
tab = subprocess.run(['python3', '/verif/tools/gendesign_rules.py'], capture_output=True, text=True).stdout.strip('\n').split('\n')
open('/verif/DESIGN.md', 'w').write('\n'.join(d[:j] + tab + ['']))
