#!/usr/bin/env python3
"""Re-confirms stored seeds after /repo moved (rebased patches): for each /verif/seeded/<id>:
fresh worktree of /repo HEAD, demo passes without the change, patch applies, modules build,
pinned suite pass set unchanged, demo fails with the change. usage: reconfirm_seed.py <id>..."""
import json, os, subprocess, sys
ENV = dict(os.environ, GOPROXY="off", GOSUMDB="off", GOTOOLCHAIN="local", GOFLAGS="")
ENV.pop("GOWORK", None)
def sh(cmd, cwd, timeout=1800):
    p = subprocess.run(cmd, shell=True, cwd=cwd, env=ENV, stdout=subprocess.PIPE, stderr=subprocess.STDOUT, text=True, timeout=timeout)
    return p.returncode, p.stdout
def suite(wt):
    rc, out = sh("go test -vet=off -count=1 -json ./...", os.path.join(wt, "hermes"))
    s = set()
    for l in out.splitlines():
        try: j = json.loads(l)
        except Exception: continue
        if j.get("Action") == "pass" and j.get("Test"): s.add(j["Test"])
    return s
base = None
for sid in sys.argv[1:]:
    d = f"/verif/seeded/{sid}"
    m = json.load(open(f"{d}/meta.json"))
    wt = f"/tmp/reconf-{sid}"
    sh(f"git -C /repo worktree remove --force {wt}; git -C /repo worktree prune", "/")
    sh(f"git -C /repo worktree add -q --detach {wt} HEAD", "/")
    try:
        if base is None:
            base = suite(wt)
        dest = os.path.join(wt, m["demo_dir"])
        demo = [f for f in os.listdir(d) if f.endswith("_test.go")][0]
        sh(f"cp {d}/{demo} {dest}/demo_test.go", "/")
        rc0, out0 = sh(m["demo_test_cmd"], dest)
        os.remove(f"{dest}/demo_test.go")
        rca, _ = sh(f"git apply {d}/patch.diff", wt)
        builds = all(sh("go build ./...", os.path.join(wt, mod))[0] == 0 for mod in ["hermes", "src/hermes2go", "src/calcHermesBatch", "src/cropfileconverter"])
        with_set = suite(wt)
        sh(f"cp {d}/{demo} {dest}/demo_test.go", "/")
        rc1, out1 = sh(m["demo_test_cmd"], dest)
        ok = rc0 == 0 and rca == 0 and builds and base <= with_set and rc1 != 0
        print(sid, "confirmed" if ok else "NOT CONFIRMED", dict(without_rc=rc0, applies=rca == 0, builds=builds, suite_unchanged=base <= with_set, with_rc=rc1, base=len(base)))
        if ok:
            m.setdefault("confirmed_by_me", {})["rebased_on"] = subprocess.run(["git", "-C", "/repo", "log", "--format=%h", "-1"], capture_output=True, text=True).stdout.strip()
            m["confirmed_by_me"]["demo_with_change_rc"] = rc1
            m["confirmed_by_me"]["demo_without_change_rc"] = rc0
            m["confirmed_by_me"]["demo_with_change_tail"] = out1[-400:]
            json.dump(m, open(f"{d}/meta.json", "w"), indent=1, ensure_ascii=False)
        else:
            print(out0[-600:] if rc0 else out1[-600:])
    finally:
        sh(f"git -C /repo worktree remove --force {wt}; git -C /repo worktree prune", "/")
