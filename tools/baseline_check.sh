#!/bin/bash
# runs the pinned hermes test suite on /repo's working tree and compares the pass set with BASELINE.json
cd /repo/hermes && GOPROXY=off GOSUMDB=off GOTOOLCHAIN=local go test -json -vet=off -count=1 ./... 2>/dev/null > /tmp/baseline_run.json
python3 - <<'PY'
import json
b=json.load(open('/root/.vp/BASELINE.json'))
want=set(x.split('::',1)[1] for x in b['stable_pass'])
got=set()
for l in open('/tmp/baseline_run.json'):
    try: j=json.loads(l)
    except: continue
    if j.get('Action')=='pass' and j.get('Test'): got.add(j['Test'])
print('baseline pass',len(want),'now pass',len(got),'missing',len(want-got), sorted(want-got)[:5])
PY
rm -f /tmp/baseline_run.json; cd /repo && git status --short | grep -v '^??'
