#!/usr/bin/env python3
"""Judges every stored seeded change with its property's check through the in-memory overlay
(hv check-patch: nothing under /repo is written), records the outcome in each meta.json
(detected_by_check, firing_rules) and prints a markdown table."""
import json, os, subprocess, sys, glob, re
rows=[]
for d in sorted(glob.glob('/verif/seeded/C*-*')):
    sid=os.path.basename(d); pid=sid.split('-')[0]
    p=subprocess.run(['/verif/bin/hv','check-patch',pid,os.path.join(d,'patch.diff')],capture_output=True,text=True)
    rules=sorted(set(re.sub(r'#\d+$','',l.split(' ',1)[1]) for l in p.stdout.splitlines() if l.startswith('FIRES ')))
    m=json.load(open(os.path.join(d,'meta.json')))
    if m.get('obsolete'):
        status='obsolete (neutralised by a later fix, see meta.json)'
        m['detected_by_check']=False
        json.dump(m,open(os.path.join(d,'meta.json'),'w'),indent=1,ensure_ascii=False)
    elif p.returncode==3:
        status='skipped (patch no longer applies)'
    else:
        m['detected_by_check']= p.returncode==1
        m['firing_rules']=rules
        status='detected' if p.returncode==1 else 'MISSED'
        json.dump(m,open(os.path.join(d,'meta.json'),'w'),indent=1,ensure_ascii=False)
    rows.append((sid,status,rules,m.get('summary','')))
    print(sid,status,' '.join(rules[:4]),file=sys.stderr)
print("| seed | outcome | firing rule(s) |")
print("|------|---------|----------------|")
for sid,st,rules,_ in rows:
    print(f"| {sid} | {st} | {', '.join(rules[:4])}{' …' if len(rules)>4 else ''} |")
