#!/bin/bash
# usage: examples_diff.sh  — compares the outputs of the shipped example batches between /repo HEAD and /repo's working tree.
# Scratch copies live under /tmp/exdiff and are removed at the end.
set -u
export GOPROXY=off GOSUMDB=off GOTOOLCHAIN=local GOFLAGS=
S=/tmp/exdiff; rm -rf $S; mkdir -p $S
git -C /repo worktree add -q --detach $S/head HEAD
(cd $S/head/src/hermes2go && go build -o $S/h2g_head .) || exit 2
(cd /repo/src/hermes2go && go build -o $S/h2g_work .) || exit 2
for v in head work; do
  cp -r /repo/examples $S/ex_$v
  (cd $S/ex_$v && for b in *_batch.txt; do $S/h2g_$v -module batch -concurrent 8 -batch $b > $S/log_${v}_$b 2>&1; done)
done
diff -rq $S/ex_head $S/ex_work | head -40
echo "diff lines: $(diff -r $S/ex_head $S/ex_work | wc -l)"
grep -h "Number of errors" $S/log_head_* | sort | uniq -c; grep -h "Number of errors" $S/log_work_* | sort | uniq -c
if [ -z "${KEEP:-}" ]; then git -C /repo worktree remove --force $S/head; rm -rf $S; fi
