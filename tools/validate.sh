#!/bin/bash
# validates MANIFEST.json and all evidence files against the schemas
python3-vt - <<'PY'
import json,jsonschema,glob
jsonschema.validate(json.load(open('/verif/MANIFEST.json')), json.load(open('/root/.vp/MANIFEST.schema.json')))
s=json.load(open('/root/.vp/EVIDENCE.schema.json'))
for f in sorted(glob.glob('/verif/evidence/*.json')):
    jsonschema.validate(json.load(open(f)), s)
print('manifest + %d evidence files valid' % len(glob.glob('/verif/evidence/*.json')))
PY
