#!/usr/bin/env python3
"""Confirms seeded changes independently: for each /tmp/seed/Cxx.out/V (or /verif/seeded/...):
 - fresh scratch worktree of /repo HEAD (outside /repo and /verif)
 - patch applies; the four in-scope modules build
 - every test of the pinned suite that passes without the change still passes with it
 - the demonstration FAILS with the change and PASSES without it
Writes /tmp/confirm/results/<id>-<V>.json and removes the worktree with its build output.
usage: confirm_seeds.py <seedroot> [ids...]"""
import json, os, re, subprocess, sys, shutil, concurrent.futures as cf

ENV = dict(os.environ, GOPROXY="off", GOSUMDB="off", GOTOOLCHAIN="local", GOFLAGS="")
ENV.pop("GOWORK", None)
ROOT = "/tmp/confirm"
MODS = ["hermes", "src/hermes2go", "src/calcHermesBatch", "src/cropfileconverter"]

def sh(cmd, cwd, timeout=1500):
    p = subprocess.run(cmd, shell=True, cwd=cwd, env=ENV, stdout=subprocess.PIPE, stderr=subprocess.STDOUT, text=True, timeout=timeout)
    return p.returncode, p.stdout

def suite(wt):
    rc, out = sh("go test -vet=off -count=1 -json ./...", os.path.join(wt, "hermes"))
    passed = set()
    for l in out.splitlines():
        try:
            j = json.loads(l)
        except Exception:
            continue
        if j.get("Action") == "pass" and j.get("Test"):
            passed.add(j["Test"])
    return passed

def confirm(seedroot, sid, var, base_pass):
    d = os.path.join(seedroot, sid, var) if os.path.isdir(os.path.join(seedroot, sid, var)) else os.path.join(seedroot, f"{sid}.out", var)
    meta = json.load(open(os.path.join(d, "meta.json")))
    cmd = meta["demo_cmd"]
    m = re.search(r"cp \S+ (\S+)/demo_test\.go", cmd)
    dest = re.sub(r"^/tmp/seedwt/C\d\d/", "", m.group(1))  # round 9: agents wrote absolute paths of their own worktree
    t = re.search(r"(go test [^;&)#\n]*)", cmd).group(1).strip()
    wt = os.path.join(ROOT, f"{sid}-{var}")
    res = {"seed": f"{sid}/{var}", "dir": d, "demo_dir": dest, "demo_test_cmd": t}
    sh(f"git -C /repo worktree remove --force {wt}", "/", 60)
    rc, out = sh(f"git -C /repo worktree add -q --detach {wt} {os.environ.get('CONFIRM_BASE', 'HEAD')}", "/")
    try:
        rc, out = sh(f"git apply {os.path.join(d, 'patch.diff')}", wt)
        res["applies"] = rc == 0
        if rc != 0:
            res["error"] = out[-500:]
            return res
        ok = True
        for mdir in MODS:
            rc, out = sh("go build ./...", os.path.join(wt, mdir))
            ok = ok and rc == 0
        res["builds"] = ok
        p1 = suite(wt)
        res["suite_baseline_pass"] = len(base_pass)
        res["suite_lost"] = sorted(base_pass - p1)[:10]
        res["suite_unchanged"] = base_pass <= p1
        # demo with the change
        for f in os.listdir(d):
            if f not in ("patch.diff", "meta.json"):
                src = os.path.join(d, f)
                if os.path.isdir(src):
                    shutil.copytree(src, os.path.join(wt, dest, f), dirs_exist_ok=True)
                else:
                    shutil.copy(src, os.path.join(wt, dest, f))
        rc, out = sh(t, os.path.join(wt, dest))
        res["demo_with_change_rc"] = rc
        res["demo_with_change_tail"] = out[-600:]
        # undo the change only (keep the demo)
        sh(f"git apply -R {os.path.join(d, 'patch.diff')}", wt)
        rc2, out2 = sh(t, os.path.join(wt, dest))
        res["demo_without_change_rc"] = rc2
        res["demo_without_change_tail"] = out2[-300:]
        res["confirmed"] = bool(res["builds"] and res["suite_unchanged"] and rc != 0 and rc2 == 0)
        return res
    finally:
        sh(f"git -C /repo worktree remove --force {wt}", "/", 120)
        shutil.rmtree(wt, ignore_errors=True)

def main():
    seedroot = sys.argv[1]
    want = sys.argv[2:]
    os.makedirs(os.path.join(ROOT, "results"), exist_ok=True)
    bwt = os.path.join(ROOT, "baseline")
    sh(f"git -C /repo worktree remove --force {bwt}", "/", 60)
    sh(f"git -C /repo worktree add -q --detach {bwt} {os.environ.get('CONFIRM_BASE', 'HEAD')}", "/")
    base = suite(bwt)
    sh(f"git -C /repo worktree remove --force {bwt}", "/", 60)
    print("baseline passing tests:", len(base), flush=True)
    jobs = []
    for e in sorted(os.listdir(seedroot)):
        sid = e[:-4] if e.endswith(".out") else e
        if not re.fullmatch(r"C\d\d", sid) or not os.path.isdir(os.path.join(seedroot, e)):
            continue
        if want and sid not in want:
            continue
        for var in sorted(os.listdir(os.path.join(seedroot, e))):
            if os.path.exists(os.path.join(seedroot, e, var, "patch.diff")):
                jobs.append((sid, var))
    with cf.ThreadPoolExecutor(max_workers=8) as ex:
        futs = {ex.submit(confirm, seedroot, s, v, base): (s, v) for s, v in jobs}
        for f in cf.as_completed(futs):
            s, v = futs[f]
            try:
                r = f.result()
            except Exception as exn:
                r = {"seed": f"{s}/{v}", "confirmed": False, "error": repr(exn)}
            json.dump(r, open(os.path.join(ROOT, "results", f"{s}-{v}.json"), "w"), indent=1)
            print(s, v, "confirmed" if r.get("confirmed") else "NOT CONFIRMED", {k: r.get(k) for k in ("applies", "builds", "suite_unchanged", "demo_with_change_rc", "demo_without_change_rc", "error")}, flush=True)

main()
