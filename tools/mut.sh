#!/bin/bash
# usage: mut.sh <file-relative-to-/repo> <python-expr old> <new> <Cxx...>  — one-off textual mutant of /repo (reverted afterwards); used only while developing rules
f=$1; old=$2; new=$3; shift 3
cd /verif
if ! git -C /repo diff --quiet; then echo "/repo not clean"; exit 3; fi
python3 - "$f" "$old" "$new" <<'PY'
import sys
f,old,new=sys.argv[1:4]
p='/repo/'+f; s=open(p).read()
if s.count(old)<1: print("ANCHOR NOT FOUND"); sys.exit(1)
s=s.replace(old,new,1); open(p,'w').write(s)
PY
[ $? -eq 0 ] || { git -C /repo checkout -- .; exit 3; }
(cd /repo/hermes && GOPROXY=off GOSUMDB=off GOTOOLCHAIN=local GOFLAGS= go build ./... 2>&1 | head -5)
for id in "$@"; do
  out=$(bin/hv check "$id" 2>&1); rc=$?
  echo "== $id rc=$rc"; echo "$out" | grep -E "^  rule=|INFRA" | cut -c1-330 | head -8
done
git -C /repo checkout -- .
