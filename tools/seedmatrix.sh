#!/bin/bash
# Runs every claimed check against every stored seed of its own property (and prints which rules fire).
# usage: seedmatrix.sh [Cxx ...]   (default: all claimed)
cd /verif
ids=${@:-$(bin/hv list)}
for id in $ids; do
  for d in seeded/$id-*; do
    [ -f $d/patch.diff ] || continue
    if ! git -C /repo diff --quiet; then echo "/repo not clean"; exit 3; fi
    git -C /repo apply /verif/$d/patch.diff 2>/dev/null || { echo "$d: patch does not apply"; continue; }
    out=$(bin/hv check $id 2>&1); rc=$?
    git -C /repo checkout -- .
    rules=$(echo "$out" | grep -o "rule=[A-Za-z0-9.]*" | sort -u | tr '\n' ' ')
    echo "$(basename $d) rc=$rc $rules"
  done
done
# restore evidence of the clean tree
for id in $ids; do bin/hv check $id >/dev/null 2>&1; done
