#!/usr/bin/env python3
"""Copies confirmed seeded changes from /tmp/seed/*.out into /verif/seeded/<prop>-<V>/ with a meta.json
recording the property, what the change needs to manifest, and what was run to confirm it."""
import json, os, shutil, glob
for res in sorted(glob.glob('/tmp/confirm/results/*.json')):
    r = json.load(open(res))
    if not r.get('confirmed'):
        print('skip', res); continue
    sid, var = r['seed'].split('/')
    src = r['dir']
    dst = f'/verif/seeded/{sid}-{var}'
    os.makedirs(dst, exist_ok=True)
    for f in os.listdir(src):
        if f != 'meta.json':
            shutil.copy(os.path.join(src, f), os.path.join(dst, f))
    m = json.load(open(os.path.join(src, 'meta.json')))
    meta = {
        'property': sid, 'variant': var,
        'summary': m.get('summary'), 'manifest_needs': m.get('manifest_needs'),
        'author': 'independent sub-agent given only the property text and a scratch worktree',
        'demo_dir': r['demo_dir'], 'demo_test_cmd': r['demo_test_cmd'],
        'confirmed_by_me': {
            'how': 'tools/confirm_seeds.py: fresh scratch worktree of /repo HEAD; git apply patch.diff; go build ./... in hermes, src/hermes2go, src/calcHermesBatch, src/cropfileconverter; go test -json ./... in hermes compared with the unpatched pass set; demonstration run with and without the change; worktree removed',
            'applies': r['applies'], 'builds': r['builds'],
            'suite_pass_set_unchanged': r['suite_unchanged'], 'suite_baseline_pass': r['suite_baseline_pass'],
            'demo_with_change_rc': r['demo_with_change_rc'], 'demo_without_change_rc': r['demo_without_change_rc'],
            'demo_with_change_tail': r['demo_with_change_tail'][-400:],
        },
    }
    json.dump(meta, open(os.path.join(dst, 'meta.json'), 'w'), indent=1, ensure_ascii=False)
print(len(glob.glob('/verif/seeded/*')), 'seeds stored')
