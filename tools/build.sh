#!/bin/bash
# builds /verif/bin/hv (same as MANIFEST.setup_cmd)
cd /verif/hv && GOFLAGS=-mod=mod GOPROXY=off GOSUMDB=off GOTOOLCHAIN=local go build -o /verif/bin/hv . 
