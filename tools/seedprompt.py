#!/usr/bin/env python3
"""Round-9 seeding: writes one prompt file per property (/tmp/seed/prompts/Cxx.txt) and creates the agent's
scratch worktree (/tmp/seedwt/Cxx). The prompt contains the property's text and nothing from /verif.
usage: seedprompt.py <V1> <V2>   (variant letters, e.g. Q R)"""
import json, os, subprocess, sys

V1, V2 = sys.argv[1], sys.argv[2]
THEME = {
 "W": "a change in an INPUT READER OR ITS PLUMBING — fixed-column slicing, tokenising (Explode / strings.Fields / Split), header maps and aliases, the polygon / soil / crop-parameter / rotation / automan / fertiliser-table / measurement / weather-header readers, id matching (prefix vs equality, trimming, case), end-of-file and blank-line handling, defaults for absent optional cells — so that for the shipped files nothing changes but for another valid file (different column widths, optional columns present or absent, a longer id, trailing blanks, CRLF, a second field in the same file, an extra header line) the model is fed something other than what the file says, which breaks the property",
 "X": "a change whose effect only shows in the LONG RUN or at a TURN: after the first year change, in the second pass through a crop rotation, on the first day after harvest or before sowing, when a counter or cursor wraps or an array of fixed size fills up, when a cumulative sum is reset (annual output date) or NOT reset, in a leap year following a regular one, when the simulation starts in mid-year — state carried from one period into the next (stale, doubled or lost) rather than anything visible on an ordinary day in the middle of a season",
 "U": "the REMOVAL OR WEAKENING OF SOMETHING THAT LOOKS REDUNDANT: a guard, clamp, reset, re-initialisation, validation, error return, bounds test or second computation is deleted, merged with a neighbouring one or made conditional because another site 'already covers it' — which is true for the shipped examples and for the common path but not for some input, state or order of events. The diff should mostly remove or simplify code and carry a convincing 'dead code / duplicate check / already guaranteed by X' story",
 "V": "a change in the INFRASTRUCTURE LAYER through which the property's quantities are read, carried or reported rather than in the model equations: the reflection-based output binding and record writers, the file pool and session, path and file-name construction, the configuration/defaults plumbing, the line/CSV tokenisers and header maps, struct constructors and array sizes (NewGlobalVarsMain, DualType offsets), channel/dispatcher plumbing in the mains — so that for some input the model computes the right thing but the property as observed by a user of the program (files, records, errors, which run wrote what) is broken, or the model is fed something slightly different from what the input says",
 "S": "a GO-LANGUAGE PITFALL that compiles and reads naturally: a shadowed variable (:= instead of =) so that an outer value is never updated, an array copied by value (or a slice aliased) where the other was meant, a range loop that works on copies of struct elements, integer division or a float-to-int truncation where a float/rounding was meant, an off-by-one between a 0-based Index and a 1-based Num, a map lookup whose zero value is silently used, a deferred call or an early return that skips a later update, string slicing at a fixed column that is right for the shipped files only — introduced under a plausible clean-up or feature story",
 "T": "a UNIT, SCALE or REFERENCE-FRAME slip at the hand-over between two functions or two files that are each consistent when read alone: mm vs cm, percent vs fraction, per-day vs per-sub-step, kg N/ha vs concentration, volumetric vs per-layer amounts (× layer thickness), day-of-year vs absolute day number, calendar year vs internal year offset, 0-based vs 1-based layer/stage/slot numbers, dm vs layer index — one side of the interface is changed (or a new helper is introduced and used at one of several call sites) so that the two sides no longer agree for some inputs",
 "Q": "a change that a maintainer would plausibly make as a PERFORMANCE OPTIMISATION or TIDY-UP REFACTORING — caching or memoising a value, hoisting a computation out of a loop, fusing or splitting loops, an early exit / fast path, reusing a buffer or a struct instead of re-initialising it, lazy initialisation, replacing a recomputation by an incrementally maintained value — where the staleness, the skipped work or the carried-over state breaks the property only after a specific sequence of days/events/inputs (not on the first day, not on every run)",
 "R": "a change whose effect needs the INTERACTION OF TWO OPTIONAL FEATURES or a FAILURE/RECOVERY PATH to show: two switches, files or management options that are each fine alone (e.g. drainage + groundwater series, automatic + scheduled management, measured-value overwrite + fertiliser, irrigation + frost, YAML + command-line override, batch + -lines range), or what the program does after an error, a missing optional file, an end-of-file, a rejected value, a retry/reload at the turn of the year. Each of the touched sites must look reasonable when read alone",
}
os.makedirs("/tmp/seed/prompts", exist_ok=True)
os.makedirs("/tmp/seedwt", exist_ok=True)
for l in open("/verif/properties.jsonl"):
    p = json.loads(l)
    pid = p["id"]
    wt = f"/tmp/seedwt/{pid}"
    if not os.path.isdir(wt):
        subprocess.run(f"git -C /repo worktree add -q --detach {wt} HEAD", shell=True, check=True)
    out = f"/tmp/seed/{pid}.out"
    os.makedirs(out, exist_ok=True)
    text = f"""You are helping to test a verification tool by injecting realistic defects into a Go code base.

The code base is zalf-rpm/Hermes2Go (a Go port of HERMES, a daily-step agro-ecosystem simulation of soil water,
nitrogen and crop growth). You have your OWN scratch git worktree of it at {wt} . Work ONLY inside {wt} and
{out} . Never touch /repo or /verif (do not read them either). Do not use `git stash`, do not commit, do not create
branches. The sandbox has no network; always run go with:
  export GOPROXY=off GOSUMDB=off GOTOOLCHAIN=local GOFLAGS= ; unset GOWORK
The Go module of the library is {wt}/hermes (package hermes); mains are under {wt}/src/. Example projects are in
{wt}/examples. The existing test suite is run with `cd {wt}/hermes && go test -vet=off -count=1 ./...`
(takes < 1 minute; one test, Test_root, may already fail upstream — that is expected; what matters is that the
set of passing tests does not change).

Here is a semantic PROPERTY the code base is supposed to satisfy:

  id: {pid}
  title: {p['title']}
  statement: {p['statement']}
  holds: {p['quantifier']['text']}
  anchored in: {json.dumps(p['anchors'], ensure_ascii=False)}

YOUR TASK: produce TWO independent changes to the Go source (variant {V1} and variant {V2}), each of which
  (1) BREAKS the property above (really: some input/schedule/history exists for which the statement is false),
  (2) still compiles (`go build ./...` in hermes, src/hermes2go, src/calcHermesBatch, src/cropfileconverter),
  (3) leaves the set of passing tests of the existing suite unchanged,
  (4) is REALISTIC — something a maintainer could plausibly commit (a clean-up, a fix for something else, an
      optimisation, a robustness guard), small (typically 1–15 changed lines), no comments that give it away,
  (5) is NOT exposed at once by ordinary use: it needs something specific to manifest.
Variant {V1}: {THEME[V1]}.
Variant {V2}: {THEME[V2]}.
The two variants must touch different mechanisms. Avoid the most obvious single-token edits at the exact lines
the anchors name (flipping one operator, deleting one `*wdt`): prefer changes that look harmless in review.

For EACH variant V in ({V1}, {V2}):
  a. Start from a clean worktree (`git -C {wt} checkout -- . && git -C {wt} clean -fdq -e '*.png'`), make the change.
  b. Write a demonstration: a Go test file named demo_test.go (package hermes, placed in {wt}/hermes/, or package
     main in one of the src/ mains if the change is there) with ONE test function with a unique descriptive name
     that checks the property's statement on a concrete scenario (driving the real code: hermes.Run on an example
     project copied into t.TempDir(), or calling the kernel/reader directly). The test must FAIL with your change
     and PASS on the unchanged tree. It must be self-contained: any input files it needs are created by the test
     itself (or copied by the test from {wt}/examples via a relative path such as ../examples). It must not
     depend on files outside the repository and must finish in < 2 minutes.
  c. Verify yourself: build the four modules; run the existing suite and compare the passing set with the
     unchanged tree; run the demo with the change (must fail) and, after `git apply -R`, without it (must pass).
  d. Save into {out}/V/ :
       patch.diff   = `git -C {wt} diff` of the SOURCE change only (not the demo file; demo_test.go is untracked)
       demo_test.go = the demonstration
       meta.json    = {{"summary": "<file, function, what was changed and under which story; which clause of the
                        property it breaks and how>", "manifest_needs": "<what specific input / sequence /
                        interaction is needed to see it, and why ordinary runs and the shipped examples do not>",
                        "demo_cmd": "cp {out}/V/demo_test.go {wt}/<dir>/demo_test.go && cd {wt}/<dir> && go test -vet=off -count=1 -run <TestName> -v ."}}
     (<dir> is `hermes` or e.g. `src/hermes2go`; write the real variant letter instead of V.)
  e. Restore the worktree (`git -C {wt} checkout -- .`, delete the demo file) before starting the next variant.

If, while reading the code, you notice that the UNCHANGED code already violates the property for some input, say so
in your final answer under the heading SIDE OBSERVATIONS (file, function, the input that shows it) — that is valuable —
but still deliver the two seeded changes.

Final answer: for each variant one paragraph (what, where, why it breaks the property, what it needs to manifest,
the commands you ran and their outcome), then SIDE OBSERVATIONS. Do not paste whole files.
"""
    open(f"/tmp/seed/prompts/{pid}.txt", "w").write(text)
    print(pid, wt)
