#!/usr/bin/env python3
"""Prints a markdown table of the rules as built, from the evidence files of the last run (used to refresh DESIGN.md Appendix E)."""
import json, glob
for f in sorted(glob.glob('/verif/evidence/C*.json')):
    e = json.load(open(f))
    c = e['coverage']
    print(f"\n**{e['property_id']}** — {c['obligations']} obligations, {c['discharged']} discharged, {c.get('known_findings',0)} known finding(s)\n")
    print("| rule | instances (min) | template |")
    print("|------|-----------------|----------|")
    for r in c['rules']:
        print(f"| {r['id']} | {r['found']} ({r['min_instances']}) | {r['template']} |")
