package main

// SSA view: whole-program rules (package state, lock discipline, taint, error flow).

import (
	"go/token"
	"go/types"
	"sort"
	"strings"

	"golang.org/x/tools/go/callgraph"
	"golang.org/x/tools/go/callgraph/cha"
	"golang.org/x/tools/go/ssa"
	"golang.org/x/tools/go/ssa/ssautil"
)

type ssaProg struct {
	prog    *ssa.Program
	pkgs    map[*ssa.Package]bool // in-scope packages
	fns     []*ssa.Function       // in-scope functions (incl. anonymous), sorted
	cg      *callgraph.Graph
	byName  map[string]*ssa.Function
	inScope map[*ssa.Function]bool
}

func (p *Prog) SSA() *ssaProg {
	if p.ssaP != nil {
		return p.ssaP
	}
	prog, pkgs := ssautil.AllPackages(p.Pkgs, ssa.InstantiateGenerics)
	prog.Build()
	s := &ssaProg{prog: prog, pkgs: map[*ssa.Package]bool{}, byName: map[string]*ssa.Function{}, inScope: map[*ssa.Function]bool{}}
	for _, pk := range pkgs {
		if pk != nil {
			s.pkgs[pk] = true
		}
	}
	for fn := range ssautil.AllFunctions(prog) {
		if s.inPkgs(fn) && fn.Synthetic == "" {
			if fn.Blocks == nil {
				continue
			}
			s.fns = append(s.fns, fn)
			s.inScope[fn] = true
			s.byName[fn.String()] = fn
		}
	}
	sort.Slice(s.fns, func(i, j int) bool { return s.fns[i].String() < s.fns[j].String() })
	s.cg = cha.CallGraph(prog)
	p.ssaP = s
	return s
}

func (s *ssaProg) inPkgs(fn *ssa.Function) bool {
	for f := fn; f != nil; f = f.Parent() {
		if f.Pkg != nil {
			return s.pkgs[f.Pkg]
		}
	}
	return false
}

// fnPkgName returns the short package name an SSA function belongs to.
func fnPkgName(fn *ssa.Function) string {
	for f := fn; f != nil; f = f.Parent() {
		if f.Pkg != nil {
			return f.Pkg.Pkg.Name()
		}
	}
	return ""
}

// shortFn: "hermes.(*FilePool).Get" style without module path.
func shortFn(fn *ssa.Function) string {
	s := fn.String()
	s = strings.ReplaceAll(s, "github.com/zalf-rpm/Hermes2Go/", "")
	s = strings.ReplaceAll(s, "src/hermes2go", "hermes2go")
	return s
}

// reachable returns the in-scope functions reachable from roots in the CHA
// call graph (edges through out-of-scope functions are followed too, so that
// callbacks are not lost).
func (s *ssaProg) reachable(roots ...*ssa.Function) map[*ssa.Function]bool {
	seen := map[*ssa.Function]bool{}
	var work []*ssa.Function
	for _, r := range roots {
		if r != nil && !seen[r] {
			seen[r] = true
			work = append(work, r)
		}
	}
	for len(work) > 0 {
		fn := work[len(work)-1]
		work = work[:len(work)-1]
		n := s.cg.Nodes[fn]
		if n == nil {
			continue
		}
		for _, e := range n.Out {
			c := e.Callee.Func
			if seen[c] {
				continue
			}
			// do not walk into the standard library / third-party code: their
			// internals are outside every property (callbacks from them into
			// in-scope code do not occur on the run path: checked by R-anon)
			if !s.inScope[c] {
				continue
			}
			seen[c] = true
			work = append(work, c)
		}
		// anonymous functions defined inside are reachable when created
		for _, af := range fn.AnonFuncs {
			if !seen[af] {
				seen[af] = true
				work = append(work, af)
			}
		}
	}
	return seen
}

func (s *ssaProg) runFn() *ssa.Function {
	for _, fn := range s.fns {
		if fn.Name() == "Run" && fn.Signature.Recv() != nil && strings.HasSuffix(fn.Signature.Recv().Type().String(), "hermes.HermesSession") {
			return fn
		}
	}
	return nil
}

// addrRoot strips FieldAddr/IndexAddr/loads and returns the underlying value.
func addrRoot(v ssa.Value) ssa.Value {
	for {
		switch t := v.(type) {
		case *ssa.FieldAddr:
			v = t.X
		case *ssa.IndexAddr:
			v = t.X
		case *ssa.UnOp:
			if t.Op == token.MUL {
				v = t.X
				continue
			}
			return v
		case *ssa.Slice:
			v = t.X
		case *ssa.ChangeType:
			v = t.X
		case *ssa.Convert:
			v = t.X
		default:
			return v
		}
	}
}

func staticCalleeName(c *ssa.CallCommon) string {
	if f := c.StaticCallee(); f != nil {
		return f.String()
	}
	if c.IsInvoke() {
		return "invoke " + c.Method.FullName()
	}
	return ""
}

func isNamed(t types.Type, pkgSuffix, name string) bool {
	if pt, ok := t.(*types.Pointer); ok {
		t = pt.Elem()
	}
	n, ok := t.(*types.Named)
	if !ok || n.Obj().Name() != name {
		return false
	}
	return n.Obj().Pkg() != nil && strings.HasSuffix(n.Obj().Pkg().Path(), pkgSuffix)
}

func (p *Prog) ssaPos(pos token.Pos) string { return p.Pos(pos) }

// instrPos returns a usable position for an instruction (falls back to the
// enclosing function's position).
func instrPos(p *Prog, in ssa.Instruction) string {
	if in.Pos().IsValid() {
		return p.Pos(in.Pos())
	}
	if in.Parent() != nil {
		return p.Pos(in.Parent().Pos())
	}
	return "?"
}

// instrInLoop: the instruction's block lies on a cycle of the CFG.
func instrInLoop(in ssa.Instruction) bool {
	b := in.Block()
	seen := map[*ssa.BasicBlock]bool{}
	work := append([]*ssa.BasicBlock{}, b.Succs...)
	for len(work) > 0 {
		c := work[len(work)-1]
		work = work[:len(work)-1]
		if c == b {
			return true
		}
		if seen[c] {
			continue
		}
		seen[c] = true
		work = append(work, c.Succs...)
	}
	return false
}

// staleReads returns the loads of scalar field st.field in function fnShort
// (e.g. "hermes.Water") that can be reached from the function entry without
// passing a store to the same field: the value read may be left over from an
// earlier call.
func staleReads(p *Prog, fnShort, st, field string) (loads int, stale []ssa.Instruction, found bool) {
	s := p.SSA()
	var fn *ssa.Function
	for _, f := range s.fns {
		if shortFn(f) == fnShort {
			fn = f
		}
	}
	if fn == nil {
		return 0, nil, false
	}
	type site struct {
		blk *ssa.BasicBlock
		idx int
	}
	stores := map[*ssa.BasicBlock][]int{}
	var reads []site
	var readIns []ssa.Instruction
	for _, b := range fn.Blocks {
		for i, in := range b.Instrs {
			switch t := in.(type) {
			case *ssa.Store:
				if fa, ok := t.Addr.(*ssa.FieldAddr); ok && ssaFieldIs(fa, st, field) {
					stores[b] = append(stores[b], i)
				}
			case *ssa.UnOp:
				if t.Op == token.MUL {
					if fa, ok := t.X.(*ssa.FieldAddr); ok && ssaFieldIs(fa, st, field) {
						reads = append(reads, site{b, i})
						readIns = append(readIns, in)
					}
				}
			}
		}
	}
	// blocks reachable from entry without crossing a store; entryClean[b] = b's entry is reachable "dirty"
	dirtyIn := map[*ssa.BasicBlock]bool{}
	if len(fn.Blocks) == 0 {
		return len(reads), nil, true
	}
	work := []*ssa.BasicBlock{fn.Blocks[0]}
	dirtyIn[fn.Blocks[0]] = true
	for len(work) > 0 {
		b := work[len(work)-1]
		work = work[:len(work)-1]
		if len(stores[b]) > 0 {
			continue // leaving b the field is defined
		}
		for _, sc := range b.Succs {
			if !dirtyIn[sc] {
				dirtyIn[sc] = true
				work = append(work, sc)
			}
		}
	}
	for k, rd := range reads {
		if !dirtyIn[rd.blk] {
			continue
		}
		defined := false
		for _, si := range stores[rd.blk] {
			if si < rd.idx {
				defined = true
			}
		}
		if !defined {
			stale = append(stale, readIns[k])
		}
	}
	return len(reads), stale, true
}
