package main

import (
	"encoding/json"
	"fmt"
	"os"
	"path/filepath"
	"regexp"
	"sort"
	"strconv"
	"strings"
	"time"
)

type Obligation struct {
	Rule   string `json:"rule"`
	Key    string `json:"key"`
	Pos    string `json:"pos"`
	OK     bool   `json:"ok"`
	Detail string `json:"detail"`
	Known  bool   `json:"known_finding,omitempty"`
}

type RuleInfo struct {
	ID       string `json:"id"`
	Template string `json:"template"`
	Min      int    `json:"min_instances"`
	Found    int    `json:"found"`
	OK       int    `json:"discharged"`
}

type Report struct {
	Prop      string
	Tier      string
	Start     time.Time
	Prog      *Prog
	Rules     []*RuleInfo
	Obs       []*Obligation
	Notes     []string
	Assume    []string
	cur       *RuleInfo
	Extra     map[string]interface{}
	Infra     []string // infrastructure failures (exit 2)
	keyCount  map[string]int
	extraKeys []string // development mode ALL (mutation sweep)
}

func NewReport(prop, tier string, p *Prog) *Report {
	return &Report{Prop: prop, Tier: tier, Start: time.Now(), Prog: p, Extra: map[string]interface{}{}, keyCount: map[string]int{}}
}

// Rule opens a rule; min is the number of instances confirmed by hand on the
// pinned tree (a rule that matches fewer is reported: no vacuous passes).
func (r *Report) Rule(id, template string, min int) {
	r.closeRule()
	r.cur = &RuleInfo{ID: id, Template: template, Min: min}
	r.Rules = append(r.Rules, r.cur)
}

func (r *Report) closeRule() {
	if r.cur == nil {
		return
	}
	if r.cur.Found < r.cur.Min {
		r.Obs = append(r.Obs, &Obligation{Rule: r.cur.ID, Key: r.cur.ID + ":instances", Pos: "-", OK: false,
			Detail: fmt.Sprintf("rule matched %d instance(s), at least %d were confirmed by hand on the pinned tree: a mechanism the property rests on is no longer recognisable (%s)", r.cur.Found, r.cur.Min, r.cur.Template)})
	}
	r.cur = nil
}

// Ob records one obligation of the current rule.  key must not contain line
// numbers; duplicates get an ordinal in source order.
func (r *Report) Ob(key string, pos string, ok bool, detail string) *Obligation {
	full := r.cur.ID + ":" + key
	r.keyCount[full]++
	if n := r.keyCount[full]; n > 1 {
		full = fmt.Sprintf("%s#%d", full, n)
	}
	o := &Obligation{Rule: r.cur.ID, Key: full, Pos: pos, OK: ok, Detail: detail}
	r.Obs = append(r.Obs, o)
	r.cur.Found++
	if ok {
		r.cur.OK++
	}
	return o
}

// Expect reports a named mechanism that must exist.
func (r *Report) Expect(key string, found bool, what string) {
	if !found {
		r.Ob(key, "-", false, "expected mechanism not found: "+what)
	}
}

func (r *Report) Note(format string, a ...interface{}) {
	r.Notes = append(r.Notes, fmt.Sprintf(format, a...))
}

func (r *Report) InfraFail(format string, a ...interface{}) {
	r.Infra = append(r.Infra, fmt.Sprintf(format, a...))
}

// ---------------------------------------------------------------- known findings

type KnownFinding struct {
	Property string `json:"property"`
	Key      string `json:"key"`
	Status   string `json:"status"` // known | fixed
	Commit   string `json:"commit,omitempty"`
	What     string `json:"what"`
}

func verifDir() string {
	if d := os.Getenv("HV_VERIF"); d != "" {
		return d
	}
	return "/verif"
}

func loadKnown() ([]KnownFinding, error) {
	b, err := os.ReadFile(filepath.Join(verifDir(), "known_findings.json"))
	if err != nil {
		if os.IsNotExist(err) {
			return nil, nil
		}
		return nil, err
	}
	var out struct {
		Findings []KnownFinding `json:"findings"`
	}
	if err := json.Unmarshal(b, &out); err != nil {
		return nil, err
	}
	return out.Findings, nil
}

var unsafeRe = regexp.MustCompile(`[^A-Za-z0-9_.-]+`)

// FailingKeys returns the keys of failed obligations that are not recorded known findings.
func (r *Report) FailingKeys() []string {
	r.closeRule()
	known, _ := loadKnown()
	km := map[string]bool{}
	for _, k := range known {
		if k.Property == r.Prop && k.Status == "known" {
			km[k.Key] = true
		}
	}
	var out []string
	for _, o := range r.Obs {
		if !o.OK && !km[o.Key] {
			out = append(out, o.Key)
		}
	}
	sort.Strings(out)
	return out
}

// Finish writes the evidence file, prints VIOLATION / KNOWN-FINDING lines and
// returns the process exit code.
func (r *Report) Finish() int {
	r.closeRule()
	known, err := loadKnown()
	if err != nil {
		r.InfraFail("known_findings.json: %v", err)
	}
	kmap := map[string]KnownFinding{}
	for _, k := range known {
		if k.Property == r.Prop && k.Status == "known" {
			kmap[k.Key] = k
		}
	}
	sort.SliceStable(r.Obs, func(i, j int) bool { return r.Obs[i].Key < r.Obs[j].Key })
	viol := 0
	discharged := 0
	vdir := filepath.Join(verifDir(), "out", "replay", r.Prop)
	os.RemoveAll(vdir)
	var lines []string
	for _, o := range r.Obs {
		if o.OK {
			discharged++
			continue
		}
		if k, ok := kmap[o.Key]; ok {
			o.Known = true
			lines = append(lines, fmt.Sprintf("KNOWN-FINDING: property=%s %s [%s at %s]", r.Prop, k.What, o.Key, o.Pos))
			continue
		}
		viol++
		os.MkdirAll(vdir, 0o755)
		fn := filepath.Join(vdir, unsafeRe.ReplaceAllString(o.Key, "_")+".json")
		b, _ := json.MarshalIndent(o, "", " ")
		os.WriteFile(fn, b, 0o644)
		lines = append(lines, fmt.Sprintf("VIOLATION property=%s replay=%s", r.Prop, fn))
		lines = append(lines, fmt.Sprintf("  rule=%s key=%s at %s: %s", o.Rule, o.Key, o.Pos, clip(o.Detail, 700)))
	}
	wall := time.Since(r.Start).Seconds()
	// evidence
	samples := []interface{}{}
	for i, o := range r.Obs {
		if i < 400 {
			samples = append(samples, o)
		}
	}
	var tmpl []string
	for _, ru := range r.Rules {
		tmpl = append(tmpl, ru.ID+": "+ru.Template)
	}
	seed, _ := strconv.Atoi(os.Getenv("VERIF_SEED"))
	cov := map[string]interface{}{
		"obligations": len(r.Obs),
		"discharged":  discharged,
		"known_findings": func() int {
			n := 0
			for _, o := range r.Obs {
				if o.Known {
					n++
				}
			}
			return n
		}(),
		"samples":      samples,
		"rules":        r.Rules,
		"explanation":  "Static analysis of /repo's current working tree (type-checked AST, symbolic normal forms, CFG/SSA/call graph); nothing is executed. Decided: the structural necessary conditions listed in 'rules'. Each obligation names the construct (file:line on this tree), the rule and the certificate or the offending reason. NOT decided: the numeric behaviour itself (see DESIGN.md, section of this property). " + strings.Join(tmpl, " | "),
		"exhaustive":   true,
		"checker_cmd":  "bin/hv check " + r.Prop + " --tier " + r.Tier,
		"trusted_base": []string{"go/types", "golang.org/x/tools v0.29.0 (go/packages, go/ssa, go/cfg, callgraph)", "hv normaliser and idiom recognisers", "frozen instance tables (re-validated each run)"},
		"notes":        r.Notes,
	}
	if r.Prog != nil {
		var pk []string
		for _, p := range r.Prog.Pkgs {
			pk = append(pk, p.PkgPath)
		}
		sort.Strings(pk)
		cov["packages"] = pk
		cov["files_analysed"] = r.Prog.NFiles
		cov["functions_analysed"] = r.Prog.NumFuncs()
	}
	for k, v := range r.Extra {
		cov[k] = v
	}
	ev := map[string]interface{}{
		"property_id": r.Prop,
		"tier":        r.Tier,
		"seed":        seed,
		"level":       "other",
		"coverage":    cov,
		"assumptions": append([]string{"real arithmetic where a rule argues algebraically (round-off outside every claim)", "Go type checker and x/tools are correct"}, r.Assume...),
		"wall_s":      wall,
		"violations":  viol,
	}
	if len(r.Infra) > 0 {
		ev["infrastructure_failures"] = r.Infra
	}
	edir := filepath.Join(verifDir(), "evidence")
	os.MkdirAll(edir, 0o755)
	b, _ := json.MarshalIndent(ev, "", " ")
	if err := os.WriteFile(filepath.Join(edir, r.Prop+".json"), b, 0o644); err != nil {
		fmt.Fprintln(os.Stderr, "cannot write evidence:", err)
		return 2
	}
	for _, ru := range r.Rules {
		fmt.Printf("rule %-10s instances=%d discharged=%d (min %d)\n", ru.ID, ru.Found, ru.OK, ru.Min)
	}
	for _, l := range lines {
		fmt.Println(l)
	}
	fmt.Printf("%s tier=%s obligations=%d discharged=%d violations=%d wall=%.1fs\n", r.Prop, r.Tier, len(r.Obs), discharged, viol, wall)
	if len(r.Infra) > 0 {
		for _, s := range r.Infra {
			fmt.Fprintln(os.Stderr, "INFRASTRUCTURE FAILURE:", s)
		}
		return 2
	}
	if viol > 0 {
		return 1
	}
	return 0
}

func clip(s string, n int) string {
	if len(s) > n {
		return s[:n] + "…"
	}
	return s
}
