package main

import (
	"fmt"
	"go/ast"
	"go/token"
	"go/types"
	"os"
	"path/filepath"
	"sort"
	"strings"

	"golang.org/x/tools/go/packages"
	"golang.org/x/tools/go/types/typeutil"
)

const hermesPath = "github.com/zalf-rpm/Hermes2Go/hermes"

var quickPatterns = []string{"./hermes/...", "./src/hermes2go/...", "./src/calcHermesBatch/...", "./src/cropfileconverter/..."}
var thoroughExtra = []string{"./src/hermes_service/...", "./src/calcSoil/...", "./src/producer_consumer/..."}

type FuncInfo struct {
	Key  string // "hermes.Water", "hermes.FilePool.Get", "hermes2go.main"
	Decl *ast.FuncDecl
	Pkg  *packages.Package
	Obj  *types.Func
}

type Prog struct {
	Root    string
	Fset    *token.FileSet
	Pkgs    []*packages.Package
	ByShort map[string]*packages.Package
	Hermes  *packages.Package
	Funcs   map[string]*FuncInfo
	ByObj   map[*types.Func]*FuncInfo
	NFiles  int

	// lazily built
	fa   *FieldIndex
	ssaP *ssaProg
}

func repoRoot() string {
	if r := os.Getenv("HV_REPO"); r != "" {
		return r
	}
	return "/repo"
}

func shortName(p *packages.Package) string {
	s := p.PkgPath
	if i := strings.LastIndex(s, "/"); i >= 0 {
		s = s[i+1:]
	}
	return s
}

// Load type-checks the in-scope packages of the repository's current
// working tree (workspace mode, offline).  overlay maps absolute file names
// to replacement contents (used only by the checker self-validation).
func Load(patterns []string, overlay map[string][]byte) (*Prog, error) {
	root := repoRoot()
	env := append([]string{}, os.Environ()...)
	env = append(env, "GOFLAGS=", "GOWORK=", "GOPROXY=off", "GOSUMDB=off", "GOTOOLCHAIN=local")
	cfg := &packages.Config{
		Mode:    packages.LoadAllSyntax,
		Dir:     root,
		Env:     env,
		Tests:   false,
		Overlay: overlay,
	}
	pkgs, err := packages.Load(cfg, patterns...)
	if err != nil {
		return nil, fmt.Errorf("packages.Load: %v", err)
	}
	if len(pkgs) == 0 {
		return nil, fmt.Errorf("no packages loaded for %v", patterns)
	}
	p := &Prog{Root: root, Pkgs: pkgs, ByShort: map[string]*packages.Package{}, Funcs: map[string]*FuncInfo{}, ByObj: map[*types.Func]*FuncInfo{}}
	var errs []string
	for _, pk := range pkgs {
		for _, e := range pk.Errors {
			errs = append(errs, e.Error())
		}
		if pk.Fset != nil {
			p.Fset = pk.Fset
		}
		p.ByShort[shortName(pk)] = pk
		if pk.PkgPath == hermesPath {
			p.Hermes = pk
		}
		p.NFiles += len(pk.Syntax)
	}
	if len(errs) > 0 {
		sort.Strings(errs)
		return nil, fmt.Errorf("type errors: %s", strings.Join(errs, "; "))
	}
	if p.Hermes == nil {
		return nil, fmt.Errorf("package %s not loaded", hermesPath)
	}
	for _, pk := range pkgs {
		sn := shortName(pk)
		for _, f := range pk.Syntax {
			for _, d := range f.Decls {
				fd, ok := d.(*ast.FuncDecl)
				if !ok || fd.Body == nil {
					continue
				}
				obj, _ := pk.TypesInfo.Defs[fd.Name].(*types.Func)
				key := sn + "." + fd.Name.Name
				if fd.Recv != nil && len(fd.Recv.List) == 1 {
					key = sn + "." + recvTypeName(fd.Recv.List[0].Type) + "." + fd.Name.Name
				}
				fi := &FuncInfo{Key: key, Decl: fd, Pkg: pk, Obj: obj}
				p.Funcs[key] = fi
				if obj != nil {
					p.ByObj[obj] = fi
				}
			}
		}
	}
	return p, nil
}

func recvTypeName(e ast.Expr) string {
	switch t := e.(type) {
	case *ast.StarExpr:
		return recvTypeName(t.X)
	case *ast.Ident:
		return t.Name
	case *ast.IndexExpr:
		return recvTypeName(t.X)
	}
	return "?"
}

func (p *Prog) Pos(pos token.Pos) string {
	if !pos.IsValid() {
		return "?"
	}
	ps := p.Fset.Position(pos)
	rel, err := filepath.Rel(p.Root, ps.Filename)
	if err != nil {
		rel = ps.Filename
	}
	return fmt.Sprintf("%s:%d", rel, ps.Line)
}

func (p *Prog) Fn(key string) *FuncInfo { return p.Funcs[key] }

func (p *Prog) NumFuncs() int { return len(p.Funcs) }

// callee resolves a call through type information.
func callee(info *types.Info, call *ast.CallExpr) *types.Func {
	f, _ := typeutil.Callee(info, call).(*types.Func)
	return f
}

func calleeName(f *types.Func) string {
	if f == nil {
		return ""
	}
	if f.Pkg() == nil {
		return f.Name()
	}
	sig, _ := f.Type().(*types.Signature)
	if sig != nil && sig.Recv() != nil {
		t := sig.Recv().Type()
		if pt, ok := t.(*types.Pointer); ok {
			t = pt.Elem()
		}
		if n, ok := t.(*types.Named); ok {
			return f.Pkg().Name() + "." + n.Obj().Name() + "." + f.Name()
		}
	}
	return f.Pkg().Name() + "." + f.Name()
}

// namedStruct returns the name of the (pointer to) named struct type.
func namedStruct(t types.Type) (string, *types.Struct) {
	if t == nil {
		return "", nil
	}
	if pt, ok := t.Underlying().(*types.Pointer); ok {
		t = pt.Elem()
	}
	n, ok := t.(*types.Named)
	if !ok {
		return "", nil
	}
	st, ok := n.Underlying().(*types.Struct)
	if !ok {
		return "", nil
	}
	return n.Obj().Name(), st
}

// findFuncLit returns the first function literal of fd whose body satisfies
// pred (used to find the run closure in HermesSession.Run).
func findFuncLits(n ast.Node) []*ast.FuncLit {
	var out []*ast.FuncLit
	ast.Inspect(n, func(m ast.Node) bool {
		if fl, ok := m.(*ast.FuncLit); ok {
			out = append(out, fl)
		}
		return true
	})
	return out
}
