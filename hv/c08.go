package main

// C08 — actual ET never exceeds potential ET; uptake only from rooted layers
// above the groundwater table.  Structural conditions: the caps and floors
// the bound rests on exist, cover every ET-method arm, and carry constants not
// above the property's caps; the soil-dryness reduction factor is proved to
// lie in [0,1] by interval evaluation of its four arms; every non-zero uptake
// store is confined to min(root depth, groundwater); the first-sub-step clip
// compares the daily uptake with the plant-available water.

import (
	"fmt"
	"go/ast"
	"go/token"
	"go/types"
	"math"
	"strings"
)

func init() { register("C08", checkC08) }

// isFloorStore: "if x < B { x = B }" (value B stored under old − B < 0).
func isFloorStore(e *Event) bool {
	return e.Kind == "assign" && guardedBy(e, e.Old.Sub(e.Val), token.LSS, token.LEQ)
}

// isCapStore: "if x > B { x = B }".
func isCapStore(e *Event) bool {
	return e.Kind == "assign" && guardedBy(e, e.Old.Sub(e.Val), token.GTR, token.GEQ)
}

// branchKeys returns the non-loop guard keys of e without the clamp's own test.
func branchKeys(e *Event, own Poly) []string {
	var out []string
	for _, g := range flattenGuards(e.Guards) {
		if g.Loop {
			continue
		}
		if g.Kind == "cmp" && (isCmp(g, own, token.LSS, token.LEQ, token.GTR, token.GEQ)) {
			continue
		}
		out = append(out, g.Key())
	}
	return out
}

func subset(a, b []string) bool {
	m := map[string]bool{}
	for _, x := range b {
		m[x] = true
	}
	for _, x := range a {
		if !m[x] {
			return false
		}
	}
	return true
}

func allNonLoopKeys(e *Event) []string {
	var out []string
	for _, g := range flattenGuards(e.Guards) {
		if !g.Loop {
			out = append(out, g.Key())
		}
	}
	return out
}

func checkC08(p *Prog, r *Report) {
	x := walked(p, "hermes.Evatra")
	if x == nil {
		r.Rule("C08.R1", "caps", 1)
		r.Ob("Evatra", "-", false, "hermes.Evatra not found")
		return
	}
	c08Caps(p, r, x)
	c08Reduction(p, r, x)
	c08Support(p, r, x)
	c08UptakeTotal(p, r, x)
	c08Clip(p, r, "C08.R5")
	// uptake of a day without demand must be zero, not yesterday's (shared with C01.R5)
	dayHandover(p, r, "C08.R6")
	// potential ET ≥ 0 needs non-negative sunshine hours and radiation: the sentinel must not survive (shared with C04.R8)
	sentinelFallback(p, r, "C08.R8")
	// daily amounts of evaporation and uptake are applied exactly once per day: sub-step count × length ≡ one day (shared with C01.R1)
	c01R1(p, r, "C08.R9")
	// a NaN compares false with every cap and bound: the partial operations of the evapotranspiration routine stay
	// inside their domains (shared machinery with C06.R6)
	domainRule(p, r, "C08.R7", "the evapotranspiration routine", []string{"hermes.Evatra"}, 60)
	// extraterrestrial radiation and day length feed the ET methods
	solarClamps(p, r, "C08.R12")
	// "no uptake below the groundwater table" is stated against the table the input gives: the series reader keeps
	// exactly the requested id's lines and reads the file to its end (shared with C20.R6)
	c20SeriesIdAs(p, r, "C08.R13")
}

func c08Caps(p *Prog, r *Report, x *Exec) {
	r.Rule("C08.R1", "caps on potential ET: every store of the day's potential ET by an ET-method arm is followed, on every path, by a cap store whose constant is not above the property's cap (0.65 cm under a crop, 0.6 cm on bare soil) and whose guards do not single out a method; the evaporation share is capped at 0.65 before use; every computed reference ET is floored at 0 before it is used; actual evaporation is exactly capped share × reduction factor", 12)
	var stores, caps, floors []*Event
	for _, e := range x.Events {
		if e.Kind == "assign" && e.Root == "VERDU" {
			if isCapStore(e) {
				caps = append(caps, e)
			} else if isFloorStore(e) && e.Val.IsZero() {
				floors = append(floors, e)
			} else {
				stores = append(stores, e)
			}
		}
	}
	// bare-soil branch: where the transpiration share is set to zero next to the cap
	bareKeys := map[string]bool{}
	for _, e := range x.Events {
		if e.Kind == "assign" && e.Local != nil && e.Local.Name() == "TRAMAX" && e.Val.IsZero() && len(allNonLoopKeys(e)) > 0 {
			for _, k := range allNonLoopKeys(e) {
				bareKeys[k] = true
			}
		}
	}
	for _, c := range caps {
		cv, isC := c.Val.Const()
		own := c.Old.Sub(c.Val)
		bk := branchKeys(c, own)
		bare := len(bk) > 0
		for _, k := range bk {
			if !bareKeys[k] {
				bare = false
			}
		}
		limit := 0.65
		if bare {
			limit = 0.6
		}
		f := math.Inf(1)
		if isC {
			f, _ = cv.Float64()
		}
		ok := isC && f <= limit+1e-12 && f > 0
		det := fmt.Sprintf("potential ET capped at %g (property cap %g, %s branch)", f, limit, map[bool]string{true: "bare-soil", false: "cropped"}[bare])
		for _, k := range bk {
			if strings.Contains(k, "ETMETH") {
				ok = false
				det += "; the cap is applied only under " + k + " — the other ET methods stay uncapped"
			}
		}
		r.Ob("cap:VERDU", p.Pos(c.Pos), ok, det)
	}
	for _, s := range stores {
		if c, isC := s.Val.Const(); isC && c.Sign() == 0 {
			continue
		}
		sk := allNonLoopKeys(s)
		covered := false
		for _, c := range caps {
			if c.Seq > s.Seq && subset(branchKeys(c, c.Old.Sub(c.Val)), sk) {
				covered = true
			}
		}
		r.Ob("arm:VERDU", p.Pos(s.Pos), covered, fmt.Sprintf("potential ET computed here (%s) is capped on every path afterwards: %v", clip(strings.Join(methodKeys(sk), " ; "), 120), covered))
		// non-negative: either the arm's value is a product of the floored reference ET, the crop coefficient and a
		// positive constant, or a floor at 0 follows on every path whose guards do not single out a method
		nonneg, how := false, ""
		if t := s.Val.single(); t != nil && t.C.Sign() > 0 {
			all := len(t.M) > 0
			for _, f := range t.M {
				if !(f.E >= 1 && (f.A.Root == "GlobalVarsMain.ET0" || f.A.Root == "GlobalVarsMain.FKC" || f.A.Root == "GlobalVarsMain.FKB")) {
					all = false
				}
			}
			if all {
				nonneg, how = true, "floored reference ET × crop coefficient × positive constant"
			}
		}
		if !nonneg {
			for _, f := range floors {
				if f.Seq > s.Seq && subset(branchKeys(f, f.Old.Sub(f.Val)), sk) {
					used := false
					for _, u := range x.Events {
						if u.Kind == "assign" && u.Seq > s.Seq && u.Seq < f.Seq && u.Root != "VERDU" && u.Val.MentionsRoot("VERDU") && subset(allNonLoopKeys(u), sk) {
							used = true
						}
					}
					if !used {
						nonneg, how = true, "floored at 0 at "+p.Pos(f.Pos)+" before the value is used"
					}
				}
			}
		}
		r.Ob("nonneg:VERDU", p.Pos(s.Pos), nonneg, fmt.Sprintf("potential ET computed here (%s) cannot be negative: %v %s", clip(strings.Join(methodKeys(sk), " ; "), 120), nonneg, how))
	}
	// evaporation share cap
	var eta *Event
	for _, e := range x.Events {
		if e.Kind == "assign" && e.Root == "GlobalVarsMain.ETA" {
			eta = e
		}
	}
	foundEv := false
	for _, e := range x.Events {
		if e.Kind == "assign" && e.Local != nil && e.Local.Name() == "EVMAX" && isCapStore(e) {
			c, isC := e.Val.Const()
			f := math.Inf(1)
			if isC {
				f, _ = c.Float64()
			}
			uncond := len(branchKeys(e, e.Old.Sub(e.Val))) == 0
			ok := isC && f <= 0.65+1e-12 && uncond && eta != nil && e.Seq < eta.Seq
			foundEv = true
			r.Ob("cap:EVMAX", p.Pos(e.Pos), ok, fmt.Sprintf("evaporation share capped at %g, on every path (no branch guards): %v, before actual evaporation is computed", f, uncond))
		}
	}
	if !foundEv {
		r.Ob("cap:EVMAX", "-", false, "no cap on the evaporation share")
	}
	if eta == nil {
		r.Ob("ETA", "-", false, "actual evaporation store not found")
	} else {
		t := eta.Val.single()
		ok := t != nil && t.C.Cmp(ratInt(1)) == 0 && len(t.M) == 2
		if ok {
			names := map[string]bool{}
			for _, f := range t.M {
				names[f.A.Root] = true
				if f.E != 1 {
					ok = false
				}
			}
			ok = ok && names["EVMAX"] && names["REDEV"]
		}
		r.Ob("ETA", p.Pos(eta.Pos), ok, fmt.Sprintf("actual evaporation = %s (must be capped share × reduction factor)", eta.Val))
	}
	// ET0 floors
	var et0 []*Event
	for _, e := range x.Events {
		if e.Kind == "assign" && e.Root == "GlobalVarsMain.ET0" {
			et0 = append(et0, e)
		}
	}
	for i, e := range et0 {
		if c, isC := e.Val.Const(); isC && c.Sign() == 0 {
			continue
		}
		// a floor at 0 follows before ET0 is consumed by a VERDU store
		floored := false
		for _, f := range et0[i+1:] {
			if f.Val.IsZero() && isFloorStore(f) && subset(branchKeys(f, f.Old.Sub(f.Val)), allNonLoopKeys(e)) {
				// no VERDU store between e and f
				used := false
				for _, s := range stores {
					if s.Seq > e.Seq && s.Seq < f.Seq && s.Val.MentionsRoot("GlobalVarsMain.ET0") {
						used = true
					}
				}
				floored = !used
				break
			}
			if !f.Val.IsZero() && subset(allNonLoopKeys(f), allNonLoopKeys(e)) && subset(allNonLoopKeys(e), allNonLoopKeys(f)) {
				break
			}
		}
		// sibling arm that is immediately overwritten under the complementary guard (CTRANS) shares the floor
		r.Ob("floor:ET0", p.Pos(e.Pos), floored, fmt.Sprintf("reference ET computed here is floored at 0 before use: %v", floored))
	}
}

func methodKeys(ks []string) []string {
	var o []string
	for _, k := range ks {
		if strings.Contains(k, "ETMETH") {
			o = append(o, k)
		}
	}
	return o
}

// ---------------------------------------------------------------- reduction factor

func c08Reduction(p *Prog, r *Report, x *Exec) {
	r.Rule("C08.R2", "soil-dryness reduction factor in [0,1]: the relative top-soil moisture is floored through the water content (not below a third of the wilting point) and capped at 1, and each arm of the piecewise-linear factor, evaluated over the moisture sub-range its guards select, stays within [0,1] (interval evaluation of the formulas in today's source)", 6)
	var wobFloor, prozCap bool
	var prozAtom *Atom
	for _, e := range x.Events {
		if e.Kind != "assign" || e.Local == nil {
			continue
		}
		switch e.Local.Name() {
		case "WOB":
			if isFloorStore(e) && stripVersions(e.Val).Equal(cellP("GlobalVarsMain.WMIN", PInt(0)).Scale(ratFrac(1, 3))) {
				wobFloor = true
				r.Ob("floor:WOB", p.Pos(e.Pos), true, "top-soil water content floored at WMIN[0]/3, so the relative moisture is ≥ 0 for field capacity above that limit (C15)")
			}
		case "PROZ":
			if isCapStore(e) {
				if c, ok := e.Val.ConstInt(); ok && c == 1 {
					prozCap = true
					r.Ob("cap:PROZ", p.Pos(e.Pos), true, "relative moisture capped at 1")
				}
			} else {
				// PROZ ≡ (WOB − WMIN/3)/(W − WMIN/3)
				v := stripVersions(e.Val)
				var wob *Atom
				v.walkAtoms(func(a *Atom) {
					if a.Root == "WOB" {
						wob = a
					}
				})
				ok := false
				if wob != nil {
					lim := cellP("GlobalVarsMain.WMIN", PInt(0)).Scale(ratFrac(1, 3))
					want := PAtom(wob).Sub(lim).Div(cellP("GlobalVarsMain.W", PInt(0)).Sub(lim))
					ok = v.Equal(want)
				}
				r.Ob("form:PROZ", p.Pos(e.Pos), ok, "relative moisture = (WOB − WMIN/3)/(W − WMIN/3): "+fmt.Sprint(ok))
			}
		}
	}
	if !wobFloor {
		r.Ob("floor:WOB", "-", false, "the top-soil water content is not floored at WMIN[0]/3 before the relative moisture is formed")
	}
	if !prozCap {
		r.Ob("cap:PROZ", "-", false, "the relative moisture is not capped at 1")
	}
	// arms
	n := 0
	for _, e := range x.Events {
		if e.Kind != "assign" || e.Local == nil || e.Local.Name() != "REDEV" {
			continue
		}
		if c, isC := e.Val.Const(); isC && c.Sign() == 0 && len(allNonLoopKeys(e)) == 0 {
			continue // declaration
		}
		// the PROZ atom and its range from the guards
		prozAtom = nil
		e.Val.walkAtoms(func(a *Atom) {
			if a.Root == "PROZ" {
				prozAtom = a
			}
		})
		rng := Iv{0, 1}
		for _, g := range flattenGuards(e.Guards) {
			if g.Kind != "cmp" || prozAtom == nil && !strings.Contains(g.Key(), "PROZ") {
				continue
			}
			var pa *Atom
			g.P.walkAtoms(func(a *Atom) {
				if a.Root == "PROZ" {
					pa = a
				}
			})
			if pa == nil {
				continue
			}
			if prozAtom == nil {
				prozAtom = pa
			}
			// P = s·PROZ + c  op 0
			cf, lin := coeffOf(g.P, pa)
			cst := g.P.Sub(cf.Mul(PAtom(pa)))
			s, ok1 := cf.Const()
			c, ok2 := cst.Const()
			if !lin || !ok1 || !ok2 || s.Sign() == 0 {
				continue
			}
			sf, _ := s.Float64()
			cfl, _ := c.Float64()
			bound := -cfl / sf
			op := g.Op
			if sf < 0 {
				op = flipOp(op)
			}
			switch op {
			case token.GTR, token.GEQ:
				if bound > rng.Lo {
					rng.Lo = bound
				}
			case token.LSS, token.LEQ:
				if bound < rng.Hi {
					rng.Hi = bound
				}
			}
		}
		n++
		env := func(a *Atom) (Iv, bool) {
			if prozAtom != nil && a == prozAtom {
				return rng, true
			}
			return Iv{}, false
		}
		v, err := evalIv(e.Val, env)
		ok := err == nil && v.Lo >= -1e-9 && v.Hi <= 1+1e-9
		r.Ob("arm:REDEV", p.Pos(e.Pos), ok, fmt.Sprintf("for relative moisture ∈ [%.4g, %.4g] the factor %s ∈ [%.4g, %.4g] (must stay in [0,1])", rng.Lo, rng.Hi, clip(e.Val.String(), 90), v.Lo, v.Hi))
	}
	if n < 4 {
		r.Ob("arm:REDEV", "-", false, fmt.Sprintf("%d arms of the reduction factor found, 4 confirmed", n))
	}
}

// ---------------------------------------------------------------- support of uptake

func c08Support(p *Prog, r *Report, x *Exec) {
	r.Rule("C08.R3", "uptake only within min(rooting depth, groundwater table): every store of a possibly non-zero uptake is either in the arm that excludes layer numbers above min(WURZ, GRW) or inside a loop bounded by int(min(WURZ, GRW)) at index loop variable − 1; the no-crop arm zeroes every layer; redistributed uptake is floored at 0 and the evapotranspiration ratio is capped at 1", 6)
	minWG := PCall("min", PCall("float64", cellP("GlobalVarsMain.WURZ")), cellP("GlobalVarsMain.GRW"))
	alt := PCall("min", cellP("GlobalVarsMain.WURZ"), cellP("GlobalVarsMain.GRW"))
	isMin := func(q Poly) bool {
		s := stripVersions(q)
		return s.Equal(minWG) || s.Equal(alt) || s.Equal(PCallComm("min", cellP("GlobalVarsMain.GRW"), cellP("GlobalVarsMain.WURZ")))
	}
	_ = isMin
	// the bound must be min(rooting depth, groundwater level) with the level itself (or the level rounded
	// DOWN): a level rounded to the nearest layer lies below the table whenever its fraction is ≥ 0.5
	boundOK := func(m *Atom) (bool, string) {
		if m == nil || m.Kind != "call" || m.Fn != "min" || len(m.Args) != 2 {
			return false, "bound is not min(·,·)"
		}
		grw := cellP("GlobalVarsMain.GRW")
		wurz := cellP("GlobalVarsMain.WURZ")
		isW := func(q Poly) bool {
			s := stripVersions(q)
			return s.Equal(wurz) || s.Equal(PCall("float64", wurz))
		}
		isG := func(q Poly) bool {
			s := stripVersions(q)
			return s.Equal(grw) || s.Equal(PCall("floor", grw)) || s.Equal(PCall("trunc", grw))
		}
		a, b := m.Args[0], m.Args[1]
		if (isW(a) && isG(b)) || (isW(b) && isG(a)) {
			return true, ""
		}
		return false, "bound " + clip(stripVersions(PAtom(m)).String(), 80) + " is not min(WURZ, GRW) of the groundwater level itself"
	}
	n := 0
	for _, e := range x.Events {
		if e.Kind != "assign" || e.Root != "GlobalVarsMain.TP" || len(e.Idx) != 1 {
			continue
		}
		if e.Val.IsZero() {
			continue
		}
		n++
		ok := false
		how := ""
		// (a) complement of  idx+1 > min(WURZ, GRW)
		for _, g := range flattenGuards(e.Guards) {
			if g.Kind != "cmp" || !(g.Op == token.LEQ || g.Op == token.GEQ) {
				continue
			}
			if strings.Contains(g.Key(), "min(") && strings.Contains(g.Key(), "GlobalVarsMain.WURZ") && strings.Contains(g.Key(), "GlobalVarsMain.GRW") {
				// P = ±(idx + 1 − min(...))
				var m *Atom
				g.P.walkAtoms(func(a *Atom) {
					if a.Kind == "call" && a.Fn == "min" {
						m = a
					}
				})
				if m == nil {
					continue
				}
				want := mkCmp(e.Idx[0].Add(PInt(1)), PAtom(m), token.LEQ, nil)
				if g.P.Equal(want.P) && g.Op == want.Op {
					if bok, bwhy := boundOK(m); bok {
						ok = true
						how = "in the arm layer number ≤ min(WURZ, GRW)"
					} else {
						how = bwhy
					}
				}
			}
		}
		// (b) loop bounded by int(min(WURZ, GRW)), index = loop variable − 1
		if !ok {
			for _, L := range e.Loops {
				if L.Var == nil || !e.Idx[0].Equal(PAtom(L.Var).Sub(PInt(1))) {
					continue
				}
				_, hi, unit, why := loopBounds(x, L)
				if why != "" || !unit {
					continue
				}
				h := stripVersions(hi).String()
				if strings.HasPrefix(h, "int(") && strings.Contains(h, "min(") && strings.Contains(h, "GlobalVarsMain.WURZ") && strings.Contains(h, "GlobalVarsMain.GRW") {
					var m *Atom
					hi.walkAtoms(func(a *Atom) {
						if a.Kind == "call" && a.Fn == "min" {
							m = a
						}
					})
					if bok, bwhy := boundOK(m); bok {
						ok = true
						how = "layer number runs up to " + h
					} else {
						how = bwhy
					}
				}
			}
		}
		r.Ob("support:TP", p.Pos(e.Pos), ok, fmt.Sprintf("TP[%s] = %s: %s", e.Idx[0], clip(e.Val.String(), 100), orStr(how, "not confined to min(rooting depth, groundwater table)")))
	}
	if n == 0 {
		r.Ob("support:TP", "-", false, "no uptake store found")
	}
	// no-crop arm zeroes all layers
	zeroAll := false
	for _, e := range x.Events {
		if e.Kind == "assign" && e.Root == "GlobalVarsMain.TP" && e.Val.IsZero() && len(e.Loops) == 1 {
			L := e.Loops[0]
			lo, hi, unit, why := loopBounds(x, L)
			if why == "" && unit && lo.IsZero() && stripVersions(hi).Equal(cellP("GlobalVarsMain.N").Sub(PInt(1))) && e.Idx[0].Equal(PAtom(L.Var)) {
				// guarded by the negation of the growing-crop condition: an "or" guard
				if e.HasGuard(func(c *Cond) bool { return c.Kind == "or" }) {
					zeroAll = true
				}
			}
		}
	}
	r.Ob("no-crop:zero", "-", zeroAll, fmt.Sprintf("outside the growing period every layer's uptake is set to 0: %v", zeroAll))
	// floor after redistribution
	floorTP := false
	for _, e := range x.Events {
		if e.Kind == "assign" && e.Root == "GlobalVarsMain.TP" && e.Val.IsZero() && isFloorStore(e) {
			floorTP = true
			r.Ob("floor:TP", p.Pos(e.Pos), true, "uptake floored at 0 after handing the unmet part downwards")
		}
	}
	if !floorTP {
		r.Ob("floor:TP", "-", false, "no floor at 0 on the redistributed uptake")
	}
	capE := false
	for _, e := range x.Events {
		if e.Kind == "assign" && e.Root == "GlobalVarsMain.ETREL" && isCapStore(e) {
			if c, ok := e.Val.ConstInt(); ok && c == 1 {
				capE = true
				r.Ob("cap:ETREL", p.Pos(e.Pos), true, "evapotranspiration ratio capped at 1")
			}
		}
	}
	if !capE {
		r.Ob("cap:ETREL", "-", false, "the evapotranspiration ratio handed to the crop model is not capped at 1")
	}
	// the evaporation and transpiration shares are taken from the potential ET after its cap: nothing stores the
	// potential ET once a share has been derived from it (a cap that comes later bounds the reported potential ET
	// but not the demand the actual ET is computed from)
	if ex := walked(p, "hermes.Evatra"); ex != nil {
		late := ""
		nShares := 0
		for _, e := range ex.Events {
			if e.Kind != "assign" || e.Local == nil || (e.Local.Name() != "EVMAX" && e.Local.Name() != "TRAMAX") {
				continue
			}
			as, ok := e.Stmt.(*ast.AssignStmt)
			if !ok || len(as.Rhs) != 1 || !strings.Contains(types.ExprString(as.Rhs[0]), "VERDU[") {
				continue
			}
			nShares++
			for _, w := range ex.Events {
				if w.Kind == "assign" && w.Root == "VERDU" && w.Seq > e.Seq && len(w.Idx) == 1 {
					// only stores that can follow on the same path: the writer's guards do not contradict the share's
					if satisfiable(append(append([]*Cond{}, e.Guards...), w.Guards...)) {
						late += fmt.Sprintf("%s derived at %s, potential ET stored again at %s; ", e.Local.Name(), p.Pos(e.Pos), p.Pos(w.Pos))
					}
				}
			}
		}
		r.Ob("shares-after-cap", "-", late == "" && nShares >= 2, fmt.Sprintf("%d derivations of the evaporation/transpiration share from the potential ET; stores of the potential ET after a derivation: %s", nShares, orStr(late, "none")))
	}
	r.Note("TRREL = TPAKT/TRAMAX has no cap in the code; it is ≤ 1 mathematically (redistribution does not increase the total) but that sum identity over a data-dependent loop is not decided here")
}

// ---------------------------------------------------------------- first sub-step clip (shared with C06)

func c08Clip(p *Prog, r *Report, rule string) {
	r.Rule(rule, "uptake limited to plant-available water: on the first sub-step the daily uptake of each layer is capped at (water content − wilting point) × layer thickness (cap idiom on the daily amount itself), set to 0 when the layer is already below the wilting point, for every layer, before the sub-step withdrawal TP·wdt", 2)
	x := walked(p, "hermes.Water")
	if x == nil {
		r.Ob("Water", "-", false, "hermes.Water not found")
		return
	}
	subd := ""
	for _, f := range substepScope(p).Fns {
		if f.Key == "hermes.Water" {
			subd = f.Subd
		}
	}
	var capE, zeroE *Event
	for _, e := range x.Events {
		if e.Kind != "assign" || e.Root != "GlobalVarsMain.TP" || len(e.Idx) != 1 || len(e.Loops) != 1 {
			continue
		}
		i := e.Idx[0]
		avail := cellP("GlobalVarsMain.WG", PInt(0), i).Sub(cellP("GlobalVarsMain.WMIN", i)).Mul(cellP("GlobalVarsMain.DZ.Index"))
		if stripVersions(e.Val).Equal(avail) {
			capE = e
		} else if e.Val.IsZero() {
			zeroE = e
		}
	}
	if capE == nil {
		r.Ob("clip", "-", false, "no store capping the uptake at (WG − WMIN)·DZ")
	} else {
		ok := isCapStore(capE)
		det := "TP[i] = (WG[0][i] − WMIN[i])·DZ"
		if !ok {
			det += " — but the guard does not compare the daily uptake TP[i] itself with that bound (the amount withdrawn per day is TP[i], one share per sub-step)"
		}
		if subd == "" || !guardedBy(capE, pVar(subd).Sub(PInt(1)), token.EQL) {
			ok = false
			det += "; not on the first sub-step"
		}
		L := capE.Loops[0]
		lo, hi, unit, why := loopBounds(x, L)
		if !(why == "" && unit && lo.IsZero() && stripVersions(hi).Equal(cellP("GlobalVarsMain.N").Sub(PInt(1)))) {
			ok = false
			det += "; not for every layer 0..N−1"
		}
		// no condition singles out a layer: inside the sweep the clip depends on the bound test and on the
		// "already below the wilting point" test only
		for _, g := range flattenGuards(inLoopGuards(capE, L)) {
			if g.Kind == "cmp" && g.P.MentionsRoot("GlobalVarsMain.TP") && (g.Op == token.GTR || g.Op == token.LSS || g.Op == token.GEQ || g.Op == token.LEQ) {
				continue
			}
			if g.Kind == "cmp" && !g.P.MentionsRoot("GlobalVarsMain.TP") && g.P.MentionsRoot("GlobalVarsMain.WG") && g.P.MentionsRoot("GlobalVarsMain.WMIN") {
				continue
			}
			ok = false
			det += "; the clip is additionally conditional on " + clip(g.Key(), 80) + " (a layer exempted from the limit can be emptied below the wilting point)"
		}
		// the withdrawal follows in the same iteration
		wd := false
		for _, e := range x.Events {
			if e.Kind == "assign" && e.Root == "WATER" && e.Seq > capE.Seq && innermost(e, L) && e.Val.MentionsRoot("GlobalVarsMain.TP") {
				wd = true
			}
		}
		if !wd {
			ok = false
			det += "; the withdrawal does not follow the clip"
		}
		r.Ob("clip", p.Pos(capE.Pos), ok, det)
	}
	if zeroE == nil {
		r.Ob("clip:below-wilting", "-", false, "no store zeroing the uptake of a layer below the wilting point")
	} else {
		i := zeroE.Idx[0]
		ok := guardedBy(zeroE, cellP("GlobalVarsMain.WG", PInt(0), i).Sub(cellP("GlobalVarsMain.WMIN", i)), token.LSS, token.LEQ) || zeroE.HasGuard(func(c *Cond) bool {
			return c.Kind == "cmp" && (c.Op == token.LSS || c.Op == token.LEQ) && stripVersions(c.P).Equal(mkCmp(cellP("GlobalVarsMain.WG", PInt(0), i), cellP("GlobalVarsMain.WMIN", i), token.LSS, nil).P)
		})
		r.Ob("clip:below-wilting", p.Pos(zeroE.Pos), ok, "uptake set to 0 when the layer's water content is below the wilting point")
	}
}
