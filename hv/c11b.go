package main

// C11.R1c — "soil texture not in the parameter tables" is a per-run error
// only if the texture is checked against every table that the parameter
// routine later searches: the searches in Hydro read on until they find the
// key (a missing key runs off the end of the file: panic or log.Fatal, i.e.
// the whole batch process ends).

import (
	"fmt"
	"go/ast"
	"go/token"
	"go/types"
	"sort"
	"strings"
)

// pathFieldOf resolves an expression to the HFilePath field it denotes (directly, or through one local alias).
func pathFieldOf(info *types.Info, body ast.Node, e ast.Expr) string {
	if se, ok := e.(*ast.SelectorExpr); ok {
		if nm, _ := namedStruct(info.TypeOf(se.X)); nm == "HFilePath" {
			return se.Sel.Name
		}
	}
	if id, ok := e.(*ast.Ident); ok {
		obj := info.Uses[id]
		field := ""
		n := 0
		ast.Inspect(body, func(m ast.Node) bool {
			if as, ok := m.(*ast.AssignStmt); ok {
				for k, l := range as.Lhs {
					if lid, ok := l.(*ast.Ident); ok && (info.Defs[lid] == obj || info.Uses[lid] == obj) && k < len(as.Rhs) {
						n++
						if se, ok := as.Rhs[k].(*ast.SelectorExpr); ok {
							if nm, _ := namedStruct(info.TypeOf(se.X)); nm == "HFilePath" {
								field = se.Sel.Name
							}
						}
					}
				}
			}
			return true
		})
		if n == 1 {
			return field
		}
	}
	return ""
}

func c11TableKeys(p *Prog, r *Report) {
	r.Rule("C11.R1c", "table keys are validated where the error can still be attributed to the run: every parameter table that the soil-parameter routine searches for a horizon's texture (reading on until the key is found) is also the source of a texture list against which the input routine checks every horizon before, returning a run error for a texture that is not listed", 2)
	hy := p.Funcs["hermes.Hydro"]
	in := p.Funcs["hermes.Input"]
	if hy == nil || in == nil {
		r.Ob("functions", "-", false, "hermes.Hydro / hermes.Input not found")
		return
	}
	hinfo := hy.Pkg.TypesInfo
	searched := map[string]token.Pos{}
	ast.Inspect(hy.Decl.Body, func(n ast.Node) bool {
		call, ok := n.(*ast.CallExpr)
		if !ok {
			return true
		}
		f := callee(hinfo, call)
		if f == nil || f.Name() != "Open" || len(call.Args) != 1 {
			return true
		}
		ue, ok := call.Args[0].(*ast.UnaryExpr)
		if !ok {
			return true
		}
		cl, ok := ue.X.(*ast.CompositeLit)
		if !ok {
			return true
		}
		for _, el := range cl.Elts {
			if kv, ok := el.(*ast.KeyValueExpr); ok {
				if id, ok := kv.Key.(*ast.Ident); ok && id.Name == "FilePath" {
					if f := pathFieldOf(hinfo, hy.Decl.Body, kv.Value); f != "" {
						searched[f] = call.Pos()
					}
				}
			}
		}
		return true
	})
	// texture lists loaded in Input and compared with the horizons' textures
	iinfo := in.Pkg.TypesInfo
	validated := map[string]bool{}
	type listVar struct {
		field string
		obj   types.Object
		sel   string
	}
	var lists []listVar
	ast.Inspect(in.Decl.Body, func(n ast.Node) bool {
		as, ok := n.(*ast.AssignStmt)
		if !ok || len(as.Lhs) != 1 || len(as.Rhs) != 1 {
			return true
		}
		call, ok := as.Rhs[0].(*ast.CallExpr)
		if !ok || len(call.Args) < 1 {
			return true
		}
		f := callee(iinfo, call)
		if f == nil || f.Name() != "LoadValidSoilTextures" {
			return true
		}
		field := pathFieldOf(iinfo, in.Decl.Body, call.Args[0])
		lv := listVar{field: field}
		switch l := as.Lhs[0].(type) {
		case *ast.Ident:
			lv.obj = iinfo.Defs[l]
			if lv.obj == nil {
				lv.obj = iinfo.Uses[l]
			}
		case *ast.SelectorExpr:
			lv.sel = l.Sel.Name
		}
		lists = append(lists, lv)
		return true
	})
	for _, lv := range lists {
		// compared with X.BART[...] inside an if whose failure path returns an error
		used := false
		ast.Inspect(in.Decl.Body, func(n ast.Node) bool {
			be, ok := n.(*ast.BinaryExpr)
			if !ok || be.Op != token.EQL {
				return true
			}
			txt := types.ExprString(be.X) + " " + types.ExprString(be.Y)
			if !strings.Contains(txt, ".BART[") {
				return true
			}
			ast.Inspect(be, func(m ast.Node) bool {
				switch t := m.(type) {
				case *ast.Ident:
					if lv.obj != nil && iinfo.Uses[t] == lv.obj {
						used = true
					}
				case *ast.SelectorExpr:
					if lv.sel != "" && t.Sel.Name == lv.sel {
						used = true
					}
				}
				return true
			})
			return true
		})
		if used && lv.field != "" {
			validated[lv.field] = true
			ok, why, pos := membershipShape(iinfo, in.Decl.Body, lv.obj, lv.sel)
			r.Ob("membership:"+lv.field, p.Pos(pos), ok, "the check of a horizon's texture against the list loaded from "+lv.field+" is a membership test (flag false before the search, set only on equality with a list entry, a run error returned when it is still false, for every horizon of the loaded soil): "+why)
		}
	}
	var fs []string
	for f := range searched {
		fs = append(fs, f)
	}
	sort.Strings(fs)
	for _, f := range fs {
		r.Ob("prevalidated:"+f, p.Pos(searched[f]), validated[f], fmt.Sprintf("Hydro searches the table %s for the horizon's texture; Input checks every horizon against a list loaded from the same table before: %v — a texture that is missing there runs the search off the end of the file and ends the whole batch process instead of failing its own line", f, validated[f]))
	}
	if len(fs) < 2 {
		r.Ob("searched-tables", p.Pos(hy.Decl.Pos()), false, fmt.Sprintf("%d searched parameter tables recognised in Hydro, 2 confirmed (capillary rise, hydraulic parameters)", len(fs)))
	}
}

// membershipShape checks the search "flag = false; for … { if X.BART[h] == list[i] { flag = true … } }; if !flag { return error }"
// inside a loop over every horizon h of the soil whose textures are compared.
func membershipShape(info *types.Info, body *ast.BlockStmt, listObj types.Object, listSel string) (bool, string, token.Pos) {
	mentionsList := func(e ast.Expr) bool {
		found := false
		ast.Inspect(e, func(m ast.Node) bool {
			switch t := m.(type) {
			case *ast.Ident:
				if listObj != nil && info.Uses[t] == listObj {
					found = true
				}
			case *ast.SelectorExpr:
				if listSel != "" && t.Sel.Name == listSel {
					found = true
				}
			}
			return true
		})
		return found
	}
	var cmp *ast.BinaryExpr
	ast.Inspect(body, func(n ast.Node) bool {
		be, ok := n.(*ast.BinaryExpr)
		if !ok || be.Op != token.EQL || cmp != nil {
			return true
		}
		txt := types.ExprString(be.X) + " " + types.ExprString(be.Y)
		if strings.Contains(txt, ".BART[") && mentionsList(be) {
			cmp = be
		}
		return true
	})
	if cmp == nil {
		return false, "comparison not found", body.Pos()
	}
	path := nodePath(body, cmp)
	// innermost if whose condition is exactly the comparison
	var ifs *ast.IfStmt
	var search ast.Stmt
	var block *ast.BlockStmt
	var horizonLoop *ast.ForStmt
	for i := len(path) - 1; i >= 0; i-- {
		switch t := path[i].(type) {
		case *ast.IfStmt:
			if ifs == nil {
				ifs = t
			}
		case *ast.ForStmt, *ast.RangeStmt:
			if ifs != nil && search == nil {
				search = t.(ast.Stmt)
				if i > 0 {
					block, _ = path[i-1].(*ast.BlockStmt)
				}
			} else if search != nil && horizonLoop == nil {
				horizonLoop, _ = t.(*ast.ForStmt)
			}
		}
	}
	if ifs == nil || search == nil || block == nil {
		return false, "the comparison is not inside 'search loop { if equal { … } }'", cmp.Pos()
	}
	if stripParens(ifs.Cond) != ast.Expr(cmp) {
		return false, "the flag is set under " + types.ExprString(ifs.Cond) + ", not under the equality alone", ifs.Pos()
	}
	// the flag: the boolean local assigned true in the if body
	var flag types.Object
	for _, st := range ifs.Body.List {
		if as, ok := st.(*ast.AssignStmt); ok && len(as.Lhs) == 1 && len(as.Rhs) == 1 {
			if tv, ok := info.Types[as.Rhs[0]]; ok && tv.Value != nil && tv.Value.String() == "true" {
				flag = useObj(info, as.Lhs[0])
			}
		}
	}
	if flag == nil {
		return false, "no flag is set to true on equality", ifs.Pos()
	}
	// every other assignment of the flag inside the search loop is absent
	nIn := 0
	for _, d := range defsOf(info, search, flag) {
		_ = d
		nIn++
	}
	if nIn != 1 {
		return false, fmt.Sprintf("the flag is assigned %d times inside the search loop, expected once (on equality)", nIn), search.Pos()
	}
	idx := -1
	for i, st := range block.List {
		if st == search {
			idx = i
		}
	}
	if idx < 0 {
		return false, "search loop not a statement of its block", search.Pos()
	}
	// latest assignment before the loop, in the same block: constant false
	start := "none"
	for i := idx - 1; i >= 0 && start == "none"; i-- {
		ds := defsOf(info, block.List[i], flag)
		if len(ds) == 0 {
			continue
		}
		start = "other"
		if as, ok := block.List[i].(*ast.AssignStmt); ok && len(ds) == 1 && len(as.Lhs) == 1 && ds[0].Rhs != nil {
			if tv, ok := info.Types[ds[0].Rhs]; ok && tv.Value != nil && tv.Value.String() == "false" {
				start = "false"
			} else {
				start = types.ExprString(ds[0].Rhs)
			}
		}
	}
	if start != "false" {
		return false, "before the search the flag is " + start + ", must be the constant false", search.Pos()
	}
	// the statement after the loop: if !flag { …return error }
	if idx+1 >= len(block.List) {
		return false, "nothing follows the search loop", search.End()
	}
	after, ok := block.List[idx+1].(*ast.IfStmt)
	if !ok || after.Init != nil {
		return false, "the search loop is not followed by the test of the flag", block.List[idx+1].Pos()
	}
	neg := false
	if ue, ok := stripParens(after.Cond).(*ast.UnaryExpr); ok && ue.Op == token.NOT && useObj(info, ue.X) == flag {
		neg = true
	}
	if be, ok := stripParens(after.Cond).(*ast.BinaryExpr); ok && be.Op == token.EQL && useObj(info, be.X) == flag {
		if tv, ok := info.Types[be.Y]; ok && tv.Value != nil && tv.Value.String() == "false" {
			neg = true
		}
	}
	if !neg {
		return false, "the test after the search is " + types.ExprString(after.Cond) + ", must be 'flag is false'", after.Pos()
	}
	retErr := false
	for _, st := range after.Body.List {
		if rs, ok := st.(*ast.ReturnStmt); ok && len(rs.Results) >= 1 {
			last := rs.Results[len(rs.Results)-1]
			if tv, ok := info.Types[last]; ok && !tv.IsNil() && types.Implements(tv.Type, errorType.Underlying().(*types.Interface)) {
				retErr = true
			}
		}
	}
	if !retErr {
		return false, "a texture that is not listed does not return an error", after.Pos()
	}
	// horizon loop: for h := 0; h < S.AZHO; h++ with BART[h] of the same S
	if horizonLoop == nil {
		return false, "the search is not inside a loop over the horizons", search.Pos()
	}
	hv, lo, hi, unit := forHeader(info, horizonLoop)
	if hv == nil || !unit || lo != "0" {
		return false, "the horizon loop is not 'for h := 0; h < count; h++'", horizonLoop.Pos()
	}
	var bart *ast.IndexExpr
	ast.Inspect(cmp, func(m ast.Node) bool {
		if ie, ok := m.(*ast.IndexExpr); ok && strings.HasSuffix(types.ExprString(ie.X), ".BART") {
			bart = ie
		}
		return true
	})
	if bart == nil || useObj(info, bart.Index) != hv {
		return false, "the compared texture is not the one of the loop's horizon", cmp.Pos()
	}
	soil := strings.TrimSuffix(types.ExprString(bart.X), ".BART")
	if hi != soil+".AZHO" {
		return false, "the horizon loop runs to " + hi + ", must be the horizon count " + soil + ".AZHO of the soil whose textures are compared", horizonLoop.Pos()
	}
	return true, "yes", cmp.Pos()
}

// forHeader recognises for v := lo; v < hi; v++ and returns v, lo and hi as text.
func forHeader(info *types.Info, f *ast.ForStmt) (types.Object, string, string, bool) {
	as, ok := f.Init.(*ast.AssignStmt)
	if !ok || len(as.Lhs) != 1 || len(as.Rhs) != 1 {
		return nil, "", "", false
	}
	v := useObj(info, as.Lhs[0])
	be, ok := f.Cond.(*ast.BinaryExpr)
	if v == nil || !ok || be.Op != token.LSS || useObj(info, be.X) != v {
		return nil, "", "", false
	}
	inc, ok := f.Post.(*ast.IncDecStmt)
	unit := ok && inc.Tok == token.INC && useObj(info, inc.X) == v
	return v, types.ExprString(as.Rhs[0]), types.ExprString(be.Y), unit
}

// C11.R1d — "unknown … field id" is a run error only if the search for the requested plot in the polygon file
// reports a miss: the read loop ends at end of file without a match, and unless that is turned into an error the
// run goes on with an empty soil description (zero layers) and the initialisation indexes below the arrays —
// a panic in the run goroutine ends the whole batch.
func c11PlotLookup(p *Prog, r *Report) {
	r.Rule("C11.R1d", "the search for the requested plot number in the polygon file reports a miss as a run error: a flag that is false before the read loop and set in the arm that matches the plot number is tested right after the loop, and the run returns an error when it is still false (or the matching arm returns and the code after the loop returns an error)", 1)
	in := p.Funcs["hermes.Input"]
	if in == nil {
		r.Ob("plot-search", "-", false, "hermes.Input not found")
		return
	}
	info := in.Pkg.TypesInfo
	var arm *ast.IfStmt
	ast.Inspect(in.Decl.Body, func(n ast.Node) bool {
		ifs, ok := n.(*ast.IfStmt)
		if !ok || arm != nil {
			return true
		}
		be, ok := stripParens(ifs.Cond).(*ast.BinaryExpr)
		if !ok || be.Op != token.EQL {
			return true
		}
		for _, side := range []ast.Expr{be.X, be.Y} {
			if sel, ok := stripParens(side).(*ast.SelectorExpr); ok && sel.Sel.Name == "SLNR" {
				arm = ifs
			}
		}
		return true
	})
	if arm == nil {
		r.Ob("plot-search", p.Pos(in.Decl.Pos()), false, "no comparison with the requested plot number found in Input")
		return
	}
	path := nodePath(in.Decl.Body, arm)
	var loop ast.Stmt
	var block *ast.BlockStmt
	for i := len(path) - 1; i >= 0 && loop == nil; i-- {
		switch path[i].(type) {
		case *ast.ForStmt, *ast.RangeStmt:
			loop = path[i].(ast.Stmt)
			if i > 0 {
				block, _ = path[i-1].(*ast.BlockStmt)
			}
		}
	}
	if loop == nil || block == nil {
		r.Ob("plot-search", p.Pos(arm.Pos()), false, "the comparison with the plot number is not inside a read loop")
		return
	}
	idx := -1
	for i, st := range block.List {
		if st == loop {
			idx = i
		}
	}
	returnsError := func(b *ast.BlockStmt) bool {
		for _, st := range b.List {
			if rs, ok := st.(*ast.ReturnStmt); ok && len(rs.Results) >= 1 {
				last := rs.Results[len(rs.Results)-1]
				if tv, ok := info.Types[last]; ok && !tv.IsNil() && types.Implements(tv.Type, errorType.Underlying().(*types.Interface)) {
					return true
				}
			}
		}
		return false
	}
	ok, det := false, "nothing after the read loop tests whether the plot was found: a plot number that is not in the polygon file leaves the soil description empty"
	// flags set to true at the top level of the matching arm
	flags := map[types.Object]bool{}
	for _, st := range arm.Body.List {
		if as, isAs := st.(*ast.AssignStmt); isAs && len(as.Lhs) == 1 && len(as.Rhs) == 1 {
			if tv, has := info.Types[as.Rhs[0]]; has && tv.Value != nil && tv.Value.String() == "true" {
				if o := useObj(info, as.Lhs[0]); o != nil {
					flags[o] = true
				}
			}
		}
	}
	if idx >= 0 && idx+1 < len(block.List) {
		if after, isIf := block.List[idx+1].(*ast.IfStmt); isIf && after.Init == nil {
			if ue, isU := stripParens(after.Cond).(*ast.UnaryExpr); isU && ue.Op == token.NOT && flags[useObj(info, ue.X)] && returnsError(after.Body) {
				flag := useObj(info, ue.X)
				// false before the loop, assigned nowhere else
				start := false
				for i := idx - 1; i >= 0 && !start; i-- {
					for _, d := range defsOf(info, block.List[i], flag) {
						if d.Rhs != nil {
							if tv, has := info.Types[d.Rhs]; has && tv.Value != nil && tv.Value.String() == "false" {
								start = true
							}
						}
					}
					if ds, isDecl := block.List[i].(*ast.DeclStmt); isDecl {
						ast.Inspect(ds, func(n ast.Node) bool {
							if vs, isV := n.(*ast.ValueSpec); isV && len(vs.Values) == 0 {
								for _, nm := range vs.Names {
									if info.Defs[nm] == flag {
										start = true
									}
								}
							}
							return true
						})
					}
				}
				n := len(defsOf(info, in.Decl.Body, flag))
				if start && n == 2 {
					ok, det = true, "flag false before the loop, set in the matching arm, tested right after the loop with an error return"
				} else {
					det = fmt.Sprintf("the found-flag is assigned %d times (expected: false before the loop, true in the matching arm)", n)
				}
			}
		}
		if !ok {
			// alternative: the matching arm returns, the statement after the loop returns an error
			if l := len(arm.Body.List); l > 0 {
				if _, isRet := arm.Body.List[l-1].(*ast.ReturnStmt); isRet {
					if rs, isR := block.List[idx+1].(*ast.ReturnStmt); isR && returnsError(&ast.BlockStmt{List: []ast.Stmt{rs}}) {
						ok, det = true, "the matching arm returns; the code after the loop returns an error"
					}
				}
			}
		}
	}
	r.Ob("plot-search:miss-reported", p.Pos(loop.Pos()), ok, det)
}
