package main

// C11.R1c — "soil texture not in the parameter tables" is a per-run error
// only if the texture is checked against every table that the parameter
// routine later searches: the searches in Hydro read on until they find the
// key (a missing key runs off the end of the file: panic or log.Fatal, i.e.
// the whole batch process ends).

import (
	"fmt"
	"go/ast"
	"go/token"
	"go/types"
	"sort"
	"strings"
)

// pathFieldOf resolves an expression to the HFilePath field it denotes (directly, or through one local alias).
func pathFieldOf(info *types.Info, body ast.Node, e ast.Expr) string {
	if se, ok := e.(*ast.SelectorExpr); ok {
		if nm, _ := namedStruct(info.TypeOf(se.X)); nm == "HFilePath" {
			return se.Sel.Name
		}
	}
	if id, ok := e.(*ast.Ident); ok {
		obj := info.Uses[id]
		field := ""
		n := 0
		ast.Inspect(body, func(m ast.Node) bool {
			if as, ok := m.(*ast.AssignStmt); ok {
				for k, l := range as.Lhs {
					if lid, ok := l.(*ast.Ident); ok && (info.Defs[lid] == obj || info.Uses[lid] == obj) && k < len(as.Rhs) {
						n++
						if se, ok := as.Rhs[k].(*ast.SelectorExpr); ok {
							if nm, _ := namedStruct(info.TypeOf(se.X)); nm == "HFilePath" {
								field = se.Sel.Name
							}
						}
					}
				}
			}
			return true
		})
		if n == 1 {
			return field
		}
	}
	return ""
}

func c11TableKeys(p *Prog, r *Report) {
	r.Rule("C11.R1c", "table keys are validated where the error can still be attributed to the run: every parameter table that the soil-parameter routine searches for a horizon's texture (reading on until the key is found) is also the source of a texture list against which the input routine checks every horizon before, returning a run error for a texture that is not listed", 2)
	hy := p.Funcs["hermes.Hydro"]
	in := p.Funcs["hermes.Input"]
	if hy == nil || in == nil {
		r.Ob("functions", "-", false, "hermes.Hydro / hermes.Input not found")
		return
	}
	hinfo := hy.Pkg.TypesInfo
	searched := map[string]token.Pos{}
	ast.Inspect(hy.Decl.Body, func(n ast.Node) bool {
		call, ok := n.(*ast.CallExpr)
		if !ok {
			return true
		}
		f := callee(hinfo, call)
		if f == nil || f.Name() != "Open" || len(call.Args) != 1 {
			return true
		}
		ue, ok := call.Args[0].(*ast.UnaryExpr)
		if !ok {
			return true
		}
		cl, ok := ue.X.(*ast.CompositeLit)
		if !ok {
			return true
		}
		for _, el := range cl.Elts {
			if kv, ok := el.(*ast.KeyValueExpr); ok {
				if id, ok := kv.Key.(*ast.Ident); ok && id.Name == "FilePath" {
					if f := pathFieldOf(hinfo, hy.Decl.Body, kv.Value); f != "" {
						searched[f] = call.Pos()
					}
				}
			}
		}
		return true
	})
	// texture lists loaded in Input and compared with the horizons' textures
	iinfo := in.Pkg.TypesInfo
	validated := map[string]bool{}
	type listVar struct {
		field string
		obj   types.Object
		sel   string
	}
	var lists []listVar
	ast.Inspect(in.Decl.Body, func(n ast.Node) bool {
		as, ok := n.(*ast.AssignStmt)
		if !ok || len(as.Lhs) != 1 || len(as.Rhs) != 1 {
			return true
		}
		call, ok := as.Rhs[0].(*ast.CallExpr)
		if !ok || len(call.Args) < 1 {
			return true
		}
		f := callee(iinfo, call)
		if f == nil || f.Name() != "LoadValidSoilTextures" {
			return true
		}
		field := pathFieldOf(iinfo, in.Decl.Body, call.Args[0])
		lv := listVar{field: field}
		switch l := as.Lhs[0].(type) {
		case *ast.Ident:
			lv.obj = iinfo.Defs[l]
			if lv.obj == nil {
				lv.obj = iinfo.Uses[l]
			}
		case *ast.SelectorExpr:
			lv.sel = l.Sel.Name
		}
		lists = append(lists, lv)
		return true
	})
	for _, lv := range lists {
		// compared with X.BART[...] inside an if whose failure path returns an error
		used := false
		ast.Inspect(in.Decl.Body, func(n ast.Node) bool {
			be, ok := n.(*ast.BinaryExpr)
			if !ok || be.Op != token.EQL {
				return true
			}
			txt := types.ExprString(be.X) + " " + types.ExprString(be.Y)
			if !strings.Contains(txt, ".BART[") {
				return true
			}
			ast.Inspect(be, func(m ast.Node) bool {
				switch t := m.(type) {
				case *ast.Ident:
					if lv.obj != nil && iinfo.Uses[t] == lv.obj {
						used = true
					}
				case *ast.SelectorExpr:
					if lv.sel != "" && t.Sel.Name == lv.sel {
						used = true
					}
				}
				return true
			})
			return true
		})
		if used && lv.field != "" {
			validated[lv.field] = true
		}
	}
	var fs []string
	for f := range searched {
		fs = append(fs, f)
	}
	sort.Strings(fs)
	for _, f := range fs {
		r.Ob("prevalidated:"+f, p.Pos(searched[f]), validated[f], fmt.Sprintf("Hydro searches the table %s for the horizon's texture; Input checks every horizon against a list loaded from the same table before: %v — a texture that is missing there runs the search off the end of the file and ends the whole batch process instead of failing its own line", f, validated[f]))
	}
	if len(fs) < 2 {
		r.Ob("searched-tables", p.Pos(hy.Decl.Pos()), false, fmt.Sprintf("%d searched parameter tables recognised in Hydro, 2 confirmed (capillary rise, hydraulic parameters)", len(fs)))
	}
}
