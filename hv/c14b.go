package main

// C14.R5 / C14.R6 — added after the mutation sweep of hermes/config.go
// (83 of 94 syntactic mutants of commandlineOverride and readConfig were not
// reported: R1–R4 say in which order the three layers are applied, not that
// the batch-line layer writes the field nor that the overlaid value reaches
// the model).
//
//   R5  each kind arm of the reflective override stores the value parsed from
//       the argument text into the field named by the argument key, and is
//       conditional on nothing but "the key names a settable field of this
//       kind and the text parses / fits".
//   R6  every Config field is read somewhere after the overlay; the transfers
//       into the run's state in the reader are unconditional, copy the field
//       itself (a conversion, or 1/100 for a field documented in %), and no
//       model variable is fed by two fields.

import (
	"fmt"
	"go/ast"
	"go/token"
	"go/types"
	"sort"
	"strings"
)

type astCond struct {
	E   ast.Expr
	Neg bool
	// Exit is set for conditions contributed by an earlier `if c { …exit }`
	Exit ast.Stmt
}

func (c astCond) String() string {
	s := types.ExprString(c.E)
	if c.Neg {
		return "!(" + s + ")"
	}
	return s
}

func stripParens(e ast.Expr) ast.Expr {
	for {
		pe, ok := e.(*ast.ParenExpr)
		if !ok {
			return e
		}
		e = pe.X
	}
}

// splitCond flattens !, && (positive) and || (negative) into literals.
func splitCond(e ast.Expr, neg bool, exit ast.Stmt) []astCond {
	e = stripParens(e)
	if ue, ok := e.(*ast.UnaryExpr); ok && ue.Op == token.NOT {
		return splitCond(ue.X, !neg, exit)
	}
	if be, ok := e.(*ast.BinaryExpr); ok {
		if (be.Op == token.LAND && !neg) || (be.Op == token.LOR && neg) {
			return append(splitCond(be.X, neg, exit), splitCond(be.Y, neg, exit)...)
		}
	}
	return []astCond{{E: e, Neg: neg, Exit: exit}}
}

// terminates reports whether a block always leaves the enclosing statement
// list (return, continue, break, goto, panic, log.Fatal*, os.Exit).
func terminates(info *types.Info, b *ast.BlockStmt) bool {
	if b == nil || len(b.List) == 0 {
		return false
	}
	switch s := b.List[len(b.List)-1].(type) {
	case *ast.ReturnStmt, *ast.BranchStmt:
		return true
	case *ast.IfStmt:
		if eb, ok := s.Else.(*ast.BlockStmt); ok {
			return terminates(info, s.Body) && terminates(info, eb)
		}
	case *ast.ExprStmt:
		if call, ok := s.X.(*ast.CallExpr); ok {
			if id, ok := call.Fun.(*ast.Ident); ok && id.Name == "panic" {
				return true
			}
			if f := callee(info, call); f != nil {
				n := f.FullName()
				return strings.HasPrefix(n, "log.Fatal") || n == "os.Exit" || strings.HasPrefix(n, "log.Panic")
			}
		}
	}
	return false
}

// astPathConds lists the conditions under which control reaches target inside
// body: enclosing if-arms, switch arms (as opaque conditions) and the negation
// of every earlier sibling `if c { …exit }` without else.
func astPathConds(info *types.Info, body *ast.BlockStmt, target ast.Node) (conds []astCond, loops []ast.Stmt) {
	path := nodePath(body, target)
	for i := 0; i+1 < len(path); i++ {
		par, ch := path[i], path[i+1]
		switch s := par.(type) {
		case *ast.IfStmt:
			if ch == ast.Node(s.Body) {
				conds = append(conds, splitCond(s.Cond, false, nil)...)
			} else if s.Else != nil && ch == ast.Node(s.Else) {
				conds = append(conds, splitCond(s.Cond, true, nil)...)
			}
		case *ast.BlockStmt:
			for _, st := range s.List {
				if ast.Node(st) == ch {
					break
				}
				if is, ok := st.(*ast.IfStmt); ok && is.Else == nil && terminates(info, is.Body) {
					conds = append(conds, splitCond(is.Cond, true, is)...)
				}
			}
		case *ast.CaseClause:
			for _, st := range s.Body {
				if ast.Node(st) == ch {
					break
				}
				if is, ok := st.(*ast.IfStmt); ok && is.Else == nil && terminates(info, is.Body) {
					conds = append(conds, splitCond(is.Cond, true, is)...)
				}
			}
			if len(s.List) == 0 {
				conds = append(conds, astCond{E: &ast.Ident{Name: "default-arm"}})
			}
			for _, e := range s.List {
				conds = append(conds, astCond{E: e})
			}
		case *ast.ForStmt:
			if ch == ast.Node(s.Body) {
				loops = append(loops, s)
			}
		case *ast.RangeStmt:
			if ch == ast.Node(s.Body) {
				loops = append(loops, s)
			}
		}
	}
	return
}

// defsOf returns, for a local object, every (rhs, result index, stmt) that defines or assigns it.
type localDef struct {
	Rhs  ast.Expr
	Idx  int // result index when Rhs is a multi-value expression
	Stmt ast.Stmt
}

func defsOf(info *types.Info, body ast.Node, obj types.Object) []localDef {
	var out []localDef
	ast.Inspect(body, func(n ast.Node) bool {
		switch s := n.(type) {
		case *ast.AssignStmt:
			for i, l := range s.Lhs {
				id, ok := l.(*ast.Ident)
				if !ok || (info.Defs[id] != obj && info.Uses[id] != obj) {
					continue
				}
				if len(s.Rhs) == len(s.Lhs) {
					out = append(out, localDef{Rhs: s.Rhs[i], Idx: 0, Stmt: s})
				} else if len(s.Rhs) == 1 {
					out = append(out, localDef{Rhs: s.Rhs[0], Idx: i, Stmt: s})
				}
			}
		case *ast.RangeStmt:
			if id, ok := s.Key.(*ast.Ident); ok && (info.Defs[id] == obj || info.Uses[id] == obj) {
				out = append(out, localDef{Rhs: s.X, Idx: 0, Stmt: s})
			}
			if id, ok := s.Value.(*ast.Ident); ok && (info.Defs[id] == obj || info.Uses[id] == obj) {
				out = append(out, localDef{Rhs: s.X, Idx: 1, Stmt: s})
			}
		}
		return true
	})
	return out
}

func useObj(info *types.Info, e ast.Expr) types.Object {
	if id, ok := stripParens(e).(*ast.Ident); ok {
		if o := info.Uses[id]; o != nil {
			return o
		}
		return info.Defs[id]
	}
	return nil
}

// methodOn matches recv.Name(args…) with recv a plain identifier of the given object.
func methodOn(info *types.Info, e ast.Expr, recv types.Object, full string) (*ast.CallExpr, bool) {
	call, ok := stripParens(e).(*ast.CallExpr)
	if !ok {
		return nil, false
	}
	f := callee(info, call)
	if f == nil || f.FullName() != full {
		return nil, false
	}
	se, ok := call.Fun.(*ast.SelectorExpr)
	if !ok || useObj(info, se.X) != recv {
		return nil, false
	}
	return call, true
}

func c14OverrideArms(p *Prog, r *Report) {
	r.Rule("C14.R5", "the batch-line layer writes the field: for each kind (float, integer, text, on/off) the reflective override has an arm that stores the value parsed from the argument's text into the field looked up under the argument's key in the run's configuration, conditional only on the key naming a settable field of that kind, the text parsing and the value fitting; a malformed number aborts instead of storing", 6)
	fi := p.Funcs["hermes.commandlineOverride"]
	if fi == nil {
		r.Ob("override", "-", false, "commandlineOverride not found")
		return
	}
	info := fi.Pkg.TypesInfo
	body := fi.Decl.Body
	// parameters by type
	var argsObj, cfgObj types.Object
	for _, f := range fi.Decl.Type.Params.List {
		for _, n := range f.Names {
			o := info.Defs[n]
			switch t := o.Type().Underlying().(type) {
			case *types.Map:
				argsObj = o
			case *types.Pointer:
				if nm, ok := t.Elem().(*types.Named); ok && nm.Obj().Name() == "Config" {
					cfgObj = o
				}
			}
		}
	}
	if argsObj == nil || cfgObj == nil {
		r.Ob("override", p.Pos(fi.Decl.Pos()), false, "parameters (argument map, *Config) not recognised")
		return
	}
	// the range over the argument map
	var rng *ast.RangeStmt
	ast.Inspect(body, func(n ast.Node) bool {
		if rs, ok := n.(*ast.RangeStmt); ok && useObj(info, rs.X) == argsObj {
			rng = rs
		}
		return true
	})
	if rng == nil || rng.Key == nil || rng.Value == nil {
		r.Ob("override", p.Pos(fi.Decl.Pos()), false, "no loop over the argument map with key and value")
		return
	}
	keyObj, valObj := useObj(info, rng.Key), useObj(info, rng.Value)
	// the struct value: every definition of v is reflect.ValueOf(cfg) or v.Elem() under v.Kind()==reflect.Ptr
	type arm struct {
		kind, set, parse string
	}
	arms := []arm{
		{"Float64", "(reflect.Value).SetFloat", "strconv.ParseFloat"},
		{"Int", "(reflect.Value).SetInt", "strconv.ParseInt"},
		{"String", "(reflect.Value).SetString", ""},
		{"Bool", "(reflect.Value).SetBool", ""},
	}
	overflow := map[string]string{"Float64": "(reflect.Value).OverflowFloat", "Int": "(reflect.Value).OverflowInt"}
	var structObj types.Object
	for _, a := range arms {
		var sets []*ast.CallExpr
		ast.Inspect(body, func(n ast.Node) bool {
			if call, ok := n.(*ast.CallExpr); ok {
				if f := callee(info, call); f != nil && f.FullName() == a.set {
					sets = append(sets, call)
				}
			}
			return true
		})
		if len(sets) == 0 {
			r.Ob("arm:"+a.kind, p.Pos(fi.Decl.Pos()), false, fmt.Sprintf("no %s call: a key of kind %s given on the batch line is never stored", a.set, a.kind))
			continue
		}
		for _, call := range sets {
			var bad []string
			se := call.Fun.(*ast.SelectorExpr)
			fObj := useObj(info, se.X)
			// (1) the field is looked up under the argument key
			okF := false
			if fObj != nil {
				ds := defsOf(info, body, fObj)
				okF = len(ds) == 1
				for _, d := range ds {
					c, ok := stripParens(d.Rhs).(*ast.CallExpr)
					if !ok {
						okF = false
						continue
					}
					f := callee(info, c)
					cs, _ := c.Fun.(*ast.SelectorExpr)
					if f == nil || f.FullName() != "(reflect.Value).FieldByName" || len(c.Args) != 1 || useObj(info, c.Args[0]) != keyObj || cs == nil {
						okF = false
						continue
					}
					structObj = useObj(info, cs.X)
				}
			}
			if !okF {
				bad = append(bad, "the stored-to field is not the one looked up under the argument's key")
			}
			// (2) the stored value comes from the argument's text
			var xObj, errObj, okObj types.Object
			if len(call.Args) != 1 {
				bad = append(bad, "unexpected arguments")
			} else {
				arg := stripParens(call.Args[0])
				switch a.kind {
				case "String":
					if useObj(info, arg) != valObj {
						bad = append(bad, "the stored text is not the argument's value")
					}
				case "Float64", "Int":
					xObj = useObj(info, arg)
					okP := false
					if xObj != nil {
						ds := defsOf(info, body, xObj)
						if len(ds) == 1 && ds[0].Idx == 0 {
							if c, ok := stripParens(ds[0].Rhs).(*ast.CallExpr); ok {
								if f := callee(info, c); f != nil && f.FullName() == a.parse && len(c.Args) >= 2 && useObj(info, c.Args[0]) == valObj {
									okP = true
									if a.kind == "Int" {
										if tv, ok := info.Types[c.Args[1]]; !ok || tv.Value == nil || tv.Value.String() != "10" {
											okP = false
										}
										if len(c.Args) != 3 {
											okP = false
										} else if tv, ok := info.Types[c.Args[2]]; !ok || tv.Value == nil || tv.Value.String() != "64" {
											okP = false
										}
									}
									if as, ok := ds[0].Stmt.(*ast.AssignStmt); ok && len(as.Lhs) == 2 {
										errObj = useObj(info, as.Lhs[1])
									}
								}
							}
						}
					}
					if !okP {
						bad = append(bad, "the stored number is not "+a.parse+" of the argument's value (base 10, 64 bit)")
					}
				case "Bool":
					// bool(fs) with fs, ok := table[argVal]
					inner := arg
					if c, ok := arg.(*ast.CallExpr); ok && len(c.Args) == 1 {
						if tv, ok := info.Types[c.Fun]; ok && tv.IsType() {
							inner = stripParens(c.Args[0])
						}
					}
					xObj = useObj(info, inner)
					okP := false
					if xObj != nil {
						ds := defsOf(info, body, xObj)
						if len(ds) == 1 && ds[0].Idx == 0 {
							if ix, ok := stripParens(ds[0].Rhs).(*ast.IndexExpr); ok && useObj(info, ix.Index) == valObj {
								if _, isMap := info.TypeOf(ix.X).Underlying().(*types.Map); isMap {
									okP = true
									if as, ok := ds[0].Stmt.(*ast.AssignStmt); ok && len(as.Lhs) == 2 {
										okObj = useObj(info, as.Lhs[1])
									}
								}
							}
						}
					}
					if !okP {
						bad = append(bad, "the stored switch is not the on/off table entry of the argument's value")
					}
				}
			}
			// (3) path conditions
			conds, loops := astPathConds(info, body, call)
			if len(loops) != 1 || loops[0] != ast.Stmt(rng) {
				bad = append(bad, "not inside exactly the loop over the arguments")
			}
			kindSeen, errSeen := false, false
			for _, c := range conds {
				e := stripParens(c.E)
				switch {
				case !c.Neg && isNilCmp(info, e, argsObj, token.NEQ):
				case !c.Neg && isCallNoArgs(info, e, fObj, "(reflect.Value).IsValid"):
				case !c.Neg && isCallNoArgs(info, e, fObj, "(reflect.Value).CanSet"):
				case isKindCmp(info, e, fObj) != "":
					k, op := isKindCmp(info, e, fObj), e.(*ast.BinaryExpr).Op
					pos := (op == token.EQL) != c.Neg
					if pos && k == a.kind {
						kindSeen = true
					} else {
						bad = append(bad, "guarded by kind test "+c.String())
					}
				case c.Neg && errObj != nil && isNilCmp(info, e, errObj, token.NEQ):
					errSeen = true
				case !c.Neg && errObj != nil && isNilCmp(info, e, errObj, token.EQL):
					errSeen = true
				case c.Neg && overflow[a.kind] != "" && func() bool {
					oc, ok := methodOn(info, e, fObj, overflow[a.kind])
					return ok && len(oc.Args) == 1 && useObj(info, oc.Args[0]) == xObj
				}():
				case !c.Neg && okObj != nil && useObj(info, e) == okObj:
				default:
					bad = append(bad, "additionally conditional on "+c.String())
				}
			}
			if !kindSeen {
				bad = append(bad, "not under the test that the field's kind is "+a.kind)
			}
			if errObj != nil && !errSeen {
				bad = append(bad, "stored although the parse may have failed (no error exit before the store)")
			}
			r.Ob("arm:"+a.kind, p.Pos(call.Pos()), len(bad) == 0, fmt.Sprintf("%s stores into the field named by the key, value from the argument text, guards [%s]%s", a.set, joinConds(conds), problems(bad)))
		}
	}
	// parse failures abort
	nParse, nAbort := 0, 0
	ast.Inspect(body, func(n ast.Node) bool {
		as, ok := n.(*ast.AssignStmt)
		if !ok || len(as.Rhs) != 1 || len(as.Lhs) != 2 {
			return true
		}
		c, ok := as.Rhs[0].(*ast.CallExpr)
		if !ok {
			return true
		}
		f := callee(info, c)
		if f == nil || !strings.HasPrefix(f.FullName(), "strconv.Parse") {
			return true
		}
		nParse++
		errObj := useObj(info, as.Lhs[1])
		// a following sibling `if err != nil { return err }`
		path := nodePath(body, as)
		if len(path) >= 2 {
			if blk, ok := path[len(path)-2].(*ast.BlockStmt); ok {
				for i, st := range blk.List {
					if st == ast.Stmt(as) && i+1 < len(blk.List) {
						if is, ok := blk.List[i+1].(*ast.IfStmt); ok && isNilCmp(info, stripParens(is.Cond), errObj, token.NEQ) && len(is.Body.List) == 1 {
							if rs, ok := is.Body.List[0].(*ast.ReturnStmt); ok && len(rs.Results) == 1 && useObj(info, rs.Results[0]) == errObj {
								nAbort++
							}
						}
					}
				}
			}
		}
		return true
	})
	r.Ob("parse-error-returned", p.Pos(fi.Decl.Pos()), nParse == nAbort && nParse >= 2, fmt.Sprintf("%d numeric parses, %d followed directly by `if err != nil { return err }`", nParse, nAbort))
	// the struct value is the run's configuration
	okV := false
	det := "field lookups are not made on a reflect.Value of the *Config parameter"
	if structObj != nil {
		ds := defsOf(info, body, structObj)
		okV = len(ds) >= 1
		var forms []string
		for _, d := range ds {
			c, ok := stripParens(d.Rhs).(*ast.CallExpr)
			if !ok {
				okV = false
				continue
			}
			f := callee(info, c)
			switch {
			case f != nil && f.FullName() == "reflect.ValueOf" && len(c.Args) == 1 && useObj(info, c.Args[0]) == cfgObj:
				forms = append(forms, "reflect.ValueOf(config)")
			case f != nil && f.FullName() == "(reflect.Value).Elem":
				if _, ok := methodOn(info, c, structObj, "(reflect.Value).Elem"); !ok {
					okV = false
				}
				// only when it is a non-nil pointer
				conds, _ := astPathConds(info, body, d.Stmt)
				ptr := false
				for _, cd := range conds {
					if be, ok := stripParens(cd.E).(*ast.BinaryExpr); ok && !cd.Neg && be.Op == token.EQL {
						if _, ok := methodOn(info, be.X, structObj, "(reflect.Value).Kind"); ok && strings.HasSuffix(types.ExprString(be.Y), "reflect.Ptr") || strings.HasSuffix(types.ExprString(be.Y), "reflect.Pointer") {
							ptr = true
						}
					}
				}
				if !ptr {
					okV = false
				}
				forms = append(forms, "dereferenced when a pointer")
			default:
				okV = false
			}
		}
		hasDeref := false
		for _, f := range forms {
			if f == "dereferenced when a pointer" {
				hasDeref = true
			}
		}
		okV = okV && hasDeref
		det = "the struct the fields are looked up in: " + strings.Join(forms, ", ")
	}
	r.Ob("struct-value", p.Pos(fi.Decl.Pos()), okV, det)
}

func joinConds(cs []astCond) string {
	var s []string
	for _, c := range cs {
		s = append(s, c.String())
	}
	return strings.Join(s, " ∧ ")
}

func problems(bad []string) string {
	if len(bad) == 0 {
		return ""
	}
	return " — " + strings.Join(bad, "; ")
}

func isNilCmp(info *types.Info, e ast.Expr, obj types.Object, op token.Token) bool {
	be, ok := stripParens(e).(*ast.BinaryExpr)
	if !ok || be.Op != op || obj == nil {
		return false
	}
	isNil := func(x ast.Expr) bool {
		id, ok := stripParens(x).(*ast.Ident)
		return ok && id.Name == "nil"
	}
	return (useObj(info, be.X) == obj && isNil(be.Y)) || (useObj(info, be.Y) == obj && isNil(be.X))
}

func isCallNoArgs(info *types.Info, e ast.Expr, recv types.Object, full string) bool {
	c, ok := methodOn(info, e, recv, full)
	return ok && len(c.Args) == 0
}

// isKindCmp matches f.Kind() ==/!= reflect.K and returns K.
func isKindCmp(info *types.Info, e ast.Expr, recv types.Object) string {
	be, ok := stripParens(e).(*ast.BinaryExpr)
	if !ok || (be.Op != token.EQL && be.Op != token.NEQ) {
		return ""
	}
	x, y := be.X, be.Y
	if _, ok := methodOn(info, x, recv, "(reflect.Value).Kind"); !ok {
		x, y = y, x
		if _, ok := methodOn(info, x, recv, "(reflect.Value).Kind"); !ok {
			return ""
		}
	}
	if se, ok := stripParens(y).(*ast.SelectorExpr); ok {
		if o, ok := info.Uses[se.Sel].(*types.Const); ok && o.Pkg() != nil && o.Pkg().Path() == "reflect" {
			return se.Sel.Name
		}
	}
	return ""
}

// ---------------------------------------------------------------------------

func c14Transfers(p *Prog, r *Report) {
	r.Rule("C14.R6", "the overlaid value is the one the run uses: every Config field is read somewhere in the program (a key nobody reads cannot take effect); in the reader, each transfer of a field into the run's state comes after the batch-line overlay, is unconditional, copies the field itself (plain, converted, or divided by 100 for a field documented in %), reads the overlaid variable, and no state variable is fed from the configuration twice; nothing else in the program writes such a state variable (listed exceptions: altitude and CO2 from the weather file; the leaching depth capped at the profile depth)", 99)
	fi := p.Funcs["hermes.readConfig"]
	if fi == nil {
		r.Ob("readConfig", "-", false, "readConfig not found")
		return
	}
	info := fi.Pkg.TypesInfo
	body := fi.Decl.Body
	obj := p.Hermes.Types.Scope().Lookup("Config")
	if obj == nil {
		return
	}
	st, ok := obj.Type().Underlying().(*types.Struct)
	if !ok {
		return
	}
	// (a) every field is read
	fx := p.Fields()
	for i := 0; i < st.NumFields(); i++ {
		f := st.Field(i)
		reads := 0
		var where []string
		for _, a := range fx.ByRef[FieldRef{Struct: "Config", Field: f.Name()}] {
			if !a.Write {
				reads++
				if len(where) < 3 {
					where = append(where, p.Pos(a.Pos))
				}
			}
		}
		r.Ob("read:"+f.Name(), p.Pos(f.Pos()), reads > 0, fmt.Sprintf("%d read(s) of the field in the program %v", reads, where))
	}
	// (b) transfers in the reader
	var cfg types.Object
	var overrideCall *ast.CallExpr
	ast.Inspect(body, func(n ast.Node) bool {
		if c, ok := n.(*ast.CallExpr); ok {
			if f := callee(info, c); f != nil && f.Name() == "commandlineOverride" && len(c.Args) == 2 {
				if ue, ok := c.Args[1].(*ast.UnaryExpr); ok && ue.Op == token.AND {
					cfg = useObj(info, ue.X)
					overrideCall = c
				}
			}
		}
		return true
	})
	if cfg == nil {
		r.Ob("transfers", p.Pos(fi.Decl.Pos()), false, "no batch-line overlay call found in the reader")
		return
	}
	var gObj types.Object
	for _, f := range fi.Decl.Type.Params.List {
		for _, n := range f.Names {
			if pt, ok := info.Defs[n].Type().(*types.Pointer); ok {
				if nm, ok := pt.Elem().(*types.Named); ok && nm.Obj().Name() == "GlobalVarsMain" {
					gObj = info.Defs[n]
				}
			}
		}
	}
	// documentation of the fields
	doc := map[string]string{}
	for _, f := range fi.Pkg.Syntax {
		ast.Inspect(f, func(n ast.Node) bool {
			ts, ok := n.(*ast.TypeSpec)
			if !ok || ts.Name.Name != "Config" {
				return true
			}
			if s, ok := ts.Type.(*ast.StructType); ok {
				for _, fl := range s.Fields.List {
					for _, nm := range fl.Names {
						if fl.Comment != nil {
							doc[nm.Name] = fl.Comment.Text()
						}
					}
				}
			}
			return false
		})
	}
	targets := map[string][]string{}
	var tkeys []string
	ast.Inspect(body, func(n ast.Node) bool {
		as, ok := n.(*ast.AssignStmt)
		if !ok || (len(as.Lhs) != len(as.Rhs) && len(as.Rhs) != 1) {
			return true
		}
		for i, l := range as.Lhs {
			ls, ok := l.(*ast.SelectorExpr)
			if !ok || useObj(info, ls.X) != gObj || gObj == nil {
				continue
			}
			if len(as.Rhs) == 1 {
				i = 0
			}
			// config fields mentioned on the right, directly (not through another state variable)
			var fields []string
			ast.Inspect(as.Rhs[i], func(m ast.Node) bool {
				if se, ok := m.(*ast.SelectorExpr); ok && useObj(info, se.X) == cfg {
					fields = append(fields, se.Sel.Name)
				}
				return true
			})
			if len(fields) == 0 {
				continue
			}
			name := ls.Sel.Name
			var bad []string
			if as.Pos() < overrideCall.End() {
				bad = append(bad, "before the batch-line overlay")
			}
			conds, loops := astPathConds(info, body, as)
			for _, c := range conds {
				if c.Neg && c.Exit != nil {
					continue
				}
				bad = append(bad, "conditional on "+c.String())
			}
			if len(loops) > 0 {
				bad = append(bad, "inside a loop")
			}
			// shape
			shape := ""
			rhs := stripParens(as.Rhs[i])
			isField := func(e ast.Expr) (string, bool) {
				se, ok := stripParens(e).(*ast.SelectorExpr)
				if ok && useObj(info, se.X) == cfg {
					return se.Sel.Name, true
				}
				return "", false
			}
			if f, ok := isField(rhs); ok {
				shape = "copy of " + f
			} else if c, ok := rhs.(*ast.CallExpr); ok {
				if tv, ok2 := info.Types[c.Fun]; ok2 && tv.IsType() && len(c.Args) == 1 {
					if f, ok := isField(c.Args[0]); ok {
						shape = "conversion of " + f
					}
				}
				if shape == "" {
					shape = "call " + clip(types.ExprString(c.Fun), 30)
				}
			} else if be, ok := rhs.(*ast.BinaryExpr); ok {
				if f, okf := isField(be.X); okf && be.Op == token.QUO {
					if tv, ok := info.Types[be.Y]; ok && tv.Value != nil && tv.Value.String() == "100" {
						if strings.Contains(doc[f], "%") {
							shape = "percent → fraction of " + f
						} else {
							bad = append(bad, f+" is divided by 100 but not documented in %")
						}
					}
				}
				if shape == "" {
					bad = append(bad, "arithmetic on the configured value: "+types.ExprString(rhs))
				}
			} else {
				bad = append(bad, "unrecognised transfer "+types.ExprString(rhs))
			}
			if len(fields) == 1 && strings.Contains(doc[fields[0]], "%") && !strings.HasPrefix(shape, "percent") && !strings.HasPrefix(shape, "call") {
				bad = append(bad, fields[0]+" is documented in % but transferred unscaled")
			}
			if strings.HasPrefix(shape, "copy") || strings.HasPrefix(shape, "conversion") || strings.HasPrefix(shape, "percent") {
				targets[fields[0]] = append(targets[fields[0]], name)
			}
			key := "transfer:" + name
			tkeys = append(tkeys, name)
			r.Ob(key, p.Pos(as.Pos()), len(bad) == 0, fmt.Sprintf("%s ← %s (%s)%s", name, strings.Join(fields, ","), shape, problems(bad)))
		}
		return true
	})
	// (b2) nothing else in the program writes a state variable that carries a configured value (a later overwrite —
	// a fallback for a "zero" value, a clamp — replaces what the line or the file gave)
	writerExceptions := map[string]map[string]string{
		"ALTI":    {"hermes.LoadYear": "the weather file's station altitude replaces the configured one (documented at the Config field)"},
		"CO2KONZ": {"hermes.LoadYear": "a per-year CO2 column of the weather file replaces the configured concentration"},
		"OUTN":    {"hermes.Input": "the configured leaching depth is capped at the number of soil layers (cap idiom only, checked by C01.R8): interface fluxes exist for the boundaries of the profile only"},
	}
	seenT := map[string]bool{}
	for _, name := range tkeys {
		if seenT[name] || name == "ENDE" { // the end date has its own writer table under C05.R4
			continue
		}
		seenT[name] = true
		var others []string
		for _, w := range fx.Writers(FieldRef{"GlobalVarsMain", name}) {
			if w.Key == "hermes.readConfig" || strings.HasPrefix(w.Key, "hermes.NewDefault") || w.Key == "hermes.NewGlobalVarsMain" {
				continue
			}
			if _, ok := writerExceptions[name][w.Key]; ok {
				continue
			}
			others = append(others, strings.TrimPrefix(w.Key, "hermes."))
		}
		sort.Strings(others)
		r.Ob("sole-writer:"+name, p.Pos(fi.Decl.Pos()), len(others) == 0, fmt.Sprintf("writers of %s besides the configuration reader and the listed exceptions (%d listed): %s", name, len(writerExceptions[name]), orStr(strings.Join(others, ", "), "none")))
	}
	// (c) no state variable fed twice, no field copied to two variables
	sort.Strings(tkeys)
	dupT := ""
	for i := 1; i < len(tkeys); i++ {
		if tkeys[i] == tkeys[i-1] {
			dupT += tkeys[i] + " "
		}
	}
	dupF := ""
	var fk []string
	for f := range targets {
		fk = append(fk, f)
	}
	sort.Strings(fk)
	for _, f := range fk {
		if len(targets[f]) > 1 {
			dupF += fmt.Sprintf("%s→%v ", f, targets[f])
		}
	}
	r.Ob("one-to-one", p.Pos(fi.Decl.Pos()), dupT == "" && dupF == "", fmt.Sprintf("%d transfers; state variables fed twice: %s; fields copied into two variables: %s", len(tkeys), orStr(dupT, "none"), orStr(dupF, "none")))
}

// configFeeds reports how the reader transfers a Config field into the state
// variable gField: ok when there is exactly one store, unconditional, whose
// right-hand side is cfg.<cfgField> divided by div (div == 1: plain copy).
func configFeeds(p *Prog, gField, cfgField string, div int64) (bool, string, string) {
	fi := p.Funcs["hermes.readConfig"]
	if fi == nil {
		return false, "-", "readConfig not found"
	}
	info := fi.Pkg.TypesInfo
	n := 0
	ok := true
	pos, det := "-", ""
	ast.Inspect(fi.Decl.Body, func(m ast.Node) bool {
		as, isAs := m.(*ast.AssignStmt)
		if !isAs || len(as.Lhs) != 1 || len(as.Rhs) != 1 {
			return true
		}
		ls, isSel := as.Lhs[0].(*ast.SelectorExpr)
		if !isSel || ls.Sel.Name != gField {
			return true
		}
		if sel, has := info.Selections[ls]; !has || sel.Kind() != types.FieldVal {
			return true
		}
		n++
		pos = p.Pos(as.Pos())
		rhs := stripParens(as.Rhs[0])
		det = types.ExprString(rhs)
		conds, loops := astPathConds(info, fi.Decl.Body, as)
		for _, c := range conds {
			if !(c.Neg && c.Exit != nil) {
				ok = false
				det += " under " + c.String()
			}
		}
		if len(loops) > 0 {
			ok = false
		}
		isField := func(e ast.Expr) bool {
			se, isSel := stripParens(e).(*ast.SelectorExpr)
			if !isSel || se.Sel.Name != cfgField {
				return false
			}
			sel, has := info.Selections[se]
			if !has || sel.Kind() != types.FieldVal {
				return false
			}
			name, _ := namedStruct(sel.Recv())
			return name == "Config"
		}
		if div == 1 {
			// plain copy or a type conversion of the field
			if c, isCall := rhs.(*ast.CallExpr); isCall && len(c.Args) == 1 {
				if tv, has := info.Types[c.Fun]; has && tv.IsType() {
					rhs = stripParens(c.Args[0])
				}
			}
			if !isField(rhs) {
				ok = false
			}
		} else {
			be, isBin := rhs.(*ast.BinaryExpr)
			if !isBin || be.Op != token.QUO || !isField(be.X) {
				ok = false
			} else if tv := info.Types[be.Y]; tv.Value == nil || tv.Value.String() != fmt.Sprint(div) {
				ok = false
			}
		}
		return true
	})
	// the reader does not rewrite the configuration field itself before the transfer
	ast.Inspect(fi.Decl.Body, func(m ast.Node) bool {
		as, isAs := m.(*ast.AssignStmt)
		if !isAs {
			return true
		}
		for _, l := range as.Lhs {
			if se, isSel := l.(*ast.SelectorExpr); isSel && se.Sel.Name == cfgField {
				if sel, has := info.Selections[se]; has && sel.Kind() == types.FieldVal {
					if name, _ := namedStruct(sel.Recv()); name == "Config" {
						ok = false
						det += fmt.Sprintf("; the configuration field %s is reassigned at %s", cfgField, p.Pos(as.Pos()))
					}
				}
			}
		}
		return true
	})
	// no other writer in the program
	for _, w := range p.Fields().Writers(FieldRef{"GlobalVarsMain", gField}) {
		if w.Key != "hermes.readConfig" && !strings.HasPrefix(w.Key, "hermes.NewDefault") && w.Key != "hermes.NewGlobalVarsMain" {
			ok = false
			det += "; also written by " + w.Key
		}
	}
	return ok && n == 1, pos, fmt.Sprintf("%d store(s) in the configuration reader: %s", n, det)
}

// ---------------------------------------------------------------- a default that depends on another key

// c14DependentDefaults: most defaults are constants of the defaults table.  A documented default that depends on
// ANOTHER key cannot be: it must be derived after file and batch line were overlaid, from the effective value of that
// key.  Confirmed by reading (the field's comment says "default RES, csv"): the result-file extension follows the
// result-file format.  Demanded: after the call of the line overlay the reader assigns the dependent field under
// "the field is still empty", in arms selected by the other key, with pairwise different constants; the table entry
// is re-validated against the field's comment on every run.
var c14Dependent = map[string]struct {
	on      string
	mention []string
}{
	"ResultFileExt": {"ResultFileFormat", []string{"RES", "csv"}},
}

func c14DependentDefaults(p *Prog, r *Report) {
	r.Rule("C14.R8", "a documented default that depends on another key is derived from that key's effective value: after the batch-line overlay, under 'the field is still empty', in arms selected by the other key, with different constants", 1)
	fi := p.Funcs["hermes.readConfig"]
	if fi == nil {
		r.Ob("dependent-default", "-", false, "hermes.readConfig not found")
		return
	}
	info := fi.Pkg.TypesInfo
	var overlay token.Pos
	ast.Inspect(fi.Decl.Body, func(n ast.Node) bool {
		if c, ok := n.(*ast.CallExpr); ok {
			if id, ok := c.Fun.(*ast.Ident); ok && id.Name == "commandlineOverride" {
				overlay = c.Pos()
			}
		}
		return true
	})
	var names []string
	for k := range c14Dependent {
		names = append(names, k)
	}
	sort.Strings(names)
	for _, fld := range names {
		dep := c14Dependent[fld]
		// the table entry still describes the field's documentation
		documented := false
		for _, f := range fi.Pkg.Syntax {
			ast.Inspect(f, func(n ast.Node) bool {
				fl, ok := n.(*ast.Field)
				if !ok || len(fl.Names) != 1 || fl.Names[0].Name != fld || fl.Comment == nil {
					return true
				}
				txt := fl.Comment.Text()
				all := true
				for _, m := range dep.mention {
					if !strings.Contains(txt, m) {
						all = false
					}
				}
				documented = documented || all
				return true
			})
		}
		if !documented {
			r.Ob("dependent-default:"+fld, "-", false, fmt.Sprintf("the table entry is stale: no Config field %s whose comment documents the defaults %v", fld, dep.mention))
			continue
		}
		ok, det, pos := false, "no fallback for the empty field after the overlay", "-"
		isField := func(e ast.Expr, name string) bool {
			se, isSe := ast.Unparen(e).(*ast.SelectorExpr)
			if !isSe || se.Sel.Name != name {
				return false
			}
			sel, has := info.Selections[se]
			return has && sel.Kind() == types.FieldVal
		}
		mentions := func(n ast.Node, name string) bool {
			f := false
			ast.Inspect(n, func(m ast.Node) bool {
				if e, isE := m.(ast.Expr); isE && isField(e, name) {
					f = true
				}
				return true
			})
			return f
		}
		ast.Inspect(fi.Decl.Body, func(n ast.Node) bool {
			is, isIf := n.(*ast.IfStmt)
			if !isIf || is.Pos() < overlay || !mentions(is.Cond, fld) {
				return true
			}
			// "still empty": len(field) == 0 or field == ""
			be, isBe := is.Cond.(*ast.BinaryExpr)
			if !isBe || be.Op != token.EQL {
				return true
			}
			// arms selected by the other key, each storing a constant into the field
			consts := map[string]bool{}
			selected := false
			ast.Inspect(is.Body, func(m ast.Node) bool {
				if inner, isInner := m.(*ast.IfStmt); isInner && mentions(inner.Cond, dep.on) {
					selected = true
				}
				if sw, isSw := m.(*ast.SwitchStmt); isSw && sw.Tag != nil && mentions(sw.Tag, dep.on) {
					selected = true
				}
				if as, isAs := m.(*ast.AssignStmt); isAs && len(as.Lhs) == 1 && len(as.Rhs) == 1 && isField(as.Lhs[0], fld) {
					if tv, has := info.Types[as.Rhs[0]]; has && tv.Value != nil {
						consts[tv.Value.ExactString()] = true
					}
				}
				return true
			})
			pos = p.Pos(is.Pos())
			if selected && len(consts) >= 2 {
				ok = true
				det = fmt.Sprintf("empty %s is filled after the overlay in arms selected by %s with %d different constants", fld, dep.on, len(consts))
			} else {
				det = fmt.Sprintf("the fallback for %s does not select by %s (selected: %v, constants: %d)", fld, dep.on, selected, len(consts))
			}
			return true
		})
		if overlay == 0 {
			ok, det = false, "the batch-line overlay call was not found in the reader"
		}
		r.Ob("dependent-default:"+fld, pos, ok, det)
	}
}
