package main

// C10 — scheduled management actions take effect exactly once, on time, in full.
// Structural conditions: cursor/advance pairing of the three event cursors,
// reader bookkeeping (same index for date and amount, pre-start filter against
// an initialised start date, duplicate shift over all stored slots), the
// irrigation entering the same day's infiltration, and the fertiliser table
// row selection.

import (
	"fmt"
	"go/ast"
	"go/constant"
	"go/token"
	"go/types"
	"math/big"
	"sort"
	"strings"

	"golang.org/x/tools/go/ssa"
)

func init() { register("C10", checkC10) }

func checkC10(p *Prog, r *Report) {
	c10Cursors(p, r)
	c10SameDay(p, r)
	c10Readers(p, r)
	c10StartDate(p, r)
	c10Dueng(p, r)
	c10Writers(p, r)
	// a scheduled tillage must not be postponed before the crop is sown (shared with C16.R14)
	tillagePostponement(p, r, "C10.R12")
	headerLineCounts(p, r, "C10.R13")
	readersAllLines(p, r, "C10.R14")
	fertiliserBooksReset(p, r, "C10.R15")
	// schedule dates are text in the configured date format ("all date formats")
	dateTextRules(p, r, "C10.R9")
	inputHelpers(p, r, "C10.R10")
}

// dateEq decomposes a guard  DATE[idx] + off − T == 0  (either sign).
func dateEq(c *Cond, dateRoot string) (idx Poly, off int64, tm Poly, ok bool) {
	if c.Kind != "cmp" || c.Op != token.EQL {
		return
	}
	P := stripVersions(c.P)
	for _, t := range P.sortedTerms() {
		if len(t.M) != 1 || t.M[0].E != 1 || t.M[0].A.Kind != "cell" || t.M[0].A.Root != dateRoot || len(t.M[0].A.Idx) != 1 {
			continue
		}
		if !t.C.IsInt() {
			continue
		}
		s := t.C.Num().Int64()
		if s != 1 && s != -1 {
			continue
		}
		Q := P
		if s == -1 {
			Q = P.Neg()
		}
		rest := Q.Sub(PAtom(t.M[0].A)) // off − T
		// rest must be const − single atom
		var tAtom *Atom
		var cst int64
		good := true
		for _, u := range rest.sortedTerms() {
			switch {
			case len(u.M) == 0 && u.C.IsInt():
				cst = u.C.Num().Int64()
			case len(u.M) == 1 && u.M[0].E == 1 && u.C.Cmp(ratInt(-1)) == 0 && tAtom == nil:
				tAtom = u.M[0].A
			default:
				good = false
			}
		}
		if !good || tAtom == nil {
			continue
		}
		return t.M[0].A.Idx[0], cst, PAtom(tAtom), true
	}
	return
}

// dayLoop returns the day loop of the run closure (bounded by ENDE, starting at BEGINN).
func dayLoop(x *Exec) *LoopCtx {
	for _, L := range loopsOf(x) {
		if L.Cond != nil && L.Var != nil && L.Cond.P.MentionsRoot("GlobalVarsMain.ENDE") && stripVersions(L.Lo).Equal(cellP("GlobalVarsMain.BEGINN")) {
			return L
		}
	}
	return nil
}

// timeParam returns the parameter of callee key that receives the day-loop variable.
func timeParam(p *Prog, run *Exec, day *LoopCtx, key string) string {
	fi := p.Funcs[key]
	if fi == nil || day == nil {
		return ""
	}
	names := paramNames(fi.Decl)
	for _, e := range run.Events {
		if e.Kind == "call" && e.Callee != nil && p.ByObj[e.Callee] == fi {
			for i, a := range e.Args {
				if i < len(names) && a.Equal(PAtom(day.Var)) {
					return names[i]
				}
			}
		}
	}
	return ""
}

// errorExitFor reports whether some return event with a non-nil error is
// taken exactly when guard g fails after the same preceding guards.
func errorExitFor(x *Exec, pre map[string]bool, g *Cond) bool {
	neg := g.Negate().Conjuncts()
	for _, e := range x.Events {
		if e.Kind != "return" || len(e.Rets) == 0 {
			continue
		}
		last := e.Rets[len(e.Rets)-1]
		if last.String() == "nil" {
			continue
		}
		have := map[string]bool{}
		for _, c := range flattenGuards(e.Guards) {
			have[c.Key()] = true
		}
		ok := true
		for _, n := range neg {
			if !have[n.Key()] {
				ok = false
			}
		}
		if !ok {
			continue
		}
		// every other guard of the return is a guard of the event as well
		extra := false
		for k := range have {
			isNeg := false
			for _, n := range neg {
				if n.Key() == k {
					isNeg = true
				}
			}
			if !isNeg && !pre[k] {
				extra = true
			}
		}
		if !extra {
			return true
		}
	}
	return false
}

type cursorSpec struct {
	name     string
	fn       string
	cursor   string   // root of the cursor cell
	dateRoot string   // date array
	amounts  []string // amount arrays consumed with the cursor
	// pool ← amount pairs that must be applied in full (coefficient +1)
	effects [][2]string
	modeOK  map[string]string // allowed mode guards (Key → reason)
	// date index − amount index as produced by the reader (checked there against the same number)
	readerOff int64
}

func c10Cursors(p *Prog, r *Report) {
	r.Rule("C10.R1", "consume–advance pairing: the branch guarded by day == DATE[cursor(+k)] + c, c ∈ {0,1}, (first sub-step only) applies the event's amounts read at the cursor and advances the cursor by exactly one on every non-error path; no other guard can hold the cursor back", 3)
	run := walked(p, "hermes.HermesSession.Run")
	if run == nil {
		r.Ob("run", "-", false, "run closure not found")
		return
	}
	day := dayLoop(run)
	if day == nil {
		r.Ob("day-loop", "-", false, "day loop (from BEGINN while <= ENDE) not found in Run")
		return
	}
	si := substepScope(p)
	specs := []cursorSpec{
		{name: "fertiliser", fn: "hermes.Nitro", cursor: "GlobalVarsMain.NDG.Index", dateRoot: "GlobalVarsMain.ZTDG",
			effects: [][2]string{{"GlobalVarsMain.NFOS", "GlobalVarsMain.NSAS"}, {"GlobalVarsMain.NAOS", "GlobalVarsMain.NLAS"}, {"GlobalVarsMain.DSUMM", "GlobalVarsMain.NDIR"}, {"GlobalVarsMain.NH4Sum", "GlobalVarsMain.NH4N"}},
			modeOK:  map[string]string{"!(?GlobalVarsMain.AUTOFERT)": "the manual schedule applies only when automatic fertilisation is off"}},
		{name: "tillage", fn: "hermes.Nitro", cursor: "GlobalVarsMain.NTIL.Index", dateRoot: "GlobalVarsMain.EINTE",
			amounts: []string{"GlobalVarsMain.EINT", "GlobalVarsMain.TILART"}, readerOff: 1},
		{name: "irrigation", fn: "hermes.HermesSession.Run", cursor: "GlobalVarsMain.NBR", dateRoot: "GlobalVarsMain.ZTBR",
			effects: [][2]string{{"GlobalVarsMain.REGEN", "GlobalVarsMain.BREG"}}},
	}
	for _, sp := range specs {
		x := walked(p, sp.fn)
		if x == nil {
			r.Ob(sp.name, "-", false, sp.fn+" not found")
			continue
		}
		var tm Poly
		subd := ""
		if sp.fn == "hermes.HermesSession.Run" {
			tm = PAtom(day.Var)
		} else {
			tp := timeParam(p, run, day, sp.fn)
			if tp == "" {
				r.Ob(sp.name, "-", false, sp.fn+" does not receive the day-loop variable")
				continue
			}
			tm = pVar(tp)
			for _, f := range si.Fns {
				if f.Key == sp.fn {
					subd = f.Subd
				}
			}
		}
		var adv []*Event
		for _, e := range x.Events {
			if e.Kind == "assign" && e.Root == sp.cursor {
				adv = append(adv, e)
			}
		}
		if len(adv) != 1 {
			r.Ob(sp.name+":advance", "-", false, fmt.Sprintf("%d stores to the %s cursor in %s, exactly one advance was confirmed", len(adv), sp.name, sp.fn))
			continue
		}
		a := adv[0]
		pos := p.Pos(a.Pos)
		okStep := a.Val.Sub(a.Old).Equal(PInt(1))
		// classify guards
		var dateIdx Poly
		var dateOff int64
		haveDate, haveSubd := false, false
		var bad []string
		pre := map[string]bool{}
		fg := flattenGuards(a.Guards)
		for _, g := range fg {
			if g.Loop {
				pre[g.Key()] = true
				continue
			}
			if idx, off, t, ok := dateEq(g, sp.dateRoot); ok && t.Equal(tm) {
				haveDate = true
				dateIdx, dateOff = idx, -off // guard: DATE[idx] + off − T == 0  ⇔  T == DATE[idx] + off
				dateOff = off
				pre[g.Key()] = true
				continue
			}
			if subd != "" && isCmp(g, pVar(subd).Sub(PInt(1)), token.EQL) {
				haveSubd = true
				pre[g.Key()] = true
				continue
			}
			if _, ok := sp.modeOK[g.Key()]; ok {
				pre[g.Key()] = true
				continue
			}
			if errorExitFor(x, pre, g) {
				pre[g.Key()] = true
				continue
			}
			bad = append(bad, g.Key())
			pre[g.Key()] = true
		}
		det := fmt.Sprintf("%s cursor: Δ = %s", sp.name, a.Val.Sub(a.Old))
		ok := okStep
		if !haveDate {
			ok = false
			det += "; no guard of the form day == " + shortRoot(sp.dateRoot) + "[cursor] + c"
		} else {
			det += fmt.Sprintf("; guard day == %s[%s] + %d", shortRoot(sp.dateRoot), dateIdx, dateOff)
			if dateOff != 0 && dateOff != 1 {
				ok = false
				det += " (the action is more than one day late or early)"
			}
			// the date index is cursor + k
			k := stripVersions(dateIdx).Sub(cellP(sp.cursor))
			if _, isC := k.ConstInt(); !isC {
				ok = false
				det += "; the date index is not the cursor plus a constant"
			}
		}
		if subd != "" && !haveSubd {
			ok = false
			det += "; not restricted to the first sub-step (the action would be applied once per sub-step)"
		}
		if len(bad) > 0 {
			ok = false
			det += "; the advance also depends on {" + strings.Join(bad, " ; ") + "}: when it fails on the event's day the cursor never moves again and every later event is lost"
		}
		r.Ob(sp.name+":advance", pos, ok, det)
		if !haveDate {
			continue
		}
		// amounts are read at the cursor: same offset between date index and amount index as in the reader
		dateGuardKey := ""
		for _, g := range fg {
			if _, _, _, ok := dateEq(g, sp.dateRoot); ok {
				dateGuardKey = g.Key()
			}
		}
		// amounts (depth, kind, quantities) are read at the slot of the date: index = date index − readerOffset
		for _, arr := range append(append([]string{}, sp.amounts...), func() []string {
			var o []string
			for _, ef := range sp.effects {
				o = append(o, ef[1])
			}
			return o
		}()...) {
			seen := map[string]bool{}
			for _, e := range x.Events {
				if !e.HasGuard(func(c *Cond) bool { return c.Key() == dateGuardKey }) {
					continue
				}
				chk := func(q Poly) {
					q.walkAtoms(func(at *Atom) {
						if at.Kind == "cell" && at.Root == arr && len(at.Idx) == 1 {
							seen[stripVersions(at.Idx[0]).String()] = true
						}
					})
				}
				chk(e.Val)
				for _, a := range e.Args {
					chk(a)
				}
				for _, g := range flattenGuards(e.Guards) {
					if g.Kind == "cmp" {
						chk(g.P)
					}
				}
			}
			want := stripVersions(dateIdx).Sub(PInt(sp.readerOff)).String()
			var ks []string
			for k := range seen {
				ks = append(ks, k)
			}
			sort.Strings(ks)
			okA := len(ks) == 1 && ks[0] == want
			r.Ob(sp.name+":amount-slot:"+shortRoot(arr), pos, okA, fmt.Sprintf("%s is read at {%s} under the event's date guard; the reader stored it at date slot − %d = %s", shortRoot(arr), strings.Join(ks, ", "), sp.readerOff, want))
		}
		for _, ef := range sp.effects {
			found := false
			for _, e := range x.Events {
				if e.Kind != "assign" || e.Root != ef[0] || e.Seq > a.Seq {
					continue
				}
				if !e.HasGuard(func(c *Cond) bool { return c.Key() == dateGuardKey }) {
					continue
				}
				d := stripVersions(e.Val.Sub(e.Old))
				// d must contain amount[cursorIdx] linearly with positive coefficient
				var am *Atom
				d.walkAtoms(func(at *Atom) {
					if at.Kind == "cell" && at.Root == ef[1] {
						am = at
					}
				})
				if am == nil {
					continue
				}
				found = true
				okE := true
				why := ""
				// guards of the effect ⊆ guards of the advance (applied whenever the cursor moves)
				advKeys := map[string]bool{}
				for _, g := range fg {
					advKeys[g.Key()] = true
				}
				for _, g := range flattenGuards(e.Guards) {
					if !advKeys[g.Key()] {
						okE = false
						why += "; applied only if " + g.Key()
					}
				}
				if len(am.Idx) != 1 {
					okE = false
				} else {
					// offset agreement is checked against the reader in R2; here: index = date index + const
					k := stripVersions(am.Idx[0]).Sub(stripVersions(dateIdx))
					if _, isC := k.ConstInt(); !isC {
						okE = false
						why += "; amount index " + am.Idx[0].String() + " is not tied to the date index " + dateIdx.String()
					}
				}
				// linear, coefficient sign positive
				for _, t := range d.sortedTerms() {
					if t.DegreeIn(am.Key) > 0 && t.C.Sign() < 0 {
						okE = false
						why += "; the amount enters with a negative sign"
					}
					if t.DegreeIn(am.Key) > 1 {
						okE = false
					}
				}
				r.Ob(sp.name+":effect:"+shortRoot(ef[0])+"←"+shortRoot(ef[1]), p.Pos(e.Pos), okE, fmt.Sprintf("Δ%s = %s under the event's date guard%s", shortRoot(ef[0]), d, why))
			}
			if !found {
				r.Ob(sp.name+":effect:"+shortRoot(ef[0])+"←"+shortRoot(ef[1]), pos, false, fmt.Sprintf("no store adds %s[cursor] to %s under the event's date guard before the cursor advances", shortRoot(ef[1]), shortRoot(ef[0])))
			}
		}
	}
}

// ---------------------------------------------------------------- same-day infiltration

func c10SameDay(p *Prog, r *Report) {
	r.Rule("C10.R1c", "irrigation enters that day's infiltration: the irrigation amount is added to the precipitation record of the current day index before evapotranspiration and the water kernel run in the same iteration, with no write to the day index or to that record in between; unit factor mm → cm", 1)
	x := walked(p, "hermes.HermesSession.Run")
	if x == nil {
		return
	}
	tagIdx := cellP("GlobalVarsMain.TAG.Index")
	for _, e := range x.Events {
		if e.Kind != "assign" || e.Root != "GlobalVarsMain.REGEN" || len(e.Idx) != 1 {
			continue
		}
		d := stripVersions(e.Val.Sub(e.Old))
		if !d.MentionsRoot("GlobalVarsMain.BREG") && !d.MentionsRoot("GlobalVarsMain.EffectiveIRRIG") {
			continue
		}
		ok := stripVersions(e.Idx[0]).Equal(tagIdx)
		det := fmt.Sprintf("REGEN[%s] += %s", e.Idx[0], d)
		if !ok {
			det += " — not the record of the current day"
		}
		// unit factor: BREG[k]/10
		t := d.single()
		if t == nil || t.C.Cmp(ratFrac(1, 10)) != 0 || len(t.M) != 1 {
			ok = false
			det += "; the amount must be exactly BREG[cursor]/10 (mm → cm)"
		}
		var evatra, water *Event
		for _, c := range x.Events[e.Seq+1:] {
			if c.Kind == "call" && c.Name == "hermes.Evatra" && evatra == nil {
				evatra = c
			}
			if c.Kind == "call" && c.Name == "hermes.Water" && water == nil {
				water = c
			}
		}
		if evatra == nil || water == nil {
			ok = false
			det += "; the evapotranspiration/water kernels are not called after it in the same iteration"
		} else {
			sameIter := len(e.Loops) > 0 && evatra.InLoop(e.Loops[len(e.Loops)-1]) && water.InLoop(e.Loops[len(e.Loops)-1])
			if !sameIter {
				ok = false
				det += "; kernels are not in the same day-loop iteration"
			}
			for _, c := range x.Events[e.Seq+1 : water.Seq] {
				if c.Kind == "assign" && (c.Root == "GlobalVarsMain.TAG.Index" || c.Root == "GlobalVarsMain.REGEN") {
					ok = false
					det += "; " + c.Target() + " is written between the addition and the water kernel (" + p.Pos(c.Pos) + ")"
				}
			}
			det += fmt.Sprintf("; Evatra at %s, Water at %s", p.Pos(evatra.Pos), p.Pos(water.Pos))
		}
		r.Ob("irrigation→REGEN", p.Pos(e.Pos), ok, det)
	}
}

// ---------------------------------------------------------------- readers

type readerSpec struct {
	name    string
	date    string   // date array
	arrays  []string // amount arrays (same slot)
	dateOff int64    // date index − amount index expected from the consumer
}

func c10Readers(p *Prog, r *Report) {
	r.Rule("C10.R2", "event readers: the counter grows by one per line of the field, date and amounts of one event go to the same slot (same offset as the consumer uses), the slot is released again exactly when the date lies before the simulation start, the duplicate-date shift compares every pair of neighbouring stored slots starting at the first one, and the fertiliser split is computed for every stored event", 9)
	x := walked(p, "hermes.Input")
	if x == nil {
		r.Ob("Input", "-", false, "hermes.Input not found")
		return
	}
	specs := []readerSpec{
		{name: "irrigation", date: "GlobalVarsMain.ZTBR", arrays: []string{"GlobalVarsMain.BREG", "GlobalVarsMain.BRKZ"}},
		{name: "tillage", date: "GlobalVarsMain.EINTE", arrays: []string{"GlobalVarsMain.EINT", "GlobalVarsMain.TILART"}, dateOff: 1},
		{name: "fertiliser", date: "GlobalVarsMain.ZTDG", arrays: []string{"InputSharedVars.DGMG", "GlobalVarsMain.DGART"}},
	}
	for _, sp := range specs {
		// the reader's store of the date: inside a loop, value is an opaque call result (Datum)
		var ds *Event
		for _, e := range x.Events {
			if e.Kind == "assign" && e.Root == sp.date && len(e.Idx) == 1 && len(e.Loops) >= 2 {
				if _, isC := e.Val.Const(); isC {
					continue
				}
				if e.Val.MentionsRoot(sp.date) {
					continue // shift loop
				}
				if ds == nil {
					ds = e
				}
			}
		}
		if ds == nil {
			r.Ob(sp.name+":date-store", "-", false, "the reader's store into "+shortRoot(sp.date)+" was not found")
			continue
		}
		L := ds.Loops[len(ds.Loops)-1]
		// the counter: the local/cell whose loop-entry value appears in the date index
		slot := stripVersions(ds.Idx[0])
		// amounts at the same slot (minus dateOff)
		for _, arr := range sp.arrays {
			found := false
			for _, e := range x.Events {
				if e.Kind == "assign" && e.Root == arr && len(e.Idx) == 1 && innermost(e, L) {
					found = true
					k := slot.Sub(stripVersions(e.Idx[0]))
					c, isC := k.ConstInt()
					ok := isC && c == sp.dateOff && guardKeys(e.Guards) == guardKeys(ds.Guards)
					r.Ob(sp.name+":slot:"+shortRoot(arr), p.Pos(e.Pos), ok, fmt.Sprintf("%s[%s] stored with date %s[%s]: offset %s (consumer uses %d), same guards: %v", shortRoot(arr), e.Idx[0], shortRoot(sp.date), ds.Idx[0], k, sp.dateOff, guardKeys(e.Guards) == guardKeys(ds.Guards)))
				}
			}
			if !found {
				r.Ob(sp.name+":slot:"+shortRoot(arr), p.Pos(ds.Pos), false, shortRoot(arr)+" is not stored next to the event's date")
			}
		}
		// counter events in this loop
		var inc, dec []*Event
		for _, e := range x.Events {
			if e.Kind != "assign" || !innermost(e, L) {
				continue
			}
			isCounter := false
			if e.Local != nil || e.Root != "" {
				// the counter is what the slot is made of
				nm := e.Root
				slot.walkAtoms(func(a *Atom) {
					if a.Root == nm && (a.Kind == "loop" || a.Kind == "cell" || a.Kind == "var") {
						isCounter = true
					}
				})
			}
			if !isCounter || len(e.Idx) > 0 {
				continue
			}
			d := e.Val.Sub(e.Old)
			if d.Equal(PInt(1)) {
				inc = append(inc, e)
			} else if d.Equal(PInt(-1)) {
				dec = append(dec, e)
			} else {
				r.Ob(sp.name+":counter", p.Pos(e.Pos), false, fmt.Sprintf("the event counter changes by %s", d))
			}
		}
		okInc := len(inc) == 1 && guardKeys(inc[0].Guards) == guardKeys(ds.Guards) && inc[0].Seq < ds.Seq
		posInc := p.Pos(ds.Pos)
		if len(inc) > 0 {
			posInc = p.Pos(inc[0].Pos)
		}
		r.Ob(sp.name+":counter:inc", posInc, okInc, fmt.Sprintf("%d increment(s) of the event counter per line, before the stores and under the same guards: %v", len(inc), okInc))
		// decrement exactly under  date < BEGINN
		okDec := len(dec) == 1
		det := fmt.Sprintf("%d release(s) of the slot", len(dec))
		if okDec {
			e := dec[0]
			base := map[string]bool{}
			for _, g := range flattenGuards(ds.Guards) {
				base[g.Key()] = true
			}
			var extra []*Cond
			for _, g := range flattenGuards(e.Guards) {
				if !base[g.Key()] {
					extra = append(extra, g)
				}
			}
			okDec = false
			if len(extra) == 1 && extra[0].Kind == "cmp" {
				g := extra[0]
				// stored date − start < 0
				be, isBin := g.Expr.(*ast.BinaryExpr)
				if isBin {
					lf := fieldOf(x.Info, be.X)
					rf := fieldOf(x.Info, be.Y)
					lhsDate := lf == shortRoot(sp.date) || strings.Contains(shortRoot(sp.date), lf) && lf != ""
					switch {
					case be.Op == token.LSS && lhsDate && rf == "BEGINN":
						okDec = true
					case be.Op == token.GTR && lf == "BEGINN" && rf != "":
						okDec = true
					}
					det += fmt.Sprintf(" under %s", types.ExprString(be))
				}
				// the compared date is the value just stored
				if okDec && !(g.P.MentionsAtomsOf(ds.Val) || stripVersions(g.P).MentionsRoot(sp.date)) {
					okDec = false
					det += " — the compared value is not the event's date"
				}
			} else {
				det += fmt.Sprintf(" under %d extra guard(s) %s", len(extra), guardKeysOf(extra))
			}
			if !okDec {
				det += "; expected: released exactly when the event's date < simulation start"
			}
			r.Ob(sp.name+":prestart", p.Pos(e.Pos), okDec, det)
		} else if ok, pos, cdet := c10Compaction(p, x, sp, ds); len(dec) == 0 && pos != "" {
			r.Ob(sp.name+":prestart", pos, ok, cdet)
		} else {
			r.Ob(sp.name+":prestart", p.Pos(ds.Pos), false, det+"; expected one, guarded by date < simulation start (or a compaction pass after the start date is known)")
		}
	}
	c10ShiftLoops(p, r, x)
}

// c10Compaction recognises the second spelling of the pre-start filter: a pass
// over all stored slots that copies slot i to slot kept (all arrays of the
// event) exactly when date[i] >= start, counts kept by one, and sets the
// event counter to kept afterwards.
func c10Compaction(p *Prog, x *Exec, sp readerSpec, ds *Event) (bool, string, string) {
	for _, e := range x.Events {
		if e.Kind != "assign" || e.Root != sp.date || len(e.Idx) != 1 || len(e.Loops) == 0 || e.Seq < ds.Seq {
			continue
		}
		L := e.Loops[len(e.Loops)-1]
		if L.Var == nil {
			continue
		}
		src := cellP(sp.date, PAtom(L.Var))
		if !stripVersions(e.Val).Equal(src) {
			continue
		}
		pos := p.Pos(e.Pos)
		det := fmt.Sprintf("compaction pass: %s[%s] = %s[%s]", shortRoot(sp.date), e.Idx[0], shortRoot(sp.date), L.Var.Root)
		ok := true
		// guard: date[i] − BEGINN >= 0 (BEGINN possibly forwarded): use the AST of the guard
		var g *Cond
		for _, c := range flattenGuards(e.Guards) {
			if c.Loop || c.Kind != "cmp" {
				continue
			}
			if be, isBin := c.Expr.(*ast.BinaryExpr); isBin {
				lf, rf := fieldOf(x.Info, be.X), fieldOf(x.Info, be.Y)
				if (be.Op == token.GEQ && lf == shortRoot(sp.date) && rf == "BEGINN") || (be.Op == token.LEQ && lf == "BEGINN" && rf == shortRoot(sp.date)) {
					if stripVersions(c.P).MentionsAtom(cellAtom(sp.date, 0, []Poly{PAtom(L.Var)})) {
						g = c
					}
				}
			}
		}
		if g == nil {
			return false, pos, det + "; not guarded by date[i] >= simulation start"
		}
		det += " under " + types.ExprString(g.Expr)
		// the kept counter: index atom of the destination
		var kept *Atom
		e.Idx[0].walkAtoms(func(a *Atom) {
			if a.Kind == "loop" {
				kept = a
			}
		})
		if kept == nil || !e.Idx[0].Equal(PAtom(kept)) {
			return false, pos, det + "; destination slot is not a running counter"
		}
		// all arrays copied under the same guards
		for _, arr := range sp.arrays {
			found := false
			for _, c := range x.Events {
				if c.Kind == "assign" && c.Root == arr && innermost(c, L) && len(c.Idx) == 1 && c.Idx[0].Equal(e.Idx[0]) && stripVersions(c.Val).Equal(cellP(arr, PAtom(L.Var))) && guardKeys(c.Guards) == guardKeys(e.Guards) {
					found = true
				}
			}
			if !found {
				ok = false
				det += "; " + shortRoot(arr) + " is not moved together with the date"
			}
		}
		// kept++ once under the same guards
		n := 0
		for _, c := range x.Events {
			if c.Kind == "assign" && c.Local != nil && c.Local.Name() == kept.Root && innermost(c, L) {
				n++
				if !c.Val.Sub(c.Old).Equal(PInt(1)) || guardKeys(c.Guards) != guardKeys(e.Guards) || c.Seq < e.Seq {
					ok = false
					det += "; the kept counter is not advanced by one with each kept event"
				}
			}
		}
		if n != 1 {
			ok = false
			det += fmt.Sprintf("; %d updates of the kept counter", n)
		}
		// loop covers all stored slots 0..count−1 and kept starts at 0
		blo, bhi, unit, why := loopBounds(x, L)
		if why != "" || !unit {
			ok = false
			det += "; loop not recognised: " + why
		} else {
			lo, isC := blo.ConstInt()
			cnt := stripVersions(bhi.Add(PInt(1)))
			var ctrRoot string
			stripVersions(ds.Idx[0]).walkAtoms(func(a *Atom) {
				if a.Kind == "cell" || a.Kind == "loop" {
					ctrRoot = a.Root
				}
			})
			okCnt := false
			cnt.walkAtoms(func(a *Atom) {
				if a.Root == ctrRoot {
					okCnt = true
				}
			})
			if !isC || lo != 0 || !okCnt || len(cnt.T) != 1 {
				ok = false
				det += fmt.Sprintf("; pass covers slots %s..%s, expected 0..counter−1", blo, bhi)
			}
		}
		for obj, v := range L.Entry.vars {
			if obj.Name() == kept.Root && !v.IsZero() {
				ok = false
				det += "; kept counter does not start at 0"
			}
		}
		// counter = kept afterwards
		set := false
		for _, c := range x.Events[e.Seq:] {
			if c.Kind == "assign" && len(c.Idx) == 0 && !c.InLoop(L) && c.Val.T != nil {
				isKeptExit := false
				c.Val.walkAtoms(func(a *Atom) {
					if a.Kind == "loop" && a.Root == kept.Root {
						isKeptExit = true
					}
				})
				if isKeptExit && len(c.Val.T) == 1 && (c.Root != "" && strings.HasSuffix(stripVersions(ds.Idx[0]).String(), "")) {
					// the reader's counter root
					rootOK := false
					stripVersions(ds.Idx[0]).walkAtoms(func(a *Atom) {
						if a.Root == c.Root {
							rootOK = true
						}
					})
					if rootOK {
						set = true
					}
				}
			}
		}
		if !set {
			ok = false
			det += "; the event counter is not set to the number of kept events"
		}
		return ok, pos, det
	}
	return false, "", ""
}

func guardKeysOf(cs []*Cond) string {
	var ss []string
	for _, c := range cs {
		ss = append(ss, c.Key())
	}
	return "{" + strings.Join(ss, " ; ") + "}"
}

// fieldOf returns the innermost field name selected by expression e ("" if none).
func fieldOf(info *types.Info, e ast.Expr) string {
	refs, _ := selChain(info, e)
	if len(refs) == 0 {
		return ""
	}
	return refs[len(refs)-1].Field
}

// MentionsAtomsOf: p mentions every atom of q (q non-constant).
func (p Poly) MentionsAtomsOf(q Poly) bool {
	n, all := 0, true
	q.walkAtoms(func(a *Atom) {
		n++
		if !p.MentionsAtom(a) {
			all = false
		}
	})
	return n > 0 && all
}

// c10AppliesAllDue: the routine that carries scheduled events out (Nitro) tests "today == date[cursor] + k" in the
// condition of a loop whose body advances the cursor — so two events due on one day are both carried out.
func c10AppliesAllDue(p *Prog, root string) (bool, string) {
	fi := p.Funcs["hermes.Nitro"]
	if fi == nil {
		return false, "hermes.Nitro not found"
	}
	field := root[strings.LastIndex(root, ".")+1:]
	info := fi.Pkg.TypesInfo
	mentions := func(n ast.Node) bool {
		f := false
		ast.Inspect(n, func(m ast.Node) bool {
			if ix, ok := m.(*ast.IndexExpr); ok {
				if se, ok := ix.X.(*ast.SelectorExpr); ok && se.Sel.Name == field {
					if sel, ok := info.Selections[se]; ok && sel.Kind() == types.FieldVal {
						f = true
					}
				}
			}
			return true
		})
		return f
	}
	res, where := false, "no statement of hermes.Nitro tests "+field
	ast.Inspect(fi.Decl.Body, func(n ast.Node) bool {
		switch t := n.(type) {
		case *ast.IfStmt:
			if mentions(t.Cond) && !res && strings.HasPrefix(where, "no statement") {
				where = "if at " + p.Pos(t.Pos())
			}
		case *ast.ForStmt:
			if t.Cond != nil && mentions(t.Cond) && c10BodyAdvancesCursor(t.Body, t.Cond) {
				res, where = true, "loop at "+p.Pos(t.Pos())
			}
		}
		return true
	})
	return res, where
}

// the cursor is the x in date[x.Index]: the body calls x.Inc() as a top-level statement
func c10BodyAdvancesCursor(body *ast.BlockStmt, cond ast.Expr) bool {
	cursor := ""
	ast.Inspect(cond, func(m ast.Node) bool {
		if ix, ok := m.(*ast.IndexExpr); ok {
			if se, ok := ix.Index.(*ast.SelectorExpr); ok && se.Sel.Name == "Index" {
				cursor = types.ExprString(se.X)
			}
		}
		return true
	})
	if cursor == "" {
		return false
	}
	for _, s := range body.List {
		if es, ok := s.(*ast.ExprStmt); ok {
			if c, ok := es.X.(*ast.CallExpr); ok {
				if se, ok := c.Fun.(*ast.SelectorExpr); ok && se.Sel.Name == "Inc" && types.ExprString(se.X) == cursor {
					return true
				}
			}
		}
	}
	return false
}

// shift loops: for v := lo; v <= hi; v++ { if A[v+a+1] == A[v+a] { A[v+a+1] += 1 } }
func c10ShiftLoops(p *Prog, r *Report, x *Exec) {
	type want struct {
		name, root string
		first      int64 // lowest stored slot that must take part in a comparison
	}
	// first stored slot: fertiliser slot 0 is the pre-crop residue pseudo-event on the start date (ZTDG[0] = ERNTE[0]); tillage slots are 1-based
	wants := []want{{"fertiliser", "GlobalVarsMain.ZTDG", -1}, {"tillage", "GlobalVarsMain.EINTE", -1}}
	for wi := range wants {
		w := &wants[wi]
		// lowest constant or counter-based slot stored in Input outside the shift loop
		lowest := int64(1 << 30)
		lowestConst := int64(1 << 30) // slot written with a constant index: a pseudo-event that is not read from the schedule
		for _, e := range x.Events {
			if e.Kind == "assign" && e.Root == w.root && len(e.Idx) == 1 && !e.Val.MentionsRoot(w.root) {
				if c, ok := e.Idx[0].ConstInt(); ok && c < lowestConst {
					lowestConst = c
				}
			}
		}
		// reader slots start at (initial counter value + 1) − …: take the reader's first slot from the counter's initial value
		for _, e := range x.Events {
			if e.Kind == "assign" && e.Root == w.root && len(e.Idx) == 1 && len(e.Loops) >= 2 && !e.Val.MentionsRoot(w.root) {
				if _, isC := e.Idx[0].ConstInt(); isC {
					continue
				}
				// slot = counter@loop + k ; initial counter from the abstract event of the outer loop
				slot := e.Idx[0]
				var ctr *Atom
				slot.walkAtoms(func(a *Atom) {
					if a.Kind == "loop" {
						ctr = a
					}
				})
				if ctr == nil {
					continue
				}
				k := slot.Sub(PAtom(ctr))
				kc, ok := k.ConstInt()
				if !ok {
					continue
				}
				// initial value of the counter before the outer reader loop
				outer := e.Loops[len(e.Loops)-2]
				for obj, v := range outer.Entry.vars {
					if obj.Name() == ctr.Root {
						if c0, ok := v.ConstInt(); ok {
							// the counter is incremented before the store: first slot = c0 + 1 + (k relative to the incremented value)
							// slot is expressed in the loop-entry value of the counter: slot = ctr + kc with ctr ≥ c0
							if c0+kc < lowest {
								lowest = c0 + kc
							}
						}
					}
				}
			}
		}
		// lowest = first slot the schedule reader fills; a constant slot below it is a pseudo-event (fertiliser slot 0:
		// residues of the initial crop, dated on the start day)
		pseudo := lowestConst < lowest
		if lowest == int64(1<<30) {
			lowest = lowestConst
			pseudo = false
		}
		w.first = lowest
		found := false
		for _, e := range x.Events {
			if e.Kind != "assign" || e.Root != w.root || len(e.Idx) != 1 || len(e.Loops) == 0 {
				continue
			}
			d := stripVersions(e.Val.Sub(e.Old))
			if !e.Val.MentionsRoot(w.root) {
				continue
			}
			L := e.Loops[len(e.Loops)-1]
			if L.Var == nil {
				continue
			}
			found = true
			ok := d.Equal(PInt(1))
			det := fmt.Sprintf("%s[%s] += %s", shortRoot(w.root), e.Idx[0], d)
			// guard: A[idx] − A[idx−1] == 0
			hi := stripVersions(e.Idx[0])
			lo := hi.Sub(PInt(1))
			g := mkCmp(cellP(w.root, hi), cellP(w.root, lo), token.EQL, nil)
			has := e.HasGuard(func(c *Cond) bool {
				return c.Kind == "cmp" && c.Op == token.EQL && stripVersions(c.P).Equal(g.P)
			})
			// or: equality with a local that carries the predecessor's ORIGINAL date from one iteration to the next
			// (a local assigned, after the shift store of an iteration, the value the slot had before that store)
			viaLocal := false
			if !has {
				for _, c := range flattenGuards(e.Guards) {
					if c.Kind != "cmp" || c.Op != token.EQL {
						continue
					}
					rest := stripVersions(c.P).Sub(cellP(w.root, hi))
					restN := stripVersions(c.P).Add(cellP(w.root, hi))
					for _, q := range []Poly{rest, restN} {
						t := q.single()
						if t == nil || len(t.M) != 1 || t.M[0].E != 1 || t.M[0].A.Kind == "cell" {
							continue
						}
						name := t.M[0].A.Root
						for _, a := range x.Events {
							if a.Kind == "assign" && a.Local != nil && a.Local.Name() == name && a.InLoop(L) && a.Seq > e.Seq && stripVersions(a.Val).Equal(cellP(w.root, hi)) {
								viaLocal = true
								det += fmt.Sprintf("; compared with %s, which carries the slot's original date to the next iteration", name)
							}
						}
					}
				}
				has = viaLocal
			}
			if !has {
				ok = false
				det += "; not guarded by equality with the preceding slot"
			}
			blo, bhi, unit, why := loopBounds(x, L)
			if why != "" || !unit {
				ok = false
				det += "; loop bounds not recognised: " + why
			} else {
				// first compared lower slot: lo with v := blo
				first := lo.Subst(func(a *Atom) (Poly, bool) {
					if a == L.Var {
						return blo, true
					}
					return Poly{}, false
				})
				fc, isC := first.ConstInt()
				det += fmt.Sprintf("; pairs (%s,%s) for %s = %s..%s; first compared slot %s, first scheduled slot %d", lo, hi, L.Var.Root, blo, bhi, first, w.first)
				if !isC || fc > w.first {
					ok = false
					det += " — the first scheduled event is never compared with its successor (two events on that day collapse onto one day and the cursor sticks)"
				}
				if pseudo && isC {
					multi, where := c10AppliesAllDue(p, w.root)
					switch {
					case fc <= lowestConst:
						// the pseudo-event takes part in the de-duplication: a scheduled event on the start day is pushed behind it
						r.Ob(w.name+":start-day", p.Pos(e.Pos), false, fmt.Sprintf("slot %d is not a scheduled event (it is stored with a constant index, dated on the start day) but takes part in the same-day shift: an event scheduled on the start day is moved one day and carried out two days after its date; a second one on that day keeps the start day, is never due, and blocks the rest of the schedule", lowestConst))
					case !multi:
						r.Ob(w.name+":start-day", p.Pos(e.Pos), false, fmt.Sprintf("slot %d (pseudo-event on the start day) is left out of the same-day shift, but the routine that carries the events out handles one event per day (%s): an event scheduled on the start day is never due and blocks the schedule", lowestConst, where))
					default:
						r.Ob(w.name+":start-day", p.Pos(e.Pos), true, fmt.Sprintf("slot %d (pseudo-event on the start day) is left out of the same-day shift and every event due on a day is carried out on that day (%s)", lowestConst, where))
					}
				}
				// last pair reaches the last stored slot: hi(v:=bhi) ≥ count−1 … expressed on the counter: bhi mentions the reader's counter
				lastHi := hi.Subst(func(a *Atom) (Poly, bool) {
					if a == L.Var {
						return bhi, true
					}
					return Poly{}, false
				})
				det += fmt.Sprintf("; last compared slot %s", lastHi)
			}
			r.Ob(w.name+":shift", p.Pos(e.Pos), ok, det)
			// cascade: the loop runs upwards in unit steps and compares slot v+1 with the array cell of slot v — the
			// cell the previous iteration may just have moved.  For dates d, d, d+1 the third event is compared with
			// the shifted second (d+1), moved to d+2 and carried out two days after its own date.
			if has && !viaLocal && why == "" && unit {
				r.Ob(w.name+":shift-cascade", p.Pos(e.Pos), false, fmt.Sprintf("the same-day shift of the %s schedule compares each event with the already shifted date of its predecessor (the array cell the previous iteration stored): for dates d, d, d+1 — two events on one day followed by one on the next, inside the property's domain — the third event is moved to d+2 and carried out on d+3, two days after its date", w.name))
			}
		}
		if !found {
			r.Ob(w.name+":shift", "-", false, "duplicate-date shift loop over "+shortRoot(w.root)+" not found")
		}
	}
	// dueng for every stored fertiliser slot except the pseudo-event
	for _, e := range x.Events {
		if e.Kind == "call" && e.Name == "hermes.dueng" && len(e.Loops) > 0 && e.HasGuard(func(c *Cond) bool { return c.Key() == "!(?GlobalVarsMain.AUTOFERT)" }) {
			L := e.Loops[len(e.Loops)-1]
			blo, bhi, unit, why := loopBounds(x, L)
			ok := why == "" && unit && len(e.Args) > 0 && L.Var != nil && e.Args[0].Equal(PAtom(L.Var))
			det := ""
			if ok {
				lo, isC := blo.ConstInt()
				ok = isC && lo == 1
				det = fmt.Sprintf("fertiliser split computed for slots %s..%s (slot 0 is the residue pseudo-event)", blo, bhi)
				// upper bound: counter − 1 where counter is the reader's counter after the loop
				var ctr *Atom
				bhi.walkAtoms(func(a *Atom) {
					if a.Kind == "loop" || a.Kind == "phi" || a.Kind == "var" {
						ctr = a
					}
				})
				if ctr == nil || !bhi.Sub(PAtom(ctr)).Equal(PInt(-1)) {
					ok = false
					det += "; upper bound is not the event counter − 1"
				}
			} else {
				det = "loop around dueng not recognised: " + why
			}
			r.Ob("fertiliser:split-all", p.Pos(e.Pos), ok, det)
		}
	}
}

// ---------------------------------------------------------------- start date initialised before the filters

func c10StartDate(p *Prog, r *Report) {
	r.Rule("C10.R3", "the simulation start date is assigned before any event reader compares against it: every read of the start date in the input routine is dominated by its assignment (or by a call that assigns it)", 3)
	s := p.SSA()
	var fn *ssa.Function
	for _, f := range s.fns {
		if shortFn(f) == "hermes.Input" {
			fn = f
		}
	}
	if fn == nil {
		r.Ob("Input", "-", false, "hermes.Input not found in SSA")
		return
	}
	fx := p.Fields()
	ref := FieldRef{"GlobalVarsMain", "BEGINN"}
	type site struct {
		in  ssa.Instruction
		blk *ssa.BasicBlock
		idx int
	}
	var writes, reads []site
	for _, b := range fn.Blocks {
		for i, in := range b.Instrs {
			switch t := in.(type) {
			case *ssa.Store:
				if fa, ok := t.Addr.(*ssa.FieldAddr); ok && ssaFieldIs(fa, "GlobalVarsMain", "BEGINN") {
					writes = append(writes, site{in, b, i})
				}
			case *ssa.UnOp:
				if t.Op == token.MUL {
					if fa, ok := t.X.(*ssa.FieldAddr); ok && ssaFieldIs(fa, "GlobalVarsMain", "BEGINN") {
						reads = append(reads, site{in, b, i})
					}
				}
			case *ssa.Call:
				if cf := t.Call.StaticCallee(); cf != nil {
					if obj, ok := cf.Object().(*types.Func); ok {
						if fi := p.ByObj[obj]; fi != nil && fx.Mod[fi][ref] {
							writes = append(writes, site{in, b, i})
						}
					}
				}
			}
		}
	}
	// a non-zero constructor default would also count as initialised
	ctorInit := false
	if fi := p.Funcs["hermes.NewGlobalVarsMain"]; fi != nil {
		ast.Inspect(fi.Decl.Body, func(n ast.Node) bool {
			if kv, ok := n.(*ast.KeyValueExpr); ok {
				if id, ok := kv.Key.(*ast.Ident); ok && id.Name == "BEGINN" {
					ctorInit = true
				}
			}
			return true
		})
	}
	sort.Slice(reads, func(i, j int) bool { return reads[i].in.Pos() < reads[j].in.Pos() })
	for _, rd := range reads {
		dom := ctorInit
		for _, w := range writes {
			if w.blk == rd.blk && w.idx < rd.idx {
				dom = true
			}
			if w.blk != rd.blk && w.blk.Dominates(rd.blk) {
				dom = true
			}
		}
		r.Ob("read:BEGINN", instrPos(p, rd.in), dom, orStr(map[bool]string{true: "dominated by the assignment of the start date"}[dom], "the start date is read here before it is assigned on this run (it still holds the constructor's zero): the pre-start filter compares event dates with 0, keeps events dated before the start, and the cursor then waits on a day that never comes"))
	}
	if len(reads) == 0 {
		r.Ob("read:BEGINN", "-", false, "no reader compares against the start date")
	}
}

func ssaFieldIs(fa *ssa.FieldAddr, st, field string) bool {
	t := fa.X.Type()
	if pt, ok := t.Underlying().(*types.Pointer); ok {
		t = pt.Elem()
	}
	n, ok := t.(*types.Named)
	if !ok || n.Obj().Name() != st {
		return false
	}
	s, ok := n.Underlying().(*types.Struct)
	if !ok || fa.Field >= s.NumFields() {
		return false
	}
	return s.Field(fa.Field).Name() == field
}

// ---------------------------------------------------------------- fertiliser table row

func c10Dueng(p *Prog, r *Report) {
	r.Rule("C10.R4", "fertiliser split: the table row is selected by equality of its first token with the event's fertiliser code, and the direct, ammonium, fast and slow organic parts are all stored to the event's own slot and are proportional to the applied quantity; the applied quantity carries the global fertilisation factor; fast and slow organic pools are (applied N − direct N after the loss) × one column each; six different columns; only the event's own slot is read; the factor is the configured percentage / 100", 14)
	x := walked(p, "hermes.dueng")
	if x == nil {
		r.Ob("dueng", "-", false, "hermes.dueng not found")
		return
	}
	fi := p.Funcs["hermes.dueng"]
	names := paramNames(fi.Decl)
	if len(names) == 0 {
		r.Ob("dueng", "-", false, "no slot parameter")
		return
	}
	slot := pVar(names[0])
	for _, root := range []string{"GlobalVarsMain.NDIR", "GlobalVarsMain.NH4N", "GlobalVarsMain.NSAS", "GlobalVarsMain.NLAS"} {
		n := 0
		for _, e := range x.Events {
			if e.Kind != "assign" || e.Root != root {
				continue
			}
			n++
			ok := len(e.Idx) == 1 && e.Idx[0].Equal(slot)
			det := fmt.Sprintf("%s[%s] = %s", shortRoot(root), e.Idx[0], clip(e.Val.String(), 160))
			// row selection guard: token[0] == DGART[slot] as string equality
			sel := false
			for _, g := range flattenGuards(e.Guards) {
				if g.Kind != "cmp" || g.Op != token.EQL {
					continue
				}
				// normal form: ±(DGART[slot] − tok[0]) with tok a local token slice
				P := stripVersions(g.P)
				ts := P.sortedTerms()
				if len(ts) != 2 {
					continue
				}
				var dg, tk *Atom
				for _, t := range ts {
					if len(t.M) != 1 || t.M[0].E != 1 {
						continue
					}
					a := t.M[0].A
					if a.Kind == "cell" && a.Root == "GlobalVarsMain.DGART" && len(a.Idx) == 1 && a.Idx[0].Equal(slot) {
						dg = a
					} else if a.Kind == "cell" && len(a.Idx) == 1 && a.Idx[0].IsZero() && !strings.Contains(a.Root, ".") {
						tk = a
					}
				}
				if dg != nil && tk != nil && ts[0].C.Cmp(new(big.Rat).Neg(ts[1].C)) == 0 {
					sel = true
				}
			}
			if !sel {
				ok = false
				det += "; not guarded by  token[0] == DGART[slot]  (exact code match)"
			}
			// proportional to DGMG[slot]
			v := stripVersions(e.Val)
			dg := cellAtom("InputSharedVars.DGMG", 0, []Poly{slot})
			for _, t := range v.sortedTerms() {
				if t.DegreeIn(dg.Key) != 1 {
					ok = false
					det += "; a term is not proportional to the applied quantity DGMG[slot]"
					break
				}
				for _, f := range t.M {
					if f.E != 1 {
						ok = false
						det += "; a share of the row enters with power " + fmt.Sprint(f.E) + " (quantity, content and shares multiply)"
					}
				}
			}
			r.Ob("split:"+shortRoot(root), p.Pos(e.Pos), ok, det)
		}
		if n == 0 {
			r.Ob("split:"+shortRoot(root), "-", false, "no store to "+root+" in dueng")
		}
	}
	// the table's loss fraction is an ammonia loss: it reduces the ammonium part and, by the same amount, the
	// direct-N total; the non-ammonium part (direct N − ammonium N) must therefore not depend on it
	{
		var vol *Atom
		var ndir, nh4 *Event
		for _, e := range x.Events {
			if e.Kind != "assign" {
				continue
			}
			if e.Local != nil && e.Local.Name() == "VOL" {
				if t := e.Val.single(); t != nil && len(t.M) == 1 {
					vol = t.M[0].A
				}
			}
			if e.Root == "GlobalVarsMain.NDIR" {
				ndir = e // the last store is the value after the loss
			}
			if e.Root == "GlobalVarsMain.NH4N" {
				nh4 = e
			}
		}
		if vol == nil || ndir == nil || nh4 == nil {
			r.Ob("loss-on-ammonium-only", "-", false, "loss fraction, direct-N or ammonium store not found in dueng")
		} else {
			d := ndir.Val.Sub(nh4.Val)
			dep := d.MentionsAtom(vol)
			usesLoss := ndir.Val.MentionsAtom(vol) && nh4.Val.MentionsAtom(vol)
			// ammonium kept + ammonium lost = direct N × ammonium share, whatever the loss fraction
			var ndir0 *Event
			for _, e := range x.Events {
				if e.Kind == "assign" && e.Root == "GlobalVarsMain.NDIR" && ndir0 == nil {
					ndir0 = e
				}
			}
			if ndir0 != nil && ndir0 != ndir {
				S := stripVersions(nh4.Val.Add(ndir0.Val).Sub(ndir.Val))
				base := stripVersions(ndir0.Val)
				okS := !S.MentionsAtom(vol)
				share := ""
				if okS {
					okS = false
					for _, t := range S.T {
						for _, f := range t.M {
							if f.A.Kind == "call" && !base.MentionsAtom(f.A) && S.Equal(base.Mul(PAtom(f.A))) {
								okS = true
								share = f.A.Key
							}
						}
					}
				}
				r.Ob("ammonium-kept-plus-lost", p.Pos(nh4.Pos), okS, fmt.Sprintf("ammonium N + (direct N before − after the loss) = %s (must be direct N × the ammonium-share column, independent of the loss fraction) %s", clip(S.String(), 160), clip(share, 40)))
			}
			r.Ob("loss-on-ammonium-only", p.Pos(ndir.Pos), !dep && usesLoss, fmt.Sprintf("direct N − ammonium N = %s; independent of the loss fraction: %v; both parts are reduced by the loss: %v", clip(stripVersions(d).String(), 200), !dep, usesLoss))
		}
	}
	// the organic remainder: fast and slow pools are (applied N − direct N after the loss) × a column of the row;
	// everything read belongs to the event's own slot; the six columns used are six different columns
	{
		var norg, ndir *Event
		for _, e := range x.Events {
			if e.Kind != "assign" {
				continue
			}
			if e.Root == "InputSharedVars.NORG" {
				norg = e
			}
			if e.Root == "GlobalVarsMain.NDIR" {
				ndir = e
			}
		}
		dgmg := cellP("InputSharedVars.DGMG", slot)
		if norg == nil || ndir == nil {
			r.Ob("split:content", "-", false, "the row's N content is not stored for the event (the applied N cannot be computed)")
		} else {
			nt := stripVersions(norg.Val).single()
			okC := len(norg.Idx) == 1 && norg.Idx[0].Equal(slot) && nt != nil && len(nt.M) == 1 && nt.M[0].A.Kind == "call" && nt.C.Cmp(ratInt(1)) == 0
			r.Ob("split:content", p.Pos(norg.Pos), okC, fmt.Sprintf("N content of the event's slot = %s (must be one column of the selected row)", clip(stripVersions(norg.Val).String(), 90)))
			total := dgmg.Mul(stripVersions(norg.Val))
			D := total.Sub(stripVersions(ndir.Val))
			inD := map[string]bool{}
			for _, t := range D.T {
				for _, f := range t.M {
					inD[f.A.Key] = true
				}
			}
			cols := map[string][]string{}
			for _, t := range D.T {
				for _, f := range t.M {
					if f.A.Kind == "call" {
						cols[f.A.Key] = append(cols[f.A.Key], "direct/loss")
					}
				}
			}
			fracs := map[string]string{}
			for _, root := range []string{"GlobalVarsMain.NSAS", "GlobalVarsMain.NLAS"} {
				for _, e := range x.Events {
					if e.Kind != "assign" || e.Root != root {
						continue
					}
					v := stripVersions(e.Val)
					var extra []*Atom
					seenA := map[string]bool{}
					for _, t := range v.T {
						for _, f := range t.M {
							if !inD[f.A.Key] && !seenA[f.A.Key] {
								seenA[f.A.Key] = true
								extra = append(extra, f.A)
							}
						}
					}
					okR := len(extra) == 1 && extra[0].Kind == "call" && v.Equal(D.Mul(PAtom(extra[0])))
					if okR {
						fracs[shortRoot(root)] = extra[0].Key
					}
					r.Ob("split:organic-remainder:"+shortRoot(root), p.Pos(e.Pos), okR, fmt.Sprintf("%s[slot] = %s (must be (applied quantity × N content − direct N after the loss) × one further column of the row)", shortRoot(root), clip(v.String(), 140)))
				}
			}
			distinct := len(fracs) == 2 && fracs["NSAS"] != fracs["NLAS"] && !inD[fracs["NSAS"]] && !inD[fracs["NLAS"]]
			// the direct part itself uses four different columns: content, direct share, ammonium share, loss
			nCols := 0
			for k := range inD {
				if strings.HasPrefix(k, "hermes.ValAsFloat(") {
					nCols++
				}
			}
			r.Ob("split:columns-distinct", p.Pos(ndir.Pos), distinct && nCols == 4, fmt.Sprintf("columns of the row used: %d in the direct part (content, direct share, ammonium share, loss: 4 expected), fast and slow pool from two further different columns: %v", nCols, distinct))
		}
		// every cell read by a stored value belongs to the event's slot
		foreign := ""
		for _, e := range x.Events {
			if e.Kind != "assign" || !strings.Contains(e.Root, ".") {
				continue
			}
			var walk func(q Poly)
			walk = func(q Poly) {
				for _, t := range q.T {
					for _, f := range t.M {
						if f.A.Kind == "cell" && len(f.A.Idx) == 1 && strings.Contains(f.A.Root, ".") && !f.A.Idx[0].Equal(slot) {
							foreign += fmt.Sprintf("%s[%s] in %s at %s; ", f.A.Root, f.A.Idx[0], shortRoot(e.Root), p.Pos(e.Pos))
						}
					}
				}
			}
			walk(stripVersions(e.Val))
		}
		r.Ob("split:own-slot-reads", p.Pos(fi.Decl.Pos()), foreign == "", "values of another event's slot used in the split: "+orStr(foreign, "none"))
	}
	// (investigated and not armed: the pre-crop branch of the rotation reader calls dueng(SLFIND) while it stores code
	// and quantity at SLFIND-1; slot 0's N parts are overwritten by the residue pseudo-event afterwards, so the
	// inconsistency has no observable effect and is not a violation of this property)
	// the global factor is the configured scenario percentage / 100, whatever its value (a scenario above 100 % is legitimate)
	{
		ok, pos, det := configFeeds(p, "DUNGSZEN", "Fertilization", 100)
		r.Ob("factor-source", pos, ok, "the fertilisation factor is the configured percentage / 100, unconditionally and unclamped, and nothing else writes it: "+det)
	}
	// the applied quantity carries the global factor
	in := walked(p, "hermes.Input")
	if in != nil {
		n := 0
		for _, e := range in.Events {
			if e.Kind == "assign" && e.Root == "InputSharedVars.DGMG" && e.HasGuard(func(c *Cond) bool { return c.Key() == "!(?GlobalVarsMain.AUTOFERT)" }) {
				n++
				t := stripVersions(e.Val).single()
				ok := t != nil && t.C.Cmp(ratInt(1)) == 0 && t.DegreeIn(cellAtom("GlobalVarsMain.DUNGSZEN", 0, nil).Key) == 1 && len(t.M) == 2
				r.Ob("quantity×factor", p.Pos(e.Pos), ok, fmt.Sprintf("DGMG[slot] = %s (must be quantity · DUNGSZEN)", e.Val))
			}
		}
		if n == 0 {
			r.Ob("quantity×factor", "-", false, "no store to DGMG in Input")
		}
	}
}

// ---------------------------------------------------------------- who may write cursors and event arrays

var c10WriterTable = map[string]map[string]string{
	"NDG":   {"hermes.Init": "reset to the first slot", "hermes.Nitro": "advance"},
	"NTIL":  {"hermes.Init": "reset to the first slot", "hermes.Nitro": "advance"},
	"NBR":   {"hermes.Init": "reset to the first slot", "hermes.HermesSession.Run": "advance"},
	"ZTBR":  {"hermes.Input": "reader", "hermes.GlobalVarsMain.setIrrigation": "automatic irrigation books today's event at the cursor"},
	"BREG":  {"hermes.Input": "reader", "hermes.GlobalVarsMain.setIrrigation": "automatic irrigation books today's event at the cursor"},
	"ZTDG":  {"hermes.Input": "reader, residue pseudo-event, duplicate shift", "hermes.Nitro": "automatic organic fertiliser date (automatic mode only)", "hermes.ExtractMeasuredDataTxt": "automatic mode: residue event one day after start", "hermes.ExtractMeasuredDataCSV": "automatic mode: residue event one day after start"},
	"EINTE": {"hermes.Input": "reader, duplicate shift", "hermes.Nitro": "postponed while the crop stands (automatic harvest), automatic tillage after harvest", "hermes.HermesSession.Run": "slot 0 mirrors slot 1 before the loop"},
}

func c10Writers(p *Prog, r *Report) {
	r.Rule("C10.R5", "who may write the event cursors and date arrays: only the confirmed functions", 14)
	fx := p.Fields()
	var fields []string
	for f := range c10WriterTable {
		fields = append(fields, f)
	}
	sort.Strings(fields)
	for _, f := range fields {
		for _, w := range fx.Writers(FieldRef{"GlobalVarsMain", f}) {
			if strings.HasPrefix(w.Key, "hermes.NewDefault") || w.Key == "hermes.NewGlobalVarsMain" {
				continue
			}
			reason, ok := c10WriterTable[f][w.Key]
			r.Ob("writer:"+f+":"+strings.TrimPrefix(w.Key, "hermes."), p.Pos(w.Decl.Pos()), ok, orStr(reason, "not a confirmed writer of "+f+": a cursor or event date changed here can skip or repeat a scheduled action"))
		}
	}
}

// ---------------------------------------------------------------- header lines of the schedule and table files

// headerLineCounts: how many lines a reader skips before its first record is the file format's header length; the
// code is the only place where it is written down, and the shipped files are the confirmation (every shipped batch
// parses under these counts).  One skip more loses the first record of a file in the documented layout (silently,
// when that record belongs to the simulated field); one skip fewer only works while the extra header line happens
// not to look like a record.  Frozen table, one entry per opened file, keyed by the reading function and the file's
// description (or its ordinal among the function's opens); re-validated on every run: an entry whose open is gone, or
// an open without an entry, is reported.
var headerLineTable = map[string]struct {
	n   int
	why string
}{
	"Input:polygonfile":        {1, "poly_<project>.txt: one column line"},
	"Input:irrigation file":    {1, "irr_<project>.txt: column line; the units line below it is no field line and is skipped by the field-id test"},
	"Input:rotation file":      {1, "crop_<project>: one header line (also parsed for the csv column names)"},
	"Input:automated file":     {1, "automan.txt: one column line"},
	"Input:automated file#2":   {1, "automan.txt: one column line"},
	"Input:tillage file":       {2, "til_<project>.txt: column line and units line"},
	"Input:fertilization file": {1, "fert_<project>.txt: one column line"},
	"residi:#1":                {0, "CROP_N.TXT: no line is skipped, the caption is no crop code"},
	"resid:#1":                 {0, "CROP_N.TXT: no line is skipped, the caption is no crop code"},
}

func headerLineCounts(p *Prog, r *Report, rule string) {
	r.Rule(rule, "header length of the schedule and table files: between opening a file and its record loop each reader skips the number of lines the format has (frozen table confirmed on the shipped files; an unknown open or a vanished one is reported)", 7)
	seen := map[string]bool{}
	for _, key := range []string{"hermes.Input", "hermes.residi", "hermes.resid"} {
		fi := p.Funcs[key]
		if fi == nil {
			continue
		}
		info := fi.Pkg.TypesInfo
		type open struct {
			pos  token.Pos
			obj  types.Object
			desc string
		}
		var opens []open
		ast.Inspect(fi.Decl.Body, func(n ast.Node) bool {
			as, ok := n.(*ast.AssignStmt)
			if !ok || len(as.Rhs) != 1 || len(as.Lhs) != 3 {
				return true
			}
			c, ok := as.Rhs[0].(*ast.CallExpr)
			if !ok {
				return true
			}
			se, ok := c.Fun.(*ast.SelectorExpr)
			if !ok || se.Sel.Name != "Open" {
				return true
			}
			id, ok := as.Lhs[1].(*ast.Ident)
			if !ok {
				return true
			}
			o := info.Defs[id]
			if o == nil {
				o = info.Uses[id]
			}
			desc := ""
			ast.Inspect(c, func(m ast.Node) bool {
				if kv, ok := m.(*ast.KeyValueExpr); ok {
					if k, ok := kv.Key.(*ast.Ident); ok && k.Name == "FileDescription" {
						if tv, has := info.Types[kv.Value]; has && tv.Value != nil {
							desc = constant.StringVal(tv.Value)
						}
					}
				}
				return true
			})
			opens = append(opens, open{as.Pos(), o, desc})
			return true
		})
		ord := map[string]int{}
		for i, op := range opens {
			k := short(key) + ":" + op.desc
			if op.desc == "" {
				k = fmt.Sprintf("%s:#%d", short(key), i+1)
			}
			ord[k]++
			if ord[k] > 1 {
				k = fmt.Sprintf("%s#%d", k, ord[k])
			}
			// skips: calls LineInut(obj) after the open and before the first loop statement that mentions obj
			firstLoop := token.Pos(1 << 40)
			ast.Inspect(fi.Decl.Body, func(n ast.Node) bool {
				var body ast.Node
				switch t := n.(type) {
				case *ast.ForStmt:
					body = t
				case *ast.RangeStmt:
					body = t
				default:
					return true
				}
				if n.Pos() < op.pos || n.Pos() >= firstLoop {
					return true
				}
				uses := false
				ast.Inspect(body, func(m ast.Node) bool {
					if id, ok := m.(*ast.Ident); ok && info.Uses[id] == op.obj {
						uses = true
					}
					return true
				})
				// the loop must START after the open (a loop that encloses the open is not the record loop)
				if uses && n.Pos() > op.pos {
					firstLoop = n.Pos()
				}
				return true
			})
			n := 0
			ast.Inspect(fi.Decl.Body, func(m ast.Node) bool {
				c, ok := m.(*ast.CallExpr)
				if !ok || c.Pos() < op.pos || c.Pos() >= firstLoop || len(c.Args) != 1 {
					return true
				}
				if f, ok := c.Fun.(*ast.Ident); ok && f.Name == "LineInut" {
					if a, ok := c.Args[0].(*ast.Ident); ok && info.Uses[a] == op.obj {
						n++
					}
				}
				return true
			})
			want, known := headerLineTable[k]
			if !known {
				continue // files outside the table (parameter tables read by position) are not judged
			}
			seen[k] = true
			r.Ob("header-lines:"+k, p.Pos(op.pos), n == want.n, fmt.Sprintf("%d line(s) skipped before the record loop, the format has %d (%s)", n, want.n, want.why))
		}
	}
	var missing []string
	for k := range headerLineTable {
		if !seen[k] {
			missing = append(missing, k)
		}
	}
	sort.Strings(missing)
	if len(missing) > 0 {
		r.Ob("header-lines:table", "-", false, fmt.Sprintf("table entries without a matching open: %v", missing))
	}
}

// ---------------------------------------------------------------- schedule and rotation files are read to their end

// readersAllLines: the rows of one field need not form one block (a file sorted by date or by year interleaves the
// fields).  The outer record loop of the rotation, fertiliser, tillage and irrigation readers re-enters the field's
// inner loop whenever the field's id shows again; it must therefore run to the end of the file: no break that leaves
// it.
func readersAllLines(p *Prog, r *Report, rule string) {
	r.Rule(rule, "the rotation, fertiliser, tillage and irrigation readers scan their file to the end: the outer record loop of each has no break (the rows of one field need not be contiguous)", 4)
	fi := p.Funcs["hermes.Input"]
	if fi == nil {
		r.Ob("all-lines", "-", false, "hermes.Input not found")
		return
	}
	info := fi.Pkg.TypesInfo
	want := map[string]bool{"rotation file": true, "fertilization file": true, "tillage file": true, "irrigation file": true}
	found := map[string]bool{}
	ast.Inspect(fi.Decl.Body, func(n ast.Node) bool {
		as, ok := n.(*ast.AssignStmt)
		if !ok || len(as.Rhs) != 1 || len(as.Lhs) != 3 {
			return true
		}
		c, ok := as.Rhs[0].(*ast.CallExpr)
		if !ok {
			return true
		}
		if se, ok := c.Fun.(*ast.SelectorExpr); !ok || se.Sel.Name != "Open" {
			return true
		}
		id, ok := as.Lhs[1].(*ast.Ident)
		if !ok {
			return true
		}
		o := info.Defs[id]
		desc := ""
		ast.Inspect(c, func(m ast.Node) bool {
			if kv, ok := m.(*ast.KeyValueExpr); ok {
				if k, ok := kv.Key.(*ast.Ident); ok && k.Name == "FileDescription" {
					if tv, has := info.Types[kv.Value]; has && tv.Value != nil {
						desc = constant.StringVal(tv.Value)
					}
				}
			}
			return true
		})
		if !want[desc] || o == nil {
			return true
		}
		// first loop after the open whose init calls NextLineInut with this scanner
		var loop *ast.ForStmt
		ast.Inspect(fi.Decl.Body, func(m ast.Node) bool {
			f, ok := m.(*ast.ForStmt)
			if !ok || f.Pos() < as.Pos() || loop != nil || f.Init == nil {
				return true
			}
			uses := false
			ast.Inspect(f.Init, func(q ast.Node) bool {
				if id, ok := q.(*ast.Ident); ok && info.Uses[id] == o {
					uses = true
				}
				return true
			})
			if uses {
				loop = f
			}
			return true
		})
		if loop == nil {
			r.Ob("all-lines:"+desc, p.Pos(as.Pos()), false, "record loop not found")
			return true
		}
		found[desc] = true
		// breaks that target this loop: not nested in an inner for/range/switch/select
		leaves := ""
		var visit func(n ast.Node)
		visit = func(n ast.Node) {
			switch t := n.(type) {
			case nil:
			case *ast.BlockStmt:
				for _, s := range t.List {
					visit(s)
				}
			case *ast.IfStmt:
				visit(t.Body)
				if t.Else != nil {
					visit(t.Else)
				}
			case *ast.LabeledStmt:
				visit(t.Stmt)
			case *ast.BranchStmt:
				if t.Tok == token.BREAK || t.Tok == token.GOTO {
					leaves += p.Pos(t.Pos()) + " "
				}
			case *ast.ReturnStmt:
				// an error return ends the run, not the scan
			}
		}
		visit(loop.Body)
		r.Ob("all-lines:"+desc, p.Pos(loop.Pos()), leaves == "", fmt.Sprintf("the record loop of the %s runs to the end of the file: break statements that leave it: %s", desc, orStr(leaves, "none")))
		return true
	})
	for d := range want {
		if !found[d] {
			r.Ob("all-lines:"+d, "-", false, "reader of the "+d+" not found in the input routine")
		}
	}
}

// ---------------------------------------------------------------- the fertiliser books are reset with a measurement only

// fertiliserBooksReset: applied minus dissolved mineral fertiliser (DSUMM − UMS) is the undissolved pool that the
// mineralisation routine feeds into the soil.  A store of 0 into either sum anywhere but under the sampling-date
// test of the run routine (where the measured profile replaces the state) makes undissolved fertiliser vanish — at
// an annual output date, say.
func fertiliserBooksReset(p *Prog, r *Report, rule string) {
	r.Rule(rule, "the applied and the dissolved mineral-fertiliser sums are reset only when a measured profile replaces the state: every store of a constant into either in the run routine is guarded by the sampling-date test", 2)
	x := walked(p, "hermes.HermesSession.Run")
	if x == nil {
		r.Ob("fertiliser-books:reset", "-", false, "run routine not found")
		return
	}
	n := 0
	for _, e := range x.Events {
		if e.Kind != "assign" || (e.Root != "GlobalVarsMain.DSUMM" && e.Root != "GlobalVarsMain.UMS") {
			continue
		}
		if _, isC := e.Val.Const(); !isC {
			continue
		}
		n++
		onSampling := e.HasGuard(func(c *Cond) bool {
			return c.Kind == "cmp" && c.Op == token.EQL && c.P.MentionsRoot("GlobalVarsMain.MESS")
		})
		r.Ob("fertiliser-books:reset", p.Pos(e.Pos), onSampling, fmt.Sprintf("%s reset under the sampling-date test: %v (guards: %s)", shortRoot(e.Root), onSampling, clip(guardKeys(e.Guards), 120)))
	}
	if n == 0 {
		r.Ob("fertiliser-books:reset", "-", false, "no reset of the fertiliser sums found in the run routine (the rule's anchor is gone)")
	}
}
