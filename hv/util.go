package main

import (
	"fmt"
	"go/ast"
	"go/token"
	"go/types"
	"math/big"
	"sort"
	"strings"
)

func varAtom(name string) *Atom {
	return internAtom(&Atom{Key: name, Kind: "var", Root: name})
}

func pVar(name string) Poly { return PAtom(varAtom(name)) }

func cellP(root string, idx ...Poly) Poly { return PAtom(cellAtom(root, 0, idx)) }

// runClosure returns the big function literal of HermesSession.Run.
func runClosure(p *Prog) (*FuncInfo, *ast.FuncLit) {
	fi := p.Funcs["hermes.HermesSession.Run"]
	if fi == nil {
		return nil, nil
	}
	var best *ast.FuncLit
	for _, fl := range findFuncLits(fi.Decl.Body) {
		if best == nil || fl.End()-fl.Pos() > best.End()-best.Pos() {
			best = fl
		}
	}
	return fi, best
}

var walkCache = map[string]*Exec{}

// walked returns the join-mode walk of a function (cached per process).
func walked(p *Prog, key string) *Exec {
	if x, ok := walkCache[key]; ok {
		return x
	}
	var x *Exec
	if key == "hermes.HermesSession.Run" {
		fi, lit := runClosure(p)
		if fi == nil || lit == nil {
			return nil
		}
		x = NewExec(p, fi)
		x.RunBody(lit.Body)
	} else {
		fi := p.Funcs[key]
		if fi == nil {
			return nil
		}
		x = NewExec(p, fi)
		x.RunBody(fi.Decl.Body)
	}
	walkCache[key] = x
	return x
}

// forkBody evaluates one iteration of a loop body path by path from a blank
// state (locals are atoms named after the variable; cells are version 0).
func forkBody(p *Prog, fi *FuncInfo, loop ast.Stmt) (*Exec, []*State) {
	x := NewExec(p, fi)
	x.Fork = true
	x.uniq = 500000
	st := newState()
	var body *ast.BlockStmt
	var post ast.Stmt
	switch l := loop.(type) {
	case *ast.ForStmt:
		body, post = l.Body, l.Post
		if l.Cond != nil {
			c := x.cond(st, l.Cond)
			c.Loop = true
			st.guards = append(st.guards, c)
		}
	case *ast.RangeStmt:
		body = l.Body
	default:
		return x, nil
	}
	ends := x.block([]*State{st}, body.List)
	for _, e := range ends {
		if (e.term == 0 || e.term == 3) && post != nil {
			e.term = 0
			x.stmt(e, post)
		}
	}
	return x, ends
}

// forkStmt evaluates statement s path by path starting from state st.
func forkStmt(p *Prog, fi *FuncInfo, st *State, s ast.Stmt) (*Exec, []*State) {
	x := NewExec(p, fi)
	x.Fork = true
	x.uniq = 700000
	return x, x.stmt(st.clone(), s)
}

// finalCell returns the forwarded value of a cell in state st, or the
// version-0 atom when it was never stored.
func finalCell(st *State, root string, idx ...Poly) Poly {
	if m, ok := st.cells[root]; ok {
		if cv, ok := m[idxKey(idx)]; ok {
			return cv.val
		}
	}
	return PAtom(cellAtom(root, st.ver[root], idx))
}

func storedCells(st *State, root string) []cellVal {
	var out []cellVal
	for _, cv := range st.cells[root] {
		out = append(out, cv)
	}
	sort.Slice(out, func(i, j int) bool { return idxKey(out[i].idx) < idxKey(out[j].idx) })
	return out
}

func guardKeys(gs []*Cond) string {
	var ss []string
	for _, g := range flattenGuards(gs) {
		ss = append(ss, g.Key())
	}
	return strings.Join(ss, " ∧ ")
}

// isGuardEq reports whether c is the comparison "p == 0" (either spelling).
func isCmp(c *Cond, p Poly, ops ...token.Token) bool {
	if c.Kind != "cmp" {
		return false
	}
	probe := mkCmp(p, PZero(), token.EQL, nil)
	if !c.P.Equal(probe.P) {
		return false
	}
	flipped := !p.Equal(probe.P)
	for _, op := range ops {
		if flipped {
			op = flipOp(op)
		}
		if c.Op == op {
			return true
		}
	}
	return false
}

// guardedBy reports whether the event's path condition contains p op 0.
func guardedBy(e *Event, p Poly, ops ...token.Token) bool {
	return e.HasGuard(func(c *Cond) bool { return isCmp(c, p, ops...) })
}

func loopsOf(x *Exec) []*LoopCtx {
	seen := map[*LoopCtx]bool{}
	var out []*LoopCtx
	for _, e := range x.Events {
		for _, l := range e.Loops {
			if !seen[l] {
				seen[l] = true
				out = append(out, l)
			}
		}
	}
	sort.Slice(out, func(i, j int) bool { return out[i].ID < out[j].ID })
	return out
}

func eventsInLoop(x *Exec, l *LoopCtx) []*Event {
	var out []*Event
	for _, e := range x.Events {
		if e.InLoop(l) {
			out = append(out, e)
		}
	}
	return out
}

// innermost reports whether l is the innermost loop of e.
func innermost(e *Event, l *LoopCtx) bool {
	return len(e.Loops) > 0 && e.Loops[len(e.Loops)-1] == l
}

// paramNames returns the parameter names of a function declaration in order.
func paramNames(fd *ast.FuncDecl) []string {
	var out []string
	for _, f := range fd.Type.Params.List {
		if len(f.Names) == 0 {
			out = append(out, "_")
		}
		for _, n := range f.Names {
			out = append(out, n.Name)
		}
	}
	return out
}

// termHasRoot reports whether a term has a top-level factor that (deeply)
// mentions a cell of one of roots; returns the root.
func termRateRoot(t *Term, roots map[string]bool) (string, *Atom) {
	for _, f := range t.M {
		var hit string
		walkAtom(f.A, func(a *Atom) {
			if a.Kind == "cell" && roots[a.Root] && hit == "" {
				hit = a.Root
			}
		})
		if hit != "" {
			return hit, f.A
		}
	}
	return "", nil
}

func shortRoot(r string) string {
	if i := strings.Index(r, "."); i >= 0 && singletonTypes[r[:i]] {
		return r[i+1:]
	}
	return r
}

func evDesc(e *Event) string {
	return shortRoot(e.Root)
}

// blockPath returns the chain of nodes from root to target.
func nodePath(root ast.Node, target ast.Node) []ast.Node {
	var path, best []ast.Node
	ast.Inspect(root, func(n ast.Node) bool {
		if n == nil {
			path = path[:len(path)-1]
			return true
		}
		path = append(path, n)
		if n == target {
			best = append([]ast.Node{}, path...)
		}
		return best == nil
	})
	return best
}

// assignsObj reports whether n assigns local object obj.
func assignsObj(info *types.Info, n ast.Node, obj types.Object) bool {
	found := false
	ast.Inspect(n, func(m ast.Node) bool {
		switch s := m.(type) {
		case *ast.AssignStmt:
			for _, l := range s.Lhs {
				if id, ok := l.(*ast.Ident); ok && (info.Uses[id] == obj || info.Defs[id] == obj) {
					found = true
				}
			}
		case *ast.IncDecStmt:
			if id, ok := s.X.(*ast.Ident); ok && info.Uses[id] == obj {
				found = true
			}
		}
		return !found
	})
	return found
}

func fmtPos(p *Prog, pos token.Pos) string { return p.Pos(pos) }

func sprintf(f string, a ...interface{}) string { return fmt.Sprintf(f, a...) }

// isIntegral: the polynomial certainly denotes an integer (integer
// coefficients over integer-valued atoms with non-negative exponents).
func isIntegral(q Poly) bool {
	for _, t := range q.T {
		if !t.C.IsInt() {
			return false
		}
		for _, f := range t.M {
			if f.E < 0 || !atomIntegral(f.A) {
				return false
			}
		}
	}
	return true
}

func atomIntegral(a *Atom) bool {
	if a.IntTyped {
		return true
	}
	switch a.Kind {
	case "call":
		switch a.Fn {
		case "ceil", "floor", "round", "trunc", "int", "idiv", "mod", "len":
			return true
		case "min", "max":
			for _, q := range a.Args {
				if !isIntegral(q) {
					return false
				}
			}
			return true
		}
	case "cell":
		return strings.HasSuffix(a.Root, ".Index") || a.Root == "GlobalVarsMain.N"
	case "phi":
		// a join is integral when every value it abstracts is
		arms, ok := allPhis[a.Key]
		if !ok || len(arms) == 0 {
			return false
		}
		for _, arm := range arms {
			if !arm.Has || !isIntegral(stripInt(arm.Val)) {
				return false
			}
		}
		return true
	}
	return false
}

// stripInt removes int(·) around integral arguments (the conversion is exact).
func stripInt(q Poly) Poly {
	return q.Subst(func(a *Atom) (Poly, bool) {
		if a.Kind == "call" && a.Fn == "int" && len(a.Args) == 1 {
			in := stripInt(a.Args[0])
			if isIntegral(in) {
				return in, true
			}
		}
		return Poly{}, false
	})
}

func ratInt(n int64) *big.Rat { return new(big.Rat).SetInt64(n) }

func ratFrac(a, b int64) *big.Rat { return big.NewRat(a, b) }
