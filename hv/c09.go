package main

// C09 — crop state stays valid and development never runs backwards.
// Structural conditions: who writes the development-stage index and under
// which guards (the only decrease for annual crops is at sowing/harvest), the
// floors and caps on organ masses, LAI, N demand, layer uptake, tissue N and
// the stress factor, and the chain that bounds rooting depth by the profile.

import (
	"fmt"
	"go/ast"
	"go/constant"
	"go/token"
	"go/types"
	"strings"
)

func init() { register("C09", checkC09) }

func checkC09(p *Prog, r *Report) {
	c09Stage(p, r)
	c09Clamps(p, r)
	c09Reduk(p, r)
	c09Root(p, r)
	c09DayLength(p, r)
	c09AnnualStart(p, r)
	// "finite": the partial operations of the crop routines stay inside their domains (shared machinery with C06.R6)
	domainRule(p, r, "C09.R7", "the crop development, root and vernalisation routines", []string{"hermes.PhytoOut", "hermes.root", "hermes.vern", "hermes.radia"}, 50)
	// the assimilation routine turns sunshine hours into radiation when the file has no radiation column: a
	// missing-value sentinel left in that series gives negative gross photosynthesis and a negative assimilate pool
	// (shared with C04.R8 / C08.R8)
	sentinelFallback(p, r, "C09.R8")
	// the perennial and legume flags, stage sums and partitioning tables of a YAML parameter set reach the fields they are named after (shared with C13.yaml-keys)
	yamlKeysRule(p, r, "C09.R9", []string{"CropParam", "CropDevelopmentStage"})
	// effective and photoperiodic day length feed assimilation and development
	solarClamps(p, r, "C09.R10")
	c09HeaderCO2(p, r)
	c09StressMeans(p, r)
	r.Note("not decided: finiteness and non-negativity of masses over whole growing seasons (multi-day state), phenology in calendar terms, anything about shipped parameter values")
}

// ---------------------------------------------------------------- stage index

func c09Stage(p *Prog, r *Report) {
	r.Rule("C09.R1", "development never runs backwards for an annual crop: the stage index is increased only by one and only when the current stage's temperature sum is reached and a next stage exists; every other store to it is a reset at sowing (day == sowing date), at harvest, or in the regrowth arm that requires a perennial crop; the day-of-year of a stage is recorded only next to the increase, for the stage just entered", 6)
	run := walked(p, "hermes.HermesSession.Run")
	x := walked(p, "hermes.PhytoOut")
	if x == nil || run == nil {
		r.Ob("PhytoOut", "-", false, "not found")
		return
	}
	tp := timeParam(p, run, dayLoop(run), "hermes.PhytoOut")
	stage := cellP("GlobalVarsMain.INTWICK.Index")
	var inc *Event
	for _, e := range x.Events {
		if e.Kind != "assign" || e.Root != "GlobalVarsMain.INTWICK.Index" {
			continue
		}
		d := e.Val.Sub(e.Old)
		if d.Equal(PInt(1)) {
			inc = e
			// guards: SUM[stage] − TSUM[stage] >= 0 and stage+1 < NRENTW
			g1 := e.HasGuard(func(c *Cond) bool {
				return c.Kind == "cmp" && (c.Op == token.GEQ || c.Op == token.GTR) && stripVersions(c.P).Equal(mkCmp(cellP("GlobalVarsMain.SUM", stage), cellP("GlobalVarsMain.TSUM", stage), token.GEQ, nil).P)
			})
			g2 := e.HasGuard(func(c *Cond) bool {
				if c.Kind != "cmp" {
					return false
				}
				// (stage + 1) < number of stages, in either orientation; nothing weaker
				P := stripInt(stripVersions(c.P))
				d := stage.Add(PInt(1)).Sub(cellP("CropSharedVars.NRENTW"))
				return (P.Equal(d) && c.Op == token.LSS) || (P.Equal(d.Neg()) && c.Op == token.GTR) ||
					(P.Equal(d.Add(PInt(1))) && c.Op == token.LEQ) || (P.Equal(d.Neg().Sub(PInt(1))) && c.Op == token.GEQ)
			})
			r.Ob("advance", p.Pos(e.Pos), g1 && g2, fmt.Sprintf("stage index +1 under (temperature sum of the current stage reached: %v, a next stage exists: %v)", g1, g2))
			continue
		}
		// reset: constant value
		c, isC := e.Val.ConstInt()
		ok := false
		how := ""
		if isC {
			sow := false
			for _, g := range flattenGuards(e.Guards) {
				if _, off, t, isD := dateEq(g, "GlobalVarsMain.SAAT"); isD && off == 0 && tp != "" && t.Equal(pVar(tp)) {
					sow = true
				}
			}
			per := e.HasGuard(func(cd *Cond) bool {
				return cd.Key() == "?GlobalVarsMain.DAUERKULT" || strings.HasPrefix(cd.Key(), "?GlobalVarsMain.DAUERKULT#")
			})
			switch {
			case sow:
				ok, how = true, "reset at sowing (day == sowing date)"
			case per:
				ok, how = true, "regrowth of a permanent crop (requires DAUERKULT; permanent crops are outside the property's quantifier)"
			}
		}
		r.Ob("reset", p.Pos(e.Pos), ok, fmt.Sprintf("stage index = %d: %s", c, orStr(how, "a store that can lower the stage of a growing annual crop")))
	}
	if inc == nil {
		r.Ob("advance", "-", false, "the stage index is never advanced")
	}
	// writers elsewhere
	for _, w := range p.Fields().Writers(FieldRef{"GlobalVarsMain", "INTWICK"}) {
		if strings.HasPrefix(w.Key, "hermes.NewDefault") || w.Key == "hermes.NewGlobalVarsMain" || w.Key == "hermes.PhytoOut" {
			continue
		}
		reason := map[string]string{"hermes.Nitro": "reset in the harvest branch (day == harvest date)", "hermes.pinit": "reset after harvest for non-permanent crops (called from the harvest branch only)"}[w.Key]
		ok := reason != ""
		if w.Key == "hermes.Nitro" {
			// under the harvest date guard
			nx := walked(p, "hermes.Nitro")
			ntp := timeParam(p, run, dayLoop(run), "hermes.Nitro")
			for _, e := range nx.Events {
				if e.Kind == "assign" && e.Root == "GlobalVarsMain.INTWICK.Index" {
					h := false
					for _, g := range flattenGuards(e.Guards) {
						if _, off, t, isD := dateEq(g, "GlobalVarsMain.ERNTE"); isD && off == 0 && ntp != "" && t.Equal(pVar(ntp)) {
							h = true
						}
					}
					if !h {
						ok = false
					}
				}
			}
		}
		if w.Key == "hermes.pinit" {
			// callers of pinit: only Nitro's harvest branch
			for fi, cs := range p.Fields().Calls {
				for _, c := range cs {
					if c.Key == "hermes.pinit" && fi.Key != "hermes.Nitro" {
						ok = false
					}
				}
			}
		}
		r.Ob("writer:INTWICK:"+short(w.Key), p.Pos(w.Decl.Pos()), ok, orStr(reason, "not a confirmed writer of the stage index"))
	}
	// DEV next to the increase
	nd := 0
	for _, e := range x.Events {
		if e.Kind == "assign" && e.Root == "GlobalVarsMain.DEV" {
			nd++
			ok := inc != nil && e.Seq > inc.Seq && e.Seq-inc.Seq <= 2 && guardKeys(e.Guards) == guardKeys(inc.Guards) && len(e.Idx) == 1 && e.Idx[0].Equal(inc.Val) && stripVersions(e.Val).Equal(cellP("GlobalVarsMain.TAG.Index").Add(PInt(1)))
			r.Ob("stage-day", p.Pos(e.Pos), ok, fmt.Sprintf("DEV[%s] = %s recorded with the increase, for the stage just entered, as today's day of year: %v", e.Idx[0], e.Val, ok))
		}
	}
	if nd == 0 {
		r.Ob("stage-day", "-", false, "the day of year of a stage is never recorded")
	}
	// at the sowing of an annual crop both crop-parameter readers clear the stage temperature sums and stage days of ALL stages
	for _, key := range []string{"hermes.ReadCropParamClassic", "hermes.ReadCropParamYml"} {
		rs := cropResets(p, key)
		for _, f := range []string{"SUM", "DEV"} {
			// array length from the type
			n := int64(0)
			if obj := p.Hermes.Types.Scope().Lookup("GlobalVarsMain"); obj != nil {
				if st, ok := obj.Type().Underlying().(*types.Struct); ok {
					for i := 0; i < st.NumFields(); i++ {
						if st.Field(i).Name() == f {
							if a, ok := st.Field(i).Type().Underlying().(*types.Array); ok {
								n = a.Len()
							}
						}
					}
				}
			}
			found, pos := false, "-"
			want := fmt.Sprintf("0..%d", n-1)
			var seen []string
			for _, rr := range rs {
				if rr.dest == "GlobalVarsMain."+f && rr.guards == "!(?GlobalVarsMain.DAUERKULT)" && rr.val == "0" {
					seen = append(seen, rr.rng)
					pos = rr.pos
					if rr.rng == want {
						found = true
					}
				}
			}
			r.Ob("sowing-reset:"+f+":"+short(key), pos, found && n > 0, fmt.Sprintf("%s clears %s over %v for a non-permanent crop; all %d stages (%s) must be cleared, otherwise a stage the new crop does not reach keeps the previous crop's day (reported phenology out of order)", short(key), f, seen, n, want))
		}
	}
	for _, w := range p.Fields().Writers(FieldRef{"GlobalVarsMain", "DEV"}) {
		ok := w.Key == "hermes.PhytoOut" || w.Key == "hermes.ReadCropParamYml" || w.Key == "hermes.ReadCropParamClassic" || strings.HasPrefix(w.Key, "hermes.NewDefault") || w.Key == "hermes.NewGlobalVarsMain"
		if !ok {
			r.Ob("writer:DEV:"+short(w.Key), p.Pos(w.Decl.Pos()), false, "unexpected writer of the stage day-of-year table")
		}
	}
}

// ---------------------------------------------------------------- floors and caps

func c09Clamps(p *Prog, r *Report) {
	r.Rule("C09.R2", "floors and caps on crop state: every update of an organ mass is the positive arm of its own test or is followed by a floor; LAI is floored at 0 after its update (and lifted above 0 before radiation interception); the N demand is confined to [0, 6·DT]; layer N uptake to [0, available N − 0.75]; root N concentration is capped by the stage maximum and floored at 0.005; the vernalisation factor lies in [0,1]", 10)
	x := walked(p, "hermes.PhytoOut")
	if x == nil {
		return
	}
	evs := x.Events
	// organ masses
	nw := 0
	for i, e := range evs {
		if e.Kind != "assign" || e.Root != "GlobalVarsMain.WORG" || len(e.Idx) != 1 || len(e.Loops) == 0 {
			continue
		}
		if _, isC := e.Val.Const(); isC {
			continue
		}
		if !e.Val.MentionsRoot("CropSharedVars.GORG") {
			continue
		}
		nw++
		how := ""
		if e.HasGuard(func(c *Cond) bool {
			if c.Kind != "cmp" {
				return false
			}
			// value − ε > 0 with a non-negative ε (either canonical sign of the guard polynomial)
			if c.Op == token.GTR || c.Op == token.GEQ {
				cst, isC := e.Val.Sub(c.P).Const()
				return isC && cst.Sign() >= 0
			}
			if c.Op == token.LSS || c.Op == token.LEQ {
				cst, isC := e.Val.Add(c.P).Const()
				return isC && cst.Sign() >= 0
			}
			return false
		}) {
			how = "positive arm of its own test"
		}
		if how == "" {
			for _, f := range evs[i+1:] {
				if f.Kind == "assign" && f.Root == e.Root && idxEqual(f.Idx, e.Idx) {
					if f.Val.IsZero() && isFloorStore(f) {
						how = "followed by a floor at 0 (" + p.Pos(f.Pos) + ")"
					}
					if !f.Val.MentionsRoot("CropSharedVars.GORG") {
						break
					}
				}
			}
		}
		r.Ob("organ-mass", p.Pos(e.Pos), how != "", fmt.Sprintf("WORG[%s] update: %s", e.Idx[0], orStr(how, "no floor or self-test keeps it non-negative")))
	}
	if nw < 3 {
		r.Ob("organ-mass", "-", false, fmt.Sprintf("%d organ mass updates found, 3 confirmed", nw))
	}
	// generic floor/cap expectations on scalars
	type want struct {
		key, root string
		local     bool
		floor     bool
		desc      string
	}
	wants := []want{
		{"LAI:floor", "GlobalVarsMain.LAI", false, true, "LAI floored at 0 after its update"},
		{"DTGESN:cap", "DTGESN", true, false, "N demand capped at 6·DT"},
		{"DTGESN:floor", "DTGESN", true, true, "N demand floored at 0"},
		{"PE:cap", "GlobalVarsMain.PE", false, false, "layer N uptake capped at available N − 0.75"},
		{"PE:floor", "GlobalVarsMain.PE", false, true, "layer N uptake floored at 0"},
		{"WUGEH:floor", "GlobalVarsMain.WUGEH", false, true, "root N concentration floored at 0.005"},
	}
	for _, w := range wants {
		found := false
		for _, e := range evs {
			if e.Kind != "assign" {
				continue
			}
			match := (!w.local && e.Root == w.root) || (w.local && e.Local != nil && e.Local.Name() == w.root)
			if !match {
				continue
			}
			if (w.floor && isFloorStore(e)) || (!w.floor && isCapStore(e)) {
				ok := true
				det := fmt.Sprintf("%s: bound %s", w.desc, clip(e.Val.String(), 60))
				switch w.key {
				case "DTGESN:cap":
					ok = stripVersions(e.Val).Equal(cellP("GlobalVarsMain.DT.Index").Scale(ratInt(6)))
				case "DTGESN:floor", "PE:floor", "LAI:floor":
					ok = e.Val.IsZero()
				case "PE:cap":
					ok = len(e.Idx) == 1 && stripVersions(e.Val).Equal(cellP("GlobalVarsMain.C1", e.Idx[0]).Sub(PFrac(3, 4)))
				case "WUGEH:floor":
					c, isC := e.Val.Const()
					ok = isC && c.Sign() > 0
				}
				if w.key == "LAI:floor" && len(e.Loops) == 0 {
					continue // the lift before interception is checked separately
				}
				found = true
				r.Ob(w.key, p.Pos(e.Pos), ok, det)
				break
			}
		}
		if !found {
			r.Ob(w.key, "-", false, w.desc+": not found")
		}
	}
	// PE cap before floor, both after the last computed value in the same iteration
	// LAI lifted above zero before interception
	lift := false
	for _, e := range evs {
		if e.Kind == "assign" && e.Root == "GlobalVarsMain.LAI" && len(e.Loops) == 0 && (isFloorStore(e) || guardedBy(e, e.Old, token.LEQ, token.LSS)) {
			if c, isC := e.Val.Const(); isC && c.Sign() > 0 {
				lift = true
				r.Ob("LAI:lift", p.Pos(e.Pos), true, "LAI lifted to a small positive value before radiation interception")
			}
		}
	}
	if !lift {
		r.Ob("LAI:lift", "-", false, "LAI is not kept positive before interception")
	}
	// WUGEH min with stage maximum
	capW := false
	for _, e := range evs {
		if e.Kind == "assign" && e.Root == "GlobalVarsMain.WUGEH" {
			if t := e.Val.single(); t != nil && len(t.M) == 1 && t.M[0].A.Kind == "call" && t.M[0].A.Fn == "min" {
				old, mx := false, false
				for _, a := range t.M[0].A.Args {
					if a.Equal(e.Old) {
						old = true
					}
					if stripVersions(a).MentionsRoot("GlobalVarsMain.WGMAX") {
						mx = true
					}
				}
				if old && mx {
					capW = true
					r.Ob("WUGEH:cap", p.Pos(e.Pos), true, "root N concentration = min(itself, stage maximum)")
				}
			}
		}
	}
	if !capW {
		r.Ob("WUGEH:cap", "-", false, "root N concentration is not capped by the stage maximum")
	}
	// vernalisation factor
	vx := walked(p, "hermes.vern")
	if vx != nil {
		fl, cp := false, false
		for _, e := range vx.Events {
			if e.Kind == "assign" && e.Root == "CropSharedVars.FV" {
				if isFloorStore(e) && e.Val.IsZero() {
					fl = true
				}
				if c, ok := e.Val.ConstInt(); ok && c == 1 && (isCapStore(e) || e.HasGuard(func(cd *Cond) bool {
					return cd.Kind == "cmp" && (cd.Op == token.GTR || cd.Op == token.GEQ) && cd.P.Equal(mkCmp(e.Old, PInt(1), token.GTR, nil).P)
				})) {
					cp = true
				}
			}
		}
		r.Ob("FV:range", "-", fl && cp, fmt.Sprintf("vernalisation factor floored at 0: %v, capped at 1: %v", fl, cp))
	}
}

// ---------------------------------------------------------------- N stress factor

func c09Reduk(p *Prog, r *Report) {
	r.Rule("C09.R3", "nitrogen stress factor in [0,1]: it is 1 at or above the critical concentration, 0 at or below the minimum, and in between it is the square of q = 1 − exp(1 + 1/(AUX − 1)) with AUX the ratio (content − minimum)/(critical − minimum), which the two guards place in (0,1); q is bounded in [0,1] by interval evaluation", 3)
	x := walked(p, "hermes.PhytoOut")
	if x == nil {
		return
	}
	n := 0
	for _, e := range x.Events {
		if e.Kind != "assign" || e.Root != "GlobalVarsMain.REDUK" {
			continue
		}
		n++
		if c, isC := e.Val.Const(); isC {
			f, _ := c.Float64()
			r.Ob("arm", p.Pos(e.Pos), f == 0 || f == 1, fmt.Sprintf("constant arm REDUK = %g", f))
			continue
		}
		// perfect square of 1 − exp(arg)
		var ex *Atom
		e.Val.walkAtoms(func(a *Atom) {
			if a.Kind == "call" && a.Fn == "exp" && ex == nil {
				ex = a
			}
		})
		ok := false
		det := "not of the form (1 − exp(·))²"
		if ex != nil {
			q := PInt(1).Sub(PAtom(ex))
			if e.Val.Equal(q.Mul(q)) {
				// arg = 1 + 1/(AUX − 1)
				var aux *Event
				for _, a := range x.Events {
					if a.Kind == "assign" && a.Local != nil && a.Local.Name() == "AUX" && a.Seq < e.Seq {
						aux = a
					}
				}
				if aux != nil {
					arg := ex.Args[0]
					wantArg := PInt(1).Add(PInv(aux.Val.Sub(PInt(1))))
					formOK := arg.Equal(wantArg)
					// AUX = (G − M)/(C − M) with guards G − M > 0 and G − C < 0
					num, den := Poly{}, Poly{}
					ratioOK := false
					for _, g1 := range flattenGuards(e.Guards) {
						for _, g2 := range flattenGuards(e.Guards) {
							if g1.Kind != "cmp" || g2.Kind != "cmp" {
								continue
							}
							for _, s1 := range []int64{1, -1} {
								for _, s2 := range []int64{1, -1} {
									a := g1.P.Scale(ratInt(s1)) // candidate numerator  G − M
									b := g2.P.Scale(ratInt(s2)) // candidate  C − G
									pos := func(c *Cond, s int64) bool {
										if s == 1 {
											return c.Op == token.GTR
										}
										return c.Op == token.LSS
									}
									if !pos(g1, s1) || !pos(g2, s2) {
										continue
									}
									if aux.Val.Equal(a.Div(a.Add(b))) {
										num, den, ratioOK = a, a.Add(b), true
									}
								}
							}
						}
					}
					_ = num
					_ = den
					// q over AUX ∈ [0, 1): arg ∈ (−∞, 0], exp ∈ [0, 1], q ∈ [0, 1]
					auxV := varAtom("AUX")
					qa := PInt(1).Sub(PCall("exp", PInt(1).Add(PInv(PAtom(auxV).Sub(PInt(1))))))
					iv, err := evalIv(qa, func(a *Atom) (Iv, bool) {
						if a == auxV {
							return Iv{0, 1 - 1e-12}, true
						}
						return Iv{}, false
					})
					ok = formOK && ratioOK && err == nil && iv.Lo >= -1e-12 && iv.Hi <= 1+1e-12
					det = fmt.Sprintf("REDUK = q² with q = 1 − exp(1 + 1/(AUX−1)): form %v; AUX is a ratio a/(a+b) of two quantities its guards make positive: %v; q ∈ [%.3g, %.3g] for AUX ∈ [0,1)", formOK, ratioOK, iv.Lo, iv.Hi)
				}
			}
		}
		r.Ob("arm", p.Pos(e.Pos), ok, det)
	}
	if n < 3 {
		r.Ob("arm", "-", false, fmt.Sprintf("%d arms of the N stress factor found, 3 confirmed", n))
	}
}

// ---------------------------------------------------------------- rooting depth

func c09Root(p *Prog, r *Report) {
	r.Rule("C09.R4", "rooting depth never exceeds the profile or the soil's root limit: the maximum rooted layer count is the soil root limit scaled by the crop factor and is capped at the number of layers after scaling (and floored at 1); the root distribution parameter is floored at 4.5/(WURM·DZ); the rooted layer count is int(4.5/Qrez/DZ), hence ≤ WURM ≤ N", 4)
	x := walked(p, "hermes.PhytoOut")
	if x == nil {
		return
	}
	var def, capE, flE, qFloor, wurz *Event
	var wurmCaps []*Event
	for _, e := range x.Events {
		if e.Kind != "assign" {
			continue
		}
		if e.Local != nil && e.Local.Name() == "WURM" {
			switch {
			case isCapStore(e):
				wurmCaps = append(wurmCaps, e)
				if capE == nil || stripVersions(e.Val).Equal(cellP("GlobalVarsMain.N")) {
					capE = e
				}
			case isFloorStore(e):
				flE = e
			default:
				def = e
			}
		}
		if e.Local != nil && e.Local.Name() == "Qrez" && isFloorStore(e) {
			qFloor = e
		}
		if e.Root == "GlobalVarsMain.WURZ" && len(e.Loops) == 0 && !e.Val.IsZero() {
			wurz = e
		}
	}
	if def == nil || capE == nil {
		pos := "-"
		if def != nil {
			pos = p.Pos(def.Pos)
		}
		r.Ob("WURM:cap", pos, false, "the maximum rooted layer count is not capped at the number of soil layers after it has been scaled by the crop factor (a clamp applied to the soil limit before scaling does not bound the product)")
	} else {
		ok := stripVersions(capE.Val).Equal(cellP("GlobalVarsMain.N")) && capE.Seq > def.Seq && def.Val.MentionsRoot("GlobalVarsMain.WURZMAX")
		r.Ob("WURM:cap", p.Pos(capE.Pos), ok, fmt.Sprintf("WURM = %s, then capped at %s", clip(def.Val.String(), 80), capE.Val))
	}
	// the soil's own root limit: the crop factor (crop depth / 11 dm reference) exceeds 1 for deep-rooting crops, so
	// the scaled limit stays below the soil's limit only if it is capped at it as well
	if def != nil {
		soilCap := false
		for _, c := range wurmCaps {
			if c.Seq > def.Seq && stripVersions(c.Val).Equal(cellP("GlobalVarsMain.WURZMAX")) {
				soilCap = true
			}
		}
		r.Ob("WURM:soil-limit", p.Pos(def.Pos), soilCap, fmt.Sprintf("WURM = %s is capped at the soil's root limit after scaling: %v — a crop factor above 1 (depth factor above the 11 dm reference: 12 for winter wheat and rape, 14/16 for sugar beet) lets the rooting depth exceed the root limit the soil file gives", clip(def.Val.String(), 80), soilCap))
	}
	if flE != nil {
		c, isC := flE.Val.ConstInt()
		r.Ob("WURM:floor", p.Pos(flE.Pos), isC && c >= 1, "WURM floored at 1 (the floor of Qrez divides by it)")
	} else {
		r.Ob("WURM:floor", "-", false, "WURM is not floored at 1")
	}
	if qFloor == nil {
		r.Ob("Qrez:floor", "-", false, "the root distribution parameter is not floored at 4.5/(WURM·DZ)")
	} else {
		// bound = 9/2 · DZ^-1 · WURM^-1 with WURM the capped value (φ of the clamps)
		t := qFloor.Val.single()
		ok := t != nil && t.C.Cmp(ratFrac(9, 2)) == 0 && len(t.M) == 2
		if ok {
			haveW, haveDZ := false, false
			for _, f := range t.M {
				if f.E == -1 && f.A.Root == "WURM" {
					haveW = true
				}
				if f.E == -1 && f.A.Root == "GlobalVarsMain.DZ.Index" {
					haveDZ = true
				}
			}
			ok = haveW && haveDZ && capE != nil && qFloor.Seq > capE.Seq
		}
		r.Ob("Qrez:floor", p.Pos(qFloor.Pos), ok, fmt.Sprintf("Qrez floored at %s", qFloor.Val))
	}
	if wurz == nil {
		r.Ob("WURZ", "-", false, "rooted layer count store not found")
	} else {
		t := stripVersions(wurz.Val).single()
		ok := false
		if t != nil && len(t.M) == 1 && t.M[0].A.Kind == "call" && t.M[0].A.Fn == "int" {
			in := t.M[0].A.Args[0].single()
			if in != nil && in.C.Cmp(ratFrac(9, 2)) == 0 && len(in.M) == 2 {
				q, dz := false, false
				for _, f := range in.M {
					if f.E == -1 && f.A.Root == "Qrez" {
						q = true
					}
					if f.E == -1 && f.A.Root == "GlobalVarsMain.DZ.Index" {
						dz = true
					}
				}
				ok = q && dz && qFloor != nil && wurz.Seq > qFloor.Seq
			}
		}
		r.Ob("WURZ", p.Pos(wurz.Pos), ok, fmt.Sprintf("WURZ = %s (int(4.5/Qrez/DZ) with the floored Qrez ⇒ WURZ ≤ WURM ≤ N)", wurz.Val))
	}
}

// c09DayLength: the light-response terms of the assimilation routine divide by
// the effective day length, which is exactly 0 around the winter solstice at
// high latitudes.  The code lifts a zero to a small positive value; that lift
// must come before every division by the day length (otherwise LAI, biomass
// and N content turn NaN).
func c09DayLength(p *Prog, r *Report) {
	r.Rule("C09.R5", "zero day length is lifted before it is used as a divisor: in the assimilation routine the store that replaces an effective day length of 0 by a positive constant precedes every term that divides by the day length, and no division uses the unlifted value", 2)
	x := walked(p, "hermes.radia")
	if x == nil {
		r.Ob("radia", "-", false, "hermes.radia not found")
		return
	}
	var lift *Event
	for _, e := range x.Events {
		if e.Kind == "assign" && e.Local != nil && e.Local.Name() == "DLE" && len(e.Loops) == 0 {
			if c, isC := e.Val.Const(); isC && c.Sign() > 0 && guardedBy(e, e.Old, token.EQL) {
				lift = e
			}
		}
	}
	if lift == nil {
		r.Ob("lift", "-", false, "no store lifting an effective day length of 0 to a positive value")
		return
	}
	raw := lift.Old.single()
	if raw == nil || len(raw.M) != 1 {
		r.Ob("lift", p.Pos(lift.Pos), false, "the lifted value is not a plain variable")
		return
	}
	rawAtom := raw.M[0].A
	// the lift must not depend on anything but the day length itself being 0 (and the day being non-empty)
	var extra []string
	for _, g := range flattenGuards(lift.Guards) {
		if g.Loop || isCmp(g, lift.Old, token.EQL) {
			continue
		}
		if g.Kind == "cmp" && (g.Op == token.GTR || g.Op == token.GEQ) && len(g.P.T) == 1 {
			continue // DL > 0
		}
		extra = append(extra, g.Key())
	}
	r.Ob("lift", p.Pos(lift.Pos), len(extra) == 0, fmt.Sprintf("effective day length 0 is replaced by %s; additional conditions: %v", lift.Val, extra))
	divs, bad := 0, 0
	first := "-"
	for _, e := range x.Events {
		if e.Kind != "assign" {
			continue
		}
		usesRaw, usesAny := false, false
		e.Val.walkAtoms(func(a *Atom) {})
		for _, t := range e.Val.T {
			for _, f := range t.M {
				if f.E < 0 && (f.A == rawAtom) {
					usesRaw = true
				}
				if f.E < 0 && (f.A == rawAtom || f.A.Root == "DLE") {
					usesAny = true
				}
			}
		}
		// divisions nested inside function arguments (log(1 + …/DLE…))
		e.Val.walkAtoms(func(a *Atom) {
			for _, q := range a.Args {
				for _, t := range q.T {
					for _, f := range t.M {
						if f.E < 0 && f.A == rawAtom {
							usesRaw = true
						}
						if f.E < 0 && (f.A == rawAtom || f.A.Root == "DLE") {
							usesAny = true
						}
					}
				}
			}
		})
		if !usesAny {
			continue
		}
		divs++
		if usesRaw || e.Seq < lift.Seq {
			bad++
			if first == "-" {
				first = p.Pos(e.Pos)
			}
		}
	}
	r.Ob("divisions", first, divs > 0 && bad == 0, fmt.Sprintf("%d stores divide by the effective day length; %d of them can see the unlifted value (before the lift, or not through it)", divs, bad))
}

// c09AnnualStart: organ masses are zeroed at harvest, so every sowing of an
// annual crop has to start from the crop file's initial masses and N
// concentrations; only a continued perennial stand may keep what it has.  The
// exemption in the parameter readers must therefore require the perennial
// flag: without it, an annual crop following itself is sown with mass 0 and
// the N concentration becomes 0/0 on the sowing day.
func c09AnnualStart(p *Prog, r *Report) {
	r.Rule("C09.R6", "an annual crop always starts from the crop file's initial organ masses and N concentrations: in every crop parameter reader the stores of WORG, GEHOB and WUGEH are taken on every path on which the perennial flag is false", 6)
	for _, key := range []string{"hermes.ReadCropParamClassic", "hermes.ReadCropParamYml"} {
		x := walked(p, key)
		if x == nil {
			r.Ob("reader:"+strings.TrimPrefix(key, "hermes."), "-", false, "not found")
			continue
		}
		// the value the reader stores in the perennial flag
		flag := ""
		for _, e := range x.Events {
			if e.Kind == "assign" && e.Root == "GlobalVarsMain.DAUERKULT" {
				flag = verRe.ReplaceAllString(e.Val.String(), "")
			}
		}
		isFlag := func(c *Cond) bool {
			if flag == "" {
				return false
			}
			t := verRe.ReplaceAllString(c.Key(), "")
			return strings.Contains(t, flag) || strings.Contains(t, "DAUERKULT")
		}
		for _, root := range []string{"GlobalVarsMain.WORG", "GlobalVarsMain.GEHOB", "GlobalVarsMain.WUGEH"} {
			var family [][]*Cond
			var assume []*Cond
			pos := "-"
			var collect func(c *Cond)
			collect = func(c *Cond) {
				switch c.Kind {
				case "and", "or", "not":
					for _, s := range c.Sub {
						collect(s)
					}
				default:
					if isFlag(c) {
						assume = append(assume, &Cond{Kind: "not", Sub: []*Cond{c}})
					}
				}
			}
			for _, e := range x.Events {
				if e.Kind != "assign" || e.Root != root {
					continue
				}
				pos = p.Pos(e.Pos)
				var gs []*Cond
				for _, g := range e.Guards {
					if g.Loop {
						continue
					}
					gs = append(gs, g)
					collect(g)
				}
				// conditions that only steer the reader through the file (line counters) are not decisions about the crop
				var keep []*Cond
				for _, g := range gs {
					if mentionsCropState(g) {
						keep = append(keep, g)
					}
				}
				family = append(family, keep)
			}
			name := strings.TrimPrefix(key, "hermes.") + ":" + shortRoot(root)
			if len(family) == 0 {
				r.Ob("annual-start:"+name, "-", false, "no store of "+shortRoot(root)+" in the reader")
				continue
			}
			ok, why := coversAllPaths(family, assume)
			det := fmt.Sprintf("%d store(s); perennial flag as the reader sees it: %s", len(family), clip(flag, 60))
			if !ok {
				det += " — with the perennial flag false the initialisation is skipped on: " + why
			}
			r.Ob("annual-start:"+name, pos, ok, det)
		}
	}
}

// mentionsCropState: the condition tests the rotation position, the crop
// sequence or the perennial flag (as opposed to positions in the file).
func mentionsCropState(c *Cond) bool {
	t := c.Key()
	return strings.Contains(t, "AKF") || strings.Contains(t, "FRUCHT") || strings.Contains(t, "DAUERKULT") || strings.Contains(t, "LINE1b[32]")
}

// ---------------------------------------------------------------- a CO2 concentration from the weather header is not a placeholder

// c09HeaderCO2: the CO2 response (all methods) takes logarithms and ratios of the concentration; a negative value
// gives NaN assimilation on warm days.  The third header line of a weather file may carry a concentration or a
// placeholder ("-----", "-99.9").  Demanded: every call that spreads a header value over the years
// (fillCO2Value with an argument parsed from the header) runs only under a test that excludes a leading minus sign of
// the cell or a non-positive value.
func c09HeaderCO2(p *Prog, r *Report) {
	r.Rule("C09.R11", "a CO2 concentration taken from the weather file's header line is not a placeholder: the call that stores it is guarded by a test that excludes a leading '-' of the cell or a non-positive value", 2)
	n := 0
	for _, key := range []string{"hermes.WetterK", "hermes.ReadWeatherCSV", "hermes.ReadWeatherCZ", "hermes.WeatherDataShared.readStationLine", "hermes.WeatherDataShared.readGlobalValues"} {
		fi := p.Funcs[key]
		if fi == nil {
			continue
		}
		info := fi.Pkg.TypesInfo
		ast.Inspect(fi.Decl.Body, func(m ast.Node) bool {
			c, ok := m.(*ast.CallExpr)
			if !ok || len(c.Args) != 1 {
				return true
			}
			se, ok := c.Fun.(*ast.SelectorExpr)
			if !ok || se.Sel.Name != "fillCO2Value" {
				return true
			}
			n++
			arg := useObj(info, c.Args[0])
			conds, _ := astPathConds(info, fi.Decl.Body, c)
			good := false
			for _, cd := range conds {
				ast.Inspect(cd.E, func(q ast.Node) bool {
					be, ok := q.(*ast.BinaryExpr)
					if !ok {
						return true
					}
					// cell[0] != '-'
					if (be.Op == token.NEQ && !cd.Neg) || (be.Op == token.EQL && cd.Neg) {
						for _, side := range []ast.Expr{be.X, be.Y} {
							if tv, has := info.Types[side]; has && tv.Value != nil && tv.Value.ExactString() == "45" {
								good = true
							}
						}
					}
					// value > 0 (or >= a positive constant)
					if arg != nil && !cd.Neg {
						if id, isId := ast.Unparen(be.X).(*ast.Ident); isId && info.Uses[id] == arg && (be.Op == token.GTR || be.Op == token.GEQ) {
							if tv, has := info.Types[be.Y]; has && tv.Value != nil && (be.Op == token.GTR && constant.Sign(tv.Value) >= 0 || constant.Sign(tv.Value) > 0) {
								good = true
							}
						}
					}
					return true
				})
			}
			r.Ob("co2:header-not-placeholder:"+short(key), p.Pos(c.Pos()), good, fmt.Sprintf("the header's CO2 value is stored only for a cell without leading minus sign / a positive value: %v (conditions: %s)", good, clip(joinConds(conds), 160)))
			return true
		})
	}
	if n == 0 {
		r.Ob("co2:header-not-placeholder", "-", false, "no reader stores a CO2 concentration from the weather header")
	}
}

// ---------------------------------------------------------------- the season means of the stress factors stay in [0,1]

// c09StressMeans: the crop record reports the season means of the two stress factors as (daily sum)/(number of days).
// The sums grow by one factor ≤ 1 per day from emergence on, so the mean stays ≤ 1 exactly when the divisor is at
// least the number of accumulation days.  The difference of the two ABSOLUTE day numbers harvest − sowing is such a
// divisor for every year; a count reconstructed from days of the year (with a +365 wrap) is one short across the
// end of a leap year.  Demanded: the divisor of both means is harvest date − sowing date of the current entry.
func c09StressMeans(p *Prog, r *Report) {
	r.Rule("C09.R12", "season means of the stress factors in the crop record: each is its daily sum divided by (harvest date − sowing date) of the current rotation entry, both absolute day numbers — a divisor that cannot be smaller than the number of days the sum grew", 2)
	x := walked(p, "hermes.Nitro")
	if x == nil {
		r.Ob("stress-mean", "-", false, "hermes.Nitro not found")
		return
	}
	n := 0
	for _, it := range []struct{ field, sum string }{{"Reduk", "GlobalVarsMain.REDUKSUM"}, {"TRRel", "GlobalVarsMain.TRRELSUM"}} {
		for _, e := range x.Events {
			if e.Kind != "assign" || !strings.HasSuffix(e.Root, "."+it.field) || !e.Val.MentionsRoot(it.sum) {
				continue
			}
			n++
			v := stripVersions(e.Val)
			t := v.single()
			ok := false
			if t != nil && t.C.Cmp(ratInt(1)) == 0 && len(t.M) == 2 {
				var div *Poly
				hasSum := false
				for _, f := range t.M {
					if f.A.Root == it.sum && f.E == 1 {
						hasSum = true
					}
					if f.E == -1 && len(f.A.Args) == 1 {
						d := f.A.Args[0]
						div = &d
					}
				}
				if hasSum && div != nil {
					d := stripVersions(*div)
					ok = d.MentionsRoot("GlobalVarsMain.ERNTE") && d.MentionsRoot("GlobalVarsMain.SAAT") && len(d.sortedTerms()) == 2
					for _, dt := range d.sortedTerms() {
						if len(dt.M) != 1 || dt.M[0].E != 1 || (dt.M[0].A.Root != "GlobalVarsMain.ERNTE" && dt.M[0].A.Root != "GlobalVarsMain.SAAT") {
							ok = false
						}
					}
				}
			}
			r.Ob("stress-mean:"+it.field, p.Pos(e.Pos), ok, fmt.Sprintf("%s = %s (must be %s / (harvest date − sowing date))", it.field, clip(v.String(), 160), shortRoot(it.sum)))
		}
	}
	if n == 0 {
		r.Ob("stress-mean", "-", false, "the season means of the stress factors are not stored into the crop record in the nitrogen routine")
	}
}
