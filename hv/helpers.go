package main

// Shared input helpers.  Every reader of fixed-width and CSV input skips header
// lines by counting calls of the line helper and turns cells into numbers with
// the number helpers; what the readers' own rules establish ("the record of
// position k is stored in slot k", "the value stored is the cell's value") holds
// only if a call of the line helper consumes exactly one line and hands it back
// unchanged, and a number helper returns what the standard parser made of the
// cell or ends the run.  The rule is shared, under their own ids, by the
// properties whose readers go through these helpers.

import (
	"fmt"
	"go/ast"
	"go/constant"
	"go/token"
	"go/types"
)

func inLoopAST(body ast.Node, target ast.Node) bool {
	for _, n := range nodePath(body, target) {
		switch n.(type) {
		case *ast.ForStmt, *ast.RangeStmt:
			return true
		}
	}
	return false
}

func inputHelpers(p *Prog, r *Report, rule string) {
	r.Rule(rule, "shared input helpers: a call of a line helper advances the scanner by exactly one line (one Scan, not in a loop) and hands back that line's text unchanged, ending the process when there is none (LineInut); a number helper returns, on every return, the result of the standard parser applied to the trimmed cell, and the fatal variants end the run on a parse error before returning", 5)
	// ---- line helpers
	for _, name := range []string{"LineInut", "NextLineInut"} {
		fi := p.Funcs["hermes."+name]
		if fi == nil {
			r.Ob("line:"+name, "-", false, "hermes."+name+" not found")
			continue
		}
		info := fi.Pkg.TypesInfo
		var scans, texts []*ast.CallExpr
		ast.Inspect(fi.Decl.Body, func(n ast.Node) bool {
			if c, ok := n.(*ast.CallExpr); ok {
				if f := callee(info, c); f != nil && f.Pkg() != nil && f.Pkg().Path() == "bufio" {
					switch f.Name() {
					case "Scan":
						scans = append(scans, c)
					case "Text", "Bytes":
						texts = append(texts, c)
					}
				}
			}
			return true
		})
		ok := len(scans) == 1 && len(texts) == 1 && !inLoopAST(fi.Decl.Body, scans[0])
		det := fmt.Sprintf("%d Scan call(s), %d Text call(s)", len(scans), len(texts))
		if ok {
			// the text is used unmodified: it is assigned to a variable (or passed to the split function) directly
			path := nodePath(fi.Decl.Body, texts[0])
			used := false
			if len(path) >= 2 {
				switch par := path[len(path)-2].(type) {
				case *ast.AssignStmt:
					used = len(par.Rhs) == 1 && par.Rhs[0] == ast.Expr(texts[0])
					if used && name == "LineInut" {
						// … and that variable is what every return hands back
						obj := useObj(info, par.Lhs[0])
						ast.Inspect(fi.Decl.Body, func(n ast.Node) bool {
							if rs, isR := n.(*ast.ReturnStmt); isR && len(rs.Results) == 1 && useObj(info, rs.Results[0]) != obj {
								used = false
							}
							return true
						})
						if nd := len(defsOf(info, fi.Decl.Body, obj)); nd != 1 {
							used = false
							det += fmt.Sprintf("; the line variable is assigned %d times", nd)
						}
					}
				case *ast.CallExpr:
					used = true
				case *ast.ReturnStmt:
					used = true
				}
			}
			if !used {
				ok = false
				det += "; the scanned text is not handed on unchanged"
			}
			if inLoopAST(fi.Decl.Body, texts[0]) {
				ok = false
			}
		} else if len(scans) == 1 {
			det += "; the Scan call lies in a loop (a call may consume more than one line)"
		}
		if ok && name == "LineInut" {
			// no line: every arm taken when Scan failed ends the process
			path := nodePath(fi.Decl.Body, scans[0])
			var ifs *ast.IfStmt
			for i := len(path) - 1; i >= 0; i-- {
				if s, isIf := path[i].(*ast.IfStmt); isIf {
					ifs = s
					break
				}
			}
			fatal := ifs != nil && ifs.Else != nil
			for e := ast.Stmt(nil); fatal && ifs != nil; {
				e = ifs.Else
				switch t := e.(type) {
				case *ast.BlockStmt:
					if !terminates(info, t) {
						fatal = false
					}
					ifs = nil
				case *ast.IfStmt:
					if !terminates(info, t.Body) {
						fatal = false
					}
					ifs = t
					if t.Else == nil {
						fatal = false
						ifs = nil
					}
				default:
					fatal = false
					ifs = nil
				}
			}
			if !fatal {
				ok = false
				det += "; a failed Scan does not end the process on every arm"
			}
		}
		r.Ob("line:"+name, p.Pos(fi.Decl.Pos()), ok, name+" consumes exactly one line per call and hands its text on unchanged: "+det)
	}
	// ---- number helpers
	for _, h := range []struct {
		name, parser string
		fatal        bool
	}{{"ValAsFloat", "ParseFloat", true}, {"TryValAsFloat", "ParseFloat", false}, {"ValAsInt", "ParseInt", true}} {
		fi := p.Funcs["hermes."+h.name]
		if fi == nil {
			r.Ob("number:"+h.name, "-", false, "hermes."+h.name+" not found")
			continue
		}
		info := fi.Pkg.TypesInfo
		var parses []*ast.CallExpr
		ast.Inspect(fi.Decl.Body, func(n ast.Node) bool {
			if c, ok := n.(*ast.CallExpr); ok {
				if f := callee(info, c); f != nil && f.Pkg() != nil && f.Pkg().Path() == "strconv" {
					parses = append(parses, c)
				}
			}
			return true
		})
		ok := len(parses) == 1
		det := fmt.Sprintf("%d strconv call(s)", len(parses))
		if ok {
			f := callee(info, parses[0])
			if f.Name() != h.parser {
				ok = false
				det += "; parser is strconv." + f.Name()
			}
		}
		if ok {
			// argument: the text parameter, trimmed or not
			var textParam types.Object
			if fl := fi.Decl.Type.Params.List; len(fl) > 0 && len(fl[0].Names) > 0 {
				textParam = info.Defs[fl[0].Names[0]]
			}
			arg := stripParens(parses[0].Args[0])
			for depth := 0; depth < 3; depth++ {
				if id, isId := arg.(*ast.Ident); isId {
					obj := useObj(info, id)
					if obj == textParam {
						break
					}
					ds := defsOf(info, fi.Decl.Body, obj)
					if len(ds) != 1 || ds[0].Rhs == nil {
						break
					}
					arg = stripParens(ds[0].Rhs)
					continue
				}
				if c, isC := arg.(*ast.CallExpr); isC {
					if g := callee(info, c); g != nil && g.Pkg() != nil && g.Pkg().Path() == "strings" && g.Name() == "TrimSpace" && len(c.Args) == 1 {
						arg = stripParens(c.Args[0])
						continue
					}
				}
				break
			}
			if useObj(info, arg) != textParam || textParam == nil {
				ok = false
				det += "; the parsed text is not the (trimmed) cell handed in"
			}
		}
		if ok {
			// the value variable
			path := nodePath(fi.Decl.Body, parses[0])
			as, _ := path[len(path)-2].(*ast.AssignStmt)
			if as == nil || len(as.Lhs) != 2 {
				ok = false
				det += "; the parser's two results are not assigned"
			} else {
				val, errv := useObj(info, as.Lhs[0]), useObj(info, as.Lhs[1])
				nret := 0
				ast.Inspect(fi.Decl.Body, func(n ast.Node) bool {
					if rs, isR := n.(*ast.ReturnStmt); isR {
						nret++
						if len(rs.Results) < 1 || useObj(info, rs.Results[0]) != val {
							ok = false
							det += fmt.Sprintf("; a return at %s hands back something other than the parsed value", p.Pos(rs.Pos()))
						}
						if !h.fatal && (len(rs.Results) != 2 || useObj(info, rs.Results[1]) != errv) {
							ok = false
							det += "; the parse error is not handed back"
						}
					}
					return true
				})
				if nret == 0 {
					ok = false
				}
				if len(defsOf(info, fi.Decl.Body, val)) != 1 {
					ok = false
					det += "; the parsed value is reassigned"
				}
				if h.fatal {
					// the statement after the parse: if err != nil { fatal }
					fatal := false
					for i, st := range fi.Decl.Body.List {
						if st == ast.Stmt(as) && i+1 < len(fi.Decl.Body.List) {
							if ifs, isIf := fi.Decl.Body.List[i+1].(*ast.IfStmt); isIf && isNilCmp(info, ifs.Cond, errv, token.NEQ) && terminates(info, ifs.Body) {
								fatal = true
							}
						}
					}
					if !fatal {
						ok = false
						det += "; a parse error does not end the run right after the parse"
					}
				}
			}
		}
		r.Ob("number:"+h.name, p.Pos(fi.Decl.Pos()), ok, h.name+" returns what strconv."+h.parser+" made of the trimmed cell: "+det)
	}
}

// yearExtensionRule — one-file-per-year weather: the file of a year is named by a three-character extension,
// "9yy" for the years before 2000 and "0yy" from 2000 on (year counted from 1900).  The rule evaluates the
// helper's branch condition at the two sides of the century (99 and 100, and at 1 and 199) in three-valued
// logic and demands that the arm taken builds an extension starting with the right digit.
func yearExtensionRule(p *Prog, r *Report, rule string) {
	r.Rule(rule, "the weather file of a year is the file named after that year: the extension helper takes its '0yy' arm for every year offset from 100 on (2000 included) and its '9yy' arm below, and the per-year path is the configured stem plus that extension", 2)
	fi := p.Funcs["hermes.yearToExtension"]
	if fi == nil {
		r.Ob("extension", "-", false, "hermes.yearToExtension not found")
		return
	}
	info := fi.Pkg.TypesInfo
	var year types.Object
	if pl := fi.Decl.Type.Params.List; len(pl) == 1 && len(pl[0].Names) == 1 {
		year = info.Defs[pl[0].Names[0]]
	}
	var ifs *ast.IfStmt
	idx := -1
	for i, st := range fi.Decl.Body.List {
		if s, ok := st.(*ast.IfStmt); ok && ifs == nil {
			ifs, idx = s, i
		}
	}
	if year == nil || ifs == nil {
		r.Ob("extension", p.Pos(fi.Decl.Pos()), false, "no decision on the year found in the extension helper")
		return
	}
	// first digit built by an arm: the string literals of the arm (literal concatenation or a format string)
	digit := func(nodes []ast.Node) string {
		d := ""
		for _, nd := range nodes {
			ast.Inspect(nd, func(n ast.Node) bool {
				if bl, ok := n.(*ast.BasicLit); ok && bl.Kind == token.STRING {
					if tv, ok := info.Types[bl]; ok && tv.Value != nil {
						s := constant.StringVal(tv.Value)
						if len(s) > 0 && (s[0] == '0' || s[0] == '9') {
							if d == "" {
								d = s[:1]
							} else if d != s[:1] {
								d = "?"
							}
						}
					}
				}
				return true
			})
		}
		return d
	}
	thenD := digit([]ast.Node{ifs.Body})
	var elseNodes []ast.Node
	if ifs.Else != nil {
		elseNodes = append(elseNodes, ifs.Else)
	} else {
		for _, st := range fi.Decl.Body.List[idx+1:] {
			elseNodes = append(elseNodes, st)
		}
	}
	elseD := digit(elseNodes)
	vals := map[types.Object]bool{year: true}
	ok := true
	det := ""
	for _, pr := range []struct {
		y    float64
		want string
	}{{1, "9"}, {99, "9"}, {100, "0"}, {101, "0"}, {199, "0"}} {
		t := evalRangeCond(info, ifs.Cond, nil, vals, "", pr.y)
		got := "?"
		switch t {
		case triT:
			got = thenD
		case triF:
			got = elseD
		}
		if got != pr.want {
			ok = false
			det += fmt.Sprintf("year offset %v builds an extension starting with %q, must be %q; ", pr.y, got, pr.want)
		}
	}
	r.Ob("extension:century", p.Pos(ifs.Pos()), ok, orStr(det, "offsets 1 and 99 take the '9yy' arm, 100, 101 and 199 the '0yy' arm"))
	// the per-year path
	vw := p.Funcs["hermes.HFilePath.VWdat"]
	okP := false
	if vw != nil {
		vinfo := vw.Pkg.TypesInfo
		ast.Inspect(vw.Decl.Body, func(n ast.Node) bool {
			rs, isR := n.(*ast.ReturnStmt)
			if !isR || len(rs.Results) != 1 {
				return true
			}
			be, isB := stripParens(rs.Results[0]).(*ast.BinaryExpr)
			if !isB || be.Op != token.ADD {
				return true
			}
			call, isC := stripParens(be.Y).(*ast.CallExpr)
			sel, isS := stripParens(be.X).(*ast.SelectorExpr)
			if isC && isS && sel.Sel.Name == "vwdatNoExt" && len(call.Args) == 1 {
				if f := callee(vinfo, call); f != nil && f.Name() == "yearToExtension" {
					if pl := vw.Decl.Type.Params.List; len(pl) == 1 && len(pl[0].Names) == 1 && useObj(vinfo, call.Args[0]) == vinfo.Defs[pl[0].Names[0]] {
						okP = true
					}
				}
			}
			return true
		})
	}
	pos := "-"
	if vw != nil {
		pos = p.Pos(vw.Decl.Pos())
	}
	r.Ob("extension:path", pos, okP, fmt.Sprintf("the per-year weather path is the configured stem followed by the extension of the requested year: %v", okP))
}

// exprInt64: the value of an integer constant expression.
func exprInt64(info *types.Info, e ast.Expr) (int64, bool) {
	tv, ok := info.Types[e]
	if !ok || tv.Value == nil {
		return 0, false
	}
	v := constant.ToInt(tv.Value)
	if v.Kind() != constant.Int {
		return 0, false
	}
	return constant.Int64Val(v)
}
