package main

// Shared input helpers.  Every reader of fixed-width and CSV input skips header
// lines by counting calls of the line helper and turns cells into numbers with
// the number helpers; what the readers' own rules establish ("the record of
// position k is stored in slot k", "the value stored is the cell's value") holds
// only if a call of the line helper consumes exactly one line and hands it back
// unchanged, and a number helper returns what the standard parser made of the
// cell or ends the run.  The rule is shared, under their own ids, by the
// properties whose readers go through these helpers.

import (
	"fmt"
	"go/ast"
	"go/constant"
	"go/token"
	"go/types"
	"sort"
	"strings"
)

func inLoopAST(body ast.Node, target ast.Node) bool {
	for _, n := range nodePath(body, target) {
		switch n.(type) {
		case *ast.ForStmt, *ast.RangeStmt:
			return true
		}
	}
	return false
}

func inputHelpers(p *Prog, r *Report, rule string) {
	r.Rule(rule, "shared input helpers: a call of a line helper advances the scanner by exactly one line (one Scan, not in a loop) and hands back that line's text unchanged, ending the process when there is none (LineInut); a number helper returns, on every return, the result of the standard parser applied to the trimmed cell, and the fatal variants end the run on a parse error before returning", 5)
	// ---- line helpers
	for _, name := range []string{"LineInut", "NextLineInut"} {
		fi := p.Funcs["hermes."+name]
		if fi == nil {
			r.Ob("line:"+name, "-", false, "hermes."+name+" not found")
			continue
		}
		info := fi.Pkg.TypesInfo
		var scans, texts []*ast.CallExpr
		ast.Inspect(fi.Decl.Body, func(n ast.Node) bool {
			if c, ok := n.(*ast.CallExpr); ok {
				if f := callee(info, c); f != nil && f.Pkg() != nil && f.Pkg().Path() == "bufio" {
					switch f.Name() {
					case "Scan":
						scans = append(scans, c)
					case "Text", "Bytes":
						texts = append(texts, c)
					}
				}
			}
			return true
		})
		ok := len(scans) == 1 && len(texts) == 1 && !inLoopAST(fi.Decl.Body, scans[0])
		det := fmt.Sprintf("%d Scan call(s), %d Text call(s)", len(scans), len(texts))
		if ok {
			// the text is used unmodified: it is assigned to a variable (or passed to the split function) directly
			path := nodePath(fi.Decl.Body, texts[0])
			used := false
			if len(path) >= 2 {
				switch par := path[len(path)-2].(type) {
				case *ast.AssignStmt:
					used = len(par.Rhs) == 1 && par.Rhs[0] == ast.Expr(texts[0])
					if used && name == "LineInut" {
						// … and that variable is what every return hands back
						obj := useObj(info, par.Lhs[0])
						ast.Inspect(fi.Decl.Body, func(n ast.Node) bool {
							if rs, isR := n.(*ast.ReturnStmt); isR && len(rs.Results) == 1 && useObj(info, rs.Results[0]) != obj {
								used = false
							}
							return true
						})
						if nd := len(defsOf(info, fi.Decl.Body, obj)); nd != 1 {
							used = false
							det += fmt.Sprintf("; the line variable is assigned %d times", nd)
						}
					}
				case *ast.CallExpr:
					used = true
				case *ast.ReturnStmt:
					used = true
				}
			}
			if !used {
				ok = false
				det += "; the scanned text is not handed on unchanged"
			}
			if inLoopAST(fi.Decl.Body, texts[0]) {
				ok = false
			}
		} else if len(scans) == 1 {
			det += "; the Scan call lies in a loop (a call may consume more than one line)"
		}
		if ok && name == "LineInut" {
			// no line: every arm taken when Scan failed ends the process
			path := nodePath(fi.Decl.Body, scans[0])
			var ifs *ast.IfStmt
			for i := len(path) - 1; i >= 0; i-- {
				if s, isIf := path[i].(*ast.IfStmt); isIf {
					ifs = s
					break
				}
			}
			fatal := ifs != nil && ifs.Else != nil
			for e := ast.Stmt(nil); fatal && ifs != nil; {
				e = ifs.Else
				switch t := e.(type) {
				case *ast.BlockStmt:
					if !terminates(info, t) {
						fatal = false
					}
					ifs = nil
				case *ast.IfStmt:
					if !terminates(info, t.Body) {
						fatal = false
					}
					ifs = t
					if t.Else == nil {
						fatal = false
						ifs = nil
					}
				default:
					fatal = false
					ifs = nil
				}
			}
			if !fatal {
				ok = false
				det += "; a failed Scan does not end the process on every arm"
			}
		}
		r.Ob("line:"+name, p.Pos(fi.Decl.Pos()), ok, name+" consumes exactly one line per call and hands its text on unchanged: "+det)
	}
	// ---- number helpers
	for _, h := range []struct {
		name, parser string
		fatal        bool
	}{{"ValAsFloat", "ParseFloat", true}, {"TryValAsFloat", "ParseFloat", false}, {"ValAsInt", "ParseInt", true}} {
		fi := p.Funcs["hermes."+h.name]
		if fi == nil {
			r.Ob("number:"+h.name, "-", false, "hermes."+h.name+" not found")
			continue
		}
		info := fi.Pkg.TypesInfo
		var parses []*ast.CallExpr
		ast.Inspect(fi.Decl.Body, func(n ast.Node) bool {
			if c, ok := n.(*ast.CallExpr); ok {
				if f := callee(info, c); f != nil && f.Pkg() != nil && f.Pkg().Path() == "strconv" {
					parses = append(parses, c)
				}
			}
			return true
		})
		ok := len(parses) == 1
		det := fmt.Sprintf("%d strconv call(s)", len(parses))
		if ok {
			f := callee(info, parses[0])
			if f.Name() != h.parser {
				ok = false
				det += "; parser is strconv." + f.Name()
			}
		}
		if ok {
			// argument: the text parameter, trimmed or not
			var textParam types.Object
			if fl := fi.Decl.Type.Params.List; len(fl) > 0 && len(fl[0].Names) > 0 {
				textParam = info.Defs[fl[0].Names[0]]
			}
			arg := stripParens(parses[0].Args[0])
			for depth := 0; depth < 3; depth++ {
				if id, isId := arg.(*ast.Ident); isId {
					obj := useObj(info, id)
					if obj == textParam {
						break
					}
					ds := defsOf(info, fi.Decl.Body, obj)
					if len(ds) != 1 || ds[0].Rhs == nil {
						break
					}
					arg = stripParens(ds[0].Rhs)
					continue
				}
				if c, isC := arg.(*ast.CallExpr); isC {
					if g := callee(info, c); g != nil && g.Pkg() != nil && g.Pkg().Path() == "strings" && g.Name() == "TrimSpace" && len(c.Args) == 1 {
						arg = stripParens(c.Args[0])
						continue
					}
				}
				break
			}
			if useObj(info, arg) != textParam || textParam == nil {
				ok = false
				det += "; the parsed text is not the (trimmed) cell handed in"
			}
		}
		if ok {
			// the value variable
			path := nodePath(fi.Decl.Body, parses[0])
			as, _ := path[len(path)-2].(*ast.AssignStmt)
			if as == nil || len(as.Lhs) != 2 {
				ok = false
				det += "; the parser's two results are not assigned"
			} else {
				val, errv := useObj(info, as.Lhs[0]), useObj(info, as.Lhs[1])
				nret := 0
				ast.Inspect(fi.Decl.Body, func(n ast.Node) bool {
					if rs, isR := n.(*ast.ReturnStmt); isR {
						nret++
						if len(rs.Results) < 1 || useObj(info, rs.Results[0]) != val {
							ok = false
							det += fmt.Sprintf("; a return at %s hands back something other than the parsed value", p.Pos(rs.Pos()))
						}
						if !h.fatal && (len(rs.Results) != 2 || useObj(info, rs.Results[1]) != errv) {
							ok = false
							det += "; the parse error is not handed back"
						}
					}
					return true
				})
				if nret == 0 {
					ok = false
				}
				if len(defsOf(info, fi.Decl.Body, val)) != 1 {
					ok = false
					det += "; the parsed value is reassigned"
				}
				if h.fatal {
					// the statement after the parse: if err != nil { fatal }
					fatal := false
					for i, st := range fi.Decl.Body.List {
						if st == ast.Stmt(as) && i+1 < len(fi.Decl.Body.List) {
							if ifs, isIf := fi.Decl.Body.List[i+1].(*ast.IfStmt); isIf && isNilCmp(info, ifs.Cond, errv, token.NEQ) && terminates(info, ifs.Body) {
								fatal = true
							}
						}
					}
					if !fatal {
						ok = false
						det += "; a parse error does not end the run right after the parse"
					}
				}
			}
		}
		r.Ob("number:"+h.name, p.Pos(fi.Decl.Pos()), ok, h.name+" returns what strconv."+h.parser+" made of the trimmed cell: "+det)
	}
}

// yearExtensionRule — one-file-per-year weather: the file of a year is named by a three-character extension,
// "9yy" for the years before 2000 and "0yy" from 2000 on (year counted from 1900).  The rule evaluates the
// helper's branch condition at the two sides of the century (99 and 100, and at 1 and 199) in three-valued
// logic and demands that the arm taken builds an extension starting with the right digit.
func yearExtensionRule(p *Prog, r *Report, rule string) {
	r.Rule(rule, "the weather file of a year is the file named after that year: the extension helper takes its '0yy' arm for every year offset from 100 on (2000 included) and its '9yy' arm below, and the per-year path is the configured stem plus that extension", 2)
	fi := p.Funcs["hermes.yearToExtension"]
	if fi == nil {
		r.Ob("extension", "-", false, "hermes.yearToExtension not found")
		return
	}
	info := fi.Pkg.TypesInfo
	var year types.Object
	if pl := fi.Decl.Type.Params.List; len(pl) == 1 && len(pl[0].Names) == 1 {
		year = info.Defs[pl[0].Names[0]]
	}
	var ifs *ast.IfStmt
	idx := -1
	for i, st := range fi.Decl.Body.List {
		if s, ok := st.(*ast.IfStmt); ok && ifs == nil {
			ifs, idx = s, i
		}
	}
	if year == nil || ifs == nil {
		r.Ob("extension", p.Pos(fi.Decl.Pos()), false, "no decision on the year found in the extension helper")
		return
	}
	// first digit built by an arm: the string literals of the arm (literal concatenation or a format string)
	digit := func(nodes []ast.Node) string {
		d := ""
		for _, nd := range nodes {
			ast.Inspect(nd, func(n ast.Node) bool {
				if bl, ok := n.(*ast.BasicLit); ok && bl.Kind == token.STRING {
					if tv, ok := info.Types[bl]; ok && tv.Value != nil {
						s := constant.StringVal(tv.Value)
						if len(s) > 0 && (s[0] == '0' || s[0] == '9') {
							if d == "" {
								d = s[:1]
							} else if d != s[:1] {
								d = "?"
							}
						}
					}
				}
				return true
			})
		}
		return d
	}
	thenD := digit([]ast.Node{ifs.Body})
	var elseNodes []ast.Node
	if ifs.Else != nil {
		elseNodes = append(elseNodes, ifs.Else)
	} else {
		for _, st := range fi.Decl.Body.List[idx+1:] {
			elseNodes = append(elseNodes, st)
		}
	}
	elseD := digit(elseNodes)
	vals := map[types.Object]bool{year: true}
	ok := true
	det := ""
	for _, pr := range []struct {
		y    float64
		want string
	}{{1, "9"}, {99, "9"}, {100, "0"}, {101, "0"}, {199, "0"}} {
		t := evalRangeCond(info, ifs.Cond, nil, vals, "", pr.y)
		got := "?"
		switch t {
		case triT:
			got = thenD
		case triF:
			got = elseD
		}
		if got != pr.want {
			ok = false
			det += fmt.Sprintf("year offset %v builds an extension starting with %q, must be %q; ", pr.y, got, pr.want)
		}
	}
	r.Ob("extension:century", p.Pos(ifs.Pos()), ok, orStr(det, "offsets 1 and 99 take the '9yy' arm, 100, 101 and 199 the '0yy' arm"))
	// the per-year path
	vw := p.Funcs["hermes.HFilePath.VWdat"]
	okP := false
	if vw != nil {
		vinfo := vw.Pkg.TypesInfo
		ast.Inspect(vw.Decl.Body, func(n ast.Node) bool {
			rs, isR := n.(*ast.ReturnStmt)
			if !isR || len(rs.Results) != 1 {
				return true
			}
			be, isB := stripParens(rs.Results[0]).(*ast.BinaryExpr)
			if !isB || be.Op != token.ADD {
				return true
			}
			call, isC := stripParens(be.Y).(*ast.CallExpr)
			sel, isS := stripParens(be.X).(*ast.SelectorExpr)
			if isC && isS && sel.Sel.Name == "vwdatNoExt" && len(call.Args) == 1 {
				if f := callee(vinfo, call); f != nil && f.Name() == "yearToExtension" {
					if pl := vw.Decl.Type.Params.List; len(pl) == 1 && len(pl[0].Names) == 1 && useObj(vinfo, call.Args[0]) == vinfo.Defs[pl[0].Names[0]] {
						okP = true
					}
				}
			}
			return true
		})
	}
	pos := "-"
	if vw != nil {
		pos = p.Pos(vw.Decl.Pos())
	}
	r.Ob("extension:path", pos, okP, fmt.Sprintf("the per-year weather path is the configured stem followed by the extension of the requested year: %v", okP))
}

// exprInt64: the value of an integer constant expression.
func exprInt64(info *types.Info, e ast.Expr) (int64, bool) {
	tv, ok := info.Types[e]
	if !ok || tv.Value == nil {
		return 0, false
	}
	v := constant.ToInt(tv.Value)
	if v.Kind() != constant.Int {
		return 0, false
	}
	return constant.Int64Val(v)
}

// sessionOpenRule — the two file-access helpers of the session (Open, ReadFile) through which every input file
// is read: the session pool is used exactly when the caller asks for it; a failed direct open is handed back to
// the caller exactly when the caller asked to continue on error and ends the process otherwise; the success
// return carries the opened file.  Readers that must turn a missing file into a run error (weather year files)
// rely on the first, readers of shared parameter files on the pool.
func sessionOpenRule(p *Prog, r *Report, rule string) {
	r.Rule(rule, "session file access (Open, ReadFile): the pooled read is taken exactly under the descriptor's pool flag, the direct open exactly without it; after a failed direct open the error is returned exactly under the continue-on-error flag and the process ends otherwise; nothing is returned as success on the failure path; the optional log channel is used only when present; the result-file opener hands path and append flag on unchanged and ends the process exactly when opening failed", 9)
	for _, name := range []string{"Open", "ReadFile"} {
		fi := p.Funcs["hermes.HermesSession."+name]
		if fi == nil {
			r.Ob("session:"+name, "-", false, "HermesSession."+name+" not found")
			continue
		}
		info := fi.Pkg.TypesInfo
		body := fi.Decl.Body
		var fd types.Object
		if pl := fi.Decl.Type.Params.List; len(pl) == 1 && len(pl[0].Names) == 1 {
			fd = info.Defs[pl[0].Names[0]]
		}
		flag := func(e ast.Expr, field string) bool {
			sel, ok := stripParens(e).(*ast.SelectorExpr)
			return ok && sel.Sel.Name == field && useObj(info, sel.X) == fd && fd != nil
		}
		condsOf := func(n ast.Node) string {
			cs, _ := astPathConds(info, body, n)
			var ss []string
			for _, c := range cs {
				switch {
				case flag(c.E, "UseFilePool"):
					ss = append(ss, map[bool]string{false: "pool", true: "!pool"}[c.Neg])
				case flag(c.E, "ContinueOnError"):
					ss = append(ss, map[bool]string{false: "continue", true: "!continue"}[c.Neg])
				default:
					if be, ok := stripParens(c.E).(*ast.BinaryExpr); ok && (be.Op == token.NEQ || be.Op == token.EQL) {
						if tv, ok := info.Types[be.Y]; ok && tv.IsNil() {
							if o := useObj(info, be.X); o != nil && types.Implements(o.Type(), errorType.Underlying().(*types.Interface)) {
								failed := (be.Op == token.NEQ) != c.Neg
								ss = append(ss, map[bool]string{true: "failed", false: "!failed"}[failed])
								continue
							}
						}
					}
					ss = append(ss, "other("+types.ExprString(c.E)+")")
				}
			}
			sort.Strings(ss)
			return strings.Join(ss, " ∧ ")
		}
		var poolCall, openCall *ast.CallExpr
		ast.Inspect(body, func(n ast.Node) bool {
			if c, ok := n.(*ast.CallExpr); ok {
				if f := callee(info, c); f != nil {
					switch {
					case f.Name() == "Get" && f.Pkg() != nil && f.Pkg().Name() == "hermes":
						poolCall = c
					case f.Pkg() != nil && f.Pkg().Path() == "os" && (f.Name() == "Open" || f.Name() == "ReadFile"):
						openCall = c
					}
				}
			}
			return true
		})
		if poolCall == nil || openCall == nil {
			r.Ob("session:"+name+":calls", p.Pos(fi.Decl.Pos()), false, "pooled read or direct open not found")
			continue
		}
		pc, oc := condsOf(poolCall), condsOf(openCall)
		r.Ob("session:"+name+":pool", p.Pos(poolCall.Pos()), pc == "pool" && oc == "!pool", fmt.Sprintf("pooled read under [%s] (must be the pool flag), direct open under [%s] (must be its negation)", pc, oc))
		// the opened path is the descriptor's path
		okPath := len(openCall.Args) == 1 && flag(openCall.Args[0], "FilePath")
		r.Ob("session:"+name+":path", p.Pos(openCall.Pos()), okPath, fmt.Sprintf("the file opened is the descriptor's path: %v", okPath))
		// returns
		okRet, det := true, ""
		nErr, nOK := 0, 0
		ast.Inspect(body, func(n ast.Node) bool {
			rs, ok := n.(*ast.ReturnStmt)
			if !ok || len(rs.Results) == 0 {
				return true
			}
			last := rs.Results[len(rs.Results)-1]
			cs := condsOf(rs)
			if tv, ok := info.Types[last]; ok && tv.IsNil() {
				// success return: pooled arm or after a successful open
				nOK++
				if cs != "pool" && cs != "!failed ∧ !pool" && cs != "!pool" {
					okRet = false
					det += fmt.Sprintf("success returned under [%s]; ", cs)
				}
				if cs == "!pool" {
					// fall-through after the error block: every arm of the error block must have left the function
					// (checked below through the fatal call)
				}
			} else {
				nErr++
				if cs != "!pool ∧ continue ∧ failed" {
					okRet = false
					det += fmt.Sprintf("error returned under [%s], must be [!pool ∧ continue ∧ failed]; ", cs)
				}
			}
			return true
		})
		// the fatal exit
		nFatal := 0
		ast.Inspect(body, func(n ast.Node) bool {
			if c, ok := n.(*ast.CallExpr); ok {
				if f := callee(info, c); f != nil && f.Pkg() != nil && f.Pkg().Path() == "log" && strings.HasPrefix(f.Name(), "Fatal") {
					nFatal++
					if cs := condsOf(c); cs != "!continue ∧ !pool ∧ failed" {
						okRet = false
						det += fmt.Sprintf("process ended under [%s], must be [!continue ∧ !pool ∧ failed]; ", cs)
					}
				}
			}
			return true
		})
		if nErr != 1 || nFatal != 1 || nOK != 2 {
			okRet = false
			det += fmt.Sprintf("%d error returns, %d fatal exits, %d success returns (expected 1, 1, 2)", nErr, nFatal, nOK)
		}
		r.Ob("session:"+name+":failure", p.Pos(openCall.Pos()), okRet, orStr(det, "error returned under continue-on-error, process ended otherwise, success only without a failure"))
		// a send on the optional log channel is guarded by the channel being there (a send on a nil channel blocks for ever)
		ast.Inspect(body, func(n ast.Node) bool {
			sd, ok := n.(*ast.SendStmt)
			if !ok || !flag(sd.Chan, "debugOut") {
				return true
			}
			cs, _ := astPathConds(info, body, sd)
			guarded := false
			for _, c := range cs {
				if be, ok := stripParens(c.E).(*ast.BinaryExpr); ok && flag(be.X, "debugOut") {
					if tv, ok := info.Types[be.Y]; ok && tv.IsNil() && (be.Op == token.NEQ) != c.Neg {
						guarded = true
					}
				}
			}
			r.Ob("session:"+name+":log-channel", p.Pos(sd.Pos()), guarded, fmt.Sprintf("the message to the optional log channel is sent only when the channel is not nil: %v (a run started without a log channel would block for ever on its first unreadable file)", guarded))
			return true
		})
	}
	// the result-file opener: hands the path and the append flag on unchanged, ends the process exactly on failure
	if fi := p.Funcs["hermes.HermesSession.OpenResultFile"]; fi == nil {
		r.Ob("session:OpenResultFile", "-", false, "HermesSession.OpenResultFile not found")
	} else {
		info := fi.Pkg.TypesInfo
		var params []types.Object
		for _, f := range fi.Decl.Type.Params.List {
			for _, n := range f.Names {
				params = append(params, info.Defs[n])
			}
		}
		ok, det := false, "call of the writer factory not found"
		var resObj, errObj types.Object
		ast.Inspect(fi.Decl.Body, func(n ast.Node) bool {
			as, isAs := n.(*ast.AssignStmt)
			if !isAs || len(as.Lhs) != 2 || len(as.Rhs) != 1 {
				return true
			}
			call, isC := as.Rhs[0].(*ast.CallExpr)
			if !isC || len(call.Args) != 2 || len(params) != 2 {
				return true
			}
			if sel, isS := stripParens(call.Fun).(*ast.SelectorExpr); !isS || sel.Sel.Name != "HermesOutWriter" {
				return true
			}
			ok = useObj(info, call.Args[0]) == params[0] && useObj(info, call.Args[1]) == params[1]
			det = fmt.Sprintf("path and append flag handed on in order: %v", ok)
			resObj, errObj = useObj(info, as.Lhs[0]), useObj(info, as.Lhs[1])
			return true
		})
		if ok {
			nF, nR := 0, 0
			ast.Inspect(fi.Decl.Body, func(n ast.Node) bool {
				switch t := n.(type) {
				case *ast.CallExpr:
					if f := callee(info, t); f != nil && f.Pkg() != nil && f.Pkg().Path() == "log" && strings.HasPrefix(f.Name(), "Fatal") {
						nF++
						cs, _ := astPathConds(info, fi.Decl.Body, t)
						if len(cs) != 1 || !isNilCmp(info, cs[0].E, errObj, token.NEQ) || cs[0].Neg {
							ok = false
							det += "; the process is not ended exactly under 'opening failed'"
						}
					}
				case *ast.ReturnStmt:
					nR++
					if len(t.Results) != 1 || useObj(info, t.Results[0]) != resObj {
						ok = false
						det += "; something other than the opened writer is returned"
					}
				}
				return true
			})
			if nF != 1 || nR != 1 {
				ok = false
				det += fmt.Sprintf("; %d fatal exits, %d returns (expected 1, 1)", nF, nR)
			}
		}
		r.Ob("session:OpenResultFile", p.Pos(fi.Decl.Pos()), ok, det)
	}
}
