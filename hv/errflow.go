package main

// E7 — error must-propagate on SSA.

import (
	"go/token"
	"go/types"
	"sort"
	"strings"

	"golang.org/x/tools/go/ssa"
)

type errSite struct {
	Caller    *ssa.Function
	Callee    *ssa.Function
	Instr     ssa.CallInstruction
	Propagate bool
	How       string
}

var errorType = types.Universe.Lookup("error").Type()

func returnsError(sig *types.Signature) int {
	for i := 0; i < sig.Results().Len(); i++ {
		if types.Identical(sig.Results().At(i).Type(), errorType) {
			return i
		}
	}
	return -1
}

// errSites lists every call, located in a function of scope, to an in-scope
// function that returns an error, with its propagation verdict.
func errSites(s *ssaProg, scope map[*ssa.Function]bool) []*errSite {
	var out []*errSite
	for _, fn := range s.fns {
		if !scope[fn] {
			continue
		}
		for _, b := range fn.Blocks {
			for _, in := range b.Instrs {
				ci, ok := in.(ssa.CallInstruction)
				if !ok {
					continue
				}
				callee := ci.Common().StaticCallee()
				if callee == nil || !s.inScope[callee] {
					continue
				}
				k := returnsError(callee.Signature)
				if k < 0 {
					continue
				}
				site := &errSite{Caller: fn, Callee: callee, Instr: ci}
				call, isCall := in.(*ssa.Call)
				if !isCall {
					site.How = "result discarded (go/defer)"
					out = append(out, site)
					continue
				}
				var ev ssa.Value
				if callee.Signature.Results().Len() == 1 {
					ev = call
				} else if refs := call.Referrers(); refs != nil {
					for _, u := range *refs {
						if ex, ok := u.(*ssa.Extract); ok && ex.Index == k {
							ev = ex
						}
					}
				}
				if ev == nil {
					site.How = "error result is never extracted (blank identifier or expression statement)"
					out = append(out, site)
					continue
				}
				site.Propagate, site.How = errReachesSink(ev, fn, s.inScope)
				out = append(out, site)
			}
		}
	}
	sort.Slice(out, func(i, j int) bool {
		if out[i].Instr.Pos() != out[j].Instr.Pos() {
			return out[i].Instr.Pos() < out[j].Instr.Pos()
		}
		return out[i].Caller.String() < out[j].Caller.String()
	})
	return out
}

// errReachesSink follows the error value through φ, interface conversions,
// local variables and wrappers to a propagation sink.
func errReachesSink(ev ssa.Value, origin *ssa.Function, inScope map[*ssa.Function]bool) (bool, string) {
	seen := map[ssa.Value]bool{}
	work := []ssa.Value{ev}
	used := false
	for len(work) > 0 {
		v := work[len(work)-1]
		work = work[:len(work)-1]
		if seen[v] {
			continue
		}
		seen[v] = true
		refs := v.Referrers()
		if refs == nil {
			continue
		}
		for _, u := range *refs {
			switch t := u.(type) {
			case *ssa.DebugRef:
			case *ssa.Return:
				if t.Parent() == origin {
					return true, "returned to the caller"
				}
			case *ssa.Phi, *ssa.MakeInterface, *ssa.ChangeInterface, *ssa.ChangeType:
				used = true
				work = append(work, u.(ssa.Value))
			case *ssa.Store:
				used = true
				if t.Val != v {
					continue
				}
				switch a := t.Addr.(type) {
				case *ssa.Alloc:
					if rr := a.Referrers(); rr != nil {
						for _, x := range *rr {
							if ld, ok := x.(*ssa.UnOp); ok && ld.Op == token.MUL {
								work = append(work, ld)
							}
							if mc, ok := x.(*ssa.MakeClosure); ok {
								_ = mc // captured: loads inside the closure are not followed
							}
						}
					}
				case *ssa.FieldAddr:
					if st, ok := a.X.Type().Underlying().(*types.Pointer); ok {
						if sn, ok := st.Elem().Underlying().(*types.Struct); ok && sn.Field(a.Field).Name() == "Err" && isNamed(a.X.Type(), "/hermes", "RunReturn") {
							return true, "stored in RunReturn.Err"
						}
					}
				case *ssa.FreeVar:
					// variable of the enclosing function: treat as propagated to it
					return true, "assigned to a variable of the enclosing function"
				case *ssa.IndexAddr:
					// collected into an error list: follow the list
					work = append(work, a.X)
				}
			case *ssa.Slice:
				work = append(work, t)
			case *ssa.UnOp:
				if t.Op == token.MUL {
					work = append(work, t)
				}
			case ssa.CallInstruction:
				used = true
				name := staticCalleeName(t.Common())
				switch {
				case strings.HasPrefix(name, "log.Fatal"), strings.HasPrefix(name, "log.Panic"), strings.HasPrefix(name, "(*log.Logger).Fatal"):
					return true, "process ends through " + name
				case name == "fmt.Errorf", name == "errors.Join", strings.HasPrefix(name, "fmt.Sprint"):
					if val := t.Value(); val != nil {
						work = append(work, val)
					}
				default:
					if b, ok := t.Common().Value.(*ssa.Builtin); ok && b.Name() == "panic" {
						return true, "panic"
					}
					// passed to an in-scope function: follow the parameter
					if f := t.Common().StaticCallee(); f != nil && f.Blocks != nil && inScope[f] {
						for i, a := range t.Common().Args {
							if a == v && i < len(f.Params) {
								work = append(work, f.Params[i])
								// and its result (e.g. anyWeatherError(list) returns the first error)
								if val := t.Value(); val != nil {
									work = append(work, val)
								}
							}
						}
					}
				}
			case *ssa.BinOp, *ssa.If:
				used = true
			case *ssa.Extract:
				work = append(work, t)
			}
		}
	}
	if used {
		return false, "error is tested or logged but never returned, wrapped, stored in the run result or turned into a fatal exit"
	}
	return false, "error value has no use at all"
}
