package main

import (
	"fmt"
	"go/ast"
	"go/token"
	"go/types"
)

// dispatcherRule: every batch line in range is started exactly once and every
// started run's result is collected (shared by C03 and C11).
func dispatcherRule(p *Prog, r *Report, rule string) {
	r.Rule(rule, "dispatcher: the goroutine launch of a batch line cannot be skipped (its slot guard is implied by the exit condition of the preceding wait loop and by the counter invariant); the active-run counter is incremented only next to the launch and decremented only on a received result, which is also handed to the error summary; a drain loop collects the remaining results; every channel handed to a run is made unconditionally; every receive site keeps the summary in the list that is printed; the id a run reports under is the index of its line in the batch handed to the dispatcher", 9)
	key := "hermes2go.doConcurrentBatchRun"
	fi := p.Funcs[key]
	x := walked(p, key)
	if fi == nil || x == nil {
		r.Ob("dispatcher", "-", false, "function "+key+" not found")
		return
	}
	info := fi.Pkg.TypesInfo
	var launch *Event
	for _, e := range x.Events {
		if e.Kind == "call" && e.Go && e.Name == "hermes.HermesSession.Run" {
			launch = e
		}
	}
	if launch == nil {
		r.Ob("launch", "-", false, "no 'go session.Run(...)' in the dispatcher")
		return
	}
	if len(launch.Loops) != 1 || !launch.Loops[0].Range {
		r.Ob("launch", p.Pos(launch.Pos), false, "the launch is not directly inside the loop over the batch lines")
		return
	}
	L := launch.Loops[0]
	keyVar := ""
	if L.VarObj != nil {
		keyVar = L.VarObj.Name()
	}
	// the counter: the variable incremented under the slot guard next to the launch
	var counter types.Object
	for _, e := range x.Events {
		if e.Kind == "assign" && e.Local != nil && innermost(e, L) && e.Val.Sub(e.Old).Equal(PInt(1)) && guardKeys(e.Guards) == guardKeys(launch.Guards) {
			counter = e.Local
		}
	}
	if counter == nil {
		r.Ob("counter", p.Pos(launch.Pos), false, "no active-run counter is incremented next to the launch")
		return
	}
	// guards of the launch: besides the line-range filter and the wait loop's exit, at most one slot test on the
	// counter, in a form the counter invariant (0 ≤ active ≤ limit) together with the wait loop's exit implies
	// the counter occurs in guards as a loop-versioned atom: match by name
	counterIn := func(P Poly) (sign int, rest Poly, ok bool) {
		rest = P
		for _, t := range P.T {
			if len(t.M) == 1 && t.M[0].A.Root == counter.Name() && t.M[0].E == 1 && len(t.M[0].A.Idx) == 0 {
				if ok {
					return 0, P, false
				}
				sign, ok = t.C.Sign(), true
				rest = P.Sub(Poly{T: map[string]*Term{}}.Add(PAtom(t.M[0].A).Scale(t.C)))
				if !t.C.IsInt() || (t.C.Num().Int64() != 1 && t.C.Num().Int64() != -1) {
					return 0, P, false
				}
			}
		}
		return
	}
	nSlot := 0
	okSlot := true
	det := ""
	exitP := Poly{}
	hasExit := false
	for _, g := range flattenGuards(launch.Guards) {
		if _, _, isC := counterIn(g.P); g.Kind == "cmp" && g.Loop && g.Op == token.NEQ && isC {
			exitP, hasExit = stripVersions(g.P), true
		}
	}
	for _, g := range flattenGuards(launch.Guards) {
		mentionsKey := false
		condAtoms(g, func(a *Atom) {
			if a.Kind == "loop" && a.Root == keyVar {
				mentionsKey = true
			}
		})
		if mentionsKey {
			continue // line-range filter (start/end line): checked under C17
		}
		if g.Kind == "cmp" && g.Loop && g.Op == token.NEQ {
			continue
		}
		if g.Kind != "cmp" {
			okSlot = false
			det += "launch is guarded by an unanalysable condition " + g.Key() + "; "
			continue
		}
		nSlot++
		// orientation: coefficient of the counter
		sign, _, _ := counterIn(g.P)
		good := false
		switch {
		case sign > 0:
			good = g.Op == token.LSS || g.Op == token.LEQ || g.Op == token.NEQ
		case sign < 0:
			good = g.Op == token.GTR || g.Op == token.GEQ || g.Op == token.NEQ
		}
		same := hasExit && (stripVersions(g.P).Equal(exitP) || stripVersions(g.P).Equal(exitP.Neg()))
		if !good || !same {
			okSlot = false
			det += fmt.Sprintf("launch guard %s is not implied by leaving the wait loop (%v) with active ≤ limit: a batch line can be skipped; ", g.Key(), hasExit)
		} else {
			det += fmt.Sprintf("launch guard %s follows from the wait loop's exit and the counter invariant; ", g.Key())
		}
	}
	if nSlot == 0 {
		det = "launch is unconditional for lines in range"
	}
	r.Ob("launch-guard", p.Pos(launch.Pos), okSlot && nSlot <= 1, det)
	// result channel: argument of the launch that has channel type with element *RunReturn
	var resObj types.Object
	for _, a := range launch.Call.Args {
		if id, ok := a.(*ast.Ident); ok {
			if ch, ok := info.TypeOf(a).Underlying().(*types.Chan); ok {
				if pt, ok := ch.Elem().(*types.Pointer); ok && isNamed(pt, "/hermes", "RunReturn") {
					resObj = info.Uses[id]
				}
			}
		}
	}
	if resObj == nil {
		r.Ob("result-channel", p.Pos(launch.Pos), false, "the launch passes no result channel")
		return
	}
	// every channel handed to a run exists on every path: Run takes a nil log channel for "single run,
	// not part of a batch" and then ends the whole process on a run error (log.Fatal) instead of reporting
	// the error for its own line — a channel that is only made under a condition turns one failing line
	// into the loss of all concurrently running lines
	for _, a := range launch.Call.Args {
		id, ok := a.(*ast.Ident)
		if !ok {
			continue
		}
		if _, isCh := info.TypeOf(a).Underlying().(*types.Chan); !isCh {
			continue
		}
		obj := info.Uses[id]
		if _, isParam := paramIndex(fi.Decl, obj); isParam {
			continue
		}
		nDef, okDef := 0, true
		why := ""
		var visit func(list []ast.Stmt, top bool)
		visit = func(list []ast.Stmt, top bool) {
			for _, s := range list {
				switch t := s.(type) {
				case *ast.AssignStmt:
					for i, l := range t.Lhs {
						lid, ok := l.(*ast.Ident)
						if !ok || (info.Defs[lid] != obj && info.Uses[lid] != obj) {
							continue
						}
						nDef++
						isMake := false
						if i < len(t.Rhs) {
							if call, ok := t.Rhs[i].(*ast.CallExpr); ok {
								if fid, ok := call.Fun.(*ast.Ident); ok && fid.Name == "make" {
									isMake = true
								}
							}
						}
						if !isMake {
							okDef, why = false, "assigned something that is not make(chan …)"
						}
						if !top {
							okDef, why = false, "made only under a condition or inside a loop"
						}
					}
				case *ast.DeclStmt:
					if gd, ok := t.Decl.(*ast.GenDecl); ok {
						for _, sp := range gd.Specs {
							if vs, ok := sp.(*ast.ValueSpec); ok {
								for _, n := range vs.Names {
									if info.Defs[n] == obj && len(vs.Values) == 0 {
										okDef, why = false, "declared without a value (nil channel)"
									}
								}
							}
						}
					}
				}
				ast.Inspect(s, func(n ast.Node) bool {
					if n == s {
						return true
					}
					if b, ok := n.(*ast.BlockStmt); ok {
						visit(b.List, false)
						return false
					}
					if cc, ok := n.(*ast.CaseClause); ok {
						visit(cc.Body, false)
						return false
					}
					if cc, ok := n.(*ast.CommClause); ok {
						visit(cc.Body, false)
						return false
					}
					return true
				})
			}
		}
		visit(fi.Decl.Body.List, true)
		if nDef == 0 {
			okDef, why = false, "never assigned in the dispatcher"
		}
		r.Ob("channel-made:"+id.Name, p.Pos(launch.Pos), okDef, fmt.Sprintf("channel %s handed to every run is made unconditionally in the dispatcher (%d definition(s)) %s", id.Name, nDef, why))
	}
	// all writes of the counter
	for _, e := range x.Events {
		if e.Kind != "assign" || e.Local != counter {
			continue
		}
		d := e.Val.Sub(e.Old)
		switch {
		case d.Equal(PInt(1)):
			r.Ob("counter:inc", p.Pos(e.Pos), guardKeys(e.Guards) == guardKeys(launch.Guards), "increment happens exactly where a run is launched")
		case d.Equal(PInt(-1)):
			// must be inside a comm clause receiving from the result channel (checked below by AST)
		default:
			if !(e.Old.Equal(pVar(counter.Name())) && e.Val.IsZero()) { // declaration zero value
				r.Ob("counter:write", p.Pos(e.Pos), false, "active-run counter is assigned "+e.Val.String())
			}
		}
	}
	// select clauses
	recv := 0
	var summaryTargets []types.Object
	ast.Inspect(fi.Decl.Body, func(n ast.Node) bool {
		cc, ok := n.(*ast.CommClause)
		if !ok || cc.Comm == nil {
			return true
		}
		var rx *ast.UnaryExpr
		var got types.Object
		switch c := cc.Comm.(type) {
		case *ast.AssignStmt:
			if len(c.Rhs) == 1 {
				rx, _ = c.Rhs[0].(*ast.UnaryExpr)
				if id, ok := c.Lhs[0].(*ast.Ident); ok {
					got = info.Defs[id]
				}
			}
		case *ast.ExprStmt:
			rx, _ = c.X.(*ast.UnaryExpr)
		}
		if rx == nil || rx.Op != token.ARROW {
			return true
		}
		id, ok := rx.X.(*ast.Ident)
		if !ok || info.Uses[id] != resObj {
			// decrement outside a result receive?
			for _, s := range cc.Body {
				if inc, ok := s.(*ast.IncDecStmt); ok && inc.Tok == token.DEC {
					if cid, ok := inc.X.(*ast.Ident); ok && info.Uses[cid] == counter {
						r.Ob("counter:dec", p.Pos(inc.Pos()), false, "active-run counter is decremented on a message that is not a run result: a slot is freed while the run is still active, or a batch line is lost")
					}
				}
			}
			return true
		}
		recv++
		dec, summary := false, false
		// the statement that hands the result to the summary: an assignment whose target is recorded
		for _, st := range cc.Body {
			if as, ok := st.(*ast.AssignStmt); ok && len(as.Lhs) == 1 && len(as.Rhs) == 1 {
				if call, ok := as.Rhs[0].(*ast.CallExpr); ok {
					for _, a := range call.Args {
						if aid, ok := a.(*ast.Ident); ok && got != nil && info.Uses[aid] == got {
							summaryTargets = append(summaryTargets, useObj(info, as.Lhs[0]))
						}
					}
				}
			}
		}
		for _, s := range cc.Body {
			if inc, ok := s.(*ast.IncDecStmt); ok && inc.Tok == token.DEC {
				if cid, ok := inc.X.(*ast.Ident); ok && info.Uses[cid] == counter {
					dec = true
				}
			}
			ast.Inspect(s, func(m ast.Node) bool {
				if call, ok := m.(*ast.CallExpr); ok {
					for _, a := range call.Args {
						if aid, ok := a.(*ast.Ident); ok && got != nil && info.Uses[aid] == got {
							summary = true
						}
					}
				}
				return true
			})
		}
		r.Ob("receive", p.Pos(cc.Pos()), dec && summary, fmt.Sprintf("result received: counter decremented: %v, result handed to the error summary: %v", dec, summary))
		return true
	})
	if recv < 2 {
		r.Ob("receive", "-", false, fmt.Sprintf("%d receive sites on the result channel, expected the wait loop and the drain loop", recv))
	}
	// every receive site keeps what the summary function returns, in the one variable that is printed after the drain loop
	{
		var printed types.Object
		for _, st := range fi.Decl.Body.List {
			if rs, ok := st.(*ast.RangeStmt); ok && rs.Pos() > L.Stmt.End() {
				if o := useObj(info, rs.X); o != nil {
					printed = o
				}
			}
		}
		okS := printed != nil && len(summaryTargets) == recv && recv > 0
		for _, o := range summaryTargets {
			if o != printed {
				okS = false
			}
		}
		name := "-"
		if printed != nil {
			name = printed.Name()
		}
		r.Ob("summary-kept", p.Pos(fi.Decl.Pos()), okS, fmt.Sprintf("%d of %d receive sites assign the summary function's result to %s, the list printed after the drain loop (a site that drops it loses the failures collected there)", len(summaryTargets), recv, name))
	}
	// drain loop after the range: for counter > 0
	drain := false
	for _, l := range loopsOf(x) {
		if l.Cond != nil && l.Cond.Kind == "cmp" && l.Stmt.Pos() > L.Stmt.End() {
			// exactly "counter > 0" (or counter != 0, counter >= 1): a weaker test leaves the last run(s) unawaited
			sg, rest, isC := counterIn(l.Cond.P)
			c0, isConst := rest.ConstInt()
			if isC && isConst && ((sg > 0 && c0 == 0 && (l.Cond.Op == token.GTR || l.Cond.Op == token.NEQ)) || (sg < 0 && c0 == 0 && (l.Cond.Op == token.LSS || l.Cond.Op == token.NEQ)) ||
				(sg > 0 && c0 == -1 && l.Cond.Op == token.GEQ) || (sg < 0 && c0 == 1 && l.Cond.Op == token.LEQ)) {
				drain = true
			}
		}
	}
	r.Ob("drain", p.Pos(fi.Decl.Pos()), drain, "after the last launch a loop runs while the active-run counter is positive (all results are collected before the summary is printed)")
	// the id under which a run reports (and under which the summary lists a failure) is the position of its line in
	// the batch: the loop ranges over the dispatcher's lines parameter itself, nothing reassigns or re-slices that
	// parameter, and the id handed to the run is formatted from the loop's index and nothing else
	{
		rs, _ := L.Stmt.(*ast.RangeStmt)
		assigned := func(obj types.Object, in ast.Node) int {
			n := 0
			ast.Inspect(in, func(m ast.Node) bool {
				switch s := m.(type) {
				case *ast.AssignStmt:
					for _, l := range s.Lhs {
						if id, ok := l.(*ast.Ident); ok && (info.Uses[id] == obj || (info.Defs[id] == obj && s.Tok != token.DEFINE)) {
							n++
						}
					}
				case *ast.IncDecStmt:
					if id, ok := s.X.(*ast.Ident); ok && info.Uses[id] == obj {
						n++
					}
				}
				return true
			})
			return n
		}
		okID, det := false, "range statement of the batch lines not found"
		if rs != nil {
			ranged := useObj(info, rs.X)
			_, isParam := paramIndex(fi.Decl, ranged)
			reassigned := ranged != nil && assigned(ranged, fi.Decl.Body) > 0
			var idx types.Object
			if id, ok := rs.Key.(*ast.Ident); ok {
				idx = info.Defs[id]
			}
			// the id argument of the launch
			var idArg ast.Expr
			ast.Inspect(rs.Body, func(n ast.Node) bool {
				if g, ok := n.(*ast.GoStmt); ok && len(g.Call.Args) >= 3 {
					idArg = g.Call.Args[2]
				}
				return true
			})
			fromIdx := false
			if id, ok := idArg.(*ast.Ident); ok && idx != nil {
				o := info.Uses[id]
				n := 0
				ast.Inspect(rs.Body, func(m ast.Node) bool {
					as, ok := m.(*ast.AssignStmt)
					if !ok {
						return true
					}
					for k, l := range as.Lhs {
						lid, ok := l.(*ast.Ident)
						if !ok || (info.Defs[lid] != o && info.Uses[lid] != o) || k >= len(as.Rhs) {
							continue
						}
						n++
						// fmt.Sprintf(format, i): the only value argument is the loop index itself
						if c, ok := as.Rhs[k].(*ast.CallExpr); ok && len(c.Args) == 2 {
							if a, ok := ast.Unparen(c.Args[1]).(*ast.Ident); ok && info.Uses[a] == idx {
								fromIdx = true
							}
						}
					}
					return true
				})
				if n != 1 {
					fromIdx = false
				}
			}
			idxAssigned := idx != nil && assigned(idx, rs.Body) > 0
			okID = isParam && !reassigned && fromIdx && !idxAssigned
			det = fmt.Sprintf("ranges over the lines parameter: %v, parameter reassigned or re-sliced in the dispatcher: %v, the id handed to the run is formatted from the loop index alone: %v, index assigned in the body: %v", isParam, reassigned, fromIdx, idxAssigned)
		}
		r.Ob("log-id", p.Pos(L.Stmt.Pos()), okID, det)
	}
}

// condAtoms visits all atoms of a condition tree.
func condAtoms(c *Cond, f func(a *Atom)) {
	if c.Kind == "cmp" {
		c.P.walkAtoms(f)
	}
	for _, s := range c.Sub {
		condAtoms(s, f)
	}
}

// paramIndex reports whether obj is a parameter of fd.
func paramIndex(fd *ast.FuncDecl, obj types.Object) (int, bool) {
	if obj == nil || fd.Type.Params == nil {
		return 0, false
	}
	k := 0
	for _, f := range fd.Type.Params.List {
		for _, n := range f.Names {
			if n.Pos() == obj.Pos() {
				return k, true
			}
			k++
		}
	}
	return 0, false
}
