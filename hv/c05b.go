package main

// C05.R3b — rendering of a record: both writers emit, per field, the field
// text exactly once and then the separator decision, on every non-error path
// of the field loop; no continue/break leaves an iteration early; the
// fixed-width writer's alignment chain covers every constant of the
// alignment type.

import (
	"fmt"
	"go/ast"
	"go/token"
	"go/types"
	"sort"
	"strings"
)

func c05Render(p *Prog, r *Report) {
	r.Rule("C05.R3b", "record rendering: in both line writers every non-error path of one iteration of the field loop writes the field text exactly once and then reaches the separator decision, which is the last statement of the loop body and depends on the field position only; no continue or break leaves an iteration early; the alignment chain of the fixed-width writer covers every constant of the alignment type", 4)
	for _, key := range []string{"hermes.OutputLine.writeHermesString", "hermes.OutputLine.writeCSVString"} {
		fi := p.Funcs[key]
		name := shortKey(key)
		if fi == nil {
			r.Ob("writer:"+name, "-", false, key+" not found")
			continue
		}
		info := fi.Pkg.TypesInfo
		var rng *ast.RangeStmt
		for _, s := range fi.Decl.Body.List {
			if rs, ok := s.(*ast.RangeStmt); ok && rng == nil {
				rng = rs
			}
		}
		if rng == nil || rng.Value == nil || rng.Key == nil {
			r.Ob("loop:"+name, p.Pos(fi.Decl.Pos()), false, "no 'for i, field := range fields' loop at the top level of the writer")
			continue
		}
		fieldObj := info.Defs[rng.Value.(*ast.Ident)]
		posObj := info.Defs[rng.Key.(*ast.Ident)]
		// (a) no early exit from an iteration
		early := ""
		var scan func(n ast.Node, depth int)
		scan = func(n ast.Node, depth int) {
			ast.Inspect(n, func(m ast.Node) bool {
				switch t := m.(type) {
				case *ast.ForStmt:
					if m != n {
						scan(t.Body, depth+1)
						return false
					}
				case *ast.RangeStmt:
					if m != n {
						scan(t.Body, depth+1)
						return false
					}
				case *ast.BranchStmt:
					if depth == 0 && (t.Tok == token.CONTINUE || t.Tok == token.BREAK || t.Tok == token.GOTO) {
						early = p.Pos(t.Pos()) + " " + t.Tok.String()
					}
				case *ast.FuncLit:
					return false
				}
				return true
			})
		}
		scan(rng.Body, 0)
		r.Ob("no-early-exit:"+name, p.Pos(rng.Pos()), early == "", fmt.Sprintf("no continue/break leaves an iteration of the field loop before the separator decision %s", early))
		// (b) separator decision is the last statement, condition over the position only
		list := rng.Body.List
		okSep := false
		sepDetail := "the loop body does not end with the separator decision"
		if len(list) > 0 {
			if ifs, ok := list[len(list)-1].(*ast.IfStmt); ok && ifs.Else == nil && ifs.Init == nil {
				onlyPos := true
				mentionsPos := false
				ast.Inspect(ifs.Cond, func(m ast.Node) bool {
					if id, ok := m.(*ast.Ident); ok {
						o := info.Uses[id]
						if o == posObj {
							mentionsPos = true
						} else if o == fieldObj {
							onlyPos = false
						}
					}
					return true
				})
				writesRune := false
				ast.Inspect(ifs.Body, func(m ast.Node) bool {
					if call, ok := m.(*ast.CallExpr); ok {
						if se, ok := call.Fun.(*ast.SelectorExpr); ok && se.Sel.Name == "WriteRune" {
							writesRune = true
						}
					}
					return true
				})
				okSep = onlyPos && mentionsPos && writesRune
				sepDetail = fmt.Sprintf("last statement of the field loop: if %s { write separator } — depends on the field position only: %v", types.ExprString(ifs.Cond), onlyPos && mentionsPos)
			}
		}
		r.Ob("separator:"+name, p.Pos(rng.Pos()), okSep, sepDetail)
		// (c) field text written exactly once on every path: count Write(field) per arm of the top-level chain
		countWrites := func(stmts []ast.Stmt) int {
			n := 0
			for _, s := range stmts {
				ast.Inspect(s, func(m ast.Node) bool {
					switch t := m.(type) {
					case *ast.ForStmt, *ast.RangeStmt:
						// a write of the field inside a nested loop would repeat it
						cnt := 0
						ast.Inspect(t, func(k ast.Node) bool {
							if call, ok := k.(*ast.CallExpr); ok && isFieldWrite(info, call, fieldObj) {
								cnt++
							}
							return true
						})
						n += 100 * cnt
						return false
					case *ast.CallExpr:
						if isFieldWrite(info, t, fieldObj) {
							n++
						}
					}
					return true
				})
			}
			return n
		}
		// split the body (without the trailing separator decision) into the chain arms, if any
		var chain *ast.IfStmt
		pre := 0
		for _, s := range list[:maxInt(len(list)-1, 0)] {
			if ifs, ok := s.(*ast.IfStmt); ok && ifs.Else != nil && chain == nil {
				chain = ifs
				continue
			}
			pre += countWrites([]ast.Stmt{s})
		}
		if chain == nil {
			r.Ob("field-once:"+name, p.Pos(rng.Pos()), pre == 1, fmt.Sprintf("field text written %d time(s) per iteration (must be 1)", pre))
		} else {
			arm := 0
			var conds []ast.Expr
			for cur := chain; cur != nil; {
				arm++
				n := pre + countWrites(cur.Body.List)
				conds = append(conds, cur.Cond)
				r.Ob(fmt.Sprintf("field-once:%s:arm%d", name, arm), p.Pos(cur.Pos()), n == 1, fmt.Sprintf("arm '%s': field text written %d time(s) (must be exactly 1, outside the padding loops)", clip(types.ExprString(cur.Cond), 70), n))
				switch e := cur.Else.(type) {
				case *ast.IfStmt:
					cur = e
				case *ast.BlockStmt:
					arm++
					n := pre + countWrites(e.List)
					r.Ob(fmt.Sprintf("field-once:%s:arm%d", name, arm), p.Pos(e.Pos()), n == 1, fmt.Sprintf("else arm: field text written %d time(s)", n))
					cur = nil
				default:
					cur = nil
				}
			}
			// (d) the chain covers every constant of the alignment type (no final else)
			var named *types.Named
			used := map[string]bool{}
			for _, c := range conds {
				ast.Inspect(c, func(m ast.Node) bool {
					if id, ok := m.(*ast.Ident); ok {
						if cst, ok := info.Uses[id].(*types.Const); ok {
							if nt, ok := cst.Type().(*types.Named); ok {
								named = nt
								used[cst.Name()] = true
							}
						}
					}
					return true
				})
			}
			if named == nil {
				r.Ob("alignment-cover:"+name, p.Pos(chain.Pos()), false, "the alignment chain does not compare with constants of a named type")
			} else {
				var missing []string
				sc := named.Obj().Pkg().Scope()
				for _, nm := range sc.Names() {
					if cst, ok := sc.Lookup(nm).(*types.Const); ok && types.Identical(cst.Type(), named) && !used[nm] {
						missing = append(missing, nm)
					}
				}
				sort.Strings(missing)
				r.Ob("alignment-cover:"+name, p.Pos(chain.Pos()), len(missing) == 0, fmt.Sprintf("alignment chain handles every constant of %s; not handled (the field would not be written at all): %s", named.Obj().Name(), orStr(strings.Join(missing, ", "), "none")))
			}
		}
	}
}

func isFieldWrite(info *types.Info, call *ast.CallExpr, field types.Object) bool {
	se, ok := call.Fun.(*ast.SelectorExpr)
	if !ok || se.Sel.Name != "Write" || len(call.Args) != 1 {
		return false
	}
	id, ok := call.Args[0].(*ast.Ident)
	return ok && info.Uses[id] == field
}

// C05.R8 — the result files of a run hold the records of that run and nothing
// else: every record file is opened in the non-append mode, and that mode
// creates the file empty (O_TRUNC).  Without it a run that writes less than an
// earlier run into the same folder (earlier end date, larger interval) keeps
// the earlier run's tail: records after the end date, years never simulated.
func c05FreshFiles(p *Prog, r *Report) {
	r.Rule("C05.R8", "result files start empty: the default writer opens a non-append file with create + truncate + write-only and an append file with create + append + write-only, passes exactly those flags to the open call, and Run opens its daily, yearly and crop files in the non-append mode", 4)
	fi := p.Funcs["hermes.DefaultFoutGenerator"]
	if fi == nil {
		r.Ob("writer", "-", false, "hermes.DefaultFoutGenerator not found")
		return
	}
	info := fi.Pkg.TypesInfo
	osConst := func(name string) (int64, bool) {
		for _, imp := range fi.Pkg.Types.Imports() {
			if imp.Path() == "os" {
				if c, ok := imp.Scope().Lookup(name).(*types.Const); ok {
					return constInt64(c.Val())
				}
			}
		}
		return 0, false
	}
	oCreate, _ := osConst("O_CREATE")
	oTrunc, _ := osConst("O_TRUNC")
	oAppend, _ := osConst("O_APPEND")
	oWr, _ := osConst("O_WRONLY")
	var appendObj, flagsObj types.Object
	if ps := fi.Decl.Type.Params.List; len(ps) >= 2 {
		for _, f := range ps {
			for _, n := range f.Names {
				if b, ok := info.Defs[n].Type().Underlying().(*types.Basic); ok && b.Kind() == types.Bool {
					appendObj = info.Defs[n]
				}
			}
		}
	}
	arms := map[bool]int64{}
	armSeen := map[bool]bool{}
	ast.Inspect(fi.Decl.Body, func(n ast.Node) bool {
		as, ok := n.(*ast.AssignStmt)
		if !ok || len(as.Lhs) != 1 || len(as.Rhs) != 1 {
			return true
		}
		tv := info.Types[as.Rhs[0]]
		if tv.Value == nil {
			return true
		}
		if b, ok := tv.Type.Underlying().(*types.Basic); !ok || b.Info()&types.IsInteger == 0 {
			return true
		}
		v, ok := constInt64(tv.Value)
		if !ok {
			return true
		}
		conds, _ := astPathConds(info, fi.Decl.Body, as)
		if len(conds) != 1 || useObj(info, conds[0].E) != appendObj || appendObj == nil {
			return true
		}
		flagsObj = useObj(info, as.Lhs[0])
		arms[!conds[0].Neg] = v
		armSeen[!conds[0].Neg] = true
		return true
	})
	okNew := armSeen[false] && arms[false]&oCreate != 0 && arms[false]&oTrunc != 0 && arms[false]&oWr == oWr && arms[false]&oAppend == 0 && oTrunc != 0
	r.Ob("writer:new-file", p.Pos(fi.Decl.Pos()), okNew, fmt.Sprintf("non-append flags %#x: create %v, truncate %v, append %v (must create and truncate: an existing longer file would keep its tail)", arms[false], arms[false]&oCreate != 0, arms[false]&oTrunc != 0, arms[false]&oAppend != 0))
	okApp := armSeen[true] && arms[true]&oCreate != 0 && arms[true]&oAppend != 0 && arms[true]&oTrunc == 0
	r.Ob("writer:append-file", p.Pos(fi.Decl.Pos()), okApp, fmt.Sprintf("append flags %#x: create %v, append %v, truncate %v", arms[true], arms[true]&oCreate != 0, arms[true]&oAppend != 0, arms[true]&oTrunc != 0))
	// the flags variable is what OpenFile gets
	okOpen := false
	ast.Inspect(fi.Decl.Body, func(n ast.Node) bool {
		if c, ok := n.(*ast.CallExpr); ok && len(c.Args) == 3 {
			if f := callee(info, c); f != nil && f.FullName() == "os.OpenFile" && flagsObj != nil && useObj(info, c.Args[1]) == flagsObj {
				if _, isParam := paramIndex(fi.Decl, useObj(info, c.Args[0])); isParam {
					okOpen = true
				}
			}
		}
		return true
	})
	r.Ob("writer:open", p.Pos(fi.Decl.Pos()), okOpen, "the file named by the caller is opened with exactly the flags chosen above")
	// Run's record files are opened non-append
	rfi, lit := runClosure(p)
	if rfi != nil && lit != nil {
		rinfo := rfi.Pkg.TypesInfo
		n, bad := 0, ""
		ast.Inspect(lit.Body, func(nd ast.Node) bool {
			c, ok := nd.(*ast.CallExpr)
			if !ok || len(c.Args) != 2 {
				return true
			}
			if f := callee(rinfo, c); f == nil || f.Name() != "OpenResultFile" {
				return true
			}
			n++
			if tv := rinfo.Types[c.Args[1]]; tv.Value == nil || tv.Value.String() != "false" {
				bad += p.Pos(c.Pos()) + " "
			}
			return true
		})
		r.Ob("run:non-append", p.Pos(rfi.Decl.Pos()), n >= 3 && bad == "", fmt.Sprintf("%d result files opened by Run, opened in append mode: %s", n, orStr(bad, "none")))
	}
}

// ---------------------------------------------------------------- a record carries the bound value, not a processed one

// recordValueRule: WriteLine hands each column's value to the formatter.  What it hands over is the bound variable's
// value — dereferenced, indexed, multiplied by the column's modifier — and nothing else: a call around it (a rounding,
// a clean-up of "-0.0", a clamp) changes what every output configuration with enough digits shows, and a balance
// taken from the result files no longer closes although the model's does.
func recordValueRule(p *Prog, r *Report, rule string) {
	r.Rule(rule, "the record writer formats the bound value itself: the value argument of every field added in WriteLine is a dereference, an element, the not-available value or a local assigned only from those (optionally times the column's modifier) — never the result of a call", 5)
	fi := p.Funcs["hermes.OutputConfig.WriteLine"]
	if fi == nil {
		r.Ob("record-value", "-", false, "hermes.OutputConfig.WriteLine not found")
		return
	}
	info := fi.Pkg.TypesInfo
	hasCall := func(e ast.Expr) bool {
		f := false
		ast.Inspect(e, func(m ast.Node) bool {
			if c, ok := m.(*ast.CallExpr); ok {
				// type conversions are not calls
				if tv, has := info.Types[c.Fun]; !has || !tv.IsType() {
					f = true
				}
			}
			return true
		})
		return f
	}
	n := 0
	ast.Inspect(fi.Decl.Body, func(m ast.Node) bool {
		c, ok := m.(*ast.CallExpr)
		if !ok || len(c.Args) != 2 {
			return true
		}
		se, ok := c.Fun.(*ast.SelectorExpr)
		if !ok || se.Sel.Name != "Add" {
			return true
		}
		n++
		arg := c.Args[1]
		good := !hasCall(arg)
		why := ""
		if !good {
			why = "the value is the result of a call: " + types.ExprString(arg)
		}
		// a local: every assignment to it in the function is call-free
		if id, isId := ast.Unparen(arg).(*ast.Ident); isId && good {
			o := info.Uses[id]
			ast.Inspect(fi.Decl.Body, func(q ast.Node) bool {
				as, isAs := q.(*ast.AssignStmt)
				if !isAs {
					return true
				}
				for k, l := range as.Lhs {
					lid, isL := l.(*ast.Ident)
					if !isL || (info.Defs[lid] != o && info.Uses[lid] != o) || k >= len(as.Rhs) {
						continue
					}
					if hasCall(as.Rhs[k]) {
						good = false
						why = "the local " + id.Name + " is assigned the result of a call: " + types.ExprString(as.Rhs[k])
					}
				}
				return true
			})
		}
		r.Ob("record-value", p.Pos(c.Pos()), good, fmt.Sprintf("field value %s is the bound value itself: %v %s", types.ExprString(arg), good, why))
		return true
	})
	if n == 0 {
		r.Ob("record-value", "-", false, "no field is added to the record in WriteLine")
	}
}
