package main

// E2 — field access index and transitive mod-sets.

import (
	"go/ast"
	"go/token"
	"go/types"
	"sort"
)

type FieldRef struct {
	Struct string // named struct type
	Field  string
}

func (f FieldRef) String() string { return f.Struct + "." + f.Field }

type Access struct {
	Ref   FieldRef
	Write bool // store, op-assign, inc/dec, mutating method, address taken
	Addr  bool // &x.F or slice of array field passed on
	Fn    *FuncInfo
	Pos   token.Pos
	Node  ast.Node
}

type FieldIndex struct {
	All    []*Access
	ByRef  map[FieldRef][]*Access
	Mod    map[*FuncInfo]map[FieldRef]bool // transitive
	Direct map[*FuncInfo]map[FieldRef]bool
	Unk    map[*FuncInfo]bool // calls something unresolvable with pointer args
	Calls  map[*FuncInfo][]*FuncInfo
}

// chain strips index/slice/star/paren and returns the field selections of an
// l-value expression from outermost base to the innermost field, plus the base
// identifier (nil if the base is not an identifier).
func selChain(info *types.Info, e ast.Expr) (refs []FieldRef, base *ast.Ident) {
	for {
		switch x := e.(type) {
		case *ast.ParenExpr:
			e = x.X
		case *ast.IndexExpr:
			e = x.X
		case *ast.SliceExpr:
			e = x.X
		case *ast.StarExpr:
			e = x.X
		case *ast.SelectorExpr:
			if sel, ok := info.Selections[x]; ok && sel.Kind() == types.FieldVal {
				name, _ := namedStruct(sel.Recv())
				refs = append([]FieldRef{{Struct: name, Field: x.Sel.Name}}, refs...)
				e = x.X
				continue
			}
			return refs, nil
		case *ast.Ident:
			return refs, x
		default:
			return refs, nil
		}
	}
}

func (p *Prog) Fields() *FieldIndex {
	if p.fa != nil {
		return p.fa
	}
	fx := &FieldIndex{ByRef: map[FieldRef][]*Access{}, Mod: map[*FuncInfo]map[FieldRef]bool{}, Direct: map[*FuncInfo]map[FieldRef]bool{}, Unk: map[*FuncInfo]bool{}, Calls: map[*FuncInfo][]*FuncInfo{}}
	p.fa = fx
	keys := make([]string, 0, len(p.Funcs))
	for k := range p.Funcs {
		keys = append(keys, k)
	}
	sort.Strings(keys)
	type pendingMethod struct {
		fn     *FuncInfo
		callee *FuncInfo
		refs   []FieldRef
		call   *ast.CallExpr
	}
	var pend []pendingMethod
	for _, k := range keys {
		fi := p.Funcs[k]
		info := fi.Pkg.TypesInfo
		fx.Direct[fi] = map[FieldRef]bool{}
		writes := map[ast.Expr]bool{}
		addW := func(e ast.Expr, addr bool, n ast.Node) {
			refs, _ := selChain(info, e)
			for _, r := range refs {
				a := &Access{Ref: r, Write: true, Addr: addr, Fn: fi, Pos: e.Pos(), Node: n}
				fx.All = append(fx.All, a)
				fx.ByRef[r] = append(fx.ByRef[r], a)
				fx.Direct[fi][r] = true
			}
			// mark selector nodes on the chain so they are not counted as reads
			for x := e; x != nil; {
				writes[x] = true
				switch y := x.(type) {
				case *ast.ParenExpr:
					x = y.X
				case *ast.IndexExpr:
					x = y.X
				case *ast.SliceExpr:
					x = y.X
				case *ast.StarExpr:
					x = y.X
				case *ast.SelectorExpr:
					x = y.X
				default:
					x = nil
				}
			}
		}
		ast.Inspect(fi.Decl.Body, func(n ast.Node) bool {
			switch s := n.(type) {
			case *ast.AssignStmt:
				for _, l := range s.Lhs {
					addW(l, false, s)
				}
			case *ast.IncDecStmt:
				addW(s.X, false, s)
			case *ast.RangeStmt:
				if s.Tok == token.ASSIGN {
					if s.Key != nil {
						addW(s.Key, false, s)
					}
					if s.Value != nil {
						addW(s.Value, false, s)
					}
				}
			case *ast.UnaryExpr:
				if s.Op == token.AND {
					addW(s.X, true, s)
				}
			case *ast.CallExpr:
				cf := callee(info, s)
				var target *FuncInfo
				if cf != nil {
					target = p.ByObj[cf]
				}
				if target != nil {
					fx.Calls[fi] = append(fx.Calls[fi], target)
					// pointer-receiver method on a field chain: g.TAG.Inc()
					if se, ok := s.Fun.(*ast.SelectorExpr); ok {
						if sel, ok := info.Selections[se]; ok && sel.Kind() == types.MethodVal {
							sig := cf.Type().(*types.Signature)
							if _, isPtr := sig.Recv().Type().(*types.Pointer); isPtr {
								refs, _ := selChain(info, se.X)
								if len(refs) > 0 {
									pend = append(pend, pendingMethod{fn: fi, callee: target, refs: refs, call: s})
								}
							}
						}
					}
				} else if cf == nil {
					// dynamic call (function value / interface method): unknown
					// effects if any argument is a pointer to in-scope state.
					if _, isConv := info.Types[s.Fun]; isConv && info.Types[s.Fun].IsType() {
						break
					}
					if id, ok := s.Fun.(*ast.Ident); ok {
						if _, isBuiltin := info.Uses[id].(*types.Builtin); isBuiltin {
							break
						}
					}
					fx.Unk[fi] = true
				}
			}
			return true
		})
		// reads
		ast.Inspect(fi.Decl.Body, func(n ast.Node) bool {
			se, ok := n.(*ast.SelectorExpr)
			if !ok || writes[se] {
				return true
			}
			if sel, ok := info.Selections[se]; ok && sel.Kind() == types.FieldVal {
				name, _ := namedStruct(sel.Recv())
				r := FieldRef{Struct: name, Field: se.Sel.Name}
				a := &Access{Ref: r, Fn: fi, Pos: se.Pos(), Node: se}
				fx.All = append(fx.All, a)
				fx.ByRef[r] = append(fx.ByRef[r], a)
			}
			return true
		})
	}
	// transitive closure
	for fi, d := range fx.Direct {
		m := map[FieldRef]bool{}
		for r := range d {
			m[r] = true
		}
		fx.Mod[fi] = m
	}
	pendDone := map[*ast.CallExpr]bool{}
	for changed := true; changed; {
		changed = false
		for _, k := range keys {
			fi := p.Funcs[k]
			for _, c := range fx.Calls[fi] {
				for r := range fx.Mod[c] {
					if !fx.Mod[fi][r] {
						fx.Mod[fi][r] = true
						changed = true
					}
				}
				if fx.Unk[c] && !fx.Unk[fi] {
					fx.Unk[fi] = true
					changed = true
				}
			}
		}
		// mutating methods write the chain they are invoked on
		for _, pm := range pend {
			if pendDone[pm.call] {
				continue
			}
			sig := pm.callee.Obj.Type().(*types.Signature)
			recvName, _ := namedStruct(sig.Recv().Type())
			mut := false
			for r := range fx.Mod[pm.callee] {
				if r.Struct == recvName {
					mut = true
					break
				}
			}
			if !mut {
				continue
			}
			pendDone[pm.call] = true
			for _, r := range pm.refs {
				fx.Mod[pm.fn][r] = true
				fx.Direct[pm.fn][r] = true
				a := &Access{Ref: r, Write: true, Fn: pm.fn, Pos: pm.call.Pos(), Node: pm.call}
				fx.All = append(fx.All, a)
				fx.ByRef[r] = append(fx.ByRef[r], a)
			}
			changed = true
		}
	}
	return fx
}

// Writers returns the functions that directly write ref, sorted by key.
func (fx *FieldIndex) Writers(ref FieldRef) []*FuncInfo {
	seen := map[*FuncInfo]bool{}
	var out []*FuncInfo
	for _, a := range fx.ByRef[ref] {
		if a.Write && !seen[a.Fn] {
			seen[a.Fn] = true
			out = append(out, a.Fn)
		}
	}
	sort.Slice(out, func(i, j int) bool { return out[i].Key < out[j].Key })
	return out
}

func (fx *FieldIndex) WriteSites(ref FieldRef) []*Access {
	var out []*Access
	for _, a := range fx.ByRef[ref] {
		if a.Write {
			out = append(out, a)
		}
	}
	sort.Slice(out, func(i, j int) bool { return out[i].Pos < out[j].Pos })
	return out
}
