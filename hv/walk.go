package main

// Structured symbolic walker over the type-checked AST (E1 access paths,
// E3 value numbering with store forwarding, guard stack, loop stack).

import (
	"fmt"
	"go/ast"
	"go/constant"
	"go/token"
	"go/types"
	"math/big"
	"sort"
	"strconv"
	"strings"

	"golang.org/x/tools/go/packages"
)

// ---------------------------------------------------------------- conditions

type Cond struct {
	Kind string      // cmp | and | or | not | opq | const
	Op   token.Token // cmp:  P Op 0
	P    Poly
	Sub  []*Cond
	Text string
	Val  bool // const
	Loop bool // guard introduced by a loop header
	Expr ast.Expr
}

func flipOp(op token.Token) token.Token {
	switch op {
	case token.LSS:
		return token.GTR
	case token.LEQ:
		return token.GEQ
	case token.GTR:
		return token.LSS
	case token.GEQ:
		return token.LEQ
	}
	return op
}

func negOp(op token.Token) token.Token {
	switch op {
	case token.LSS:
		return token.GEQ
	case token.LEQ:
		return token.GTR
	case token.GTR:
		return token.LEQ
	case token.GEQ:
		return token.LSS
	case token.EQL:
		return token.NEQ
	case token.NEQ:
		return token.EQL
	}
	return op
}

func mkCmp(l, r Poly, op token.Token, e ast.Expr) *Cond {
	p := l.Sub(r)
	// canonical sign: first sorted term positive
	if ts := p.sortedTerms(); len(ts) > 0 {
		// prefer a non-constant leading term
		lead := ts[0]
		if lead.monoKey() == "" && len(ts) > 1 {
			lead = ts[1]
		}
		if lead.C.Sign() < 0 {
			p = p.Neg()
			op = flipOp(op)
		}
	}
	return &Cond{Kind: "cmp", Op: op, P: p, Expr: e}
}

func (c *Cond) Negate() *Cond {
	switch c.Kind {
	case "cmp":
		return &Cond{Kind: "cmp", Op: negOp(c.Op), P: c.P, Expr: c.Expr, Loop: c.Loop}
	case "not":
		return c.Sub[0]
	case "and", "or":
		k := "or"
		if c.Kind == "or" {
			k = "and"
		}
		n := &Cond{Kind: k, Expr: c.Expr}
		for _, s := range c.Sub {
			n.Sub = append(n.Sub, s.Negate())
		}
		return n
	case "const":
		return &Cond{Kind: "const", Val: !c.Val}
	}
	return &Cond{Kind: "not", Sub: []*Cond{c}, Expr: c.Expr}
}

func (c *Cond) Key() string {
	switch c.Kind {
	case "cmp":
		return c.P.String() + " " + c.Op.String() + " 0"
	case "and", "or":
		ss := make([]string, len(c.Sub))
		for i, s := range c.Sub {
			ss[i] = s.Key()
		}
		sep := " && "
		if c.Kind == "or" {
			sep = " || "
		}
		return "(" + strings.Join(ss, sep) + ")"
	case "not":
		return "!(" + c.Sub[0].Key() + ")"
	case "const":
		return strconv.FormatBool(c.Val)
	}
	return "?" + c.Text
}

// Conjuncts flattens nested "and".
func (c *Cond) Conjuncts() []*Cond {
	if c.Kind == "and" {
		var out []*Cond
		for _, s := range c.Sub {
			out = append(out, s.Conjuncts()...)
		}
		return out
	}
	return []*Cond{c}
}

// ---------------------------------------------------------------- state

type cellVal struct {
	idx []Poly
	val Poly
}

type State struct {
	vars   map[types.Object]Poly
	cells  map[string]map[string]cellVal
	ver    map[string]int
	guards []*Cond
	term   int // 0 running 1 returned 2 broke 3 continued
	lits   map[types.Object]*ast.FuncLit
}

func newState() *State {
	return &State{vars: map[types.Object]Poly{}, cells: map[string]map[string]cellVal{}, ver: map[string]int{}, lits: map[types.Object]*ast.FuncLit{}}
}

func (s *State) clone() *State {
	n := newState()
	for k, v := range s.vars {
		n.vars[k] = v
	}
	for r, m := range s.cells {
		nm := make(map[string]cellVal, len(m))
		for k, v := range m {
			nm[k] = v
		}
		n.cells[r] = nm
	}
	for k, v := range s.ver {
		n.ver[k] = v
	}
	for k, v := range s.lits {
		n.lits[k] = v
	}
	n.guards = append([]*Cond{}, s.guards...)
	n.term = s.term
	return n
}

// AllGuards returns the flattened conjuncts of the path condition.
func flattenGuards(gs []*Cond) []*Cond {
	var out []*Cond
	for _, g := range gs {
		out = append(out, g.Conjuncts()...)
	}
	return out
}

// ---------------------------------------------------------------- events

type LoopCtx struct {
	ID     int
	Stmt   ast.Stmt
	VarObj types.Object // induction variable of a counted for, if recognised
	Var    *Atom
	Lo     Poly // initial value of the induction variable
	Cond   *Cond
	Entry  *State // state before the loop (pre-havoc)
	Range  bool
	RangeX ast.Expr
}

type Event struct {
	Kind   string // assign | call | return | break | continue | abstract
	Pos    token.Pos
	Stmt   ast.Stmt
	Root   string
	Idx    []Poly
	Local  types.Object
	Old    Poly
	Val    Poly
	Guards []*Cond
	Loops  []*LoopCtx
	Callee *types.Func
	Name   string // callee name / var name
	Args   []Poly
	Call   *ast.CallExpr
	Go     bool
	Defer  bool
	Rets   []Poly
	Seq    int
}

func (e *Event) Target() string { return cellKey(e.Root, 0, e.Idx) }

// HasGuard reports whether some conjunct of the path condition satisfies f.
func (e *Event) HasGuard(f func(c *Cond) bool) bool {
	for _, g := range flattenGuards(e.Guards) {
		if f(g) {
			return true
		}
	}
	return false
}

func (e *Event) InLoop(l *LoopCtx) bool {
	for _, x := range e.Loops {
		if x == l {
			return true
		}
	}
	return false
}

// ---------------------------------------------------------------- exec

var singletonTypes = map[string]bool{
	"GlobalVarsMain": true, "WaterSharedVars": true, "NitroSharedVars": true, "NitroBBBSharedVars": true,
	"CropSharedVars": true, "InputSharedVars": true, "CropOutputVars": true,
}

// allPhis: every join atom created by any walk (φ keys are unique per walk through the walk's counter base and name)
var allPhis = map[string][]PhiArm{}

type Exec struct {
	P       *Prog
	Pkg     *packages.Package
	Info    *types.Info
	FnKey   string
	Events  []*Event
	Returns []*State
	Fork    bool
	loops   []*LoopCtx
	nloop   int
	uniq    int
	Unsup   []string
	dualOff map[string]int64
	OnStmt  func(st *State, s ast.Stmt)
	// OnOp is called for every partial operation at the statement that executes it (not where its value is
	// forwarded to): kind quo|idiv|mod|pow|sqrt|log|…, the syntax node, the evaluated operands
	OnOp     func(st *State, kind string, site ast.Node, ops []Poly)
	Phis     map[string][]PhiArm // φ atom key → the values it abstracts, one per arm
	AllLoops []*LoopCtx

	lastCallRoots map[string]bool
	Opaque        map[string]bool // roots whose stores are not forwarded (kept as versioned atoms)
}

type PhiArm struct {
	Val    Poly
	Guards []*Cond
	Has    bool
}

func NewExec(p *Prog, fi *FuncInfo) *Exec {
	x := &Exec{P: p, Pkg: fi.Pkg, Info: fi.Pkg.TypesInfo, FnKey: fi.Key}
	x.dualOff = p.dualOffsets()
	return x
}

// dualOffsets reads the DualType offsets from the NewGlobalVarsMain literal.
func (p *Prog) dualOffsets() map[string]int64 {
	out := map[string]int64{}
	fi := p.Funcs["hermes.NewGlobalVarsMain"]
	if fi == nil {
		return out
	}
	info := fi.Pkg.TypesInfo
	ast.Inspect(fi.Decl.Body, func(n ast.Node) bool {
		kv, ok := n.(*ast.KeyValueExpr)
		if !ok {
			return true
		}
		id, ok := kv.Key.(*ast.Ident)
		if !ok {
			return true
		}
		call, ok := kv.Value.(*ast.CallExpr)
		if !ok {
			return true
		}
		if f := callee(info, call); f != nil && f.Name() == "NewDualType" && len(call.Args) == 2 {
			if tv, ok := info.Types[call.Args[1]]; ok && tv.Value != nil {
				if v, ok := constant.Int64Val(tv.Value); ok {
					out["GlobalVarsMain."+id.Name] = v
				}
			}
		}
		return true
	})
	return out
}

func (x *Exec) fresh(prefix string) *Atom {
	x.uniq++
	return internAtom(&Atom{Key: fmt.Sprintf("%s@%s#%d", prefix, x.FnKey, x.uniq), Kind: "opq", Root: prefix})
}

func (x *Exec) emit(st *State, e *Event) *Event {
	e.Guards = append([]*Cond{}, st.guards...)
	e.Loops = append([]*LoopCtx{}, x.loops...)
	e.Seq = len(x.Events)
	x.Events = append(x.Events, e)
	return e
}

func constPoly(v constant.Value) (Poly, bool) {
	switch v.Kind() {
	case constant.Int, constant.Float:
		r := new(big.Rat)
		n, d := constant.Num(v), constant.Denom(v)
		if n.Kind() == constant.Int && d.Kind() == constant.Int {
			ni, ok1 := new(big.Int).SetString(n.ExactString(), 10)
			di, ok2 := new(big.Int).SetString(d.ExactString(), 10)
			if ok1 && ok2 && di.Sign() != 0 {
				r.SetFrac(ni, di)
				return PRat(r), true
			}
		}
		f, _ := constant.Float64Val(v)
		if rr := new(big.Rat).SetFloat64(f); rr != nil {
			return PRat(rr), true
		}
	case constant.String:
		a := internAtom(&Atom{Key: strconv.Quote(constant.StringVal(v)), Kind: "str"})
		return PAtom(a), true
	case constant.Bool:
		a := internAtom(&Atom{Key: v.String(), Kind: "str"})
		return PAtom(a), true
	}
	return Poly{}, false
}

func isIntegerType(t types.Type) bool {
	if t == nil {
		return false
	}
	b, ok := t.Underlying().(*types.Basic)
	return ok && b.Info()&types.IsInteger != 0
}

func isNumeric(t types.Type) bool {
	if t == nil {
		return false
	}
	b, ok := t.Underlying().(*types.Basic)
	return ok && b.Info()&types.IsNumeric != 0
}

var pureMath = map[string]bool{"Abs": true, "Exp": true, "Log": true, "Sqrt": true, "Sin": true, "Cos": true, "Tan": true, "Asin": true, "Acos": true, "Atan": true,
	"Round": true, "Ceil": true, "Floor": true, "Trunc": true, "Pow": true, "Min": true, "Max": true, "Mod": true, "Log10": true, "IsNaN": true, "IsInf": true, "Atan2": true, "Inf": true, "NaN": true}

// varRoot names the root of an access path that starts at identifier id.
func (x *Exec) varRoot(id *ast.Ident) (string, types.Object) {
	obj := x.Info.Uses[id]
	if obj == nil {
		obj = x.Info.Defs[id]
	}
	if obj == nil {
		return id.Name, nil
	}
	if name, st := namedStruct(obj.Type()); st != nil && singletonTypes[name] {
		return name, obj
	}
	if v, ok := obj.(*types.Var); ok && v.Pkg() != nil && v.Parent() == v.Pkg().Scope() {
		return v.Pkg().Name() + "." + v.Name(), obj
	}
	return id.Name, obj
}

type pathRes struct {
	root  string
	idx   []Poly
	base  types.Object
	plain bool // just a local identifier (no fields, no indices)
	dual  string
	ok    bool
}

// path resolves an l-value / r-value access path.
func (x *Exec) path(st *State, e ast.Expr) pathRes {
	switch t := e.(type) {
	case *ast.ParenExpr:
		return x.path(st, t.X)
	case *ast.Ident:
		root, obj := x.varRoot(t)
		return pathRes{root: root, base: obj, plain: true, ok: true}
	case *ast.StarExpr:
		return x.path(st, t.X)
	case *ast.SelectorExpr:
		if sel, ok := x.Info.Selections[t]; ok && sel.Kind() == types.FieldVal {
			pr := x.path(st, t.X)
			if !pr.ok {
				return pr
			}
			pr.plain = false
			pr.root = pr.root + "." + t.Sel.Name
			return pr
		}
		// qualified identifier pkg.Var
		if id, ok := t.X.(*ast.Ident); ok {
			if _, isPkg := x.Info.Uses[id].(*types.PkgName); isPkg {
				return pathRes{root: id.Name + "." + t.Sel.Name, ok: true, plain: false, base: x.Info.Uses[t.Sel]}
			}
		}
		return pathRes{}
	case *ast.IndexExpr:
		pr := x.path(st, t.X)
		if !pr.ok {
			return pr
		}
		pr.plain = false
		pr.idx = append(append([]Poly{}, pr.idx...), x.eval(st, t.Index))
		return pr
	}
	return pathRes{}
}

func idxKey(idx []Poly) string {
	ss := make([]string, len(idx))
	for i, p := range idx {
		ss[i] = p.String()
	}
	return strings.Join(ss, "|")
}

func (x *Exec) loadCell(st *State, root string, idx []Poly) Poly {
	// DualType rewrite: X.Num == X.Index + offset
	if strings.HasSuffix(root, ".Num") {
		base := strings.TrimSuffix(root, ".Num")
		if off, ok := x.dualOff[base]; ok && len(idx) == 0 {
			return x.loadCell(st, base+".Index", nil).Add(PInt(off))
		}
	}
	m := st.cells[root]
	k := idxKey(idx)
	if cv, ok := m[k]; ok {
		return cv.val
	}
	for _, cv := range m {
		if !provablyDistinct(cv.idx, idx) {
			x.uniq++
			v := PAtom(cellAtom(root, -x.uniq, idx))
			m[k] = cellVal{idx: idx, val: v} // later loads of the same cell see the same unknown
			return v
		}
	}
	// a store to a prefix / extension of this root may alias too
	for r, mm := range st.cells {
		if r != root && len(mm) > 0 && (strings.HasPrefix(r, root+".") || strings.HasPrefix(root, r+".")) {
			x.uniq++
			return PAtom(cellAtom(root, -x.uniq, idx))
		}
	}
	return PAtom(cellAtom(root, st.ver[root], idx))
}

// peekCell is loadCell without side effects: the value of a cell the state holds no entry for, when no store of
// the state can alias it.
func (x *Exec) peekCell(st *State, root string, idx []Poly) (Poly, bool) {
	m := st.cells[root]
	if cv, ok := m[idxKey(idx)]; ok {
		return cv.val, true
	}
	for _, cv := range m {
		if !provablyDistinct(cv.idx, idx) {
			return Poly{}, false
		}
	}
	for r, mm := range st.cells {
		if r != root && len(mm) > 0 && (strings.HasPrefix(r, root+".") || strings.HasPrefix(root, r+".")) {
			return Poly{}, false
		}
	}
	return PAtom(cellAtom(root, st.ver[root], idx)), true
}

func (x *Exec) storeCell(st *State, root string, idx []Poly, val Poly) {
	if strings.HasSuffix(root, ".Num") {
		base := strings.TrimSuffix(root, ".Num")
		if off, ok := x.dualOff[base]; ok && len(idx) == 0 {
			root = base + ".Index"
			val = val.Sub(PInt(off))
		}
	}
	if x.Opaque[root] {
		x.killRoot(st, root)
		return
	}
	m := st.cells[root]
	if m == nil {
		m = map[string]cellVal{}
		st.cells[root] = m
	}
	for k, cv := range m {
		if !idxEqual(cv.idx, idx) && !provablyDistinct(cv.idx, idx) {
			// may alias: the old forwarded value is no longer certain
			x.uniq++
			m[k] = cellVal{idx: cv.idx, val: PAtom(cellAtom(root, -x.uniq, cv.idx))}
		}
	}
	m[idxKey(idx)] = cellVal{idx: idx, val: val}
	for r := range st.cells {
		if r != root && (strings.HasPrefix(r, root+".") || strings.HasPrefix(root, r+".")) {
			x.killRoot(st, r)
		}
	}
}

func (x *Exec) killRoot(st *State, root string) {
	delete(st.cells, root)
	x.uniq++
	st.ver[root] = x.uniq
}

func (x *Exec) killPrefix(st *State, prefix string) {
	for r := range st.cells {
		if r == prefix || strings.HasPrefix(r, prefix+".") {
			delete(st.cells, r)
		}
	}
	x.uniq++
	// versions are looked up per exact root; bump lazily through a marker
	st.ver[prefix] = x.uniq
	for r := range st.ver {
		if strings.HasPrefix(r, prefix+".") {
			st.ver[r] = x.uniq
		}
	}
}

func (x *Exec) opaque(e ast.Expr) Poly {
	x.uniq++
	txt := types.ExprString(e)
	if len(txt) > 40 {
		txt = txt[:40]
	}
	return PAtom(internAtom(&Atom{Key: fmt.Sprintf("‹%s›%d", txt, x.uniq), Kind: "opq"}))
}

// eval computes the normal form of an expression in state st.
func (x *Exec) eval(st *State, e ast.Expr) Poly {
	if tv, ok := x.Info.Types[e]; ok && tv.Value != nil {
		if p, ok := constPoly(tv.Value); ok {
			return p
		}
	}
	switch t := e.(type) {
	case *ast.ParenExpr:
		return x.eval(st, t.X)
	case *ast.Ident:
		if t.Name == "nil" {
			return PAtom(internAtom(&Atom{Key: "nil", Kind: "str"}))
		}
		root, obj := x.varRoot(t)
		if obj != nil {
			if v, ok := st.vars[obj]; ok {
				return v
			}
		}
		if obj != nil {
			if name, sty := namedStruct(obj.Type()); sty != nil && singletonTypes[name] {
				return PAtom(cellAtom(root, 0, nil))
			}
		}
		va := internAtom(&Atom{Key: root, Kind: "var", Root: root})
		if obj != nil && isIntegerType(obj.Type()) {
			va.IntTyped = true
		}
		return PAtom(va)
	case *ast.UnaryExpr:
		switch t.Op {
		case token.SUB:
			return x.eval(st, t.X).Neg()
		case token.ADD:
			return x.eval(st, t.X)
		case token.NOT:
			c := x.cond(st, t)
			return PAtom(internAtom(&Atom{Key: "{" + c.Key() + "}", Kind: "opq"}))
		case token.AND:
			pr := x.path(st, t.X)
			if pr.ok {
				return PAtom(internAtom(&Atom{Key: "&" + cellKey(pr.root, 0, pr.idx), Kind: "opq", Root: pr.root}))
			}
		}
		return x.opaque(e)
	case *ast.BinaryExpr:
		switch t.Op {
		case token.ADD, token.SUB, token.MUL, token.QUO, token.REM:
			tl := x.Info.TypeOf(t.X)
			if !isNumeric(tl) {
				return PCall("concat", x.eval(st, t.X), x.eval(st, t.Y))
			}
			l, r := x.eval(st, t.X), x.eval(st, t.Y)
			if x.OnOp != nil {
				switch {
				case t.Op == token.QUO && isIntegerType(x.Info.TypeOf(e)):
					x.OnOp(st, "idiv", t, []Poly{l, r})
				case t.Op == token.QUO:
					x.OnOp(st, "quo", t, []Poly{l, r})
				case t.Op == token.REM:
					x.OnOp(st, "mod", t, []Poly{l, r})
				}
			}
			switch t.Op {
			case token.ADD:
				return l.Add(r)
			case token.SUB:
				return l.Sub(r)
			case token.MUL:
				return l.Mul(r)
			case token.QUO:
				if isIntegerType(x.Info.TypeOf(e)) {
					return PCall("idiv", l, r)
				}
				return l.Div(r)
			case token.REM:
				return PCall("mod", l, r)
			}
		case token.LAND, token.LOR, token.EQL, token.NEQ, token.LSS, token.LEQ, token.GTR, token.GEQ:
			c := x.cond(st, t)
			return PAtom(internAtom(&Atom{Key: "{" + c.Key() + "}", Kind: "opq"}))
		}
		return x.opaque(e)
	case *ast.CallExpr:
		cv := x.evalCall(st, t, nil)
		if tm := cv.single(); tm != nil && len(tm.M) == 1 && tm.M[0].E == 1 && tm.C.Cmp(ratInt(1)) == 0 && tm.M[0].A.Kind != "cell" && tm.M[0].A.Kind != "var" {
			if tt := x.Info.TypeOf(e); tt != nil && isIntegerType(tt) {
				tm.M[0].A.IntTyped = true
			}
		}
		return cv
	case *ast.SelectorExpr, *ast.IndexExpr, *ast.StarExpr:
		pr := x.path(st, e)
		if !pr.ok {
			// evaluate operands for effects, then opaque
			return x.opaqueWithOperands(st, e)
		}
		if pr.plain && pr.base != nil {
			if v, ok := st.vars[pr.base]; ok {
				return v
			}
		}
		// indexing a local whose value was forwarded from an array-valued
		// expression is not modelled: fall through to a cell of the local.
		root := pr.root
		if pr.base != nil {
			if _, sty := namedStruct(pr.base.Type()); sty == nil || !strings.Contains(root, ".") {
				_ = sty
			}
		}
		lv := x.loadCell(st, root, pr.idx)
		if isIntegerType(x.Info.TypeOf(e)) {
			if tm := lv.single(); tm != nil && len(tm.M) == 1 && tm.M[0].E == 1 {
				tm.M[0].A.IntTyped = true
			}
		}
		return lv
	case *ast.FuncLit:
		return x.opaque(e)
	case *ast.CompositeLit:
		for _, el := range t.Elts {
			if kv, ok := el.(*ast.KeyValueExpr); ok {
				x.eval(st, kv.Value)
			} else {
				x.eval(st, el)
			}
		}
		return x.opaque(e)
	case *ast.TypeAssertExpr:
		x.eval(st, t.X)
		return x.opaque(e)
	case *ast.SliceExpr:
		x.eval(st, t.X)
		return x.opaque(e)
	case *ast.KeyValueExpr:
		return x.eval(st, t.Value)
	}
	return x.opaque(e)
}

func (x *Exec) opaqueWithOperands(st *State, e ast.Expr) Poly {
	switch t := e.(type) {
	case *ast.SelectorExpr:
		x.eval(st, t.X)
	case *ast.IndexExpr:
		x.eval(st, t.X)
		x.eval(st, t.Index)
	case *ast.StarExpr:
		x.eval(st, t.X)
	}
	return x.opaque(e)
}

// evalCall evaluates a call; multi is non-nil when the call is the single
// right-hand side of a tuple assignment (receives one value per result).
func (x *Exec) evalCall(st *State, call *ast.CallExpr, multi *[]Poly) Poly {
	// conversion?
	if tv, ok := x.Info.Types[call.Fun]; ok && tv.IsType() && len(call.Args) == 1 {
		arg := x.eval(st, call.Args[0])
		to := tv.Type
		from := x.Info.TypeOf(call.Args[0])
		if isNumeric(to) && isNumeric(from) {
			if isIntegerType(to) && !isIntegerType(from) {
				return PCall("int", arg)
			}
			return arg
		}
		return PCall("conv:"+types.TypeString(to, func(*types.Package) string { return "" }), arg)
	}
	// builtin?
	if id, ok := call.Fun.(*ast.Ident); ok {
		if b, ok := x.Info.Uses[id].(*types.Builtin); ok {
			args := make([]Poly, len(call.Args))
			for i, a := range call.Args {
				if i == 0 && (b.Name() == "make" || b.Name() == "new") {
					args[i] = PZero()
					continue
				}
				args[i] = x.eval(st, a)
			}
			switch b.Name() {
			case "min", "max":
				return PCallComm(b.Name(), args...)
			case "len", "cap":
				return PCall(b.Name(), args...)
			case "append":
				// append(s, ...) – result opaque; if s is a path, it is rewritten by the assignment
				return x.opaque(call)
			case "delete", "copy", "panic", "print", "println", "close", "clear":
				x.emit(st, &Event{Kind: "call", Pos: call.Pos(), Name: b.Name(), Args: args, Call: call})
				if b.Name() == "copy" || b.Name() == "delete" || b.Name() == "clear" {
					if pr := x.path(st, call.Args[0]); pr.ok && !pr.plain {
						x.killRoot(st, pr.root)
					}
				}
				return PZero()
			}
			return x.opaque(call)
		}
	}
	cf := callee(x.Info, call)
	name := calleeName(cf)
	// receiver of a method call
	var recvExpr ast.Expr
	if se, ok := call.Fun.(*ast.SelectorExpr); ok {
		if sel, ok := x.Info.Selections[se]; ok && (sel.Kind() == types.MethodVal) {
			recvExpr = se.X
		}
	}
	args := make([]Poly, 0, len(call.Args))
	for _, a := range call.Args {
		args = append(args, x.eval(st, a))
	}
	if cf != nil && cf.Pkg() != nil && cf.Pkg().Path() == "math" && pureMath[cf.Name()] {
		if x.OnOp != nil {
			x.OnOp(st, strings.ToLower(cf.Name()), call, args)
		}
		switch cf.Name() {
		case "Pow":
			if n, ok := args[1].ConstInt(); ok && n >= -8 && n <= 8 && (args[0].single() != nil || (n >= -2 && n <= 2) || (len(args[0].T) <= 2 && n <= 4 && n >= -4)) {
				return args[0].PowInt(int(n))
			}
			return PCall("pow", args...)
		case "Min", "Max":
			return PCallComm(strings.ToLower(cf.Name()), args...)
		}
		return PCall(strings.ToLower(cf.Name()), args...)
	}
	// DualType mutators
	if cf != nil && recvExpr != nil && strings.HasPrefix(name, "hermes.DualType.") {
		pr := x.path(st, recvExpr)
		if pr.ok {
			iroot := pr.root + ".Index"
			old := x.loadCell(st, iroot, pr.idx)
			var nv Poly
			switch cf.Name() {
			case "Inc":
				nv = old.Add(PInt(1))
			case "Add":
				nv = old.Add(args[0])
			case "SetByIndex":
				nv = args[0]
			}
			if cf.Name() == "Inc" || cf.Name() == "Add" || cf.Name() == "SetByIndex" {
				x.storeCell(st, iroot, pr.idx, nv)
				x.emit(st, &Event{Kind: "assign", Pos: call.Pos(), Root: iroot, Idx: pr.idx, Old: old, Val: nv, Call: call, Name: name})
				return PZero()
			}
		}
	}
	ev := &Event{Kind: "call", Pos: call.Pos(), Callee: cf, Name: name, Args: args, Call: call}
	if recvExpr != nil {
		if pr := x.path(st, recvExpr); pr.ok {
			ev.Root = pr.root
			ev.Idx = pr.idx
		} else {
			x.eval(st, recvExpr)
		}
	}
	x.emit(st, ev)
	// effects
	var target *FuncInfo
	if cf != nil {
		target = x.P.ByObj[cf]
	}
	pure := false
	if target != nil {
		fx := x.P.Fields()
		if len(fx.Mod[target]) == 0 && !fx.Unk[target] {
			pure = true
		}
		if !pure {
			for r := range fx.Mod[target] {
				if singletonTypes[r.Struct] {
					x.killPrefix(st, r.Struct+"."+r.Field)
				}
			}
			x.killNonSingleton(st, call, recvExpr, fx.Unk[target])
			if fx.Unk[target] {
				x.killSingletonsByArgs(st, call)
			}
		}
	} else if cf == nil {
		// function value: local closure or unknown
		if id, ok := call.Fun.(*ast.Ident); ok {
			if obj := x.Info.Uses[id]; obj != nil {
				if fl := st.lits[obj]; fl != nil {
					x.havocAssigned(st, fl.Body, fmt.Sprintf("cl%d", x.uniq))
					goto done
				}
			}
		}
		x.killNonSingleton(st, call, recvExpr, true)
		x.killSingletonsByArgs(st, call)
	} else {
		// external library function: may write through pointer arguments
		x.killNonSingleton(st, call, recvExpr, false)
	}
done:
	nres := 1
	if cf != nil {
		nres = cf.Type().(*types.Signature).Results().Len()
	} else if sig, ok := x.Info.TypeOf(call.Fun).Underlying().(*types.Signature); ok {
		nres = sig.Results().Len()
	}
	mk := func(k int) Poly {
		if pure && name != "" {
			if nres == 1 {
				return PCall(name, args...)
			}
			return PCall(fmt.Sprintf("%s.%d", name, k), args...)
		}
		x.uniq++
		return PAtom(internAtom(&Atom{Key: fmt.Sprintf("%s()#%d.%d", name, x.uniq, k), Kind: "opq", Fn: name}))
	}
	if multi != nil {
		for k := 0; k < nres; k++ {
			*multi = append(*multi, mk(k))
		}
		return PZero()
	}
	return mk(0)
}

// killNonSingleton forgets forwarded cells of variable-named roots that the
// callee could reach (pointer-like arguments or receiver).
func (x *Exec) killNonSingleton(st *State, call *ast.CallExpr, recv ast.Expr, all bool) {
	reach := map[string]bool{}
	add := func(e ast.Expr) {
		t := x.Info.TypeOf(e)
		if t == nil {
			return
		}
		switch t.Underlying().(type) {
		case *types.Pointer, *types.Slice, *types.Map, *types.Interface, *types.Signature, *types.Chan:
		default:
			if ue, ok := e.(*ast.UnaryExpr); !ok || ue.Op != token.AND {
				return
			}
		}
		ast.Inspect(e, func(n ast.Node) bool {
			if id, ok := n.(*ast.Ident); ok {
				r, _ := x.varRoot(id)
				reach[r] = true
			}
			return true
		})
	}
	for _, a := range call.Args {
		add(a)
	}
	if recv != nil {
		ast.Inspect(recv, func(n ast.Node) bool {
			if id, ok := n.(*ast.Ident); ok {
				r, _ := x.varRoot(id)
				reach[r] = true
			}
			return true
		})
	}
	for r := range st.cells {
		base := r
		if i := strings.Index(base, "."); i >= 0 {
			base = base[:i]
		}
		if singletonTypes[base] {
			continue
		}
		if all || reach[base] {
			x.killRoot(st, r)
		}
	}
}

func (x *Exec) killSingletonsByArgs(st *State, call *ast.CallExpr) {
	for _, a := range call.Args {
		ast.Inspect(a, func(n ast.Node) bool {
			if id, ok := n.(*ast.Ident); ok {
				if obj := x.Info.Uses[id]; obj != nil {
					if name, sty := namedStruct(obj.Type()); sty != nil && singletonTypes[name] {
						x.killPrefix(st, name)
					}
				}
			}
			return true
		})
	}
}

// cond normalises a boolean expression.
func (x *Exec) cond(st *State, e ast.Expr) *Cond {
	if tv, ok := x.Info.Types[e]; ok && tv.Value != nil && tv.Value.Kind() == constant.Bool {
		return &Cond{Kind: "const", Val: constant.BoolVal(tv.Value), Expr: e}
	}
	switch t := e.(type) {
	case *ast.ParenExpr:
		return x.cond(st, t.X)
	case *ast.UnaryExpr:
		if t.Op == token.NOT {
			return x.cond(st, t.X).Negate()
		}
	case *ast.BinaryExpr:
		switch t.Op {
		case token.LAND, token.LOR:
			l := x.cond(st, t.X)
			var rc *Cond
			if x.OnOp != nil {
				// short circuit: the right operand is evaluated only when the left one allows it
				n := len(st.guards)
				if t.Op == token.LAND {
					st.guards = append(st.guards, l)
				} else {
					st.guards = append(st.guards, l.Negate())
				}
				rc = x.cond(st, t.Y)
				st.guards = st.guards[:n]
			} else {
				rc = x.cond(st, t.Y)
			}
			if t.Op == token.LAND {
				return &Cond{Kind: "and", Sub: []*Cond{l, rc}, Expr: e}
			}
			return &Cond{Kind: "or", Sub: []*Cond{l, rc}, Expr: e}
		case token.EQL, token.NEQ, token.LSS, token.LEQ, token.GTR, token.GEQ:
			return mkCmp(x.eval(st, t.X), x.eval(st, t.Y), t.Op, e)
		}
	}
	v := x.eval(st, e)
	return &Cond{Kind: "opq", Text: v.String(), Expr: e}
}

// ---------------------------------------------------------------- statements

func (x *Exec) assignTo(st *State, lhs ast.Expr, val Poly, s ast.Stmt, define bool) {
	if id, ok := lhs.(*ast.Ident); ok && id.Name == "_" {
		return
	}
	pr := x.path(st, lhs)
	if !pr.ok {
		x.opaqueWithOperands(st, lhs)
		x.Unsup = append(x.Unsup, fmt.Sprintf("%s: unsupported l-value %s", x.P.Pos(lhs.Pos()), types.ExprString(lhs)))
		return
	}
	if pr.plain && pr.base != nil {
		if name, sty := namedStruct(pr.base.Type()); sty != nil && singletonTypes[name] {
			// whole-struct assignment of a singleton: forget everything
			x.killPrefix(st, name)
			x.emit(st, &Event{Kind: "assign", Pos: lhs.Pos(), Stmt: s, Root: pr.root, Val: val, Old: PZero()})
			return
		}
		old, had := st.vars[pr.base]
		if !had {
			old = PAtom(internAtom(&Atom{Key: pr.root, Kind: "var", Root: pr.root}))
		}
		st.vars[pr.base] = val
		// a local array/struct overwritten as a whole: forget its cells
		if _, ok := st.cells[pr.root]; ok {
			x.killPrefix(st, pr.root)
		}
		x.emit(st, &Event{Kind: "assign", Pos: lhs.Pos(), Stmt: s, Root: pr.root, Local: pr.base, Old: old, Val: val, Name: pr.root})
		return
	}
	old := x.loadCell(st, pr.root, pr.idx)
	x.storeCell(st, pr.root, pr.idx, val)
	ev := &Event{Kind: "assign", Pos: lhs.Pos(), Stmt: s, Root: pr.root, Idx: pr.idx, Old: old, Val: val}
	if pr.base != nil {
		if name, sty := namedStruct(pr.base.Type()); sty == nil || !singletonTypes[name] {
			ev.Local = nil
			ev.Name = pr.root
		}
	}
	x.emit(st, ev)
}

func running(sts []*State) []*State {
	var out []*State
	for _, s := range sts {
		if s.term == 0 {
			out = append(out, s)
		}
	}
	return out
}

func (x *Exec) block(sts []*State, list []ast.Stmt) []*State {
	for _, s := range list {
		var next []*State
		for _, st := range sts {
			if st.term != 0 {
				next = append(next, st)
				continue
			}
			next = append(next, x.stmt(st, s)...)
		}
		sts = next
	}
	return sts
}

// merge joins the running states of sts into one (φ for disagreeing values);
// terminated states are passed through.
func (x *Exec) merge(base *State, sts []*State, scope ast.Node) []*State {
	run := running(sts)
	var out []*State
	for _, s := range sts {
		if s.term != 0 {
			out = append(out, s)
		}
	}
	if len(run) == 0 {
		return out
	}
	if x.Fork {
		return sts
	}
	m := run[0].clone()
	mGuards := run[0].guards
	m.guards = append([]*Cond{}, base.guards...)
	if len(run) == 1 {
		// the other arm terminated: its negated condition holds from here on
		m.guards = run[0].guards
		// keep only guards that are not deeper than the branch itself
		if len(m.guards) > len(base.guards)+1 {
			m.guards = m.guards[:len(base.guards)+1]
		}
		return append(out, m)
	}
	for _, o := range run[1:] {
		// vars
		keys := map[types.Object]bool{}
		for k := range m.vars {
			keys[k] = true
		}
		for k := range o.vars {
			keys[k] = true
		}
		for k := range keys {
			a, okA := m.vars[k]
			b, okB := o.vars[k]
			if okA && okB && a.Equal(b) {
				continue
			}
			if scope != nil && k.Pos() >= scope.Pos() && k.Pos() < scope.End() {
				// declared inside the branching statement: dead after it
				delete(m.vars, k)
				continue
			}
			if okA {
				x.emit(m, &Event{Kind: "abstract", Local: k, Val: a, Name: k.Name(), Pos: k.Pos()})
			}
			if okB {
				x.emit(o, &Event{Kind: "abstract", Local: k, Val: b, Name: k.Name(), Pos: k.Pos()})
			}
			x.uniq++
			pa := internAtom(&Atom{Key: fmt.Sprintf("%s@φ%d", k.Name(), x.uniq), Kind: "phi", Root: k.Name()})
			pa.IntTyped = isIntegerType(k.Type())
			if x.Phis == nil {
				x.Phis = map[string][]PhiArm{}
			}
			x.Phis[pa.Key] = []PhiArm{{Val: a, Guards: mGuards, Has: okA}, {Val: b, Guards: o.guards, Has: okB}}
			allPhis[pa.Key] = x.Phis[pa.Key]
			m.vars[k] = PAtom(pa)
		}
		// cells
		roots := map[string]bool{}
		for r := range m.cells {
			roots[r] = true
		}
		for r := range o.cells {
			roots[r] = true
		}
		for r := range roots {
			if m.ver[r] != o.ver[r] {
				x.killRoot(m, r)
				continue
			}
			ma, oa := m.cells[r], o.cells[r]
			ks := map[string]bool{}
			for k := range ma {
				ks[k] = true
			}
			for k := range oa {
				ks[k] = true
			}
			for k := range ks {
				a, okA := ma[k]
				b, okB := oa[k]
				if okA && okB && a.val.Equal(b.val) {
					continue
				}
				idx := a.idx
				if !okA {
					idx = b.idx
				}
				if ma == nil {
					ma = map[string]cellVal{}
					m.cells[r] = ma
				}
				x.uniq++
				ca := cellAtom(r, -x.uniq, idx)
				if x.Phis == nil {
					x.Phis = map[string][]PhiArm{}
				}
				// an arm that never touched the cell still holds the value memory had before the branch
				if !okA {
					if v, ok := x.peekCell(m, r, idx); ok {
						a.val, okA = v, true
					}
				}
				if !okB {
					if v, ok := x.peekCell(o, r, idx); ok {
						b.val, okB = v, true
					}
				}
				x.Phis[ca.Key] = []PhiArm{{Val: a.val, Guards: mGuards, Has: okA}, {Val: b.val, Guards: o.guards, Has: okB}}
				allPhis[ca.Key] = x.Phis[ca.Key]
				ma[k] = cellVal{idx: idx, val: PAtom(ca)}
			}
		}
		for r, v := range o.ver {
			if m.ver[r] != v {
				x.killRoot(m, r)
			}
		}
	}
	return append(out, m)
}

// assignedIn collects local objects assigned and roots stored in n.
func (x *Exec) assignedIn(n ast.Node) (locals map[types.Object]bool, roots map[string]bool, unk bool) {
	locals = map[types.Object]bool{}
	roots = map[string]bool{}
	x.lastCallRoots = map[string]bool{}
	tmp := newState()
	addL := func(e ast.Expr) {
		// base identifier
		refs, base := selChain(x.Info, e)
		_ = refs
		if base == nil {
			return
		}
		pr := x.path(tmp, e)
		if !pr.ok {
			return
		}
		if pr.plain {
			if pr.base != nil {
				locals[pr.base] = true
			}
			return
		}
		roots[pr.root] = true
	}
	fx := x.P.Fields()
	ast.Inspect(n, func(m ast.Node) bool {
		switch s := m.(type) {
		case *ast.AssignStmt:
			for _, l := range s.Lhs {
				addL(l)
			}
		case *ast.IncDecStmt:
			addL(s.X)
		case *ast.RangeStmt:
			if s.Key != nil {
				addL(s.Key)
			}
			if s.Value != nil {
				addL(s.Value)
			}
		case *ast.DeclStmt:
			if gd, ok := s.Decl.(*ast.GenDecl); ok {
				for _, sp := range gd.Specs {
					if vs, ok := sp.(*ast.ValueSpec); ok {
						for _, nm := range vs.Names {
							if o := x.Info.Defs[nm]; o != nil {
								locals[o] = true
							}
						}
					}
				}
			}
		case *ast.CallExpr:
			cf := callee(x.Info, s)
			if cf == nil {
				if tv, ok := x.Info.Types[s.Fun]; ok && tv.IsType() {
					return true
				}
				if id, ok := s.Fun.(*ast.Ident); ok {
					if _, isB := x.Info.Uses[id].(*types.Builtin); isB {
						return true
					}
				}
				unk = true
				return true
			}
			if se, ok := s.Fun.(*ast.SelectorExpr); ok && strings.HasPrefix(calleeName(cf), "hermes.DualType.") {
				if pr := x.path(tmp, se.X); pr.ok {
					roots[pr.root+".Index"] = true
				}
			}
			if t := x.P.ByObj[cf]; t != nil {
				for r := range fx.Mod[t] {
					if singletonTypes[r.Struct] {
						roots[r.Struct+"."+r.Field] = true
						x.lastCallRoots[r.Struct+"."+r.Field] = true
					}
				}
				if fx.Unk[t] {
					unk = true
				}
				if len(fx.Mod[t]) > 0 {
					// variable-named roots reachable through arguments
					for _, a := range s.Args {
						if ue, ok := a.(*ast.UnaryExpr); ok && ue.Op == token.AND {
							if pr := x.path(tmp, ue.X); pr.ok {
								roots[pr.root] = true
								x.lastCallRoots[pr.root] = true
							}
						}
					}
				}
			}
		}
		return true
	})
	return
}

func (x *Exec) havocAssigned(st *State, n ast.Node, tag string) {
	locals, roots, unk := x.assignedIn(n)
	objs := make([]types.Object, 0, len(locals))
	for o := range locals {
		objs = append(objs, o)
	}
	sort.Slice(objs, func(i, j int) bool { return objs[i].Pos() < objs[j].Pos() })
	for _, o := range objs {
		if v, ok := st.vars[o]; ok {
			x.emit(st, &Event{Kind: "abstract", Local: o, Val: v, Name: o.Name(), Pos: n.Pos()})
		}
		la := internAtom(&Atom{Key: fmt.Sprintf("%s@%s", o.Name(), tag), Kind: "loop", Root: o.Name()})
		la.IntTyped = isIntegerType(o.Type())
		st.vars[o] = PAtom(la)
	}
	for r := range roots {
		x.killPrefix(st, r)
	}
	if unk {
		for r := range st.cells {
			x.killRoot(st, r)
		}
	}
}

func (x *Exec) stmt(st *State, s ast.Stmt) []*State {
	if x.OnStmt != nil {
		x.OnStmt(st, s)
	}
	switch t := s.(type) {
	case *ast.BlockStmt:
		return x.block([]*State{st}, t.List)
	case *ast.ExprStmt:
		x.eval(st, t.X)
		return []*State{st}
	case *ast.EmptyStmt:
		return []*State{st}
	case *ast.LabeledStmt:
		return x.stmt(st, t.Stmt)
	case *ast.DeclStmt:
		if gd, ok := t.Decl.(*ast.GenDecl); ok {
			for _, sp := range gd.Specs {
				vs, ok := sp.(*ast.ValueSpec)
				if !ok {
					continue
				}
				for i, nm := range vs.Names {
					obj := x.Info.Defs[nm]
					if obj == nil {
						continue
					}
					if i < len(vs.Values) {
						x.assignTo(st, nm, x.eval(st, vs.Values[i]), s, true)
						continue
					}
					if isNumeric(obj.Type()) {
						x.assignTo(st, nm, PZero(), s, true)
					} else if b, ok := obj.Type().Underlying().(*types.Basic); ok && b.Kind() == types.String {
						x.assignTo(st, nm, PAtom(internAtom(&Atom{Key: `""`, Kind: "str"})), s, true)
					} else if b, ok := obj.Type().Underlying().(*types.Basic); ok && b.Kind() == types.Bool {
						x.assignTo(st, nm, PAtom(internAtom(&Atom{Key: "false", Kind: "str"})), s, true)
					} else {
						// aggregate zero value: cells unknown (sound)
						x.killPrefix(st, nm.Name)
						delete(st.vars, obj)
					}
				}
			}
		}
		return []*State{st}
	case *ast.IncDecStmt:
		v := x.eval(st, t.X)
		if t.Tok == token.INC {
			v = v.Add(PInt(1))
		} else {
			v = v.Sub(PInt(1))
		}
		x.assignTo(st, t.X, v, s, false)
		return []*State{st}
	case *ast.AssignStmt:
		x.assign(st, t)
		return []*State{st}
	case *ast.GoStmt:
		for _, a := range t.Call.Args {
			x.eval(st, a)
		}
		x.emit(st, &Event{Kind: "call", Pos: t.Pos(), Stmt: s, Call: t.Call, Go: true, Callee: callee(x.Info, t.Call), Name: calleeName(callee(x.Info, t.Call))})
		return []*State{st}
	case *ast.DeferStmt:
		x.emit(st, &Event{Kind: "call", Pos: t.Pos(), Stmt: s, Call: t.Call, Defer: true, Callee: callee(x.Info, t.Call), Name: calleeName(callee(x.Info, t.Call))})
		return []*State{st}
	case *ast.SendStmt:
		v := x.eval(st, t.Value)
		c := x.eval(st, t.Chan)
		x.emit(st, &Event{Kind: "call", Pos: t.Pos(), Stmt: s, Name: "chan<-", Args: []Poly{c, v}})
		return []*State{st}
	case *ast.ReturnStmt:
		ev := &Event{Kind: "return", Pos: t.Pos(), Stmt: s}
		for _, r := range t.Results {
			ev.Rets = append(ev.Rets, x.eval(st, r))
		}
		x.emit(st, ev)
		st.term = 1
		x.Returns = append(x.Returns, st)
		return []*State{st}
	case *ast.BranchStmt:
		switch t.Tok {
		case token.BREAK:
			x.emit(st, &Event{Kind: "break", Pos: t.Pos(), Stmt: s})
			st.term = 2
		case token.CONTINUE:
			x.emit(st, &Event{Kind: "continue", Pos: t.Pos(), Stmt: s})
			st.term = 3
		default:
			x.Unsup = append(x.Unsup, fmt.Sprintf("%s: %s", x.P.Pos(t.Pos()), t.Tok))
		}
		return []*State{st}
	case *ast.IfStmt:
		if t.Init != nil {
			sts := x.stmt(st, t.Init)
			st = sts[0]
		}
		c := x.cond(st, t.Cond)
		a := st.clone()
		a.guards = append(a.guards, c)
		b := st.clone()
		b.guards = append(b.guards, c.Negate())
		as := x.block([]*State{a}, t.Body.List)
		var bs []*State
		if t.Else != nil {
			bs = x.stmt(b, t.Else)
		} else {
			bs = []*State{b}
		}
		return x.merge(st, append(as, bs...), t)
	case *ast.SwitchStmt:
		return x.switchStmt(st, t)
	case *ast.TypeSwitchStmt:
		var outs []*State
		if t.Init != nil {
			st = x.stmt(st, t.Init)[0]
		}
		for _, cl := range t.Body.List {
			cc := cl.(*ast.CaseClause)
			c := st.clone()
			c.guards = append(c.guards, &Cond{Kind: "opq", Text: "typeswitch@" + x.P.Pos(cc.Pos())})
			outs = append(outs, x.block([]*State{c}, cc.Body)...)
		}
		outs = append(outs, st.clone())
		return x.merge(st, outs, t)
	case *ast.ForStmt:
		return x.forStmt(st, t)
	case *ast.RangeStmt:
		return x.rangeStmt(st, t)
	case *ast.SelectStmt:
		var outs []*State
		for _, cl := range t.Body.List {
			cc := cl.(*ast.CommClause)
			c := st.clone()
			c.guards = append(c.guards, &Cond{Kind: "opq", Text: "select@" + x.P.Pos(cc.Pos())})
			if cc.Comm != nil {
				c = x.stmt(c, cc.Comm)[0]
			}
			outs = append(outs, x.block([]*State{c}, cc.Body)...)
		}
		return x.merge(st, outs, t)
	}
	x.Unsup = append(x.Unsup, fmt.Sprintf("%s: unsupported statement %T", x.P.Pos(s.Pos()), s))
	return []*State{st}
}

func (x *Exec) assign(st *State, t *ast.AssignStmt) {
	if t.Tok != token.ASSIGN && t.Tok != token.DEFINE {
		// op-assign
		l := x.eval(st, t.Lhs[0])
		r := x.eval(st, t.Rhs[0])
		var v Poly
		switch t.Tok {
		case token.ADD_ASSIGN:
			if isNumeric(x.Info.TypeOf(t.Lhs[0])) {
				v = l.Add(r)
			} else {
				v = PCall("concat", l, r)
			}
		case token.SUB_ASSIGN:
			v = l.Sub(r)
		case token.MUL_ASSIGN:
			v = l.Mul(r)
		case token.QUO_ASSIGN:
			if isIntegerType(x.Info.TypeOf(t.Lhs[0])) {
				if x.OnOp != nil {
					x.OnOp(st, "idiv", t, []Poly{l, r})
				}
				v = PCall("idiv", l, r)
			} else {
				if x.OnOp != nil {
					x.OnOp(st, "quo", t, []Poly{l, r})
				}
				v = l.Div(r)
			}
		default:
			v = x.opaque(t.Rhs[0])
		}
		x.assignTo(st, t.Lhs[0], v, t, false)
		return
	}
	if len(t.Lhs) > 1 && len(t.Rhs) == 1 {
		var vals []Poly
		switch r := t.Rhs[0].(type) {
		case *ast.CallExpr:
			x.evalCall(st, r, &vals)
		default:
			v := x.eval(st, t.Rhs[0])
			vals = append(vals, v)
		}
		for i, l := range t.Lhs {
			var v Poly
			if i < len(vals) {
				v = vals[i]
			} else {
				v = x.opaque(t.Rhs[0])
			}
			x.assignTo(st, l, v, t, t.Tok == token.DEFINE)
		}
		return
	}
	vals := make([]Poly, len(t.Rhs))
	for i, r := range t.Rhs {
		vals[i] = x.eval(st, r)
		if fl, ok := r.(*ast.FuncLit); ok && i < len(t.Lhs) {
			if id, ok := t.Lhs[i].(*ast.Ident); ok {
				obj := x.Info.Defs[id]
				if obj == nil {
					obj = x.Info.Uses[id]
				}
				if obj != nil {
					st.lits[obj] = fl
				}
			}
		}
	}
	for i, l := range t.Lhs {
		if i < len(vals) {
			x.assignTo(st, l, vals[i], t, t.Tok == token.DEFINE)
			if cl, ok := t.Rhs[i].(*ast.CompositeLit); ok {
				x.litCells(st, l, cl, t)
			}
		}
	}
}

// litCells models  v := []T{e0, e1, ...}  /  [n]T{...}  as stores v[i] = e_i.
func (x *Exec) litCells(st *State, lhs ast.Expr, cl *ast.CompositeLit, s ast.Stmt) {
	id, ok := lhs.(*ast.Ident)
	if !ok {
		return
	}
	switch x.Info.TypeOf(cl).Underlying().(type) {
	case *types.Slice, *types.Array:
	default:
		return
	}
	for i, el := range cl.Elts {
		if _, isKV := el.(*ast.KeyValueExpr); isKV {
			return
		}
		v := x.eval(st, el)
		idx := []Poly{PInt(int64(i))}
		x.storeCell(st, id.Name, idx, v)
		x.emit(st, &Event{Kind: "assign", Pos: el.Pos(), Stmt: s, Root: id.Name, Idx: idx, Old: PZero(), Val: v, Name: id.Name})
	}
}

func (x *Exec) switchStmt(st *State, t *ast.SwitchStmt) []*State {
	if t.Init != nil {
		st = x.stmt(st, t.Init)[0]
	}
	var tag Poly
	hasTag := t.Tag != nil
	if hasTag {
		tag = x.eval(st, t.Tag)
	}
	var outs []*State
	var prevNeg []*Cond
	var def *ast.CaseClause
	for _, cl := range t.Body.List {
		cc := cl.(*ast.CaseClause)
		if cc.List == nil {
			def = cc
			continue
		}
		var alts []*Cond
		for _, e := range cc.List {
			if hasTag {
				alts = append(alts, mkCmp(tag, x.eval(st, e), token.EQL, e))
			} else {
				alts = append(alts, x.cond(st, e))
			}
		}
		var c *Cond
		if len(alts) == 1 {
			c = alts[0]
		} else {
			c = &Cond{Kind: "or", Sub: alts}
		}
		b := st.clone()
		b.guards = append(b.guards, prevNeg...)
		b.guards = append(b.guards, c)
		outs = append(outs, x.block([]*State{b}, cc.Body)...)
		prevNeg = append(prevNeg, c.Negate())
	}
	d := st.clone()
	d.guards = append(d.guards, prevNeg...)
	if def != nil {
		outs = append(outs, x.block([]*State{d}, def.Body)...)
	} else {
		outs = append(outs, d)
	}
	// a "break" inside a switch leaves the switch, not the loop
	for _, o := range outs {
		if o.term == 2 && !breaksLoop(t, o) {
			o.term = 0
		}
	}
	return x.merge(st, outs, t)
}

func breaksLoop(t *ast.SwitchStmt, o *State) bool { return false }

func (x *Exec) forStmt(st *State, t *ast.ForStmt) []*State {
	if t.Init != nil {
		st = x.stmt(st, t.Init)[0]
	}
	x.nloop++
	L := &LoopCtx{ID: x.nloop, Stmt: t, Entry: st.clone()}
	x.AllLoops = append(x.AllLoops, L)
	tag := fmt.Sprintf("L%d", L.ID)
	head := st.clone()
	x.havocAssigned(head, t, tag)
	// induction variable: the variable of Init that Post updates
	if as, ok := t.Init.(*ast.AssignStmt); ok && len(as.Lhs) == 1 {
		if id, ok := as.Lhs[0].(*ast.Ident); ok {
			if obj := x.Info.Defs[id]; obj != nil {
				L.VarObj = obj
				if v, ok := head.vars[obj]; ok {
					if tm := v.single(); tm != nil && len(tm.M) == 1 {
						L.Var = tm.M[0].A
					}
				}
				L.Lo = st.vars[obj]
			}
		}
	}
	if L.VarObj == nil {
		// "for ; i < n; i++": induction variable taken from the post statement
		var id *ast.Ident
		switch ps := t.Post.(type) {
		case *ast.IncDecStmt:
			id, _ = ps.X.(*ast.Ident)
		case *ast.AssignStmt:
			if len(ps.Lhs) == 1 {
				id, _ = ps.Lhs[0].(*ast.Ident)
			}
		}
		if id != nil {
			if obj := x.Info.Uses[id]; obj != nil {
				L.VarObj = obj
				if v, ok := head.vars[obj]; ok {
					if tm := v.single(); tm != nil && len(tm.M) == 1 {
						L.Var = tm.M[0].A
					}
				}
				if v, ok := st.vars[obj]; ok {
					L.Lo = v
				}
			}
		}
	}
	if t.Cond != nil {
		c := x.cond(head, t.Cond)
		c.Loop = true
		L.Cond = c
		head.guards = append(head.guards, c)
	}
	x.loops = append(x.loops, L)
	evStart := len(x.Events)
	body := x.block([]*State{head}, t.Body.List)
	for _, b := range body {
		if b.term == 0 || b.term == 3 {
			b.term = 0
			if t.Post != nil {
				x.stmt(b, t.Post)
			}
		}
	}
	x.loops = x.loops[:len(x.loops)-1]
	after := st.clone()
	keep := x.survivors(st, L, evStart)
	x.havocAssigned(after, t, tag+"x")
	for root, cvs := range keep {
		m := after.cells[root]
		if m == nil {
			m = map[string]cellVal{}
			after.cells[root] = m
		}
		for _, cv := range cvs {
			m[idxKey(cv.idx)] = cv
		}
	}
	if t.Cond != nil && !loopHasBreak(t.Body) {
		// the loop can only be left through its header: the negated condition holds afterwards
		nc := x.cond(after, t.Cond).Negate()
		nc.Loop = true
		after.guards = append(after.guards, nc)
	}
	outs := []*State{after}
	for _, b := range body {
		if b.term == 1 {
			outs = append(outs, b)
		}
	}
	return outs
}

// loopHasBreak reports whether body contains a break that leaves the loop
// (unlabeled and not nested in an inner loop/switch/select, or any labeled break).
func loopHasBreak(body *ast.BlockStmt) bool {
	found := false
	var visit func(n ast.Node, shielded bool)
	visit = func(n ast.Node, shielded bool) {
		if n == nil || found {
			return
		}
		switch t := n.(type) {
		case *ast.BranchStmt:
			if t.Tok == token.BREAK && (t.Label != nil || !shielded) {
				found = true
			}
			if t.Tok == token.GOTO {
				found = true
			}
		case *ast.ForStmt:
			visit(t.Body, true)
		case *ast.RangeStmt:
			visit(t.Body, true)
		case *ast.SwitchStmt:
			visit(t.Body, true)
		case *ast.TypeSwitchStmt:
			visit(t.Body, true)
		case *ast.SelectStmt:
			visit(t.Body, true)
		case *ast.BlockStmt:
			for _, s := range t.List {
				visit(s, shielded)
			}
		case *ast.IfStmt:
			visit(t.Body, shielded)
			visit(t.Else, shielded)
		case *ast.CaseClause:
			for _, s := range t.Body {
				visit(s, shielded)
			}
		case *ast.CommClause:
			for _, s := range t.Body {
				visit(s, shielded)
			}
		case *ast.LabeledStmt:
			visit(t.Stmt, shielded)
		case *ast.FuncLit:
		}
	}
	visit(body, false)
	return found
}

// survivors returns the forwarded cells of the pre-loop state that no
// iteration of counted loop L can overwrite: every store to their root inside
// the loop is an innermost store whose index is (loop variable + c) with the
// cell's index provably below the first iteration's, or differs by a non-zero
// constant in another dimension.
func (x *Exec) survivors(st *State, L *LoopCtx, evStart int) map[string][]cellVal {
	out := map[string][]cellVal{}
	if L.Var == nil || L.Lo.T == nil {
		return out
	}
	if fs, ok := L.Stmt.(*ast.ForStmt); !ok {
		return out
	} else if inc, ok := fs.Post.(*ast.IncDecStmt); !ok || inc.Tok != token.INC {
		return out
	} else if id, ok := inc.X.(*ast.Ident); !ok || x.Info.Uses[id] != L.VarObj {
		return out
	}
	_, roots, unk := x.assignedIn(L.Stmt)
	if unk {
		return out
	}
	callRoots := x.lastCallRoots
	v := PAtom(L.Var)
	for root := range roots {
		if callRoots[root] {
			continue
		}
		blocked := false
		for r2 := range roots {
			if r2 != root && (strings.HasPrefix(r2, root+".") || strings.HasPrefix(root, r2+".")) {
				blocked = true
			}
		}
		if blocked {
			continue
		}
		var stores []*Event
		ok := true
		for _, e := range x.Events[evStart:] {
			if e.Kind != "assign" || e.Root != root || !e.InLoop(L) {
				continue
			}
			if !innermost(e, L) {
				ok = false
				break
			}
			stores = append(stores, e)
		}
		if !ok || len(stores) == 0 {
			continue
		}
		for _, cv := range st.cells[root] {
			safe := true
			for _, e := range stores {
				if len(e.Idx) != len(cv.idx) {
					safe = false
					break
				}
				distinct := false
				for d := range e.Idx {
					diff := cv.idx[d].Sub(e.Idx[d])
					if c, isC := diff.Const(); isC && c.Sign() != 0 {
						distinct = true
						break
					}
					// store index v + c', cell index J: J - (lo + c') < 0
					cprime := e.Idx[d].Sub(v)
					if cprime.MentionsAtom(L.Var) {
						continue
					}
					below := cv.idx[d].Sub(L.Lo.Add(cprime))
					if c, isC := below.Const(); isC && c.Sign() < 0 {
						distinct = true
						break
					}
				}
				if !distinct {
					safe = false
					break
				}
			}
			if safe {
				out[root] = append(out[root], cv)
			}
		}
	}
	return out
}

func (x *Exec) rangeStmt(st *State, t *ast.RangeStmt) []*State {
	x.eval(st, t.X)
	x.nloop++
	L := &LoopCtx{ID: x.nloop, Stmt: t, Entry: st.clone(), Range: true, RangeX: t.X}
	x.AllLoops = append(x.AllLoops, L)
	tag := fmt.Sprintf("L%d", L.ID)
	head := st.clone()
	x.havocAssigned(head, t, tag)
	if id, ok := t.Key.(*ast.Ident); ok && id.Name != "_" {
		obj := x.Info.Defs[id]
		if obj == nil {
			obj = x.Info.Uses[id]
		}
		if obj != nil {
			L.VarObj = obj
			if v, ok := head.vars[obj]; ok {
				if tm := v.single(); tm != nil && len(tm.M) == 1 {
					L.Var = tm.M[0].A
				}
			}
		}
	}
	x.loops = append(x.loops, L)
	body := x.block([]*State{head}, t.Body.List)
	x.loops = x.loops[:len(x.loops)-1]
	after := st.clone()
	x.havocAssigned(after, t, tag+"x")
	outs := []*State{after}
	for _, b := range body {
		if b.term == 1 {
			outs = append(outs, b)
		}
	}
	return outs
}

// RunFunc walks a whole function body from an unconstrained entry state.
func (x *Exec) RunBody(body *ast.BlockStmt) []*State {
	st := newState()
	return x.block([]*State{st}, body.List)
}

// Walk is the convenience entry: walk function key (optionally the n-th
// function literal inside it) in join mode and return the executor.
func WalkFunc(p *Prog, key string) (*Exec, error) {
	fi := p.Funcs[key]
	if fi == nil {
		return nil, fmt.Errorf("function %s not found", key)
	}
	x := NewExec(p, fi)
	x.RunBody(fi.Decl.Body)
	return x, nil
}
