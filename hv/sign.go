package main

// Sign analysis over the walker's polynomials: decides, from the path
// condition in force at a statement, the values the analysed function itself
// stored before it (φ arms of the join-mode walk) and a table of named
// assumptions about the model state, whether an operand can be negative, zero
// or positive.  It is used for the domain obligations of partial floating
// point operations (0/0, x/0, pow of a negative base with a fractional
// exponent, sqrt/log of a negative number), which are where NaN and ±Inf enter
// the model state.
//
// The analysis is sound for "cannot be": a sign is excluded only when a fact
// or the structure of the expression excludes it.  When nothing is known the
// answer is "any sign" and the obligation stays unproved.

import (
	"fmt"
	"go/ast"
	"go/token"
	"go/types"
	"math"
	"math/big"
	"os"
	"regexp"
	"sort"
	"strconv"
	"strings"
)

type Sg uint8

const (
	sN   Sg = 1
	sZ   Sg = 2
	sP   Sg = 4
	sAll Sg = 7
)

func (s Sg) String() string {
	switch s {
	case sN:
		return "<0"
	case sZ:
		return "=0"
	case sP:
		return ">0"
	case sN | sZ:
		return "<=0"
	case sZ | sP:
		return ">=0"
	case sN | sP:
		return "!=0"
	case 0:
		return "unreachable"
	}
	return "any"
}

func sgOfRat(c *big.Rat) Sg {
	switch c.Sign() {
	case -1:
		return sN
	case 1:
		return sP
	}
	return sZ
}

func sgNeg(a Sg) Sg {
	var r Sg
	if a&sN != 0 {
		r |= sP
	}
	if a&sP != 0 {
		r |= sN
	}
	if a&sZ != 0 {
		r |= sZ
	}
	return r
}

func sgAdd(a, b Sg) Sg {
	var r Sg
	for _, x := range []Sg{sN, sZ, sP} {
		if a&x == 0 {
			continue
		}
		for _, y := range []Sg{sN, sZ, sP} {
			if b&y == 0 {
				continue
			}
			switch {
			case x == sZ:
				r |= y
			case y == sZ:
				r |= x
			case x == y:
				r |= x
			default:
				r |= sAll
			}
		}
	}
	return r
}

func sgMul(a, b Sg) Sg {
	var r Sg
	for _, x := range []Sg{sN, sZ, sP} {
		if a&x == 0 {
			continue
		}
		for _, y := range []Sg{sN, sZ, sP} {
			if b&y == 0 {
				continue
			}
			switch {
			case x == sZ || y == sZ:
				r |= sZ
			case x == y:
				r |= sP
			default:
				r |= sN
			}
		}
	}
	return r
}

func sgPow(a Sg, e int) Sg {
	if e < 0 {
		// 1/x has the sign of x; x = 0 is the caller's obligation
		a &^= sZ
		if a == 0 {
			return sAll
		}
		e = -e
	}
	if e%2 == 0 {
		var r Sg
		if a&(sN|sP) != 0 {
			r |= sP
		}
		if a&sZ != 0 {
			r |= sZ
		}
		return r
	}
	return a
}

// signEnv is the context of one query.
type signEnv struct {
	x           *Exec
	facts       []*Cond
	loops       []*LoopCtx
	assume      func(a *Atom) (Sg, string)
	rewrite     func(a *Atom) (Poly, bool)
	box         func(a *Atom) (Iv, string, bool)
	used        map[string]bool // assumptions that were needed
	depth       int
	eqs         map[*Atom]Poly
	noFill      bool
	clears      int
	implied     []string
	as          *Assumptions
	impliedDone bool
	factCache   map[*Cond]Poly
	budget      *int // remaining polynomial evaluations of this query (shared by all sub-queries)
}

func (env *signEnv) with(extra []*Cond) *signEnv {
	n := *env
	n.facts = append(append([]*Cond{}, env.facts...), extra...)
	n.eqs = nil
	return &n
}

// factSign: the signs of q that are consistent with the fact c (sAll when c says nothing about q).
func (env *signEnv) factSign(c *Cond, q Poly) Sg {
	switch c.Kind {
	case "and":
		r := sAll
		for _, s := range c.Sub {
			r &= env.factSign(s, q)
		}
		return r
	case "or":
		var r Sg
		for _, s := range c.Sub {
			r |= env.factSign(s, q)
		}
		return r
	case "not":
		if len(c.Sub) == 1 {
			n := c.Sub[0].Negate()
			if n.Kind != "not" {
				return env.factSign(n, q)
			}
		}
		return sAll
	case "cmp":
		return env.cmpSign(c, q)
	}
	return sAll
}

func opSign(op token.Token) Sg {
	switch op {
	case token.GTR:
		return sP
	case token.GEQ:
		return sZ | sP
	case token.LSS:
		return sN
	case token.LEQ:
		return sN | sZ
	case token.EQL:
		return sZ
	case token.NEQ:
		return sN | sP
	}
	return sAll
}

// cmpSign: fact "P op 0"; if q = k·P + d for a rational k and a remainder d whose sign is known
// (a constant, or decided by the other facts), the sign of q follows.
func (env *signEnv) cmpSign(c *Cond, q Poly) Sg {
	if env.factCache == nil {
		env.factCache = map[*Cond]Poly{}
	}
	P, cached := env.factCache[c]
	if !cached {
		P = env.rw(c.P)
		env.factCache[c] = P
	}
	best := sAll
	tried := 0
	for _, t := range P.sortedTerms() {
		if len(t.M) == 0 {
			continue
		}
		qt, ok := q.T[t.monoKey()]
		if !ok {
			continue
		}
		tried++
		if tried > 3 {
			break
		}
		k := new(big.Rat).Quo(qt.C, t.C)
		d := q.Sub(P.Scale(k))
		var ds Sg
		if cst, ok := d.Const(); ok {
			ds = sgOfRat(cst)
		} else {
			if env.depth > 4 || len(d.T) >= len(q.T)+len(P.T) {
				continue
			}
			// the remainder must be simpler than q, and is decided without the fact just used
			sub := *env
			sub.facts = nil
			for _, f := range env.facts {
				if f != c {
					sub.facts = append(sub.facts, f)
				}
			}
			sub.depth = env.depth + 2
			ds = sub.poly(d)
			if ds == sAll {
				continue
			}
		}
		s := opSign(c.Op)
		if k.Sign() < 0 {
			s = sgNeg(s)
		}
		best &= sgAdd(s, ds)
	}
	return best
}

// rw applies the assumption table's rewriting (ordered soil parameters as sums of positive gaps).
func (env *signEnv) rw(q Poly) Poly {
	if env.rewrite == nil || !mentionsRewritable(q) {
		return q
	}
	return q.Subst(func(a *Atom) (Poly, bool) {
		v, ok := env.rewrite(a)
		if ok && env.used != nil {
			switch {
			case a.Root == "GlobalVarsMain.ERNTE":
				env.used["harvest-after-sowing"] = true
			case a.Root == "GlobalVarsMain.WG":
				env.used["water<1.04·pore-volume"] = true
				env.used["soil-order"] = true
			default:
				env.used["soil-order"] = true
			}
		}
		return v, ok
	})
}

func (env *signEnv) poly(q Poly) Sg {
	if c, ok := q.Const(); ok {
		return sgOfRat(c)
	}
	if env.depth > 24 {
		return sAll
	}
	if env.budget == nil {
		b := 40000
		env.budget = &b
	}
	*env.budget--
	if *env.budget < 0 {
		return sAll
	}
	if env.depth == 0 && env.as != nil && !env.impliedDone {
		env.impliedDone = true
		extra, names := env.as.Implied(env.facts, q)
		env.facts = append(env.facts, extra...)
		env.implied = append(env.implied, names...)
	}
	q = env.rw(env.substEq(q))
	if c, ok := q.Const(); ok {
		return sgOfRat(c)
	}
	r := sAll
	qa := atomSet(q)
	for _, f := range env.facts {
		if !condMentions(f, qa) {
			continue
		}
		r &= env.factSign(f, q)
	}
	env.depth++
	defer func() { env.depth-- }()
	// structural
	var sum Sg = sZ
	for _, t := range q.sortedTerms() {
		ts := sgOfRat(t.C)
		for _, f := range t.M {
			ts = sgMul(ts, sgPow(env.atom(f.A), f.E))
		}
		sum = sgAdd(sum, ts)
		if sum == sAll {
			break
		}
	}
	r &= sum
	if r == sAll && len(q.T) > 1 {
		// common factor: q = m·q' with a monomial m shared by all terms
		if m, rest, ok := commonFactor(q); ok {
			ms := sP
			for _, f := range m {
				ms = sgMul(ms, sgPow(env.atom(f.A), f.E))
			}
			r &= sgMul(ms, env.poly(rest))
		}
	}
	if r&(r-1) != 0 && len(q.T) > 1 && len(q.T) <= 8 && env.clears < 2 {
		// clear a positive denominator: q·D has the sign of q when D > 0
		env.clears++
		defer func() { env.clears-- }()
		if q2, ok := env.clearDenominator(q); ok && len(q2.T) <= 24 {
			s2 := env.poly(q2)
			if signDebug {
				fmt.Fprintf(os.Stderr, "  cleared %s -> %s : %s\n", clip(q.String(), 120), clip(q2.String(), 160), s2)
			}
			r &= s2
		}
	}
	if r&(r-1) != 0 && len(q.T) > 2 {
		// Horner step: q = A·q1 + q0 for an atom A that occurs in several terms
		if a, q1, q0, ok := splitByAtom(q); ok {
			r &= sgAdd(sgMul(env.atom(a), env.poly(q1)), env.poly(q0))
		}
	}
	if r&(r-1) != 0 {
		// min(…, A, …) <= A and max(…, A, …) >= A: replace the call by one of its arguments
		for _, t := range q.sortedTerms() {
			if len(t.M) != 1 || t.M[0].E != 1 || t.M[0].A.Kind != "call" || (t.M[0].A.Fn != "min" && t.M[0].A.Fn != "max") {
				continue
			}
			M := t.M[0].A
			for _, A := range M.Args {
				q2 := q.Sub(PAtom(M).Scale(t.C)).Add(A.Scale(t.C))
				if len(q2.T) >= len(q.T) {
					continue
				}
				// q − q2 = c·(M − A); min: M − A <= 0, max: M − A >= 0
				up := (t.C.Sign() > 0) == (M.Fn == "max") // q >= q2
				s2 := env.poly(q2)
				if up && s2&sN == 0 {
					r &= s2 | sP
				}
				if !up && s2&sP == 0 {
					r &= s2 | sN
				}
			}
		}
	}
	if r&(r-1) != 0 && env.box != nil {
		// more than one sign left: interval evaluation over the assumed input ranges
		names := map[string]bool{}
		iv, err := evalIv(q, func(a *Atom) (Iv, bool) {
			v, name, ok := env.box(a)
			if ok {
				names[name] = true
			}
			return v, ok
		})
		if signDebug {
			fmt.Fprintf(os.Stderr, "  interval %s -> [%g,%g] err=%v\n", clip(q.String(), 80), iv.Lo, iv.Hi, err)
		}
		if err == nil && !math.IsNaN(iv.Lo) && !math.IsNaN(iv.Hi) {
			var s Sg
			if iv.Lo < 0 {
				s |= sN
			}
			if iv.Hi > 0 {
				s |= sP
			}
			if iv.Lo <= 0 && iv.Hi >= 0 {
				s |= sZ
			}
			if r&s != r {
				for n := range names {
					if env.used != nil {
						env.used[n] = true
					}
				}
				r &= s
			}
		}
	}
	return r
}

// commonFactor splits q into a monomial shared by every term and the rest.
func commonFactor(q Poly) ([]Factor, Poly, bool) {
	ts := q.sortedTerms()
	if len(ts) < 2 {
		return nil, q, false
	}
	common := map[*Atom]int{}
	for _, f := range ts[0].M {
		common[f.A] = f.E
	}
	for _, t := range ts[1:] {
		seen := map[*Atom]int{}
		for _, f := range t.M {
			seen[f.A] = f.E
		}
		for a, e := range common {
			e2, ok := seen[a]
			if !ok || (e > 0) != (e2 > 0) {
				delete(common, a)
				continue
			}
			if e > 0 && e2 < e || e < 0 && e2 > e {
				common[a] = e2
			}
		}
	}
	if len(common) == 0 {
		return nil, q, false
	}
	var m []Factor
	div := PInt(1)
	for a, e := range common {
		m = append(m, Factor{A: a, E: e})
		div = div.Mul(PAtom(a).PowIntSigned(e))
	}
	sort.Slice(m, func(i, j int) bool { return m[i].A.Key < m[j].A.Key })
	rest := q.Mul(PInv(div))
	return m, rest, true
}

func (env *signEnv) atom(a *Atom) Sg {
	r := sAll
	pa := PAtom(a)
	qa := map[*Atom]bool{a: true}
	for _, f := range env.facts {
		if !condMentions(f, qa) {
			continue
		}
		r &= env.factSign(f, pa)
	}
	switch a.Kind {
	case "inv":
		if len(a.Args) == 1 {
			r &= env.poly(a.Args[0])
		}
	case "phi":
		r &= env.phi(a)
	case "cell":
		if a.Ver < 0 {
			if _, ok := env.x.Phis[a.Key]; ok {
				r &= env.phi(a)
			}
		}
		if r == sAll && len(a.Idx) == 1 {
			r &= env.filledArray(a)
		}
	case "loop":
		if r&(r-1) != 0 {
			r &= env.accumulator(a)
		}
		if r == sZ|sP && env.sumDominates(a) {
			r = sP
		}
		for _, L := range env.x.AllLoops {
			if L.Var == a && ascendingLoop(env.x, L) {
				ls := env.poly(L.Lo)
				if ls&sN == 0 {
					r &= ls | sP
				}
			}
		}
	case "call":
		r &= env.call(a)
		if r&(r-1) != 0 && (a.Fn == "min" || a.Fn == "max") {
			_ = a
		}
	case "gap":
		if a.Fn == "pos" {
			r &= sP
		} else {
			r &= sZ | sP
		}
	}
	if r&(r-1) != 0 && env.depth < 6 {
		// a fact that makes int(a) positive makes a >= 1
		ia := internAtomLookup("int(" + pa.String() + ")")
		if ia != nil {
			for _, f := range env.facts {
				if env.factSign(f, PAtom(ia)) == sP {
					r &= sP
				}
			}
		}
	}
	if env.assume != nil && r != 0 {
		if s, name := env.assume(a); s != sAll {
			if r&s != r {
				if env.used != nil {
					env.used[name] = true
				}
				r &= s
			}
		}
	}
	return r
}

func (env *signEnv) phi(a *Atom) Sg {
	arms, ok := env.x.Phis[a.Key]
	if !ok || env.depth > 20 {
		return sAll
	}
	var r Sg
	for _, arm := range arms {
		if !arm.Has {
			return sAll
		}
		sub := &signEnv{x: env.x, facts: flattenGuards(arm.Guards), loops: env.loops, assume: env.assume, rewrite: env.rewrite, box: env.box, used: env.used, depth: env.depth + 1, budget: env.budget}
		r |= sub.poly(arm.Val)
	}
	return r
}

func (env *signEnv) call(a *Atom) Sg {
	arg := func(i int) Sg {
		if i < len(a.Args) {
			return env.poly(a.Args[i])
		}
		return sAll
	}
	switch a.Fn {
	case "exp":
		return sP
	case "sqrt", "abs":
		s := arg(0)
		if s&sZ == 0 && s != 0 {
			return sP
		}
		if s == sZ {
			return sZ
		}
		return sZ | sP
	case "len", "cap":
		return sZ | sP
	case "pow":
		b := arg(0)
		if b&sN == 0 {
			if b&sZ == 0 {
				return sP
			}
			return sZ | sP
		}
		if len(a.Args) == 2 {
			if n, ok := a.Args[1].ConstInt(); ok && n%2 == 0 {
				return sZ | sP
			}
		}
		return sAll
	case "max":
		var u Sg
		pos, nonneg := false, false
		for i := range a.Args {
			s := arg(i)
			u |= s
			if s == sP {
				pos = true
			}
			if s&sN == 0 {
				nonneg = true
			}
		}
		if pos {
			return sP
		}
		if nonneg {
			return u &^ sN
		}
		return u
	case "min":
		var u Sg
		neg, nonpos := false, false
		for i := range a.Args {
			s := arg(i)
			u |= s
			if s == sN {
				neg = true
			}
			if s&sP == 0 {
				nonpos = true
			}
		}
		if neg {
			return sN
		}
		if nonpos {
			return u &^ sP
		}
		return u
	case "int", "floor", "trunc", "round":
		s := arg(0)
		if s == sP && len(a.Args) == 1 {
			// at least 1 (at least 1/2 for round) stays positive
			lim := PInt(1)
			if a.Fn == "round" {
				lim = PFrac(1, 2)
			}
			ls := env.poly(a.Args[0].Sub(lim))
			if signDebug {
				fmt.Fprintf(os.Stderr, "  int-case %s: arg-lim %s\n", a.Key, ls)
			}
			if ls&sN == 0 {
				return sP
			}
		}
		// rounding towards zero / down / nearest keeps "not negative"; a positive value may become 0
		if s&sN == 0 {
			return sZ | sP
		}
		if a.Fn == "int" || a.Fn == "trunc" {
			if s&sP == 0 {
				return sN | sZ
			}
		}
		return sAll
	case "ceil":
		s := arg(0)
		if s == sP {
			return sP
		}
		if s&sN == 0 {
			return sZ | sP
		}
		return sAll
	case "idiv":
		n, d := arg(0), arg(1)
		if n&sN == 0 && d&sN == 0 {
			return sZ | sP
		}
		return sAll
	case "mod":
		n := arg(0)
		if n&sN == 0 {
			return sZ | sP
		}
		return sAll
	}
	return env.summary(a)
}

// summary: the result of a small side-effect-free function of the analysed program is one of its return
// expressions with the arguments substituted (only when those expressions are free of joined values).
func (env *signEnv) summary(a *Atom) Sg {
	if env.depth > 8 || env.x == nil {
		return sAll
	}
	P := env.x.P
	key, k := a.Fn, 0
	fi := P.Funcs[key]
	if fi == nil {
		if i := strings.LastIndex(key, "."); i > 0 {
			if n, err := strconv.Atoi(key[i+1:]); err == nil {
				key, k = key[:i], n
				fi = P.Funcs[key]
			}
		}
	}
	if fi == nil || fi.Decl == nil || fi.Decl.Body == nil {
		return sAll
	}
	cx := walked(P, key)
	if cx == nil {
		return sAll
	}
	params := paramNames(fi.Decl)
	pidx := map[string]int{}
	for i, n := range params {
		pidx[n] = i
	}
	sub := func(a2 *Atom) (Poly, bool) {
		if a2.Kind == "var" {
			if i, ok := pidx[a2.Root]; ok && i < len(a.Args) {
				return a.Args[i], true
			}
		}
		return Poly{}, false
	}
	var r Sg
	n := 0
	for _, e := range cx.Events {
		if e.Kind != "return" || k >= len(e.Rets) {
			continue
		}
		n++
		ret := e.Rets[k]
		clean := true
		ret.walkAtoms(func(a2 *Atom) {
			if a2.Kind == "phi" || a2.Kind == "loop" || a2.Kind == "opq" || (a2.Kind == "cell" && a2.Ver != 0) {
				clean = false
			}
			if a2.Kind == "var" {
				if _, ok := pidx[a2.Root]; !ok {
					clean = false
				}
			}
		})
		if !clean {
			return sAll
		}
		se := env.with(nil)
		se.depth = env.depth + 1
		for _, g := range flattenGuards(e.Guards) {
			se.facts = append(se.facts, substCond(g, pidx, a.Args))
		}
		r |= se.poly(ret.Subst(sub))
	}
	if n == 0 {
		return sAll
	}
	return r
}

// blockers lists the atoms of q whose sign is completely unknown in this context (diagnostics).
func (env *signEnv) blockers(q Poly) []string {
	seen := map[string]bool{}
	var out []string
	q = env.rw(q)
	var rec func(q Poly)
	rec = func(q Poly) {
		for _, t := range q.T {
			for _, f := range t.M {
				a := f.A
				if env.atom(a) == sAll {
					k := verRe.ReplaceAllString(a.Key, "")
					if (a.Kind == "inv" || a.Kind == "call") && len(a.Args) > 0 && len(k) > 60 {
						for _, g := range a.Args {
							rec(g)
						}
						continue
					}
					if !seen[k] {
						seen[k] = true
						out = append(out, clip(k, 80))
					}
				}
			}
		}
	}
	rec(q)
	return out
}

// substEq uses equalities of the path condition of the form "v − c == 0" (v a local or loop variable) to
// replace v by the constant c.
func (env *signEnv) substEq(q Poly) Poly {
	if env.eqs == nil {
		env.eqs = map[*Atom]Poly{}
		for _, f := range env.facts {
			if f.Kind != "cmp" || f.Op != token.EQL {
				continue
			}
			var va *Atom
			var coef *big.Rat
			cst := new(big.Rat)
			okf := true
			for _, t := range f.P.T {
				switch {
				case len(t.M) == 0:
					cst = t.C
				case len(t.M) == 1 && t.M[0].E == 1 && va == nil && (t.M[0].A.Kind == "var" || t.M[0].A.Kind == "loop"):
					va, coef = t.M[0].A, t.C
				default:
					okf = false
				}
			}
			if okf && va != nil {
				env.eqs[va] = PRat(new(big.Rat).Neg(new(big.Rat).Quo(cst, coef)))
			}
		}
	}
	if len(env.eqs) == 0 {
		return q
	}
	return q.Subst(func(a *Atom) (Poly, bool) {
		v, ok := env.eqs[a]
		return v, ok
	})
}

// clearDenominator multiplies q by the base D of an inverse factor D^-1 when D is positive: every term that
// carries D^-1 loses it, every other term is multiplied by D (for an "inv" atom D is the sum it stands for).
func (env *signEnv) clearDenominator(q Poly) (Poly, bool) {
	var D *Atom
	for _, t := range q.sortedTerms() {
		for _, f := range t.M {
			if f.E < 0 && D == nil && env.atom(f.A) == sP {
				D = f.A
			}
		}
	}
	if D == nil {
		return q, false
	}
	dp := PAtom(D)
	if D.Kind == "inv" && len(D.Args) == 1 {
		dp = D.Args[0]
	}
	r := PZero()
	for _, t := range q.T {
		has := false
		var m []Factor
		for _, f := range t.M {
			if f.A == D && f.E < 0 {
				has = true
				if f.E+1 != 0 {
					m = append(m, Factor{A: f.A, E: f.E + 1})
				}
				continue
			}
			m = append(m, f)
		}
		nt := &Term{C: t.C, M: m}
		tp := Poly{T: map[string]*Term{nt.monoKey(): nt}}
		if !has {
			tp = tp.Mul(dp)
		}
		r = r.Add(tp)
	}
	return r, true
}

// splitByAtom picks a function-valued atom that occurs (to the first power) in at least two terms but not in
// all of them and splits q = A·q1 + q0.
func splitByAtom(q Poly) (*Atom, Poly, Poly, bool) {
	count := map[*Atom]int{}
	for _, t := range q.T {
		for _, f := range t.M {
			if f.E == 1 && (f.A.Kind == "call" || f.A.Kind == "inv" || f.A.Kind == "phi") {
				count[f.A]++
			}
		}
	}
	var best *Atom
	for a, n := range count {
		if n >= 2 && n < len(q.T) && (best == nil || n > count[best] || n == count[best] && a.Key < best.Key) {
			best = a
		}
	}
	if best == nil {
		return nil, q, q, false
	}
	q1, q0 := PZero(), PZero()
	inv := PInv(PAtom(best))
	for _, t := range q.T {
		has := false
		for _, f := range t.M {
			if f.A == best && f.E == 1 {
				has = true
			}
		}
		tp := Poly{T: map[string]*Term{t.monoKey(): t}}
		if has {
			q1 = q1.Add(tp.Mul(inv))
		} else {
			q0 = q0.Add(tp)
		}
	}
	return best, q1, q0, true
}

// filledArray: a cell of an array that this function has filled, on every path before the current statement, by
// a counted loop storing at index (loop variable + c) without condition, has the sign common to all values stored
// there, provided the index read lies inside the filled range.
func (env *signEnv) filledArray(a *Atom) (res Sg) {
	why := ""
	if signDebug {
		defer func() { fmt.Fprintf(os.Stderr, "filledArray(%s) = %s %s\n", a.Key, res, why) }()
	}
	if env.depth > 4 || env.noFill {
		why = "depth"
		return sAll
	}
	if env.assume != nil {
		if s, _ := env.assume(a); s != sAll {
			return sAll
		}
	}
	x := env.x
	sub := *env
	sub.noFill = true
	sub.depth = env.depth + 1
	idx := a.Idx[0]
	// every store to the root so far; the stores of one sweeping loop that covers idx give the sign
	byLoop := map[*LoopCtx][]*Event{}
	var order []*LoopCtx
	for _, e := range x.Events {
		isWhole := e.Kind == "assign" && len(e.Idx) == 0 && (e.Root == a.Root || e.Local != nil && e.Local.Name() == a.Root)
		if isWhole {
			// the variable itself is (re)assigned, e.g. a fresh slice: earlier element stores no longer count
			byLoop = map[*LoopCtx][]*Event{}
			order = nil
			continue
		}
		if e.Kind != "assign" || e.Root != a.Root || len(e.Idx) != 1 {
			if e.Kind == "assign" && e.Root == a.Root {
				why = "store with unusual index"
				return sAll
			}
			continue
		}
		if len(e.Loops) == 0 {
			why = "store outside loops"
			return sAll // scattered single stores: not a sweep
		}
		L := e.Loops[len(e.Loops)-1]
		if byLoop[L] == nil {
			order = append(order, L)
		}
		byLoop[L] = append(byLoop[L], e)
	}
	if len(order) != 1 {
		why = fmt.Sprintf("%d filling loops", len(order))
		return sAll
	}
	L := order[0]
	for _, cur := range env.loops {
		if cur == L {
			why = "inside filling loop"
			return sAll // still inside the filling loop
		}
	}
	if L.Var == nil {
		return sAll
	}
	lo, hi, unit, lw := loopBounds(x, L)
	if lw != "" || !unit {
		why = "bounds: " + lw
		return sAll
	}
	var off *Poly
	var family [][]*Cond
	var u Sg
	for _, e := range byLoop[L] {
		d := e.Idx[0].Sub(PAtom(L.Var))
		if _, isC := d.Const(); !isC {
			return sAll
		}
		if off != nil && !off.Equal(d) {
			return sAll
		}
		dd := d
		off = &dd
		family = append(family, inLoopGuards(e, L))
		se := &signEnv{x: x, facts: flattenGuards(e.Guards), loops: e.Loops, assume: env.assume, rewrite: env.rewrite, box: env.box, used: env.used, depth: env.depth + 1, noFill: true, budget: env.budget}
		// a later store of the same sweep overrides this one where its own condition holds: this value only
		// survives where that condition fails
		mine := map[string]bool{}
		for _, g := range flattenGuards(e.Guards) {
			mine[g.Key()] = true
		}
		for _, later := range byLoop[L] {
			if later.Seq <= e.Seq {
				continue
			}
			var rest []*Cond
			for _, g := range inLoopGuards(later, L) {
				if !mine[g.Key()] {
					rest = append(rest, g)
				}
			}
			if len(rest) == 1 {
				se.facts = append(se.facts, rest[0].Negate())
			}
		}
		u |= se.poly(e.Val)
	}
	if ok, cw := coversAllPaths(family, nil); !ok {
		why = "coverage: " + cw
		return sAll
	}
	// the loop itself must run on every path that reaches here: its entry guards are part of the current facts
	have := map[string]bool{}
	for _, f := range env.facts {
		have[f.Key()] = true
	}
	for _, g := range flattenGuards(L.Entry.guards) {
		if !have[g.Key()] {
			why = "loop entry guard not in force: " + g.Key()
			return sAll
		}
	}
	if sub.poly(idx.Sub(lo.Add(*off)))&sN != 0 || sub.poly(hi.Add(*off).Sub(idx))&sN != 0 {
		why = fmt.Sprintf("index %s not shown inside %s..%s", idx, lo.Add(*off), hi.Add(*off))
		return sAll
	}
	return u
}

func internAtomLookup(key string) *Atom { return atomTab[key] }

var loopTagRe = regexp.MustCompile(`@L([0-9]+)x?$`)

// accumulator: a local that a loop only ever raises (v = max(v, …) or v = v + t with t >= 0) is, inside and
// after the loop, at least what it was on entry.
var signDebug = os.Getenv("HV_SIGN_DEBUG") != ""

func (env *signEnv) accumulator(a *Atom) (res Sg) {
	if signDebug {
		defer func() { fmt.Fprintf(os.Stderr, "accumulator(%s) = %s\n", a.Key, res) }()
	}
	m := loopTagRe.FindStringSubmatch(a.Key)
	if m == nil || env.depth > 6 {
		if signDebug {
			fmt.Fprintf(os.Stderr, "  depth %d\n", env.depth)
		}
		return sAll
	}
	id, _ := strconv.Atoi(m[1])
	var L *LoopCtx
	for _, l := range env.x.AllLoops {
		if l.ID == id {
			L = l
		}
	}
	if L == nil || L.Entry == nil {
		if signDebug {
			fmt.Fprintf(os.Stderr, "  loop %d not found (%d loops)\n", id, len(env.x.AllLoops))
		}
		return sAll
	}
	var obj types.Object
	n := 0
	for _, e := range env.x.Events {
		if e.Kind != "assign" || e.Local == nil || e.Local.Name() != a.Root || !e.InLoop(L) {
			continue
		}
		if obj != nil && obj != e.Local {
			if signDebug {
				fmt.Fprintf(os.Stderr, "  two locals named %s\n", a.Root)
			}
			return sAll
		}
		obj = e.Local
		n++
		ok := false
		if t := e.Val.single(); t != nil && len(t.M) == 1 && t.M[0].E == 1 && t.C.Cmp(big.NewRat(1, 1)) == 0 && t.M[0].A.Kind == "call" && t.M[0].A.Fn == "max" {
			for _, arg := range t.M[0].A.Args {
				if arg.Equal(e.Old) {
					ok = true
				}
			}
		}
		if !ok {
			se := &signEnv{x: env.x, facts: flattenGuards(e.Guards), loops: e.Loops, assume: env.assume, rewrite: env.rewrite, box: env.box, used: env.used, depth: env.depth + 1, budget: env.budget}
			if se.poly(e.Val.Sub(e.Old))&sN == 0 {
				ok = true
			}
		}
		if !ok {
			if signDebug {
				fmt.Fprintf(os.Stderr, "  step not monotone: %s = %s (old %s)\n", a.Root, e.Val, e.Old)
			}
			return sAll
		}
	}
	if obj == nil || n == 0 {
		if signDebug {
			fmt.Fprintf(os.Stderr, "  no assignments in loop %d\n", id)
		}
		return sAll
	}
	entry, ok := L.Entry.vars[obj]
	if !ok {
		if signDebug {
			fmt.Fprintf(os.Stderr, "  no entry value\n")
		}
		return sAll
	}
	if signDebug {
		fmt.Fprintf(os.Stderr, "  entry %s\n", entry)
	}
	se := &signEnv{x: env.x, facts: flattenGuards(L.Entry.guards), loops: env.loops, assume: env.assume, rewrite: env.rewrite, box: env.box, used: env.used, depth: env.depth + 1, budget: env.budget}
	es := se.poly(entry)
	switch {
	case es == sP:
		return sP
	case es&sN == 0:
		return sZ | sP
	}
	return sAll
}

// ascendingLoop: "for v := lo; …; v++" whose body does not assign v: v >= lo inside the loop and after it.
func ascendingLoop(x *Exec, L *LoopCtx) bool {
	fs, ok := L.Stmt.(*ast.ForStmt)
	if !ok || L.VarObj == nil || L.Lo.T == nil {
		return false
	}
	inc, ok := fs.Post.(*ast.IncDecStmt)
	if !ok || inc.Tok != token.INC {
		return false
	}
	id, ok := inc.X.(*ast.Ident)
	if !ok || x.Info.Uses[id] != L.VarObj {
		return false
	}
	return !assignsObj(x.Info, fs.Body, L.VarObj)
}

func atomSet(q Poly) map[*Atom]bool {
	m := map[*Atom]bool{}
	for _, t := range q.T {
		for _, f := range t.M {
			m[f.A] = true
		}
	}
	return m
}

var condAtomCache = map[*Cond]map[*Atom]bool{}

// condMentions: the condition has a top-level atom in common with the set (before rewriting; rewritten soil
// parameters are matched through their gap atoms' originals, so conditions on them are always kept).
func condMentions(c *Cond, set map[*Atom]bool) bool {
	as, ok := condAtomCache[c]
	if !ok {
		as = map[*Atom]bool{}
		var rec func(c *Cond)
		rec = func(c *Cond) {
			for _, s := range c.Sub {
				rec(s)
			}
			if c.Kind == "cmp" {
				for _, t := range c.P.T {
					for _, f := range t.M {
						as[f.A] = true
					}
				}
			}
		}
		rec(c)
		condAtomCache[c] = as
	}
	for a := range as {
		if set[a] || a.Kind == "cell" && gapRoots[a.Root] {
			return true
		}
	}
	return false
}

var gapRoots = map[string]bool{"GlobalVarsMain.WMIN": true, "GlobalVarsMain.WNOR": true, "GlobalVarsMain.W": true, "GlobalVarsMain.PORGES": true, "GlobalVarsMain.WRED": true}

// mentionsRewritable: q (deeply) mentions a cell that the assumption table expresses through gap atoms.
func mentionsRewritable(q Poly) bool {
	found := false
	q.walkAtoms(func(a *Atom) {
		if a.Kind == "cell" && (gapRoots[a.Root] || a.Root == "GlobalVarsMain.ERNTE" || a.Root == "GlobalVarsMain.WG") {
			found = true
		}
	})
	return found
}

// sumDominates: a is the value, after its loop, of an accumulator that starts non-negative and only grows by
// non-negative, unconditional increments t(i).  If the path condition contains "t(j) > 0" for an index j inside
// the loop's range, and nothing t reads was written since, then a >= t(j) > 0.
func (env *signEnv) sumDominates(a *Atom) (res bool) {
	why := ""
	if signDebug {
		defer func() { fmt.Fprintf(os.Stderr, "sumDominates(%s) = %v %s\n", a.Key, res, why) }()
	}
	m := loopTagRe.FindStringSubmatch(a.Key)
	if m == nil || !strings.HasSuffix(a.Key, "x") || env.depth > 6 {
		return false
	}
	id, _ := strconv.Atoi(m[1])
	var L *LoopCtx
	for _, l := range env.x.AllLoops {
		if l.ID == id {
			L = l
		}
	}
	if L == nil || L.Var == nil {
		return false
	}
	lo, hi, unit, lw := loopBounds(env.x, L)
	if lw != "" || !unit {
		why = "loop bounds: " + lw
		return false
	}
	lastInLoop := -1
	var incs []*Event
	for _, e := range env.x.Events {
		if !e.InLoop(L) {
			continue
		}
		if e.Seq > lastInLoop {
			lastInLoop = e.Seq
		}
		if e.Kind == "assign" && e.Local != nil && e.Local.Name() == a.Root {
			incs = append(incs, e)
		}
	}
	if len(incs) != 1 {
		why = fmt.Sprintf("%d increments", len(incs))
		return false
	}
	e := incs[0]
	if len(e.Loops) == 0 || e.Loops[len(e.Loops)-1] != L || len(inLoopGuards(e, L)) != 0 {
		why = "conditional increment: " + guardKeys(inLoopGuards(e, L))
		return false
	}
	inc := e.Val.Sub(e.Old)
	// what the increment reads must not be written later (in the same iteration or after the loop)
	reads := map[string]bool{}
	inc.walkAtoms(func(at *Atom) {
		if at.Kind == "cell" {
			reads[at.Root] = true
		}
	})
	for _, o := range env.x.Events {
		if o.Seq <= e.Seq || o.Kind != "assign" {
			continue
		}
		if reads[o.Root] {
			why = "later write of " + o.Root
			return false
		}
	}
	incS := stripVersions(inc)
	for _, f := range env.facts {
		if f.Kind != "cmp" || f.Op != token.GTR {
			continue
		}
		fp := stripVersions(f.P)
		// candidate index: a cell of the fact whose root the increment indexes with the loop variable
		var cands []Poly
		incS.walkAtoms(func(at *Atom) {
			if at.Kind == "cell" && len(at.Idx) == 1 && at.Idx[0].Equal(PAtom(L.Var)) {
				fp.walkAtoms(func(ft *Atom) {
					if ft.Kind == "cell" && ft.Root == at.Root && len(ft.Idx) == 1 {
						cands = append(cands, ft.Idx[0])
					}
				})
			}
		})
		for _, j := range cands {
			inst := incS.Subst(func(at *Atom) (Poly, bool) {
				if at == L.Var {
					return j, true
				}
				return Poly{}, false
			})
			if !inst.Equal(fp) {
				why += fmt.Sprintf(" [%s != %s]", clip(inst.String(), 60), clip(fp.String(), 60))
				continue
			}
			sub := *env
			sub.depth = env.depth + 1
			if sub.poly(j.Sub(lo))&sN != 0 || sub.poly(hi.Sub(j))&sN != 0 {
				why += fmt.Sprintf(" [range of %s not in %s..%s]", j, lo, clip(hi.String(), 60))
				continue
			}
			return true
		}
	}
	return false
}
