package main

// C17.R4 (extended after the sweep of hermes2go.main: 190 of 197 mutants of
// the argument loop were not reported; the rule only looked at the shape of
// the stores that existed).
//
// "-lines a-b" must make the dispatcher run exactly indices a−1 … b−1: the
// start index handed to the dispatcher is int(a) − 1 with a the text before
// the dash of the argument FOLLOWING "-lines", stored whenever the argument
// has the a-b form (also for "a-end"); the end line is int(b) with b the text
// after the dash, stored unless it is "end"; "-lines n" stores n as the end
// line; the value argument is consumed; the dispatcher receives (start, end)
// in that order together with the slice the batch reader filled.

import (
	"fmt"
	"go/ast"
	"go/token"
	"go/types"
	"strings"
)

func c17LinesArg(p *Prog, r *Report) {
	fi := p.Funcs["hermes2go.main"]
	if fi == nil {
		return
	}
	info := fi.Pkg.TypesInfo
	body := fi.Decl.Body
	// the dispatcher call
	var disp *ast.CallExpr
	ast.Inspect(body, func(n ast.Node) bool {
		if c, ok := n.(*ast.CallExpr); ok {
			if f := callee(info, c); f != nil && f.Name() == "doConcurrentBatchRun" {
				disp = c
			}
		}
		return true
	})
	if disp == nil || len(disp.Args) != 6 {
		r.Ob("lines:call", p.Pos(fi.Decl.Pos()), false, "main does not call the dispatcher with (session, dir, start, end, log, lines)")
		return
	}
	startObj, endObj, linesObj := useObj(info, disp.Args[2]), useObj(info, disp.Args[3]), useObj(info, disp.Args[5])
	okCall := startObj != nil && endObj != nil && linesObj != nil && startObj != endObj
	// the callee's parameters in those positions are used as start filter / end filter
	if dfi := p.Funcs["hermes2go.doConcurrentBatchRun"]; dfi != nil && okCall {
		names := paramNames(dfi.Decl)
		okCall = len(names) == 6 && strings.Contains(strings.ToLower(names[2]), "start")
	}
	r.Ob("lines:call", p.Pos(disp.Pos()), okCall, fmt.Sprintf("dispatcher called with start=%s, end=%s, lines=%s in the positions of its start/end parameters", types.ExprString(disp.Args[2]), types.ExprString(disp.Args[3]), types.ExprString(disp.Args[5])))
	if !okCall {
		return
	}
	// the argument loop: for i := …; arg := args[i]
	var loop *ast.ForStmt
	var iObj, argsObj, argObj types.Object
	ast.Inspect(body, func(n ast.Node) bool {
		f, ok := n.(*ast.ForStmt)
		if !ok || loop != nil {
			return true
		}
		init, ok := f.Init.(*ast.AssignStmt)
		if !ok || len(init.Lhs) != 1 {
			return true
		}
		for _, st := range f.Body.List {
			as, ok := st.(*ast.AssignStmt)
			if !ok || len(as.Lhs) != 1 || len(as.Rhs) != 1 {
				continue
			}
			ix, ok := as.Rhs[0].(*ast.IndexExpr)
			if ok && useObj(info, ix.Index) == useObj(info, init.Lhs[0]) && useObj(info, ix.Index) != nil {
				loop, iObj, argsObj, argObj = f, useObj(info, ix.Index), useObj(info, ix.X), useObj(info, as.Lhs[0])
			}
		}
		return true
	})
	if loop == nil {
		r.Ob("lines:loop", p.Pos(fi.Decl.Pos()), false, "argument loop not recognised")
		return
	}
	// matchers
	isNextArg := func(e ast.Expr) bool { // args[i+1]
		ix, ok := stripParens(e).(*ast.IndexExpr)
		if !ok || useObj(info, ix.X) != argsObj {
			return false
		}
		be, ok := stripParens(ix.Index).(*ast.BinaryExpr)
		if !ok || be.Op != token.ADD {
			return false
		}
		one := func(x ast.Expr) bool { tv := info.Types[x]; return tv.Value != nil && tv.Value.String() == "1" }
		return (useObj(info, be.X) == iObj && one(be.Y)) || (useObj(info, be.Y) == iObj && one(be.X))
	}
	isFlag := func(e ast.Expr, flag string) bool { // arg == "-lines"
		be, ok := stripParens(e).(*ast.BinaryExpr)
		if !ok || be.Op != token.EQL {
			return false
		}
		for _, pr := range [][2]ast.Expr{{be.X, be.Y}, {be.Y, be.X}} {
			if useObj(info, pr[0]) == argObj {
				if tv := info.Types[pr[1]]; tv.Value != nil && tv.Value.ExactString() == fmt.Sprintf("%q", flag) {
					return true
				}
			}
		}
		return false
	}
	hasNext := func(e ast.Expr) bool { // i+1 < len(args)
		be, ok := stripParens(e).(*ast.BinaryExpr)
		if !ok {
			return false
		}
		s := normExpr(info, be, iObj)
		return s == "(($i + 1) < len("+argsObj.Name()+"))" || s == "((1 + $i) < len("+argsObj.Name()+"))" || s == "(len("+argsObj.Name()+") > ($i + 1))" || s == "(len("+argsObj.Name()+") > (1 + $i))"
	}
	// split variable: defined by Explode(args[i+1], []rune{'-'})
	var splitObj types.Object
	ast.Inspect(loop.Body, func(n ast.Node) bool {
		as, ok := n.(*ast.AssignStmt)
		if !ok || len(as.Rhs) != 1 || len(as.Lhs) != 1 {
			return true
		}
		c, ok := as.Rhs[0].(*ast.CallExpr)
		if !ok || len(c.Args) != 2 || !isNextArg(c.Args[0]) {
			return true
		}
		if f := callee(info, c); f != nil && f.Name() == "Explode" {
			if cl, ok := c.Args[1].(*ast.CompositeLit); ok && len(cl.Elts) == 1 {
				if tv := info.Types[cl.Elts[0]]; tv.Value != nil && tv.Value.String() == "45" {
					splitObj = useObj(info, as.Lhs[0])
				}
			}
		}
		return true
	})
	r.Ob("lines:split", p.Pos(loop.Pos()), splitObj != nil, "the argument following the flag is split at '-' (one separator, the dash)")
	if splitObj == nil {
		return
	}
	isSplitAt := func(e ast.Expr, k string) bool {
		ix, ok := stripParens(e).(*ast.IndexExpr)
		if !ok || useObj(info, ix.X) != splitObj {
			return false
		}
		tv := info.Types[ix.Index]
		return tv.Value != nil && tv.Value.String() == k
	}
	// parsed number: int(X) with X := Parse*(src, 10, 64); returns X's object and its err object
	parsed := func(e ast.Expr, src func(ast.Expr) bool) (types.Object, types.Object, bool) {
		c, ok := stripParens(e).(*ast.CallExpr)
		if !ok || len(c.Args) != 1 {
			return nil, nil, false
		}
		if tv, ok := info.Types[c.Fun]; !ok || !tv.IsType() {
			return nil, nil, false
		}
		xo := useObj(info, c.Args[0])
		if xo == nil {
			return nil, nil, false
		}
		ds := defsOf(info, loop.Body, xo)
		if len(ds) != 1 || ds[0].Idx != 0 {
			return nil, nil, false
		}
		pc, ok := stripParens(ds[0].Rhs).(*ast.CallExpr)
		if !ok || len(pc.Args) != 3 || !src(pc.Args[0]) {
			return nil, nil, false
		}
		f := callee(info, pc)
		if f == nil || !strings.HasPrefix(f.FullName(), "strconv.Parse") {
			return nil, nil, false
		}
		if tv := info.Types[pc.Args[1]]; tv.Value == nil || tv.Value.String() != "10" {
			return nil, nil, false
		}
		var eo types.Object
		if as, ok := ds[0].Stmt.(*ast.AssignStmt); ok && len(as.Lhs) == 2 {
			eo = useObj(info, as.Lhs[1])
		}
		return xo, eo, true
	}
	type want struct {
		key   string
		obj   types.Object
		minus int
		src   func(ast.Expr) bool
		two   int  // 1: requires len(split)==2, -1: requires its negation
		end   bool // requires split[1] != "end"
		what  string
	}
	wants := []want{
		{"lines:start", startObj, 1, func(e ast.Expr) bool { return isSplitAt(e, "0") }, 1, false, "start index = int(text before the dash) − 1, for every a-b and a-end argument"},
		{"lines:end", endObj, 0, func(e ast.Expr) bool { return isSplitAt(e, "1") }, 1, true, "end line = int(text after the dash), unless it is \"end\""},
		{"lines:count", endObj, 0, isNextArg, -1, false, "\"-lines n\": end line = int(n)"},
	}
	var firstObj types.Object
	matched := map[token.Pos]bool{}
	for wi, w := range wants {
		found := false
		ast.Inspect(loop.Body, func(n ast.Node) bool {
			as, ok := n.(*ast.AssignStmt)
			if !ok || len(as.Lhs) != 1 || len(as.Rhs) != 1 || useObj(info, as.Lhs[0]) != w.obj || found {
				return true
			}
			rhs := stripParens(as.Rhs[0])
			if w.minus == 1 {
				be, ok := rhs.(*ast.BinaryExpr)
				if !ok || be.Op != token.SUB {
					return true
				}
				if tv := info.Types[be.Y]; tv.Value == nil || tv.Value.String() != "1" {
					return true
				}
				rhs = be.X
			}
			xo, eo, ok := parsed(rhs, w.src)
			if !ok {
				return true
			}
			if wi == 0 {
				firstObj = xo
			}
			// path conditions
			conds, _ := astPathConds(info, loop.Body, as)
			var bad []string
			flag, next, two, notEnd := false, false, 0, false
			for _, c := range conds {
				e := stripParens(c.E)
				switch {
				case !c.Neg && isFlag(e, "-lines"):
					flag = true
				case !c.Neg && hasNext(e):
					next = true
				case c.Neg && c.Exit == nil:
					// negations of earlier arms of the flag chain: arg == "<other flag>" [&& has next]
					if be, ok := e.(*ast.BinaryExpr); ok && (be.Op == token.EQL || be.Op == token.LAND || be.Op == token.LOR) && strings.Contains(normExpr(info, be, iObj), argObj.Name()+" ==") || strings.Contains(normExpr(info, e, iObj), "== "+argObj.Name()) {
						continue
					}
					if s := normExpr(info, e, iObj); s == "(len("+splitObj.Name()+") == 2)" {
						two = -1
						continue
					}
					bad = append(bad, "conditional on "+c.String())
				case !c.Neg && normExpr(info, e, iObj) == "(len("+splitObj.Name()+") == 2)":
					two = 1
				case !c.Neg && func() bool {
					be, ok := e.(*ast.BinaryExpr)
					if !ok || be.Op != token.NEQ || !isSplitAt(be.X, "1") {
						return false
					}
					tv := info.Types[be.Y]
					return tv.Value != nil && tv.Value.ExactString() == `"end"`
				}():
					notEnd = true
				case c.Neg && c.Exit != nil:
					// error exits of the parses and the order test first > last
					if be, ok := e.(*ast.BinaryExpr); ok {
						if be.Op == token.NEQ && types.ExprString(stripParens(be.Y)) == "nil" {
							continue
						}
						if be.Op == token.GTR && firstObj != nil && useObj(info, be.X) == firstObj && useObj(info, be.Y) == xo {
							continue
						}
					}
					bad = append(bad, "after an exit on "+types.ExprString(e))
				default:
					bad = append(bad, "conditional on "+c.String())
				}
			}
			_ = eo
			if !flag || !next {
				bad = append(bad, "not inside the arm  arg == \"-lines\" && a value follows")
			}
			if two != w.two {
				bad = append(bad, fmt.Sprintf("wrong side of the a-b form test (want %d, got %d)", w.two, two))
			}
			if notEnd != w.end {
				bad = append(bad, fmt.Sprintf("'is not \"end\"' test present: %v, wanted: %v", notEnd, w.end))
			}
			found = true
			matched[as.Pos()] = true
			r.Ob(w.key, p.Pos(as.Pos()), len(bad) == 0, w.what+": "+types.ExprString(as.Lhs[0])+" = "+types.ExprString(as.Rhs[0])+" under ["+joinConds(conds)+"]"+problems(bad))
			return true
		})
		if !found {
			r.Ob(w.key, p.Pos(loop.Pos()), false, w.what+": no such store in the argument loop")
		}
	}
	// nothing else in the argument loop changes the start index or the end line (the order of the arguments on
	// the command line must not matter: a store that depends on what was parsed before does)
	extra := ""
	ast.Inspect(loop.Body, func(n ast.Node) bool {
		switch st := n.(type) {
		case *ast.AssignStmt:
			for _, l := range st.Lhs {
				if o := useObj(info, l); (o == startObj || o == endObj) && !matched[st.Pos()] {
					extra += fmt.Sprintf("%s = %s at %s; ", types.ExprString(l), types.ExprString(st.Rhs[0]), p.Pos(st.Pos()))
				}
			}
		case *ast.IncDecStmt:
			if o := useObj(info, st.X); o == startObj || o == endObj {
				extra += fmt.Sprintf("%s%s at %s; ", types.ExprString(st.X), st.Tok, p.Pos(st.Pos()))
			}
		}
		return true
	})
	r.Ob("lines:no-other-store", p.Pos(loop.Pos()), extra == "", "stores to the start index / end line in the argument loop besides the three recognised ones: "+orStr(extra, "none"))
	// the value is consumed: an unconditional i++ at the end of the arm
	consumed := false
	ast.Inspect(loop.Body, func(n ast.Node) bool {
		is, ok := n.(*ast.IfStmt)
		if !ok {
			return true
		}
		lits := splitCond(is.Cond, false, nil)
		isArm := false
		for _, l := range lits {
			if isFlag(l.E, "-lines") {
				isArm = true
			}
		}
		if !isArm || len(is.Body.List) == 0 {
			return true
		}
		if inc, ok := is.Body.List[len(is.Body.List)-1].(*ast.IncDecStmt); ok && inc.Tok == token.INC && useObj(info, inc.X) == iObj {
			consumed = true
		}
		return true
	})
	r.Ob("lines:value-consumed", p.Pos(loop.Pos()), consumed, "the arm ends by stepping over the value argument (otherwise \"3-5\" is handed to the run as an argument of its own)")
	// defaults
	okDef := true
	det := ""
	for _, o := range []struct {
		obj  types.Object
		want func(int64) bool
		name string
	}{{startObj, func(v int64) bool { return v == 0 }, "start index 0"}, {endObj, func(v int64) bool { return v <= 0 }, "end line ≤ 0 (no limit)"}} {
		found := false
		ast.Inspect(body, func(n ast.Node) bool {
			vs, ok := n.(*ast.ValueSpec)
			if !ok {
				return true
			}
			for i, nm := range vs.Names {
				if info.Defs[nm] == o.obj && i < len(vs.Values) {
					if tv := info.Types[vs.Values[i]]; tv.Value != nil {
						if v, ok := constInt64(tv.Value); ok && o.want(v) {
							found = true
						}
					}
				}
			}
			return true
		})
		if !found {
			okDef = false
			det += "default " + o.name + " not found; "
		}
	}
	r.Ob("lines:defaults", p.Pos(fi.Decl.Pos()), okDef, "without -lines the whole batch is dispatched (start 0, no end limit) "+det)
}

func constInt64(v interface{ String() string }) (int64, bool) {
	var n int64
	if _, err := fmt.Sscanf(v.String(), "%d", &n); err != nil {
		return 0, false
	}
	return n, true
}

// C17.R9 — wiring of the calculator's arguments (sweep of calcHermesBatch.main:
// the counting and the range arithmetic were covered, the way the numbers get
// there was not): "-size N" and "-list N" both take the node count from the
// argument following the flag, "-batch F" counts the lines of F; the size
// answer is printed exactly when -size was given, the list exactly when -list
// was given (and -size was not).
func c17CalcArgs(p *Prog, r *Report) {
	r.Rule("C17.R9", "calculator arguments: the node count is the base-10 number following -size and -list (the same in both arms), the line count is what the line counter returns for the file following -batch; each flag variable is set only in the arm of its own flag; the size answer is printed under the size flag, the list under the list flag", 8)
	fi := p.Funcs["calcHermesBatch.main"]
	if fi == nil {
		r.Ob("main", "-", false, "calcHermesBatch.main not found")
		return
	}
	info := fi.Pkg.TypesInfo
	body := fi.Decl.Body
	var rng *ast.RangeStmt
	ast.Inspect(body, func(n ast.Node) bool {
		if rs, ok := n.(*ast.RangeStmt); ok && rng == nil && rs.Key != nil && rs.Value != nil {
			rng = rs
		}
		return true
	})
	if rng == nil {
		r.Ob("args:loop", p.Pos(fi.Decl.Pos()), false, "argument loop not recognised")
		return
	}
	iObj, argObj, argsObj := useObj(info, rng.Key), useObj(info, rng.Value), useObj(info, rng.X)
	isNext := func(e ast.Expr) bool {
		ix, ok := stripParens(e).(*ast.IndexExpr)
		if !ok || useObj(info, ix.X) != argsObj {
			return false
		}
		s := normExpr(info, ix.Index, iObj)
		return s == "($i + 1)" || s == "(1 + $i)"
	}
	flagOf := func(conds []astCond) (string, []string) {
		flag := ""
		var other []string
		for _, c := range conds {
			e := stripParens(c.E)
			if be, ok := e.(*ast.BinaryExpr); ok && be.Op == token.EQL {
				if useObj(info, be.X) == argObj {
					if tv := info.Types[be.Y]; tv.Value != nil && tv.Value.Kind().String() == "String" {
						if !c.Neg {
							flag = strings.Trim(tv.Value.ExactString(), `"`)
						}
						continue
					}
				}
			}
			s := normExpr(info, e, iObj)
			if !c.Neg && strings.Contains(s, "$i + 1") && strings.Contains(s, "len(") {
				continue // a value follows
			}
			if c.Neg && c.Exit == nil {
				continue // negation of an earlier arm of the chain
			}
			if c.Neg && c.Exit != nil {
				if be, ok := e.(*ast.BinaryExpr); ok && be.Op == token.NEQ && types.ExprString(stripParens(be.Y)) == "nil" {
					continue
				}
			}
			other = append(other, c.String())
		}
		return flag, other
	}
	// stores in the loop
	type store struct {
		obj  types.Object
		flag string
		rhs  ast.Expr
		pos  token.Pos
		bad  []string
	}
	var stores []store
	ast.Inspect(rng.Body, func(n ast.Node) bool {
		as, ok := n.(*ast.AssignStmt)
		if !ok || len(as.Lhs) != 1 || len(as.Rhs) != 1 || as.Tok != token.ASSIGN {
			return true
		}
		o := useObj(info, as.Lhs[0])
		if o == nil || (o.Pos() > rng.Pos() && o.Pos() < rng.End()) {
			return true
		}
		conds, _ := astPathConds(info, rng.Body, as)
		fl, other := flagOf(conds)
		stores = append(stores, store{o, fl, as.Rhs[0], as.Pos(), other})
		return true
	})
	// classify the outer variables by type and value
	parsedNext := func(e ast.Expr) bool { // v with v, err := strconv.ParseUint(args[i+1], 10, 64)
		o := useObj(info, e)
		if o == nil {
			return false
		}
		ds := defsOf(info, rng.Body, o)
		for _, d := range ds {
			if d.Stmt.Pos() > e.Pos() {
				continue
			}
			c, ok := stripParens(d.Rhs).(*ast.CallExpr)
			if !ok || d.Idx != 0 || len(c.Args) != 3 || !isNext(c.Args[0]) {
				continue
			}
			f := callee(info, c)
			tv := info.Types[c.Args[1]]
			// the definition must be the nearest one before the use in the same block
			if f != nil && f.FullName() == "strconv.ParseUint" && tv.Value != nil && tv.Value.String() == "10" {
				path := nodePath(rng.Body, d.Stmt)
				upath := nodePath(rng.Body, e)
				if len(path) >= 2 && len(upath) >= 2 {
					for _, a := range upath {
						if a == path[len(path)-2] {
							return true
						}
					}
				}
			}
		}
		return false
	}
	var nodesObj, linesObj, sizeFlag, listFlag types.Object
	nodeArms := map[string]bool{}
	okAll := true
	for _, st := range stores {
		tv := info.Types[st.rhs]
		switch {
		case tv.Value != nil && tv.Value.String() == "true":
			switch st.flag {
			case "-size":
				sizeFlag = st.obj
			case "-list":
				listFlag = st.obj
			default:
				okAll = false
			}
			if len(st.bad) > 0 {
				okAll = false
			}
			r.Ob("args:flag:"+st.obj.Name(), p.Pos(st.pos), (st.flag == "-size" || st.flag == "-list") && len(st.bad) == 0, fmt.Sprintf("%s set in the arm of %q%s", st.obj.Name(), st.flag, problems(st.bad)))
		case parsedNext(st.rhs):
			nodesObj = st.obj
			nodeArms[st.flag] = true
			r.Ob("args:nodes:"+st.flag, p.Pos(st.pos), (st.flag == "-size" || st.flag == "-list") && len(st.bad) == 0, fmt.Sprintf("%s = base-10 number following %q%s", st.obj.Name(), st.flag, problems(st.bad)))
		default:
			if c, ok := stripParens(st.rhs).(*ast.CallExpr); ok && len(c.Args) == 1 {
				if f := callee(info, c); f != nil && f.Name() == "readProj" {
					linesObj = st.obj
					src := false
					if o := useObj(info, c.Args[0]); o != nil {
						for _, d := range defsOf(info, rng.Body, o) {
							if isNext(d.Rhs) {
								src = true
							}
						}
					}
					if isNext(c.Args[0]) {
						src = true
					}
					r.Ob("args:lines", p.Pos(st.pos), st.flag == "-batch" && src && len(st.bad) == 0, fmt.Sprintf("%s = line count of the file following %q (file taken from the next argument: %v)%s", st.obj.Name(), st.flag, src, problems(st.bad)))
					continue
				}
			}
			r.Ob("args:store:"+st.obj.Name(), p.Pos(st.pos), false, "unrecognised store in the argument loop: "+types.ExprString(st.rhs))
		}
	}
	r.Ob("args:nodes-both", p.Pos(rng.Pos()), nodesObj != nil && nodeArms["-size"] && nodeArms["-list"], fmt.Sprintf("the node count is read in the arms of -size and -list: %v", nodeArms))
	if linesObj == nil {
		r.Ob("args:lines", p.Pos(rng.Pos()), false, "the line count is never taken from the batch file")
	}
	// readProj returns the line counter's result for the file it was given
	if rp := p.Funcs["calcHermesBatch.readProj"]; rp != nil {
		ri := rp.Pkg.TypesInfo
		okRP := false
		var fileObj, cntObj types.Object
		ast.Inspect(rp.Decl.Body, func(n ast.Node) bool {
			as, ok := n.(*ast.AssignStmt)
			if !ok || len(as.Rhs) != 1 {
				return true
			}
			c, ok := as.Rhs[0].(*ast.CallExpr)
			if !ok {
				return true
			}
			f := callee(ri, c)
			if f == nil {
				return true
			}
			if f.FullName() == "os.Open" && len(c.Args) == 1 {
				if _, isParam := paramIndex(rp.Decl, useObj(ri, c.Args[0])); isParam {
					fileObj = useObj(ri, as.Lhs[0])
				}
			}
			if f.Name() == "lineCounter" && len(c.Args) == 1 && fileObj != nil && useObj(ri, c.Args[0]) == fileObj {
				cntObj = useObj(ri, as.Lhs[0])
			}
			return true
		})
		ast.Inspect(rp.Decl.Body, func(n ast.Node) bool {
			if rs, ok := n.(*ast.ReturnStmt); ok && len(rs.Results) == 1 && cntObj != nil && useObj(ri, rs.Results[0]) == cntObj {
				okRP = true
			}
			return true
		})
		r.Ob("args:count-source", p.Pos(rp.Decl.Pos()), okRP, "readProj opens the file it is given, counts its lines with the line counter and returns that count")
	}
	// the answers
	if sizeFlag != nil && listFlag != nil {
		var sizeIf, listIf *ast.IfStmt
		for _, st := range body.List {
			if is, ok := st.(*ast.IfStmt); ok {
				if useObj(info, is.Cond) == sizeFlag {
					sizeIf = is
				}
				if useObj(info, is.Cond) == listFlag {
					listIf = is
				}
			}
		}
		prints := func(b *ast.BlockStmt) bool {
			found := false
			ast.Inspect(b, func(n ast.Node) bool {
				if c, ok := n.(*ast.CallExpr); ok {
					if f := callee(info, c); f != nil && f.FullName() == "fmt.Print" {
						found = true
					}
				}
				return true
			})
			return found
		}
		okAns := sizeIf != nil && listIf != nil && prints(sizeIf.Body) && prints(listIf.Body) && sizeIf.Pos() < listIf.Pos()
		r.Ob("args:answers", p.Pos(fi.Decl.Pos()), okAns, "the size answer is printed in a block entered exactly when the size flag is set, the list in a block entered exactly when the list flag is set")
	} else {
		r.Ob("args:answers", p.Pos(fi.Decl.Pos()), false, "size and list flag variables not both recognised")
	}
	_ = okAll
}

// c17Separators (R8): ranges are separated by a blank; the format without the
// trailing blank may be used for the last range of a loop only.
func c17Separators(p *Prog, r *Report) {
	fi := p.Funcs["calcHermesBatch.main"]
	if fi == nil {
		return
	}
	info := fi.Pkg.TypesInfo
	n, bad := 0, ""
	ast.Inspect(fi.Decl.Body, func(m ast.Node) bool {
		bl, ok := m.(*ast.BasicLit)
		if !ok || bl.Kind != token.STRING {
			return true
		}
		tv := info.Types[bl]
		if tv.Value == nil {
			return true
		}
		str := strings.Trim(tv.Value.ExactString(), `"`)
		if !strings.Contains(str, "%d-%d") {
			return true
		}
		n++
		if strings.HasSuffix(str, " ") {
			return true
		}
		// enclosing counted loop and its bound
		var loop *ast.ForStmt
		for _, a := range nodePath(fi.Decl.Body, bl) {
			if f, ok := a.(*ast.ForStmt); ok {
				loop = f
			}
		}
		if loop == nil {
			bad += fmt.Sprintf("%s: a range format without separator outside a loop; ", p.Pos(bl.Pos()))
			return true
		}
		cb, ok := loop.Cond.(*ast.BinaryExpr)
		if !ok || cb.Op != token.LEQ {
			bad += fmt.Sprintf("%s: loop bound not of the form i <= last; ", p.Pos(bl.Pos()))
			return true
		}
		iObj, lastObj := useObj(info, cb.X), useObj(info, cb.Y)
		conds, _ := astPathConds(info, loop.Body, bl)
		isLast := false
		for _, c := range conds {
			if be, ok := stripParens(c.E).(*ast.BinaryExpr); ok && !c.Neg && be.Op == token.EQL {
				if (useObj(info, be.X) == iObj && useObj(info, be.Y) == lastObj) || (useObj(info, be.Y) == iObj && useObj(info, be.X) == lastObj) {
					isLast = true
				}
			}
		}
		if !isLast || iObj == nil || lastObj == nil {
			bad += fmt.Sprintf("%s: the format without trailing blank is used under [%s], not only for the last range; ", p.Pos(bl.Pos()), joinConds(conds))
		}
		return true
	})
	r.Ob("separators", p.Pos(fi.Decl.Pos()), n >= 4 && bad == "", fmt.Sprintf("%d range formats; every range but the last of a loop is followed by a blank (two ranges printed without separator read as one): %s", n, orStr(bad, "ok")))
}
