package main

import (
	"fmt"
	"go/ast"
	"go/token"
	"go/types"
)

// c18ParseShape (C18.R8): the override reaches the apply tables through the parser of the `c_<name>[_<stage>[_<organ>]]`
// keys.  The other C18 rules start from the three maps; they do not see a value filed under another stage, a dropped
// entry or a stage read from the wrong token.  Demanded, per map of the override set: a store whose value is the parsed
// text of the argument itself, whose first key is token 1 of the split key, whose stage / organ keys are plain locals
// parsed from token 2 / token 3, under the token-count condition 2 + number of numeric keys.
func c18ParseShape(p *Prog, r *Report) {
	r.Rule("C18.R8", "the override parser files every `c_<name>[_<stage>[_<organ>]]` argument under exactly its own keys: value = the parsed argument text, name = token 1, stage = token 2, organ = token 3 of the key split at '_', each store under the matching token count, keys used as parsed (no arithmetic)", 3)
	fi := p.Funcs["hermes.ParseCropOverwrites"]
	if fi == nil {
		r.Ob("parse-shape", "-", false, "ParseCropOverwrites not found")
		return
	}
	info := fi.Pkg.TypesInfo
	body := fi.Decl.Body
	// the range over the argument map
	var keyObj, argObj types.Object
	ast.Inspect(body, func(n ast.Node) bool {
		if rs, ok := n.(*ast.RangeStmt); ok && keyObj == nil {
			if _, isMap := info.TypeOf(rs.X).Underlying().(*types.Map); isMap {
				if k, ok := rs.Key.(*ast.Ident); ok {
					keyObj = info.Defs[k]
				}
				if v, ok := rs.Value.(*ast.Ident); ok {
					argObj = info.Defs[v]
				}
			}
		}
		return true
	})
	if keyObj == nil || argObj == nil {
		r.Ob("parse-shape", p.Pos(fi.Decl.Pos()), false, "no range over the argument map with key and value")
		return
	}
	single := func(o types.Object) ast.Expr {
		if o == nil {
			return nil
		}
		ds := defsOf(info, body, o)
		if len(ds) != 1 {
			return nil
		}
		return stripParens(ds[0].Rhs)
	}
	// tokens: the local defined once as strings.Split(key, "_")
	isTokens := func(e ast.Expr) bool {
		call, ok := single(useObj(info, e)).(*ast.CallExpr)
		if !ok || len(call.Args) != 2 {
			return false
		}
		f := callee(info, call)
		if f == nil || f.Pkg() == nil || f.Pkg().Path() != "strings" || f.Name() != "Split" || useObj(info, call.Args[0]) != keyObj {
			return false
		}
		v, isC := info.Types[call.Args[1]]
		return isC && v.Value != nil && v.Value.ExactString() == `"_"`
	}
	// tokenOf(e): e is a plain local defined once from token k (directly, or through int(ValAsInt(token k, …)))
	tokenOf := func(e ast.Expr) (int64, bool) {
		o := useObj(info, e)
		if o == nil {
			return 0, false
		}
		d := single(o)
		for {
			call, ok := d.(*ast.CallExpr)
			if !ok || len(call.Args) == 0 {
				break
			}
			if tv, isT := info.Types[call.Fun]; isT && tv.IsType() && len(call.Args) == 1 {
				d = stripParens(call.Args[0])
				continue
			}
			if f := callee(info, call); f != nil && f.Name() == "ValAsInt" {
				d = stripParens(call.Args[0])
				continue
			}
			break
		}
		ix, ok := d.(*ast.IndexExpr)
		if !ok || !isTokens(ix.X) {
			return 0, false
		}
		return exprInt64(info, ix.Index)
	}
	isValue := func(e ast.Expr) bool {
		call, ok := single(useObj(info, e)).(*ast.CallExpr)
		if !ok || len(call.Args) == 0 {
			return false
		}
		f := callee(info, call)
		return f != nil && f.Name() == "ValAsFloat" && useObj(info, call.Args[0]) == argObj
	}
	found := map[string]bool{}
	ast.Inspect(body, func(n ast.Node) bool {
		as, ok := n.(*ast.AssignStmt)
		if !ok || as.Tok != token.ASSIGN || len(as.Lhs) != 1 || len(as.Rhs) != 1 {
			return true
		}
		// peel index expressions down to the map field of the override set
		var keys []ast.Expr
		e := stripParens(as.Lhs[0])
		for {
			ix, isIx := e.(*ast.IndexExpr)
			if !isIx {
				break
			}
			keys = append([]ast.Expr{ix.Index}, keys...)
			e = stripParens(ix.X)
		}
		sel, isSel := e.(*ast.SelectorExpr)
		if !isSel || len(keys) == 0 || !isNamed(info.TypeOf(sel.X), "hermes", "CropOverwrite") {
			return true
		}
		if _, isLit := stripParens(as.Rhs[0]).(*ast.CompositeLit); isLit {
			return true // creation of the inner map
		}
		field := sel.Sel.Name
		// numeric keys: further index expressions, or the fields of a composite key
		var numeric []ast.Expr
		for _, k := range keys[1:] {
			if cl, isCl := stripParens(k).(*ast.CompositeLit); isCl {
				for _, el := range cl.Elts {
					if kv, isKV := el.(*ast.KeyValueExpr); isKV {
						numeric = append(numeric, kv.Value)
					} else {
						numeric = append(numeric, el)
					}
				}
			} else {
				numeric = append(numeric, k)
			}
		}
		ok2, det := true, ""
		if t, isT := tokenOf(keys[0]); !isT || t != 1 {
			ok2, det = false, "the name key is not token 1 of the split key"
		}
		for i, k := range numeric {
			if t, isT := tokenOf(k); !isT || t != int64(i+2) {
				ok2, det = false, fmt.Sprintf("numeric key %d (%s) is not a local parsed from token %d", i+1, types.ExprString(k), i+2)
			}
		}
		if !isValue(as.Rhs[0]) {
			ok2, det = false, "the stored value is not the parsed text of the argument"
		}
		// token-count condition
		want := int64(2 + len(numeric))
		conds, _ := astPathConds(info, body, as)
		cnt := false
		for _, c := range conds {
			be, isB := stripParens(c.E).(*ast.BinaryExpr)
			if !isB || c.Neg || c.Exit != nil || be.Op != token.EQL {
				continue
			}
			call, isCall := stripParens(be.X).(*ast.CallExpr)
			if !isCall || len(call.Args) != 1 || !isTokens(call.Args[0]) {
				continue
			}
			if id, isId := call.Fun.(*ast.Ident); !isId || id.Name != "len" {
				continue
			}
			if v, isC := exprInt64(info, be.Y); isC && v == want {
				cnt = true
			}
		}
		if !cnt {
			ok2, det = false, fmt.Sprintf("the store is not under 'number of tokens == %d'", want)
		}
		if ok2 {
			det = fmt.Sprintf("%s[token 1]%s = parsed argument, under %d tokens", field, map[int]string{0: "", 1: "[token 2]", 2: "[token 2, token 3]"}[len(numeric)], want)
		}
		found[field] = true
		r.Ob("parse-shape:"+field, p.Pos(as.Pos()), ok2, det)
		return true
	})
	// every map of the override set is filled by the parser
	if tn := fi.Pkg.Types.Scope().Lookup("CropOverwrite"); tn != nil {
		if st, isSt := tn.Type().Underlying().(*types.Struct); isSt {
			for i := 0; i < st.NumFields(); i++ {
				if _, isMap := st.Field(i).Type().Underlying().(*types.Map); isMap && !found[st.Field(i).Name()] {
					r.Ob("parse-shape:"+st.Field(i).Name(), p.Pos(fi.Decl.Pos()), false, "the parser never files an argument into this map of the override set")
				}
			}
		}
	}
}
