package main

// Named assumptions of the domain analysis (sign.go).  Each entry states a
// fact about the model state or about "valid inputs" that the analysis may
// use, says where it comes from, and is listed in the evidence of every check
// that needed it.  Entries are keyed by the field they talk about, never by a
// source position: a new operation on an assumed-positive field is accepted,
// a new operation on anything else has to be proved from the code.

import (
	"go/token"
	"math"
	"strings"
)

type assumeEntry struct {
	Sign Sg
	Iv   *Iv
	Name string // short identifier printed in evidence
	Why  string
}

type Assumptions struct {
	byFn              map[string]*assumeEntry
	byRoot            map[string]*assumeEntry
	gapOf             map[string]func(idx []Poly) Poly
	rwCache, altCache map[*Atom]rwRes
	Why               map[string]string
}

func iv(lo, hi float64) *Iv { return &Iv{lo, hi} }

func newAssumptions() *Assumptions {
	as := &Assumptions{byFn: map[string]*assumeEntry{}, byRoot: map[string]*assumeEntry{}, gapOf: map[string]func(idx []Poly) Poly{}, Why: map[string]string{}, rwCache: map[*Atom]rwRes{}, altCache: map[*Atom]rwRes{}}
	add := func(name, why string, sign Sg, box *Iv, roots ...string) {
		as.Why[name] = why
		for _, r := range roots {
			as.byRoot[r] = &assumeEntry{Sign: sign, Iv: box, Name: name, Why: why}
		}
	}
	g := func(fs ...string) []string {
		var out []string
		for _, f := range fs {
			out = append(out, "GlobalVarsMain."+f)
		}
		return out
	}
	// ---- constants of the model
	add("layer-thickness", "the layer thickness DZ is the constant 10 cm set by the constructor; the check verifies that nothing else writes it", sP, iv(10, 10), g("DZ.Index", "DZ.Num")...)
	add("time-step", "the outer time step DT is one day (C01.R1 decides its writers)", sP, iv(1, 1), g("DT.Index", "DT.Num")...)
	add("layer-count", "the soil readers accept 1..20 layers (C18/C13 decide the readers)", sP, iv(1, 20), g("N")...)
	// ---- invariants other rules establish
	add("mineral-N>=0", "C07.R5: every store to the per-layer mineral N is floored at 0", sZ|sP, nil, g("C1")...)
	add("water>0", "C06.R1: the water content of a layer stays above a third of its wilting point, which C15 makes positive", sP, iv(0.001, 1), g("WG")...)
	add("organic-pools>=0", "C07.R1/R6: the organic N pools only lose what the clamped decay terms remove", sZ|sP, nil, g("NAOS", "NFOS")...)
	add("root-density>=0", "C09.R4: the root length density of a layer is a share of a non-negative root mass (zero outside the rooted layers)", sZ|sP, nil, g("WUDICH")...)
	// ---- valid inputs: weather
	add("weather:temperature", "valid input: daily air temperatures between -90 and +70 °C", sAll, iv(-90, 70), g("TEMP", "TMIN", "TMAX")...)
	add("weather:humidity", "valid input: relative humidity between 0 and 100 %", sZ|sP, iv(0, 100), g("RH")...)
	add("weather:radiation>=0", "valid input: global radiation and sunshine hours are not negative", sZ|sP, nil, g("RAD", "SUND")...)
	add("weather:wind>=0", "valid input: wind speed is not negative", sZ|sP, nil, g("WIND")...)
	add("weather:rain>=0", "valid input: precipitation is not negative", sZ|sP, nil, g("REGEN")...)
	add("site:altitude", "valid input: site altitude between -430 and 9000 m", sAll, iv(-430, 9000), g("ALTI")...)
	add("site:wind-height", "valid input: wind measurement height between 0.5 and 100 m", sP, iv(0.5, 100), g("WINDHI")...)
	add("site:latitude", "valid input: latitude between -90 and 90 degrees", sAll, iv(-90, 90), g("LAT")...)
	add("site:co2", "valid input: atmospheric CO2 between 100 and 5000 ppm", sP, iv(100, 5000), g("CO2KONZ")...)
	// ---- valid inputs: soil description
	add("soil:bulk-density", "valid input: bulk density between 0.2 and 2.2 g/cm³ (the soil readers store what the file gives)", sP, iv(0.2, 2.2), g("BD")...)
	add("soil:humus", "valid input: humus mass fraction between 0 and 0.3 (derived from organic carbon of the soil file)", sZ|sP, iv(0, 0.3), g("HUMUS")...)
	add("soil:organic-carbon>=0", "valid input: organic carbon content of a horizon is not negative", sZ|sP, iv(0, 60), g("CGEHALT")...)
	// ---- valid inputs: management and configuration
	add("irrigation-depth>=1", "valid input: the automatic irrigation depth of a crop is at least one layer", sP, iv(1, 20), g("IRRDEP")...)
	add("max-root-layers>=1", "C09.R4: the maximum rooted layer count is floored at 1", sP, iv(1, 20), g("WURZMAX")...)
	add("sowing-window>0", "valid input: the sliding temperature window for automatic sowing has at least one day", sP, iv(1, 366), g("TSLWINDOW")...)
	add("active-N-fraction", "valid input: the mineralisable share of soil organic N lies strictly between 0 and 1", sP, iv(0.001, 0.999), g("NAKT")...)
	add("days-of-year>0", "the yearly averages divide by the number of the day on which the year-end block runs, which the day loop makes at least 1", sP, iv(1, 366), g("JTAG")...)
	add("soil:C/N>=0", "valid input: the C/N ratio of a horizon is not negative (0 stands for \"not given\" and must be replaced by the default before it divides)", sZ|sP, iv(0, 100), "SoilFileData.CNRATIO", "soildata.CNRATIO")
	// ---- valid inputs: crop parameters
	add("crop:root-velocity", "valid input: root depth increase per degree day is positive (crop file; the calibration overwrite checks 0 < VELOC <= 1)", sP, iv(1e-6, 1), g("VELOC")...)
	add("crop:stage-temperature-sum>0", "valid input: every development stage of a crop file has a positive temperature sum", sP, iv(1, 5000), g("TSUM")...)
	add("crop-mass>0", "between sowing and harvest the above-ground and root dry masses are positive: they start from the positive initial organ masses of the crop file (C09.R6 decides that every sowing takes them) and only grow or are floored (C09.R2); not decided here", sP, nil, g("OBMAS", "WUMAS")...)
	add("organ-mass>=0", "C09.R2: every update of an organ mass is floored at 0", sZ|sP, nil, g("WORG")...)
	as.byRoot["CropSharedVars.tendsum"] = &assumeEntry{Sign: sP, Iv: iv(201, 20000), Name: "crop:total-temperature-sum>200", Why: "valid input: the temperature sums of a crop's stages add up to more than 200 degree days"}
	as.Why["crop:total-temperature-sum>200"] = "valid input: the temperature sums of a crop's stages add up to more than 200 degree days"
	// ---- results of stomat (excluded by name)
	add("stomatal-resistance>0", "the stomatal resistance handed over by the photosynthesis routine is positive (stomat is excluded by name and not decided)", sP, nil, g("RSTOM")...)
	// ---- results of functions that are outside the sign analysis
	fn := func(name, why string, sign Sg, box *Iv, fns ...string) {
		as.Why[name] = why
		for _, f := range fns {
			as.byFn[f] = &assumeEntry{Sign: sign, Iv: box, Name: name, Why: why}
		}
	}
	solar := "solar geometry (CalculateDayLenght, excluded by name: trigonometric ranges are outside a sign analysis): day lengths lie in [0, 24] h, radiation sums are not negative, declination within ±23.5°"
	fn("solar-geometry", solar, sZ|sP, iv(0, 24), "hermes.CalculateDayLenght.0", "hermes.CalculateDayLenght.1", "hermes.CalculateDayLenght.2")
	fn("solar-geometry", solar, sZ|sP, nil, "hermes.CalculateDayLenght.3", "hermes.CalculateDayLenght.4", "hermes.CalculateDayLenght.5")
	fn("solar-geometry", solar, sAll, iv(-23.5, 23.5), "hermes.CalculateDayLenght.6")
	// ---- ordered soil hydraulic parameters (C15) as sums of positive gaps
	// a layer with a CONSTANT index at or beyond the smallest admissible profile (two layers) may lie below the
	// profile bottom, where every parameter is 0: its gaps are only known to be non-negative (code that addresses
	// fixed layers — "the 30–60 cm block" — must test for them itself)
	inEveryProfile := func(idx []Poly) bool {
		if len(idx) != 1 {
			return true
		}
		if c, ok := idx[0].ConstInt(); ok && c >= 2 {
			return false
		}
		return true
	}
	m := func(idx []Poly) Poly {
		if !inEveryProfile(idx) {
			return PAtom(gapAtom("wp", "nonneg", idx))
		}
		return PAtom(gapAtom("wp", "pos", idx))
	}
	n := func(idx []Poly) Poly {
		if !inEveryProfile(idx) {
			return PAtom(gapAtom("fc-wp", "nonneg", idx))
		}
		return PAtom(gapAtom("fc-wp", "pos", idx))
	}
	gw := func(idx []Poly) Poly { return PAtom(gapAtom("fcgw-fc", "nonneg", idx)) }
	s := func(idx []Poly) Poly { return PAtom(gapAtom("pv-fc", "nonneg", idx)) }
	as.gapOf["GlobalVarsMain.WMIN"] = m
	as.gapOf["GlobalVarsMain.WNOR"] = func(idx []Poly) Poly { return m(idx).Add(n(idx)) }
	as.gapOf["GlobalVarsMain.W"] = func(idx []Poly) Poly { return m(idx).Add(n(idx)).Add(gw(idx)) }
	as.gapOf["GlobalVarsMain.PORGES"] = func(idx []Poly) Poly { return m(idx).Add(n(idx)).Add(gw(idx)).Add(s(idx)) }
	// the mineralisation threshold lies strictly between wilting point and field capacity of the top layer
	as.gapOf["GlobalVarsMain.WRED"] = func(idx []Poly) Poly {
		z := []Poly{PZero()}
		return m(z).Add(PAtom(gapAtom("red-wp", "pos", z)))
	}
	as.gapOf["GlobalVarsMain.ERNTE"] = func(idx []Poly) Poly {
		return PAtom(cellAtom("GlobalVarsMain.SAAT", 0, idx)).Add(PAtom(gapAtom("harvest-sowing", "pos", idx)))
	}
	as.Why["crop:day-length-saturation>base"] = "valid input: where a stage has a positive saturating day length, its base day length is smaller"
	as.Why["harvest-after-sowing"] = "valid input: the harvest date of a rotation entry is later than its sowing date"
	as.Why["water<1.04·pore-volume"] = "the water content of a layer stays below 1.04 times its pore volume (C06 bounds it by field capacity plus the day's capillary increment; not established beyond that)"
	as.Why["soil-order"] = "C15: 0 < wilting point < field capacity <= current field capacity (raised to pore volume below the groundwater table) <= pore volume, per layer"
	return as
}

func gapAtom(kind, sign string, idx []Poly) *Atom {
	return internAtom(&Atom{Key: "γ" + kind + "[" + idxKey(idx) + "]", Kind: "gap", Fn: sign, Root: "soil-order", Idx: idx})
}

func (as *Assumptions) entry(a *Atom) *assumeEntry {
	if a.Kind == "call" {
		if e, ok := as.byFn[a.Fn]; ok {
			return e
		}
		return nil
	}
	if a.Kind != "cell" {
		return nil
	}
	if e, ok := as.byRoot[a.Root]; ok {
		return e
	}
	return nil
}

func (as *Assumptions) Sign(a *Atom) (Sg, string) {
	if a.Kind == "gap" {
		return sAll, ""
	}
	if e := as.entry(a); e != nil {
		return e.Sign, e.Name
	}
	return sAll, ""
}

func (as *Assumptions) Box(a *Atom) (Iv, string, bool) {
	if a.Kind == "gap" {
		if a.Fn == "pos" {
			return Iv{math.SmallestNonzeroFloat64, 1}, "soil-order", true
		}
		return Iv{0, 1}, "soil-order", true
	}
	if e := as.entry(a); e != nil && e.Iv != nil {
		return *e.Iv, e.Name, true
	}
	return Iv{}, "", false
}

func (as *Assumptions) Rewrite(a *Atom) (Poly, bool) {
	if a.Kind != "cell" {
		return Poly{}, false
	}
	if v, ok := as.rwCache[a]; ok {
		return v.p, v.ok
	}
	v, ok := as.rewrite1(a)
	as.rwCache[a] = rwRes{v, ok}
	return v, ok
}

type rwRes struct {
	p  Poly
	ok bool
}

func (as *Assumptions) rewrite1(a *Atom) (Poly, bool) {
	if f, ok := as.gapOf[a.Root]; ok && a.Ver >= 0 && (len(a.Idx) == 1 || a.Root == "GlobalVarsMain.WRED" && len(a.Idx) == 0) {
		return f(a.Idx), true
	}
	return Poly{}, false
}

// RewriteAlt is tried when the primary rewriting leaves an obligation open: it additionally expresses the
// water content through the pore volume (which loses the positivity of the water content itself).
func (as *Assumptions) RewriteAlt(a *Atom) (Poly, bool) {
	if a.Kind == "cell" && a.Root == "GlobalVarsMain.WG" && len(a.Idx) == 2 {
		if v, ok := as.altCache[a]; ok {
			return v.p, v.ok
		}
		pv := as.gapOf["GlobalVarsMain.PORGES"]([]Poly{a.Idx[1]})
		v := pv.Scale(ratFrac(26, 25)).Sub(PAtom(gapAtom("pv-water", "pos", a.Idx)))
		as.altCache[a] = rwRes{v, true}
		return v, true
	}
	return as.Rewrite(a)
}

// Implied returns the conditional assumptions triggered by the path condition for the query q: facts that hold
// whenever a triggering fact holds.
func (as *Assumptions) Implied(facts []*Cond, q Poly) ([]*Cond, []string) {
	var out []*Cond
	var names []string
	for _, f := range facts {
		if f.Kind != "cmp" || f.Op != token.GTR {
			continue
		}
		t := f.P.single()
		if t == nil || len(t.M) != 1 || t.M[0].E != 1 || t.C.Sign() <= 0 {
			continue
		}
		a := t.M[0].A
		if a.Kind == "cell" && a.Root == "GlobalVarsMain.DAYL" && len(a.Idx) == 1 {
			// the base day length of the same stage, in whatever version the query reads it
			q.walkAtoms(func(b *Atom) {
				if b.Kind == "cell" && b.Root == "GlobalVarsMain.DLBAS" && len(b.Idx) == 1 && stripVersions(b.Idx[0]).Equal(stripVersions(a.Idx[0])) {
					out = append(out, &Cond{Kind: "cmp", Op: token.GTR, P: PAtom(a).Sub(PAtom(b))})
					names = append(names, "crop:day-length-saturation>base")
				}
			})
		}
	}
	return out, names
}

func (as *Assumptions) describe(names []string) string {
	var out []string
	for _, n := range names {
		out = append(out, n+": "+as.Why[n])
	}
	return strings.Join(out, "; ")
}
