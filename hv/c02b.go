package main

// C02.R9 / C07.R8 — per-layer N bookkeeping of the mineralisation routine and
// of the transport routine's sweeps (added after the mutation sweep of
// nmove/mineral: 549 of 1252 syntactic mutants were not reported by any
// property's rules; the per-term rules of rounds 1–4 checked scaling and
// pairing of single statements, not that the statements of one iteration add
// up, nor which layers an iteration visits).

import (
	"fmt"
	"go/ast"
	"go/token"
	"go/types"
	"sort"
	"strings"
)

// pathSummary collects failing paths of one obligation family.
type pathSummary struct {
	n     int
	bad   int
	first string
}

func (s *pathSummary) add(ok bool, detail string) {
	s.n++
	if !ok {
		s.bad++
		if s.first == "" {
			s.first = detail
		}
	}
}

func mineralBooks(p *Prog, r *Report, rule string) {
	r.Rule(rule, "per-layer bookkeeping of the mineralisation routine, on every path of one iteration: the source term handed to the transport equals what the mineralised-amount counters and the dissolved-fertiliser counter gain minus the nitrification N2O; each organic pool loses exactly what its counter gains; a pool's decay is proportional to the pool of the same layer; in the warm arm the moisture factor is floored at 0 and capped at 1 before use; the rate coefficients stay in [0,1] over the admitted soil temperatures (interval evaluation); dissolved fertiliser grows by a fresh multiple of the undissolved remainder; the loop starts at the top layer and indexes the layer as loop variable − 1", 9)
	fi := p.Funcs["hermes.mineral"]
	x := walked(p, "hermes.mineral")
	if fi == nil || x == nil {
		r.Ob("mineral", "-", false, "hermes.mineral not found")
		return
	}
	var L *LoopCtx
	for _, e := range x.Events {
		if e.Kind == "assign" && e.Root == "GlobalVarsMain.DN" && len(e.Loops) == 1 {
			L = e.Loops[0]
		}
	}
	if L == nil {
		r.Ob("loop", "-", false, "no loop in mineral stores the source term DN")
		return
	}
	pos := p.Pos(L.Stmt.Pos())
	lo, hi, unit, why := loopBounds(x, L)
	okR := why == "" && unit && lo.Equal(PInt(1))
	hiS := stripVersions(hi).String()
	okH := strings.Contains(hiS, "idiv(") && strings.Contains(hiS, "GlobalVarsMain.IZM")
	r.Ob("range", pos, okR && okH, fmt.Sprintf("mineralisation loop runs %s .. %s in unit steps (must start at layer 1 and end at the mineralisation depth / layer thickness) %s", polyOr(lo), hiS, why))
	// the mineralisation depth stays inside the profile: every function that sets it ends, on every path that set it,
	// with the clamp 'depth / layer thickness > N  →  depth = N · layer thickness' (a thin profile would otherwise be
	// swept beyond its last layer, where the pore volume is 0 and the moisture ratio 0/0)
	{
		izm := "GlobalVarsMain.IZM"
		for _, w := range p.Fields().Writers(FieldRef{"GlobalVarsMain", "IZM"}) {
			if strings.HasPrefix(w.Key, "hermes.NewDefault") || w.Key == "hermes.NewGlobalVarsMain" {
				continue
			}
			wx := walked(p, w.Key)
			if wx == nil {
				r.Ob("depth-in-profile:"+short(w.Key), p.Pos(w.Decl.Pos()), false, "writer of the mineralisation depth not analysable")
				continue
			}
			var clamp *Event
			lastOther := -1
			for _, e := range wx.Events {
				if e.Kind != "assign" || e.Root != izm {
					continue
				}
				v := stripVersions(e.Val)
				// depth = X · layer thickness under X < depth / layer thickness, X the number of layers (the field, or the value this function just stored into it)
				X := v.Div(cellP("GlobalVarsMain.DZ.Index"))
				isN := X.Equal(cellP("GlobalVarsMain.N"))
				for _, ne := range wx.Events {
					if ne.Kind == "assign" && ne.Root == "GlobalVarsMain.N" && ne.Seq < e.Seq && stripVersions(ne.Val).Equal(X) {
						isN = true
					}
				}
				isClamp := isN && e.HasGuard(func(c *Cond) bool {
					if c.Kind != "cmp" || !strings.Contains(c.Key(), "idiv(") || !strings.Contains(c.Key(), "GlobalVarsMain.IZM") {
						return false
					}
					P := stripVersions(c.P)
					rest := P.Sub(X)
					restN := P.Add(X)
					one := func(q Poly, neg bool) bool {
						t := q.single()
						if t == nil || len(t.M) != 1 || t.M[0].A.Fn != "idiv" {
							return false
						}
						if neg {
							return t.C.Cmp(ratInt(-1)) == 0
						}
						return t.C.Cmp(ratInt(1)) == 0
					}
					return (one(rest, true) && c.Op == token.LSS) || (one(restN, false) && c.Op == token.GTR)
				})
				if isClamp {
					clamp = e
				} else if e.Seq > lastOther {
					lastOther = e.Seq
				}
			}
			ok := clamp != nil && clamp.Seq > lastOther
			if ok && lastOther >= 0 {
				// the clamp is reached whenever a store was: besides its own test it has no guard, or the function's stores share them
				n := 0
				for _, g := range flattenGuards(clamp.Guards) {
					if !g.Loop && !(strings.Contains(g.Key(), "idiv(") && strings.Contains(g.Key(), "GlobalVarsMain.IZM")) {
						n++
					}
				}
				ok = n == 0
			}
			pos := p.Pos(w.Decl.Pos())
			if clamp != nil {
				pos = p.Pos(clamp.Pos)
			}
			r.Ob("depth-in-profile:"+short(w.Key), pos, ok, fmt.Sprintf("%s sets the mineralisation depth; its last store is the clamp to the profile, reached unconditionally: %v", short(w.Key), ok))
		}
	}
	_, ends := forkBody(p, fi, L.Stmt)
	src, pools, own, idxs := &pathSummary{}, &pathSummary{}, &pathSummary{}, &pathSummary{}
	cell0 := func(root string, idx ...Poly) Poly { return cellP(root, idx...) }
	for _, st := range ends {
		if st.term == 1 || st.term == 2 {
			continue
		}
		dn := storedCells(st, "GlobalVarsMain.DN")
		g := guardKeys(st.guards)
		if len(dn) != 1 {
			src.add(false, fmt.Sprintf("[%s] %d stores of the source term on this path", clip(g, 120), len(dn)))
			continue
		}
		zi := dn[0].idx[0]
		// index: loop variable − 1
		lv := ""
		if L.VarObj != nil {
			lv = L.VarObj.Name()
		}
		idxs.add(zi.Equal(pVar(lv).Sub(PInt(1))), fmt.Sprintf("[%s] source term stored at index %s (must be loop variable − 1)", clip(g, 100), zi))
		d := func(root string, idx ...Poly) Poly {
			return stripVersions(finalCell(st, root, idx...).Sub(cell0(root, idx...)))
		}
		dMA, dMF := d("GlobalVarsMain.MINAOS", zi), d("GlobalVarsMain.MINFOS", zi)
		dUMS, dN2O := d("GlobalVarsMain.UMS"), d("GlobalVarsMain.N2onitsum")
		want := dMA.Add(dMF).Add(dUMS).Sub(dN2O)
		got := stripVersions(dn[0].val)
		src.add(got.Equal(want), fmt.Sprintf("[%s] DN[%s] = %s but counters gain ΔMINAOS+ΔMINFOS+ΔUMS−ΔN2O = %s", clip(g, 100), zi, clip(got.String(), 120), clip(want.String(), 120)))
		dA, dF := d("GlobalVarsMain.NAOS", zi), d("GlobalVarsMain.NFOS", zi)
		pools.add(dA.Add(dMA).IsZero() && dF.Add(dMF).IsZero(), fmt.Sprintf("[%s] ΔNAOS+ΔMINAOS = %s, ΔNFOS+ΔMINFOS = %s (must both be 0)", clip(g, 100), clip(dA.Add(dMA).String(), 80), clip(dF.Add(dMF).String(), 80)))
		// own pool: every term of the decay carries the pool cell of the same layer, and no other cell of that pool
		for _, it := range []struct {
			d    Poly
			root string
		}{{dMA, "GlobalVarsMain.NAOS"}, {dMF, "GlobalVarsMain.NFOS"}} {
			okp := true
			self := stripVersions(cell0(it.root, zi))
			for _, t := range it.d.T {
				has := false
				for _, f := range t.M {
					if f.A.Kind == "cell" && f.A.Root == it.root {
						if PAtom(f.A).Equal(self) && f.E == 1 {
							has = true
						} else {
							okp = false
						}
					}
				}
				if !has {
					okp = false
				}
			}
			own.add(okp, fmt.Sprintf("[%s] decay %s is not (coefficient × %s): a pool can lose more than it holds", clip(g, 100), clip(it.d.String(), 100), self))
		}
	}
	rep := func(key string, s *pathSummary, what string) {
		r.Ob(key, pos, s.n > 0 && s.bad == 0, fmt.Sprintf("%s: %d paths of one iteration examined, %d fail %s", what, s.n, s.bad, s.first))
	}
	rep("source=counters", src, "source term equals the gains of the counters")
	rep("pool=counter", pools, "each organic pool loses what its counter gains")
	rep("own-pool", own, "decay proportional to the pool of the same layer")
	rep("layer-index", idxs, "layer index")
	// moisture factor clamps in the warm arm: floor at 0 and cap at 1 on the factor that multiplies the decay
	floor0, cap1 := false, false
	for _, e := range x.Events {
		if e.Kind != "assign" || e.Root != "MIRED" || !e.InLoop(L) {
			continue
		}
		warm := e.HasGuard(func(c *Cond) bool {
			return c.Kind == "cmp" && c.Op == token.GTR && strings.Contains(c.P.String(), "GlobalVarsMain.TD")
		})
		if !warm {
			continue
		}
		if isFloorStore(e) && e.Val.IsZero() {
			floor0 = true
		}
		if isCapStore(e) && e.Val.Equal(PInt(1)) {
			cap1 = true
		}
	}
	// rate coefficients: decay = k(T) · pool · moisture factor with the factor in [0,1]: k(T) ≤ 1 over the soil
	// temperatures the temperature rule admits, evaluated on the expression of THIS tree by interval arithmetic
	for _, it := range []struct{ loc, pool string }{{"DTOTALN", "GlobalVarsMain.NAOS"}, {"DMINFOS", "GlobalVarsMain.NFOS"}} {
		found := false
		for _, e := range x.Events {
			if e.Kind != "assign" || e.Root != it.loc || !e.Val.MentionsRoot(it.pool) {
				continue
			}
			found = true
			k := stripVersions(e.Val)
			var pool, mf *Atom
			for _, t := range k.T {
				for _, f := range t.M {
					if f.A.Kind == "cell" && f.A.Root == it.pool {
						pool = f.A
					}
					if f.A.Kind == "cell" && f.A.Root == "MIRED" {
						mf = f.A
					}
				}
			}
			if pool == nil || mf == nil {
				r.Ob("rate:"+it.loc, p.Pos(e.Pos), false, "decay term is not rate × pool × moisture factor: "+clip(k.String(), 100))
				continue
			}
			k = k.Div(PAtom(pool)).Div(PAtom(mf))
			iv, err := evalIv(k, func(a *Atom) (Iv, bool) {
				if a.Kind == "cell" && a.Root == "GlobalVarsMain.TD" {
					return Iv{-40, 55}, true
				}
				return Iv{}, false
			})
			okK := err == nil && iv.Lo >= 0 && iv.Hi <= 1
			es := ""
			if err != nil {
				es = err.Error()
			}
			r.Ob("rate:"+it.loc, p.Pos(e.Pos), okK, fmt.Sprintf("rate coefficient %s ∈ [%.3g, %.3g] for layer temperatures in [−40, 55] °C (must stay in [0,1]: with the moisture factor in [0,1] the pool then never loses more than it holds) %s", clip(k.String(), 90), iv.Lo, iv.Hi, es))
		}
		if !found {
			r.Ob("rate:"+it.loc, pos, false, "no decay term "+it.loc+" found")
		}
	}
	// dissolved fertiliser: on every path the counters grow by a fresh term k·(applied − dissolved), never by a value
	// left in the long-lived per-layer array by an earlier call
	stale := &pathSummary{}
	for _, st := range ends {
		if st.term == 1 || st.term == 2 {
			continue
		}
		for _, it := range []struct{ cnt, arr, applied string }{{"GlobalVarsMain.UMS", "NitroSharedVars.DUMS", "GlobalVarsMain.DSUMM"}, {"GlobalVarsMain.NH4UMS", "NitroSharedVars.DNH4UMS", "GlobalVarsMain.NH4Sum"}} {
			d := stripVersions(finalCell(st, it.cnt).Sub(cellP(it.cnt)))
			fresh := !d.MentionsRoot(it.arr)
			zero := d.Subst(func(a *Atom) (Poly, bool) {
				if a.Kind == "cell" && a.Root == it.applied {
					return cellP(it.cnt), true
				}
				return Poly{}, false
			})
			stale.add(fresh && zero.IsZero(), fmt.Sprintf("[%s] Δ%s = %s is not a fresh multiple of (%s − %s)", clip(guardKeys(st.guards), 80), shortRoot(it.cnt), clip(d.String(), 90), shortRoot(it.applied), shortRoot(it.cnt)))
		}
	}
	rep("dissolved-fresh", stale, "dissolved/nitrified fertiliser grows by k·(applied − dissolved) computed in the same iteration")
	r.Ob("moisture-factor", pos, floor0 && cap1, fmt.Sprintf("warm arm: moisture factor floored at 0: %v, capped at 1: %v (with the factor in [0,1] the decay coefficient stays below 1 for soil temperatures up to 55 °C, so a pool cannot lose more than it holds)", floor0, cap1))
}

// ---------------------------------------------------------------- transport sweeps

func nmoveSweeps(p *Prog, r *Report, rule string) {
	r.Rule(rule, "sweeps of the transport routine: concentration, dispersive and convective term, the transport update and the second half of the source are each defined for every layer 0..N−1 on every path (a layer left out keeps the value of the previous sub-step); the update of a layer uses the dispersive and convective term of the same layer with opposite unit coefficients; the second half of the source adds DN·wdt/2 of the same layer; the crop's uptake is capped at the layer's own mineral N before it is booked, and booked with the same amount in the uptake counters and the layer; credits are added, not subtracted; leaching through the profile bottom is booked whenever the flux there is downward", 14)
	x := nmoveWalk(p)
	if x == nil {
		r.Ob("nmove", "-", false, "hermes.nmove not found")
		return
	}
	N := cellP("GlobalVarsMain.N")
	layers := func(name, root string, prefix ...int64) sweepTarget {
		return sweepTarget{name: name, root: root, prefix: prefix, lo: PZero(), hi: N.Sub(PInt(1))}
	}
	conc := ""
	for _, e := range x.Events {
		if e.Kind == "assign" && e.Local == nil && !strings.Contains(e.Root, ".") && len(e.Idx) == 1 && len(e.Loops) == 1 && e.Val.MentionsRoot("GlobalVarsMain.C1") {
			conc = e.Root
		}
	}
	targets := []sweepTarget{
		{name: "concentration", root: conc, lo: PInt(1), hi: N},
		layers("dispersive term", "NitroSharedVars.DISP"),
		layers("convective term", "NitroSharedVars.KONV"),
	}
	done := map[string]bool{}
	for _, t := range targets {
		for _, L := range loopsOf(x) {
			has := false
			for _, e := range x.Events {
				if innermost(e, L) && len(e.Loops) == 1 {
					if _, ok := matchTarget(e, t); ok {
						has = true
					}
				}
			}
			if has && !done[t.name] {
				done[t.name] = true
				sweepDefines(p, r, x, L, t, "sweep:"+strings.ReplaceAll(t.name, " ", "-"), false)
			}
		}
		if !done[t.name] {
			r.Ob("sweep:"+strings.ReplaceAll(t.name, " ", "-"), "-", false, "no loop defines the "+t.name)
		}
	}
	// C1 is written by three sweeps: uptake (first sub-step only), transport update, second half of the source
	tC1 := layers("mineral N", "GlobalVarsMain.C1")
	nC1 := 0
	for _, L := range loopsOf(x) {
		var upd, half *Event
		for _, e := range x.Events {
			if innermost(e, L) && len(e.Loops) == 1 && e.Root == "GlobalVarsMain.C1" {
				if e.Val.MentionsRoot("NitroSharedVars.KONV") {
					upd = e
				}
				if d := stripVersions(e.Val.Sub(e.Old)); d.MentionsRoot("GlobalVarsMain.DN") && !e.Val.IsZero() && half == nil {
					half = e
				}
			}
		}
		if upd != nil {
			nC1++
			sweepDefines(p, r, x, L, tC1, "sweep:update", false)
			// same-layer terms, opposite unit coefficients
			z := upd.Idx[0]
			v := stripVersions(upd.Val)
			var cK, cD Poly
			okIdx := true
			for _, t := range v.sortedTerms() {
				for _, f := range t.M {
					if f.A.Kind != "cell" || f.E != 1 {
						continue
					}
					q := PZero()
					q.T[t.monoKey()] = t
					switch f.A.Root {
					case "NitroSharedVars.KONV":
						cK = q.Div(PAtom(f.A))
						if !f.A.Idx[0].Equal(z) {
							okIdx = false
						}
					case "NitroSharedVars.DISP":
						cD = q.Div(PAtom(f.A))
						if !f.A.Idx[0].Equal(z) {
							okIdx = false
						}
					}
				}
			}
			okC := cK.T != nil && cD.T != nil && cK.Add(cD).IsZero()
			r.Ob("update:terms", p.Pos(upd.Pos), okIdx && okC, fmt.Sprintf("C1[%s] takes the convective term with coefficient %s and the dispersive term with %s of the same layer: indices agree: %v, coefficients opposite: %v (the convective term is a loss, the dispersive term a gain)", z, polyOr(cK), polyOr(cD), okIdx, okC))
		}
		if half != nil {
			nC1++
			sweepDefines(p, r, x, L, tC1, "sweep:second-half", false)
			z := half.Idx[0]
			d := stripVersions(half.Val.Sub(half.Old))
			want := cellP("GlobalVarsMain.DN", z).Mul(pVar("wdt")).Scale(ratFrac(1, 2))
			r.Ob("second-half:amount", p.Pos(half.Pos), d.Equal(stripVersions(want)), fmt.Sprintf("ΔC1[%s] = %s (must be DN[%s]·wdt/2 added to the same layer)", z, d, z))
		}
	}
	if nC1 < 2 {
		r.Ob("sweep:C1", "-", false, fmt.Sprintf("%d sweeps over the mineral N recognised (transport update, second half of the source), expected 2", nC1))
	}
	// uptake block
	var cap_, floor_ *Event
	for _, e := range x.Events {
		if e.Kind == "assign" && e.Root == "GlobalVarsMain.PE" && len(e.Idx) == 1 {
			z := e.Idx[0]
			if isCapStore(e) {
				// PE[z] = C1[z] − c
				rest := stripVersions(e.Val).Sub(cellP("GlobalVarsMain.C1", z))
				if c, ok := rest.Const(); ok && c.Sign() <= 0 {
					cap_ = e
				} else {
					r.Ob("uptake:cap", p.Pos(e.Pos), false, fmt.Sprintf("uptake of layer %s is capped at %s, not at the layer's own mineral N minus a reserve", z, clip(stripVersions(e.Val).String(), 80)))
				}
			}
			if isFloorStore(e) && e.Val.IsZero() {
				floor_ = e
			}
		}
	}
	r.Ob("uptake:cap", "-", cap_ != nil, fmt.Sprintf("uptake capped at the mineral N of the same layer (minus a non-negative reserve): %v", cap_ != nil))
	r.Ob("uptake:floor", "-", floor_ != nil, fmt.Sprintf("uptake floored at 0: %v", floor_ != nil))
	for _, it := range []struct{ root, what string }{{"GlobalVarsMain.PESUM", "crop N content"}, {"GlobalVarsMain.AUFNASUM", "cumulative uptake"}} {
		n := 0
		for _, e := range x.Events {
			if e.Kind != "assign" || e.Root != it.root || len(e.Loops) != 1 {
				continue
			}
			n++
			d := stripVersions(e.Val.Sub(e.Old))
			L := e.Loops[0]
			want := cellP("GlobalVarsMain.PE", PAtom(L.Var))
			after := cap_ != nil && floor_ != nil && e.Seq > cap_.Seq && e.Seq > floor_.Seq
			r.Ob("uptake:booked:"+shortRoot(it.root), p.Pos(e.Pos), d.Equal(stripVersions(want)) && after, fmt.Sprintf("Δ%s = %s (must be +PE of the visited layer, after the cap and the floor: %v)", shortRoot(it.root), d, after))
		}
		if n == 0 {
			r.Ob("uptake:booked:"+shortRoot(it.root), "-", false, "no per-layer booking of the uptake into the "+it.what)
		}
	}
	// the layer loses the same amount (non-clamped arm)
	okTake := false
	for _, e := range x.Events {
		if e.Kind == "assign" && e.Root == "GlobalVarsMain.C1" && len(e.Loops) == 1 && len(e.Idx) == 1 {
			d := stripVersions(e.Val.Sub(e.Old))
			if d.Add(cellP("GlobalVarsMain.PE", e.Idx[0])).IsZero() {
				okTake = true
			}
		}
	}
	r.Ob("uptake:removed", "-", okTake, fmt.Sprintf("the layer's mineral N is reduced by PE of the same layer: %v", okTake))
	// what leaves the layer is booked: the removal and the two bookings run under the same conditions (a guard around
	// the bookings only — "rooted layers", say — lets the harvest-day uptake leave the soil uncounted: the harvest
	// block has reset the rooting depth before the transport routine runs)
	{
		var take *Event
		var books []*Event
		for _, e := range x.Events {
			if e.Kind != "assign" || len(e.Loops) != 1 {
				continue
			}
			d := stripVersions(e.Val.Sub(e.Old))
			if e.Root == "GlobalVarsMain.C1" && len(e.Idx) == 1 && d.Add(cellP("GlobalVarsMain.PE", e.Idx[0])).IsZero() {
				take = e
			}
			if (e.Root == "GlobalVarsMain.PESUM" || e.Root == "GlobalVarsMain.AUFNASUM") && d.MentionsRoot("GlobalVarsMain.PE") {
				books = append(books, e)
			}
		}
		same := take != nil && len(books) >= 2
		det := ""
		if take != nil {
			tk := map[string]bool{}
			for _, g := range flattenGuards(take.Guards) {
				tk[g.Key()] = true
			}
			for _, b := range books {
				bk := map[string]bool{}
				for _, g := range flattenGuards(b.Guards) {
					bk[g.Key()] = true
					if !tk[g.Key()] {
						same = false // the booking has a condition the removal does not have
					}
				}
				for _, g := range flattenGuards(take.Guards) {
					// the removal's own non-negativity arm (C1 − PE ≥ 0; the other arm stores 0) is the one extra condition
					if !bk[g.Key()] && !(g.Kind == "cmp" && g.P.MentionsRoot("GlobalVarsMain.C1") && g.P.MentionsRoot("GlobalVarsMain.PE")) {
						same = false
					}
				}
				if !same && det == "" {
					det = fmt.Sprintf("booking at %s under [%s], removal under [%s]", p.Pos(b.Pos), clip(guardKeys(b.Guards), 120), clip(guardKeys(take.Guards), 120))
				}
			}
		}
		r.Ob("uptake:booked-where-removed", "-", same, fmt.Sprintf("the uptake is removed from the layer and booked into the crop's N and the cumulative uptake under the same conditions: %v %s", same, det))
	}
	// fixation credit: added
	nf := 0
	for _, e := range x.Events {
		if e.Kind == "assign" && e.Root == "GlobalVarsMain.PESUM" && len(e.Loops) == 0 {
			nf++
			d := stripVersions(e.Val.Sub(e.Old))
			r.Ob("fixation:credit", p.Pos(e.Pos), d.Equal(cellP("GlobalVarsMain.SCHNORR")), fmt.Sprintf("ΔPESUM = %s (must be +SCHNORR)", d))
		}
	}
	if nf == 0 {
		r.Ob("fixation:credit", "-", false, "no fixation credit found")
	}
	// the credit is booked on exactly the days on which the crop routine runs (and counts the fixation in the crop's
	// N): the day window of the credit equals the window of the crop routine's call site in the day loop
	{
		window := func(gs []*Cond) map[string]string {
			out := map[string]string{}
			for _, g := range flattenGuards(gs) {
				if g.Kind != "cmp" || g.Loop {
					continue
				}
				P := stripVersions(g.P)
				ts := P.sortedTerms()
				// "a sowing date is set": date > 0 — with automatic sowing the next crop's date is 0 until it is sown
				if len(ts) == 1 && len(ts[0].M) == 1 && ts[0].M[0].E == 1 && ts[0].M[0].A.Kind == "cell" && ts[0].M[0].A.Root == "GlobalVarsMain.SAAT" {
					op := g.Op
					if ts[0].C.Sign() < 0 {
						op = flipOp(op)
					}
					out["SAAT set"] = "SAAT " + op.String() + " 0"
					continue
				}
				if len(ts) != 2 {
					continue
				}
				for _, t := range ts {
					if len(t.M) == 1 && t.M[0].E == 1 && t.M[0].A.Kind == "cell" && (t.M[0].A.Root == "GlobalVarsMain.SAAT" || t.M[0].A.Root == "GlobalVarsMain.ERNTE2") && t.C.IsInt() {
						op := g.Op
						if t.C.Sign() > 0 {
							op = flipOp(op) // date − day op 0  ⇒  day flip(op) date
						}
						out[shortRoot(t.M[0].A.Root)] = "day " + op.String() + " " + shortRoot(t.M[0].A.Root)
					}
				}
			}
			return out
		}
		var credit, call map[string]string
		pos := "-"
		for _, e := range x.Events {
			if e.Kind == "assign" && e.Root == "GlobalVarsMain.PESUM" && len(e.Loops) == 0 && stripVersions(e.Val.Sub(e.Old)).MentionsRoot("GlobalVarsMain.SCHNORR") {
				credit = window(e.Guards)
				pos = p.Pos(e.Pos)
			}
		}
		if run := walked(p, "hermes.HermesSession.Run"); run != nil {
			for _, e := range run.Events {
				if e.Kind == "call" && e.Callee != nil && e.Callee.Name() == "PhytoOut" {
					call = window(e.Guards)
				}
			}
		}
		same := credit != nil && call != nil && len(credit) == len(call) && len(call) >= 2 && call["SAAT"] != "" && call["ERNTE2"] != ""
		for k, v := range call {
			if credit[k] != v {
				same = false
			}
		}
		r.Ob("fixation:window", pos, same, fmt.Sprintf("the fixation credit is booked under %v, the crop routine that computes and counts the fixation runs under %v: must be the same two-sided day window with the same test that a sowing date is set (a day on which the crop routine runs without the credit loses that day's fixation from the balance; a day on which the credit is booked without the crop routine credits a stale amount)", credit, call))
	}
	// the amount credited is today's fixation: every store to the hand-over variable sets it to the fixation just
	// computed (no dependence on its own previous value: a pending amount would be credited to another day or crop),
	// and only the crop routine writes it
	{
		nS, okS := 0, true
		det := ""
		for _, w := range p.Fields().Writers(FieldRef{"GlobalVarsMain", "SCHNORR"}) {
			if strings.HasPrefix(w.Key, "hermes.NewDefault") || w.Key == "hermes.NewGlobalVarsMain" {
				continue
			}
			wx := walked(p, w.Key)
			if wx == nil {
				okS = false
				det += w.Key + " (not analysable); "
				continue
			}
			for _, e := range wx.Events {
				if e.Kind != "assign" || e.Root != "GlobalVarsMain.SCHNORR" {
					continue
				}
				nS++
				v := stripVersions(e.Val)
				if w.Key == "hermes.Init" && v.IsZero() {
					continue
				}
				if w.Key != "hermes.PhytoOut" || !v.Equal(cellP("GlobalVarsMain.NFIX")) {
					okS = false
					det += fmt.Sprintf("%s: SCHNORR = %s at %s; ", strings.TrimPrefix(w.Key, "hermes."), clip(v.String(), 60), p.Pos(e.Pos))
				}
			}
		}
		r.Ob("fixation:fresh", "-", okS && nS >= 1, fmt.Sprintf("%d store(s) of the fixation hand-over variable, each 'today's fixation' in the crop routine: %s", nS, orStr(det, "ok")))
	}
	// leaching through the profile bottom: booked on the arm 'flux at the reporting depth is downward ∧ reporting depth is the bottom'
	okLeach := false
	for _, e := range x.Events {
		if e.Kind != "assign" || e.Root != "GlobalVarsMain.OUTSUM" {
			continue
		}
		down := false
		bottom := false
		for _, g := range flattenGuards(e.Guards) {
			if g.Kind != "cmp" {
				continue
			}
			gp := stripVersions(g.P)
			if gp.Equal(cellP("GlobalVarsMain.Q1", cellP("GlobalVarsMain.OUTN"))) && g.Op == token.GTR {
				down = true
			}
			if gp.Equal(cellP("GlobalVarsMain.OUTN").Sub(N)) && g.Op == token.GEQ || gp.Equal(N.Sub(cellP("GlobalVarsMain.OUTN"))) && g.Op == token.LEQ {
				bottom = true
			}
		}
		if down && bottom {
			okLeach = true
		}
	}
	r.Ob("leaching:bottom", "-", okLeach, fmt.Sprintf("downward flux through the profile bottom is booked in the leaching counter: %v", okLeach))
	_ = sort.Strings
}

// ---------------------------------------------------------------- inputs enter in full

// c02Inputs: nitrogen that enters with irrigation water and with atmospheric
// deposition is added to the top layer in full — the amount added is the very
// amount computed (and reported) for the event, not a capped or scaled part of
// it; an amount that is neither stored nor booked anywhere has left the balance.
func c02Inputs(p *Prog, r *Report, rule string) {
	r.Rule(rule, "inputs enter in full: on an irrigation day the top layer's mineral N grows by exactly concentration × amount of that irrigation event (same event slot, unit factor 1/100), under no other condition than 'the amount is positive'; every day it grows by the daily share of the yearly deposition", 2)
	x := walked(p, "hermes.HermesSession.Run")
	if x == nil {
		r.Ob("Run", "-", false, "run closure not found")
		return
	}
	nIrr, nDep := 0, 0
	for _, e := range x.Events {
		if e.Kind != "assign" || e.Root != "GlobalVarsMain.C1" || len(e.Idx) != 1 || !e.Idx[0].IsZero() || len(e.Loops) == 0 {
			continue
		}
		irr := e.HasGuard(func(c *Cond) bool {
			return c.Kind == "cmp" && c.Op == token.EQL && c.P.MentionsRoot("GlobalVarsMain.ZTBR")
		})
		d := stripVersions(e.Val.Sub(e.Old))
		switch {
		case irr:
			nIrr++
			ok := false
			det := fmt.Sprintf("ΔC1[0] = %s", clip(d.String(), 120))
			if t := d.single(); t != nil && len(t.M) == 2 {
				var kz, rg *Atom
				for _, f := range t.M {
					if f.E == 1 && f.A.Kind == "cell" && f.A.Root == "GlobalVarsMain.BRKZ" {
						kz = f.A
					}
					if f.E == 1 && f.A.Kind == "cell" && f.A.Root == "GlobalVarsMain.BREG" {
						rg = f.A
					}
				}
				c, _ := t.C.Float64()
				ok = kz != nil && rg != nil && kz.Idx[0].Equal(rg.Idx[0]) && c > 0.0099999 && c < 0.0100001
			}
			// guards: the event test and 'amount > 0' only (besides the loop and run-setup guards shared with the deposition store)
			pos := guardedBy(e, e.Val.Sub(e.Old), token.GTR)
			r.Ob("irrigation-N", p.Pos(e.Pos), ok && pos, det+fmt.Sprintf(" (must be BRKZ[slot]·BREG[slot]/100 of the same slot, added whenever positive: %v) — a cap or a share drops N that the event reports as applied", pos))
		case d.MentionsRoot("GlobalVarsMain.DEPOS") && !e.Val.IsZero():
			nDep++
			want := cellP("GlobalVarsMain.DEPOS").Mul(cellP("GlobalVarsMain.DT.Index")).Scale(ratFrac(1, 365))
			r.Ob("deposition", p.Pos(e.Pos), d.Equal(want), fmt.Sprintf("ΔC1[0] = %s (must be DEPOS/365·DT)", d))
		}
	}
	if nIrr != 1 {
		r.Ob("irrigation-N", "-", false, fmt.Sprintf("%d stores add irrigation N to the top layer, expected 1", nIrr))
	}
	if nDep != 1 {
		r.Ob("deposition", "-", false, fmt.Sprintf("%d stores add the deposition to the top layer, expected 1", nDep))
	}
}

// ---------------------------------------------------------------- daily reset of the uptake demand

// uptakeReset: the per-layer N uptake demand PE is written by the crop routine
// for the rooted layers only; the transport routine credits PE of EVERY layer
// on the first sub-step.  The demand must therefore be cleared for all layers,
// unconditionally, once per day after the sub-steps — otherwise a layer that
// leaves the uptake zone keeps yesterday's demand and is debited every day.
func uptakeReset(p *Prog, r *Report, rule string) {
	r.Rule(rule, "daily reset of the N uptake demand: in the day loop, after the sub-step loop, an unconditional sweep over all layers 0..N−1 sets the per-layer demand to zero (the crop routine only rewrites the rooted layers, the transport routine credits every layer)", 1)
	x := walked(p, "hermes.HermesSession.Run")
	si := substepScope(p)
	if x == nil || si.Loop == nil {
		r.Ob("reset:PE", "-", false, "run closure or sub-step loop not found")
		return
	}
	N := cellP("GlobalVarsMain.N")
	found := false
	pos := "-"
	for _, L := range loopsOf(x) {
		if L.Stmt.Pos() < si.Loop.Stmt.End() {
			continue
		}
		var ev *Event
		for _, e := range x.Events {
			if e.Kind == "assign" && e.Root == "GlobalVarsMain.PE" && innermost(e, L) && e.Val.IsZero() && len(e.Idx) == 1 {
				ev = e
			}
		}
		if ev == nil || len(ev.Loops) != 2 {
			continue
		}
		day := ev.Loops[0]
		lo, hi, unit, why := loopBounds(x, L)
		if why != "" || !unit || L.Var == nil {
			continue
		}
		off, okOff := ev.Idx[0].Sub(PAtom(L.Var)).ConstInt()
		if !okOff {
			continue
		}
		full := stripVersions(lo.Add(PInt(off))).IsZero() && stripVersions(hi.Add(PInt(off))).Equal(N.Sub(PInt(1)))
		// unconditional within the day loop: the sweep's entry guards are those of the day loop
		uncond := len(inLoopGuardsNoBreak(ev, day)) == 0
		if full && uncond {
			found = true
			pos = p.Pos(L.Stmt.Pos())
		}
	}
	r.Ob("reset:PE", pos, found, fmt.Sprintf("unconditional zeroing of the uptake demand of all layers after the sub-step loop: %v", found))
}

// ---------------------------------------------------------------- denitrification of mineral soils

// denitrBalance: in Denitr the nitrate of the top layers is debited in
// proportion to each layer's share of their sum, and the loss is booked once.
// Σ shares = 1 only if the shares, the sum and the debit loop range over the
// same layers; the loss leaves the soil only if it is subtracted; the balance
// closes only if the counter gains the same amount.
func denitrBalance(p *Prog, r *Report, rule string) {
	r.Rule(rule, "denitrification of mineral soils: the debit loop visits exactly the layers whose nitrate makes up the sum the shares are taken of (share_j = C1[j]/Σ), each visited layer loses amount × its own share, and the cumulative counter gains exactly that amount, once, in the same arm", 4)
	x := walked(p, "hermes.Denitr")
	if x == nil {
		r.Ob("Denitr", "-", false, "hermes.Denitr not found")
		return
	}
	// the shares
	shares := map[int64]Poly{}
	var S Poly
	okShares := true
	for _, e := range x.Events {
		if e.Kind != "assign" || e.Local != nil && len(e.Idx) == 0 || strings.Contains(e.Root, ".") || len(e.Idx) != 1 {
			continue
		}
		j, isC := e.Idx[0].ConstInt()
		if !isC || !e.Val.MentionsRoot("GlobalVarsMain.C1") {
			continue
		}
		v := stripVersions(e.Val)
		s := cellP("GlobalVarsMain.C1", PInt(j)).Div(v)
		if S.T == nil {
			S = s
		} else if !S.Equal(s) {
			okShares = false
		}
		shares[j] = v
	}
	var sumIdx []int64
	for _, t := range S.sortedTerms() {
		if len(t.M) == 1 && t.M[0].A.Kind == "cell" && t.M[0].A.Root == "GlobalVarsMain.C1" && t.M[0].E == 1 && t.C.Cmp(ratInt(1)) == 0 {
			if c, ok := t.M[0].A.Idx[0].ConstInt(); ok {
				sumIdx = append(sumIdx, c)
				continue
			}
		}
		okShares = false
	}
	sort.Slice(sumIdx, func(i, j int) bool { return sumIdx[i] < sumIdx[j] })
	same := len(sumIdx) == len(shares) && len(sumIdx) > 0
	for _, j := range sumIdx {
		if _, ok := shares[j]; !ok {
			same = false
		}
	}
	r.Ob("shares", "-", okShares && same, fmt.Sprintf("shares are C1[j]/Σ for j in %v with Σ = %s over the same layers: %v", sumIdx, clip(polyOr(S), 80), okShares && same))
	if !okShares || !same {
		return
	}
	// the debit
	var deb *Event
	for _, e := range x.Events {
		if e.Kind == "assign" && e.Root == "GlobalVarsMain.C1" && len(e.Loops) == 1 && !e.Val.IsZero() {
			deb = e
		}
	}
	if deb == nil {
		r.Ob("debit", "-", false, "no debit of the nitrate pool inside a loop")
		return
	}
	L := deb.Loops[0]
	lo, hi, unit, why := loopBounds(x, L)
	l0, ok0 := lo.ConstInt()
	h0, ok1 := hi.ConstInt()
	okRange := why == "" && unit && ok0 && ok1 && l0 == sumIdx[0] && h0 == sumIdx[len(sumIdx)-1] && int(h0-l0+1) == len(sumIdx)
	r.Ob("debit:range", p.Pos(L.Stmt.Pos()), okRange, fmt.Sprintf("debit loop visits layers %s..%s; the shares are taken over layers %v (must coincide: a layer left out keeps nitrate that the counter books as lost)", polyOr(lo), polyOr(hi), sumIdx))
	// ΔC1[z] = −A·share[z]
	d := deb.Val.Sub(deb.Old)
	var A Poly
	okDeb := false
	{
		// the share cell of the same layer must be a factor of every term
		var share *Atom
		for _, t := range d.T {
			for _, f := range t.M {
				if f.A.Kind == "cell" && !strings.Contains(f.A.Root, ".") && len(f.A.Idx) == 1 && f.E == 1 && f.A.Idx[0].Equal(deb.Idx[0]) {
					share = f.A
				}
			}
		}
		if share != nil {
			A = d.Div(PAtom(share)).Neg()
			okDeb = deb.Idx[0].Equal(PAtom(L.Var)) && !A.MentionsAtom(share)
			for _, t := range A.T {
				for _, f := range t.M {
					if f.E < 0 && f.A == share {
						okDeb = false
					}
				}
			}
		}
	}
	r.Ob("debit:amount", p.Pos(deb.Pos), okDeb, fmt.Sprintf("ΔC1[%s] = %s (must be −amount × the share of the same layer)", deb.Idx[0], clip(d.String(), 100)))
	// the counter
	nC := 0
	for _, e := range x.Events {
		if e.Kind == "assign" && e.Root == "GlobalVarsMain.CUMDENIT" {
			nC++
			dc := e.Val.Sub(e.Old)
			nl := func(gs []*Cond) string {
				var ks []string
				for _, g := range flattenGuards(gs) {
					if !g.Loop {
						ks = append(ks, g.Key())
					}
				}
				sort.Strings(ks)
				return strings.Join(ks, " ; ")
			}
			sameArm := nl(e.Guards) == nl(L.Entry.guards)
			okC := okDeb && A.T != nil && stripVersions(dc).Equal(stripVersions(A)) && sameArm && len(e.Loops) == 0
			r.Ob("counter", p.Pos(e.Pos), okC, fmt.Sprintf("ΔCUMDENIT = %s; the layers lose amount = %s in total (must be equal, booked once in the arm that debits: %v)", clip(dc.String(), 60), clip(polyOr(A), 60), sameArm))
		}
	}
	if nC != 1 {
		r.Ob("counter", "-", false, fmt.Sprintf("%d bookings of the denitrification loss, expected 1", nC))
	}
}

// ---------------------------------------------------------------- parallel arrays of the irrigation schedule move together

// parallelArrays: the irrigation schedule is three parallel slices (date, amount, N concentration) addressed by one
// cursor.  Whatever the input routine does to one of them in a block — store an element at some index, or replace the
// whole slice (re-slice, append) — it must do to the other two in the same block with the same index or the same
// slice bounds; otherwise event i carries the amount or the concentration of another event.
func parallelArrays(p *Prog, r *Report, rule string) {
	r.Rule(rule, "the parallel arrays of the irrigation schedule (date, amount, N concentration) are moved together: in every block of the input routine the three receive stores at the same indices, or whole-slice replacements with the same bounds", 1)
	group := []string{"ZTBR", "BREG", "BRKZ"}
	for _, key := range []string{"hermes.Input", "hermes.GlobalVarsMain.setIrrigation"} {
		fi := p.Funcs[key]
		if fi == nil {
			continue
		}
		info := fi.Pkg.TypesInfo
		fieldName := func(e ast.Expr) string {
			se, ok := ast.Unparen(e).(*ast.SelectorExpr)
			if !ok {
				return ""
			}
			if sel, ok := info.Selections[se]; !ok || sel.Kind() != types.FieldVal {
				return ""
			}
			for _, g := range group {
				if se.Sel.Name == g {
					return g
				}
			}
			return ""
		}
		nBlocks, bad := 0, 0
		ast.Inspect(fi.Decl.Body, func(n ast.Node) bool {
			blk, ok := n.(*ast.BlockStmt)
			if !ok {
				return true
			}
			shapes := map[string]map[string]bool{}
			add := func(f, s string) {
				if shapes[f] == nil {
					shapes[f] = map[string]bool{}
				}
				shapes[f][s] = true
			}
			for _, st := range blk.List {
				as, ok := st.(*ast.AssignStmt)
				if !ok {
					continue
				}
				for k, l := range as.Lhs {
					if ix, isIx := l.(*ast.IndexExpr); isIx {
						if f := fieldName(ix.X); f != "" {
							add(f, "["+types.ExprString(ix.Index)+"]")
						}
						continue
					}
					if f := fieldName(l); f != "" && k < len(as.Rhs) {
						// whole-slice replacement: shape = right-hand side with the field's own name erased
						add(f, "whole:"+strings.ReplaceAll(types.ExprString(as.Rhs[k]), f, "·"))
					}
				}
			}
			if len(shapes) == 0 {
				return true
			}
			nBlocks++
			ref := ""
			same := len(shapes) == len(group)
			// automatic irrigation books date and amount of today's event at the cursor and leaves the N concentration
			// of that slot at the zero value of the fresh slice (it carries no N): element stores may omit it there,
			// whole-slice replacements may not
			elemExempt := key == "hermes.GlobalVarsMain.setIrrigation"
			if elemExempt {
				onlyElems := true
				for _, g := range group {
					for s := range shapes[g] {
						if strings.HasPrefix(s, "whole:") {
							onlyElems = false
						}
					}
				}
				if onlyElems && len(shapes["BRKZ"]) == 0 {
					shapes["BRKZ"] = shapes["BREG"]
					same = len(shapes) == len(group)
				}
			}
			for _, g := range group {
				var ks []string
				for s := range shapes[g] {
					ks = append(ks, s)
				}
				sort.Strings(ks)
				sig := strings.Join(ks, " ")
				if ref == "" {
					ref = sig
				} else if sig != ref {
					same = false
				}
			}
			if !same {
				bad++
				r.Ob("parallel:irrigation:"+short(key), p.Pos(blk.Pos()), false, fmt.Sprintf("in this block of %s the three schedule arrays are not treated alike: %v", short(key), shapeStr(shapes)))
			}
			return true
		})
		if bad == 0 {
			r.Ob("parallel:irrigation:"+short(key), p.Pos(fi.Decl.Pos()), nBlocks > 0, fmt.Sprintf("%d block(s) of %s store into the schedule arrays; in each the date, the amount and the N concentration get the same indices / bounds", nBlocks, short(key)))
		}
	}
}

func shapeStr(m map[string]map[string]bool) string {
	var fs []string
	for f := range m {
		fs = append(fs, f)
	}
	sort.Strings(fs)
	var out []string
	for _, f := range fs {
		var ks []string
		for s := range m[f] {
			ks = append(ks, s)
		}
		sort.Strings(ks)
		out = append(out, f+strings.Join(ks, ","))
	}
	return strings.Join(out, " | ")
}
