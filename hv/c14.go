package main

import (
	"fmt"
	"go/ast"
	"go/token"
	"go/types"
	"reflect"
	"sort"
	"strings"
)

func init() { register("C14", checkC14) }

func checkC14(p *Prog, r *Report) {
	c14Order(p, r)
	c14Kinds(p, r)
	c14Shadow(p, r)
	c14ArgOrder(p, r)
	c14OverrideArms(p, r)
	c14Transfers(p, r)
	// "otherwise the value in the project's configuration file": the bytes decoded come from the session cache, which must hand out the file of exactly the path asked for (shared with C03.R2c)
	c03PoolKey(p, r, "C14.R7")
	c14DependentDefaults(p, r)
}

func c14Order(p *Prog, r *Report) {
	r.Rule("C14.R1", "overlay order: the run's configuration starts from the documented defaults (a fresh NewDefaultConfig value on every call, from no other source), is overlaid by the project's configuration file, then by the batch-line override — on the same variable — and only then read", 12)
	fi := p.Funcs["hermes.readConfig"]
	x := walked(p, "hermes.readConfig")
	if fi == nil || x == nil {
		r.Ob("readConfig", "-", false, "readConfig not found")
		return
	}
	info := fi.Pkg.TypesInfo
	// the configuration variable: the one whose address is passed to commandlineOverride
	var cfg types.Object
	var override, unmarshal *Event
	for _, e := range x.Events {
		if e.Kind != "call" || e.Call == nil {
			continue
		}
		switch {
		case e.Name == "hermes.commandlineOverride":
			override = e
			if len(e.Call.Args) == 2 {
				if ue, ok := e.Call.Args[1].(*ast.UnaryExpr); ok && ue.Op == token.AND {
					if id, ok := ue.X.(*ast.Ident); ok {
						cfg = info.Uses[id]
					}
				}
			}
		case strings.HasSuffix(e.Name, "yaml.Unmarshal") || strings.HasSuffix(e.Name, "v3.Unmarshal"):
			unmarshal = e
		}
	}
	if cfg == nil || override == nil {
		r.Ob("override-call", p.Pos(fi.Decl.Pos()), false, "no call commandlineOverride(args, &config) found")
		return
	}
	// sources of the variable
	nsrc := 0
	for _, e := range x.Events {
		if e.Kind == "assign" && e.Local == cfg && len(e.Idx) == 0 {
			nsrc++
			t := e.Val.single()
			fresh := t != nil && len(t.M) == 1 && strings.Contains(t.M[0].A.Key, "hermes.NewDefaultConfig")
			r.Ob("source", p.Pos(e.Pos), fresh, fmt.Sprintf("configuration variable is assigned %s (must be a fresh NewDefaultConfig(): any other source — a cache, a previous run's value — breaks 'otherwise the file, otherwise the default')", clip(e.Val.String(), 100)))
		}
	}
	if nsrc == 0 {
		r.Ob("source", p.Pos(fi.Decl.Pos()), false, "the configuration variable is never initialised from the defaults")
	}
	// the defaults must already be in the variable when the file is overlaid onto it: a source assignment
	// precedes the unmarshal on every path that reaches it (its guards are a subset of the unmarshal's)
	if unmarshal != nil {
		reach := false
		ug := map[string]bool{}
		for _, g := range flattenGuards(unmarshal.Guards) {
			ug[g.Key()] = true
		}
		for _, e := range x.Events {
			if e.Kind == "assign" && e.Local == cfg && len(e.Idx) == 0 && e.Seq < unmarshal.Seq {
				t := e.Val.single()
				if t == nil || len(t.M) != 1 || !strings.Contains(t.M[0].A.Key, "hermes.NewDefaultConfig") {
					continue
				}
				sub := true
				for _, g := range flattenGuards(e.Guards) {
					if !ug[g.Key()] {
						sub = false
					}
				}
				if sub {
					reach = true
				}
			}
		}
		r.Ob("defaults-before-file", p.Pos(unmarshal.Pos), reach, fmt.Sprintf("the variable holds fresh defaults on every path to the file overlay: %v (otherwise a key missing in the file gets the zero value instead of its documented default)", reach))
	}
	// NewDefaultConfig is a pure constructor
	if nd := p.Funcs["hermes.NewDefaultConfig"]; nd != nil {
		pure := len(nd.Decl.Body.List) == 1
		if pure {
			rs, ok := nd.Decl.Body.List[0].(*ast.ReturnStmt)
			pure = ok && len(rs.Results) == 1
			if pure {
				_, pure = rs.Results[0].(*ast.CompositeLit)
			}
		}
		r.Ob("defaults-constructor", p.Pos(nd.Decl.Pos()), pure, "NewDefaultConfig returns a literal and nothing else (no shared state)")
	}
	// unmarshal into the same variable, from the project's config path, before the override
	okU := false
	det := "no yaml.Unmarshal into the configuration variable"
	if unmarshal != nil && len(unmarshal.Call.Args) == 2 {
		if ue, ok := unmarshal.Call.Args[1].(*ast.UnaryExpr); ok && ue.Op == token.AND {
			if id, ok := ue.X.(*ast.Ident); ok && info.Uses[id] == cfg {
				okU = unmarshal.Seq < override.Seq
				det = fmt.Sprintf("file overlay at %s precedes the batch-line overlay at %s: %v", p.Pos(unmarshal.Pos), p.Pos(override.Pos), okU)
			}
		}
		// the bytes come from the pool entry of hp.config
		fromConfig := false
		for _, e := range x.Events {
			if e.Kind == "call" && strings.HasSuffix(e.Name, "FilePool.Get") && e.Seq < unmarshal.Seq {
				ast.Inspect(e.Call, func(n ast.Node) bool {
					if se, ok := n.(*ast.SelectorExpr); ok && se.Sel.Name == "config" {
						fromConfig = true
					}
					return true
				})
			}
		}
		if !fromConfig {
			okU = false
			det += "; the bytes are not read from the project's configuration path"
		}
	}
	if unmarshal != nil {
		// the file is overlaid exactly when it exists: the only condition on the overlay is err == nil of os.Stat(config path)
		conds, _ := astPathConds(info, fi.Decl.Body, unmarshal.Call)
		okG := len(conds) == 1
		for _, c := range conds {
			good := false
			if be, ok := stripParens(c.E).(*ast.BinaryExpr); ok && ((be.Op == token.EQL && !c.Neg) || (be.Op == token.NEQ && c.Neg)) {
				if eo := useObj(info, be.X); eo != nil && types.ExprString(stripParens(be.Y)) == "nil" {
					for _, d := range defsOf(info, fi.Decl.Body, eo) {
						if call, ok := stripParens(d.Rhs).(*ast.CallExpr); ok && d.Idx == 1 {
							if f := callee(info, call); f != nil && f.FullName() == "os.Stat" && len(call.Args) == 1 && strings.HasSuffix(types.ExprString(call.Args[0]), ".config") {
								good = true
							}
						}
					}
				}
			}
			if !good {
				okG = false
			}
		}
		if !okG {
			okU = false
			det += "; the overlay is conditional on [" + joinConds(conds) + "] instead of exactly 'the configuration file exists'"
		}
	}
	r.Ob("file-overlay", p.Pos(fi.Decl.Pos()), okU, det)
	// a failed overlay aborts the run: the error of the file decode and of the batch-line overlay each lead to a fatal exit
	for _, c := range []struct {
		name string
		ev   *Event
	}{{"file decode", unmarshal}, {"batch-line overlay", override}} {
		if c.ev == nil {
			continue
		}
		okE, why := errorLeadsToExit(info, fi.Decl.Body, c.ev.Call)
		r.Ob("error-exit:"+c.name, p.Pos(c.ev.Pos), okE, fmt.Sprintf("the error of the %s ends the run: %v %s (an ignored error leaves the key at the lower layer's value without notice; an inverted test ends every run)", c.name, okE, why))
	}
	// override unconditional
	r.Ob("override-unconditional", p.Pos(override.Pos), len(flattenGuards(override.Guards)) == 0 && len(override.Loops) == 0, "the batch-line overlay runs unconditionally: guards ["+guardKeys(override.Guards)+"]")
	// every read of a config field happens after the override
	early := 0
	var where string
	ast.Inspect(fi.Decl.Body, func(n ast.Node) bool {
		se, ok := n.(*ast.SelectorExpr)
		if !ok {
			return true
		}
		id, ok := se.X.(*ast.Ident)
		if !ok || info.Uses[id] != cfg {
			return true
		}
		if se.Pos() < override.Call.Pos() {
			early++
			where = p.Pos(se.Pos())
		}
		return true
	})
	r.Ob("reads-after-override", p.Pos(override.Pos), early == 0, fmt.Sprintf("%d reads of configuration fields before the batch-line overlay %s", early, where))
	// the effective value of a key is the overlaid one: after the overlay the reader may only fill the documented
	// empty-entry fallbacks, never transform a configured value
	var rewritten []string
	nFallback := 0
	ast.Inspect(fi.Decl.Body, func(n ast.Node) bool {
		as, ok := n.(*ast.AssignStmt)
		if !ok || len(as.Lhs) != len(as.Rhs) {
			return true
		}
		for i, l := range as.Lhs {
			se, ok := l.(*ast.SelectorExpr)
			if !ok {
				continue
			}
			id, ok := se.X.(*ast.Ident)
			if !ok || info.Uses[id] != cfg {
				continue
			}
			// accepted: (a) the entry is empty (nothing was configured), or (b) the new value is computed from the configured one
			empty := false
			conds, _ := astPathConds(info, fi.Decl.Body, as)
			for _, c := range conds {
				if be, ok := stripParens(c.E).(*ast.BinaryExpr); ok && !c.Neg && be.Op == token.EQL {
					x, y := stripParens(be.X), stripParens(be.Y)
					if call, ok := x.(*ast.CallExpr); ok && len(call.Args) == 1 && types.ExprString(call.Fun) == "len" {
						if fs, ok := stripParens(call.Args[0]).(*ast.SelectorExpr); ok && useObj(info, fs.X) == cfg && fs.Sel.Name == se.Sel.Name {
							if tv, ok := info.Types[y]; ok && tv.Value != nil && tv.Value.String() == "0" {
								empty = true
							}
						}
					}
					if fs, ok := x.(*ast.SelectorExpr); ok && useObj(info, fs.X) == cfg && fs.Sel.Name == se.Sel.Name {
						if tv, ok := info.Types[y]; ok && tv.Value != nil && tv.Value.String() == `""` {
							empty = true
						}
					}
				}
			}
			derived := false
			ast.Inspect(as.Rhs[i], func(m ast.Node) bool {
				if fs, ok := m.(*ast.SelectorExpr); ok && useObj(info, fs.X) == cfg && fs.Sel.Name == se.Sel.Name {
					derived = true
				}
				return true
			})
			if empty || derived {
				nFallback++
			} else {
				rewritten = append(rewritten, se.Sel.Name+" at "+p.Pos(as.Pos())+" under ["+joinConds(conds)+"]")
			}
		}
		return true
	})
	r.Ob("no-config-rewrite", p.Pos(override.Pos), len(rewritten) == 0, fmt.Sprintf("configuration fields assigned by the reader itself other than under 'the entry is empty' or as a function of the configured value (%d such fallbacks/normalisations): %s — a value rewritten here is no longer the one the batch line or the file gave", nFallback, orStr(strings.Join(rewritten, "; "), "none")))
	// the returned value is the variable
	ret := false
	for _, e := range x.Events {
		if e.Kind == "return" && len(e.Rets) == 1 {
			ret = true
		}
	}
	r.Ob("returned", p.Pos(fi.Decl.Pos()), ret, "readConfig returns the overlaid configuration")
	// Run uses only the value returned by readConfig
	if rx := walked(p, "hermes.HermesSession.Run"); rx != nil {
		n := 0
		for _, e := range rx.Events {
			if e.Kind == "call" && e.Name == "hermes.readConfig" {
				n++
			}
		}
		r.Ob("single-reader", "-", n == 1, fmt.Sprintf("Run reads the configuration %d time(s) (expected 1)", n))
	}
}

func c14Kinds(p *Prog, r *Report) {
	r.Rule("C14.R2", "kind exhaustiveness: every Config field is exported, has a unique yaml key, a default in NewDefaultConfig and an underlying kind the batch-line override handles (float64, int, string, bool); on/off values on the batch line are decoded with the same table as in the file", 45)
	obj := p.Hermes.Types.Scope().Lookup("Config")
	if obj == nil {
		r.Ob("Config", "-", false, "type Config not found")
		return
	}
	st, ok := obj.Type().Underlying().(*types.Struct)
	if !ok {
		return
	}
	// kinds handled by commandlineOverride
	handled := map[string]bool{}
	co := p.Funcs["hermes.commandlineOverride"]
	if co != nil {
		ast.Inspect(co.Decl.Body, func(n ast.Node) bool {
			be, ok := n.(*ast.BinaryExpr)
			if !ok || be.Op != token.EQL {
				return true
			}
			for _, side := range []ast.Expr{be.X, be.Y} {
				if se, ok := stripParens(side).(*ast.SelectorExpr); ok {
					if c, ok := co.Pkg.TypesInfo.Uses[se.Sel].(*types.Const); ok && c.Pkg() != nil && c.Pkg().Path() == "reflect" {
						handled[se.Sel.Name] = true
					}
				}
			}
			return true
		})
	}
	// defaults literal keys
	defaults := map[string]bool{}
	if nd := p.Funcs["hermes.NewDefaultConfig"]; nd != nil {
		ast.Inspect(nd.Decl.Body, func(n ast.Node) bool {
			if kv, ok := n.(*ast.KeyValueExpr); ok {
				if id, ok := kv.Key.(*ast.Ident); ok {
					defaults[id.Name] = true
				}
			}
			return true
		})
	}
	yamlKeys := map[string]string{}
	for i := 0; i < st.NumFields(); i++ {
		f := st.Field(i)
		kind := ""
		switch b := f.Type().Underlying().(type) {
		case *types.Basic:
			switch {
			case b.Kind() == types.Float64:
				kind = "Float64"
			case b.Kind() == types.Int:
				kind = "Int"
			case b.Kind() == types.String:
				kind = "String"
			case b.Kind() == types.Bool:
				kind = "Bool"
			default:
				kind = b.Name()
			}
		default:
			kind = fmt.Sprintf("%T", b)
		}
		tag := reflect.StructTag(st.Tag(i)).Get("yaml")
		key := strings.Split(tag, ",")[0]
		dup := ""
		if prev, ok := yamlKeys[key]; ok {
			dup = prev
		}
		yamlKeys[key] = f.Name()
		ok := f.Exported() && handled[kind] && defaults[f.Name()] && key != "" && key != "-" && dup == ""
		r.Ob("field:"+f.Name(), p.Pos(f.Pos()), ok, fmt.Sprintf("exported=%v kind=%s handled-on-batch-line=%v default=%v yaml-key=%q%s", f.Exported(), kind, handled[kind], defaults[f.Name()], key, map[bool]string{true: " DUPLICATE of " + dup, false: ""}[dup != ""]))
	}
	// on/off table agreement: the bool arm of the override and FeatureSwitch.UnmarshalYAML index the same package-level table
	tableOf := func(fi *FuncInfo) map[string]bool {
		out := map[string]bool{}
		if fi == nil {
			return out
		}
		info := fi.Pkg.TypesInfo
		ast.Inspect(fi.Decl.Body, func(n ast.Node) bool {
			ix, ok := n.(*ast.IndexExpr)
			if !ok {
				return true
			}
			if id, ok := ix.X.(*ast.Ident); ok {
				if v, ok := info.Uses[id].(*types.Var); ok && v.Parent() == v.Pkg().Scope() {
					if _, isMap := v.Type().Underlying().(*types.Map); isMap {
						out[v.Name()] = true
					}
				}
			}
			return true
		})
		return out
	}
	fileT := tableOf(p.Funcs["hermes.FeatureSwitch.UnmarshalYAML"])
	lineT := tableOf(co)
	same := false
	for k := range fileT {
		if lineT[k] {
			same = true
		}
	}
	// and the bool arm must not parse by another route
	other := ""
	if co != nil {
		ast.Inspect(co.Decl.Body, func(n ast.Node) bool {
			if call, ok := n.(*ast.CallExpr); ok {
				if f := callee(co.Pkg.TypesInfo, call); f != nil && f.FullName() == "strconv.ParseBool" {
					other = "strconv.ParseBool"
				}
			}
			return true
		})
	}
	r.Ob("onoff-table", "-", same && other == "", fmt.Sprintf("file decoder uses table(s) %v, batch-line decoder uses %v %s: on/off spellings accepted in the file must be accepted on the batch line", keysSet(fileT), keysSet(lineT), other))
}

func keysSet(m map[string]bool) []string {
	var out []string
	for k := range m {
		out = append(out, k)
	}
	sort.Strings(out)
	return out
}

func c14Shadow(p *Prog, r *Report) {
	r.Rule("C14.R3", "no shadowing: the argument names Run consumes itself are disjoint from the configuration keys, and nothing else decodes a Config", 2)
	fi, lit := runClosure(p)
	if fi == nil {
		return
	}
	info := fi.Pkg.TypesInfo
	var own []string
	ast.Inspect(lit.Body, func(n ast.Node) bool {
		cc, ok := n.(*ast.CaseClause)
		if !ok {
			return true
		}
		for _, e := range cc.List {
			if tv, ok := info.Types[e]; ok && tv.Value != nil && tv.Value.Kind().String() == "String" {
				own = append(own, strings.Trim(tv.Value.ExactString(), `"`))
			}
		}
		return true
	})
	obj := p.Hermes.Types.Scope().Lookup("Config")
	clash := []string{}
	if st, ok := obj.Type().Underlying().(*types.Struct); ok {
		names := map[string]bool{}
		for i := 0; i < st.NumFields(); i++ {
			names[st.Field(i).Name()] = true
		}
		for _, o := range own {
			if names[o] {
				clash = append(clash, o)
			}
		}
	}
	r.Ob("own-keys", p.Pos(lit.Pos()), len(own) >= 5 && len(clash) == 0, fmt.Sprintf("Run's own argument names %v; clashes with configuration keys: %v", own, clash))
	// other decoders of Config
	n := 0
	var where []string
	for _, k := range sortedFuncKeys(p) {
		f := p.Funcs[k]
		finfo := f.Pkg.TypesInfo
		ast.Inspect(f.Decl.Body, func(nd ast.Node) bool {
			call, ok := nd.(*ast.CallExpr)
			if !ok || len(call.Args) != 2 {
				return true
			}
			if c := callee(finfo, call); c == nil || c.Name() != "Unmarshal" {
				return true
			}
			t := finfo.TypeOf(call.Args[1])
			if name, _ := namedStruct(t); name == "Config" {
				n++
				where = append(where, k)
			}
			return true
		})
	}
	r.Ob("single-decoder", "-", n == 1 && where[0] == "hermes.readConfig", fmt.Sprintf("Config is decoded in %v (expected readConfig only)", where))
}

func sortedFuncKeys(p *Prog) []string {
	var ks []string
	for k := range p.Funcs {
		ks = append(ks, k)
	}
	sort.Strings(ks)
	return ks
}

func c14ArgOrder(p *Prog, r *Report) {
	r.Rule("C14.R4", "argument order is immaterial: the batch-line tokens are stored in a map keyed by name, every token of the line is examined, and both loops over that map are order-insensitive", 4)
	fi, lit := runClosure(p)
	if fi != nil {
		info := fi.Pkg.TypesInfo
		found := false
		ast.Inspect(lit.Body, func(n ast.Node) bool {
			as, ok := n.(*ast.AssignStmt)
			if !ok || len(as.Lhs) != 1 {
				return true
			}
			ix, ok := as.Lhs[0].(*ast.IndexExpr)
			if !ok {
				return true
			}
			if _, isMap := info.TypeOf(ix.X).Underlying().(*types.Map); isMap && types.ExprString(ix.X) == "argValues" {
				found = true
			}
			return true
		})
		r.Ob("args-map", p.Pos(lit.Pos()), found, "batch-line tokens key=value are stored in a map keyed by the name")
		// every token of the line is examined: the loop that fills the map has no early exit (a malformed token must not
		// hide the keys written after it — the result would depend on the order of the tokens)
		ast.Inspect(lit.Body, func(n ast.Node) bool {
			rs, ok := n.(*ast.RangeStmt)
			if !ok {
				return true
			}
			fills := false
			ast.Inspect(rs.Body, func(m ast.Node) bool {
				if as, ok := m.(*ast.AssignStmt); ok && len(as.Lhs) == 1 {
					if ix, ok := as.Lhs[0].(*ast.IndexExpr); ok && types.ExprString(ix.X) == "argValues" {
						fills = true
					}
				}
				return true
			})
			if !fills {
				return true
			}
			early := ""
			ast.Inspect(rs.Body, func(m ast.Node) bool {
				switch t := m.(type) {
				case *ast.BranchStmt:
					if t.Tok == token.BREAK || t.Tok == token.GOTO {
						early = p.Pos(t.Pos()) + " " + t.Tok.String()
					}
				case *ast.ReturnStmt:
					early = p.Pos(t.Pos()) + " return"
				case *ast.FuncLit, *ast.ForStmt, *ast.RangeStmt, *ast.SwitchStmt, *ast.SelectStmt:
					return false
				}
				return true
			})
			r.Ob("all-tokens", p.Pos(rs.Pos()), early == "", "the loop that stores the batch-line tokens runs over every token (no break/return inside) "+early)
			return false
		})
		ast.Inspect(lit.Body, func(n ast.Node) bool {
			rs, ok := n.(*ast.RangeStmt)
			if !ok || types.ExprString(rs.X) != "argValues" {
				return true
			}
			cls, why := classifyMapRange(p, fi, rs)
			r.Ob("range:Run", p.Pos(rs.Pos()), cls, why)
			return true
		})
	}
	if co := p.Funcs["hermes.commandlineOverride"]; co != nil {
		ast.Inspect(co.Decl.Body, func(n ast.Node) bool {
			rs, ok := n.(*ast.RangeStmt)
			if !ok {
				return true
			}
			if _, isMap := co.Pkg.TypesInfo.TypeOf(rs.X).Underlying().(*types.Map); !isMap {
				return true
			}
			cls, why := classifyMapRange(p, co, rs)
			r.Ob("range:commandlineOverride", p.Pos(rs.Pos()), cls, why)
			return true
		})
	}
}

// errorLeadsToExit: the call's error result is assigned to a variable and the
// next statement is `if err != nil { …exit }`.
func errorLeadsToExit(info *types.Info, body *ast.BlockStmt, call *ast.CallExpr) (bool, string) {
	path := nodePath(body, call)
	for i := len(path) - 1; i > 0; i-- {
		as, ok := path[i].(*ast.AssignStmt)
		if !ok {
			continue
		}
		errObj := useObj(info, as.Lhs[len(as.Lhs)-1])
		blk, ok := path[i-1].(*ast.BlockStmt)
		if !ok || errObj == nil {
			return false, "(result not bound in a statement list)"
		}
		for k, st := range blk.List {
			if st == ast.Stmt(as) {
				if k+1 >= len(blk.List) {
					return false, "(nothing follows the call)"
				}
				is, ok := blk.List[k+1].(*ast.IfStmt)
				if !ok || !isNilCmp(info, is.Cond, errObj, token.NEQ) {
					return false, "(the statement after the call is not `if err != nil`)"
				}
				if !terminates(info, is.Body) {
					return false, "(the error branch does not end the run)"
				}
				return true, ""
			}
		}
	}
	return false, "(error result discarded)"
}
