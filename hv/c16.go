package main

// C16 — crop rotation is followed and automatic management respects its
// windows.  Structural conditions on who advances the rotation index, on the
// guards of every automatic sowing/harvest/irrigation/fertiliser action and
// on the forced actions at the window ends.

import (
	"fmt"
	"go/ast"
	"go/token"
	"go/types"
	"sort"
	"strings"
)

func init() { register("C16", checkC16) }

func checkC16(p *Prog, r *Report) {
	c16Rotation(p, r)
	c16Sowing(p, r)
	c16Harvest(p, r, "C16.R3")
	c16Irrigation(p, r)
	c16AutoN(p, r)
	c16TableRow(p, r)
	c16Skip(p, r)
	c16HarvestSites(p, r)
	c16Switches(p, r)
	c16FixedWindow(p, r)
	// sowing, harvest and window dates are text in the configured date format
	dateTextRules(p, r, "C16.R11")
	inputHelpers(p, r, "C16.R12")
	dateFrameRule(p, r, "C16.R13")
	tillagePostponement(p, r, "C16.R14")
	readersAllLines(p, r, "C16.R15")
}

// C16.R9 — "with fixed dates sowing and harvest happen on the dates of the
// rotation file; automatic management only when switched on": each of the four
// management switches of the run is the configured switch of that name and
// nothing else (a switch that is also turned on by another one moves harvests
// off their fixed dates for a configuration that never asked for it).
func c16Switches(p *Prog, r *Report) {
	r.Rule("C16.R9", "the management switches are the configured ones: automatic sowing/harvest windows, automatic fertilisation, automatic irrigation and automatic harvest are each set once, unconditionally, from the configuration key of the same meaning and from nothing else", 4)
	for _, sw := range [][2]string{{"AUTOMAN", "AutoSowingHarvest"}, {"AUTOFERT", "AutoFertilization"}, {"AUTOIRRI", "AutoIrrigation"}, {"AUTOHAR", "AutoHarvest"}} {
		ok, pos, det := configFeeds(p, sw[0], sw[1], 1)
		r.Ob("switch:"+sw[0], pos, ok, fmt.Sprintf("%s ← %s: %s", sw[0], sw[1], det))
	}
}

func nonLoopGuardKeys(e *Event) []string {
	var out []string
	for _, g := range flattenGuards(e.Guards) {
		if g.Loop {
			continue
		}
		out = append(out, stripCondVersions(g))
	}
	return out
}

func hasKey(ks []string, k string) bool {
	for _, x := range ks {
		if x == k {
			return true
		}
	}
	return false
}

// ---------------------------------------------------------------- rotation index and fixed dates

func c16Rotation(p *Prog, r *Report) {
	r.Rule("C16.R1", "rotation order: the rotation index advances only in the harvest branch of the nitrogen routine (day == harvest date of the current entry, first sub-step) by one (plus the recorded skip of an entry whose window is over); with fixed dates sowing and harvest dates are the dates of the same rotation line; growth and sowing initialisation are keyed to the current entry's dates", 6)
	fx := p.Fields()
	for _, w := range fx.Writers(FieldRef{"GlobalVarsMain", "AKF"}) {
		if strings.HasPrefix(w.Key, "hermes.NewDefault") || w.Key == "hermes.NewGlobalVarsMain" {
			continue
		}
		ok := w.Key == "hermes.Nitro" || w.Key == "hermes.Init"
		r.Ob("writer:AKF:"+short(w.Key), p.Pos(w.Decl.Pos()), ok, "the rotation index may only be reset at initialisation and advanced at harvest")
	}
	nx := walked(p, "hermes.Nitro")
	run := walked(p, "hermes.HermesSession.Run")
	if nx == nil || run == nil {
		return
	}
	day := dayLoop(run)
	tp := timeParam(p, run, day, "hermes.Nitro")
	subd := ""
	for _, f := range substepScope(p).Fns {
		if f.Key == "hermes.Nitro" {
			subd = f.Subd
		}
	}
	n := 0
	for _, e := range nx.Events {
		if e.Kind != "assign" || e.Root != "GlobalVarsMain.AKF.Index" {
			continue
		}
		n++
		ok := e.Val.Sub(e.Old).Equal(PInt(1))
		det := fmt.Sprintf("Δ = %s", e.Val.Sub(e.Old))
		hd := false
		for _, g := range flattenGuards(e.Guards) {
			if _, off, t, isD := dateEq(g, "GlobalVarsMain.ERNTE"); isD && off == 0 && tp != "" && t.Equal(pVar(tp)) {
				hd = true
			}
		}
		if !hd {
			ok = false
			det += "; not under day == harvest date"
		}
		if subd == "" || !guardedBy(e, pVar(subd).Sub(PInt(1)), token.EQL) {
			ok = false
			det += "; not restricted to the first sub-step"
		}
		r.Ob("advance", p.Pos(e.Pos), ok, "rotation index advance: "+det)
	}
	if n == 0 {
		r.Ob("advance", "-", false, "the rotation index is never advanced")
	}
	// fixed dates from the same rotation line
	in := walked(p, "hermes.Input")
	if in != nil {
		var sa, er *Event
		for _, e := range in.Events {
			if e.Kind != "assign" || len(e.Idx) != 1 {
				continue
			}
			if e.Root == "GlobalVarsMain.SAAT" && e.HasGuard(func(c *Cond) bool { return c.Key() == "!(?GlobalVarsMain.AUTOMAN)" }) && sa == nil {
				sa = e
			}
			if e.Root == "GlobalVarsMain.ERNTE" && er == nil {
				if _, isC := e.Val.Const(); !isC {
					er = e
				}
			}
		}
		ok := sa != nil && er != nil && idxSig(sa.Idx) == idxSig(er.Idx)
		pos := "-"
		det := "fixed sowing/harvest stores not found"
		if sa != nil && er != nil {
			pos = p.Pos(sa.Pos)
			det = fmt.Sprintf("SAAT[%s] and ERNTE[%s] are parsed from the same rotation line (same slot)", idxSig(sa.Idx), idxSig(er.Idx))
		}
		r.Ob("fixed-dates", pos, ok, det)
	}
	// growth window and sowing initialisation keyed to the current entry
	for _, e := range run.Events {
		if e.Kind == "call" && e.Name == "hermes.PhytoOut" {
			ks := nonLoopGuardKeys(e)
			z := PAtom(day.Var)
			akf := cellP("GlobalVarsMain.AKF.Index")
			w1 := stripCondVersions(mkCmp(z, cellP("GlobalVarsMain.SAAT", akf), token.GEQ, nil))
			w2 := stripCondVersions(mkCmp(z, cellP("GlobalVarsMain.ERNTE2", akf), token.LEQ, nil))
			ok := hasKey(ks, w1) && hasKey(ks, w2)
			r.Ob("growth-window", p.Pos(e.Pos), ok, fmt.Sprintf("crop growth runs for sowing date ≤ day ≤ latest harvest date of the current entry: %v", ok))
		}
	}
	px := walked(p, "hermes.PhytoOut")
	if px != nil {
		ptp := timeParam(p, run, day, "hermes.PhytoOut")
		found := false
		for _, e := range px.Events {
			if e.Kind == "call" && (e.Name == "hermes.ReadCropParamYml" || e.Name == "hermes.ReadCropParamClassic") {
				for _, g := range flattenGuards(e.Guards) {
					if idx, off, t, isD := dateEq(g, "GlobalVarsMain.SAAT"); isD && off == 0 && ptp != "" && t.Equal(pVar(ptp)) && stripVersions(idx).Equal(cellP("GlobalVarsMain.AKF.Index")) {
						found = true
					}
				}
			}
		}
		r.Ob("sowing-init", "-", found, fmt.Sprintf("crop parameters are read on day == sowing date of the current entry: %v", found))
	}
}

// ---------------------------------------------------------------- sowing window

func c16Sowing(p *Prog, r *Report) {
	r.Rule("C16.R2", "automatic sowing stays in its window: every store of today's date into the sowing date is guarded by (not yet sown ∧ day ≥ window start), the weather-triggered ones also by day > previous harvest + 4, and a forced store under exactly (automatic mode, not the initial entry, not yet sown, day ≥ window start, day == window end) exists, so sowing cannot happen after the window has closed", 3)
	x := walked(p, "hermes.HermesSession.Run")
	if x == nil {
		return
	}
	day := dayLoop(x)
	z := PAtom(day.Var)
	akf := cellP("GlobalVarsMain.AKF.Index")
	kUnsown := stripCondVersions(mkCmp(cellP("GlobalVarsMain.SAAT", akf), PZero(), token.EQL, nil))
	kStart := stripCondVersions(mkCmp(z, cellP("GlobalVarsMain.SAAT1", akf), token.GEQ, nil))
	kEnd := stripCondVersions(mkCmp(z, cellP("GlobalVarsMain.SAAT2", akf), token.EQL, nil))
	kPrev := stripCondVersions(mkCmp(z, cellP("GlobalVarsMain.ERNTE", akf.Sub(PInt(1))).Add(PInt(4)), token.GTR, nil))
	kAuto := "?GlobalVarsMain.AUTOMAN"
	kNotFirst := stripCondVersions(mkCmp(akf, PZero(), token.GTR, nil))
	forced := 0
	for _, e := range x.Events {
		if e.Kind != "assign" || e.Root != "GlobalVarsMain.SAAT" || !e.InLoop(day) {
			continue
		}
		ks := nonLoopGuardKeys(e)
		// guards added inside the day loop
		var in []string
		for _, g := range inLoopGuards(e, day) {
			in = append(in, stripCondVersions(g))
		}
		ok := stripVersions(e.Val).Equal(z) && len(e.Idx) == 1 && stripVersions(e.Idx[0]).Equal(akf)
		det := fmt.Sprintf("SAAT[%s] = %s", e.Idx[0], e.Val)
		if !hasKey(ks, kUnsown) || !hasKey(ks, kStart) || !hasKey(ks, kAuto) {
			ok = false
			det += "; not guarded by automatic mode ∧ not yet sown ∧ day ≥ window start"
		}
		if hasKey(in, kEnd) {
			// the forced store: no other in-loop guards than the five
			extra := []string{}
			for _, k := range in {
				if k != kEnd && k != kUnsown && k != kStart && k != kAuto && k != kNotFirst {
					extra = append(extra, k)
				}
			}
			if len(extra) > 0 {
				ok = false
				det += "; the forced sowing at the window end additionally depends on {" + strings.Join(extra, " ; ") + "}: when that fails on the last day the crop is sown after the window (the trigger stays armed)"
			} else {
				forced++
				det += " — forced at the window end"
			}
		} else {
			if !hasKey(ks, kPrev) {
				ok = false
				det += "; weather-triggered sowing is not restricted to day > previous harvest + 4"
			} else {
				det += " — weather-triggered, after the previous harvest"
			}
		}
		r.Ob("sow", p.Pos(e.Pos), ok, det)
	}
	if forced == 0 {
		r.Ob("forced-sowing", "-", false, "no unconditional forced sowing on the last day of the window")
	}
	// other writers of the sowing date
	okW := map[string]string{"hermes.Input": "rotation file / automatic table", "hermes.HermesSession.Run": "automatic sowing", "hermes.PhytoOut": "next sowing moved behind a late harvest (harvest + 4 days)"}
	for _, w := range p.Fields().Writers(FieldRef{"GlobalVarsMain", "SAAT"}) {
		if strings.HasPrefix(w.Key, "hermes.NewDefault") || w.Key == "hermes.NewGlobalVarsMain" {
			continue
		}
		reason, ok := okW[w.Key]
		r.Ob("writer:SAAT:"+short(w.Key), p.Pos(w.Decl.Pos()), ok, orStr(reason, "not a confirmed writer of the sowing date"))
	}
}

// ---------------------------------------------------------------- harvest

func c16Harvest(p *Prog, r *Report, rule string) {
	r.Rule(rule, "harvest not later than the latest harvest date: a forced store harvest = day + 1 under exactly (day == latest harvest − 1 ∧ not yet harvested) exists on a path that does not depend on crop development, and every automatic harvest store is guarded by not-yet-harvested and records the same day as latest date", 2)
	run := walked(p, "hermes.HermesSession.Run")
	x := walked(p, "hermes.PhytoOut")
	if x == nil || run == nil {
		return
	}
	tp := timeParam(p, run, dayLoop(run), "hermes.PhytoOut")
	if tp == "" {
		r.Ob("PhytoOut", "-", false, "PhytoOut does not receive the day")
		return
	}
	z := pVar(tp)
	akf := cellP("GlobalVarsMain.AKF.Index")
	kEve := stripCondVersions(mkCmp(z, cellP("GlobalVarsMain.ERNTE2", akf).Sub(PInt(1)), token.EQL, nil))
	kNot := stripCondVersions(mkCmp(cellP("GlobalVarsMain.ERNTE", akf), PZero(), token.EQL, nil))
	uncond := 0
	for _, e := range x.Events {
		if e.Kind != "assign" || e.Root != "GlobalVarsMain.ERNTE" || len(e.Idx) != 1 || !stripVersions(e.Idx[0]).Equal(akf) {
			continue
		}
		ks := nonLoopGuardKeys(e)
		v := stripVersions(e.Val)
		switch {
		case v.Equal(z.Add(PInt(1))):
			ok := hasKey(ks, kEve) && hasKey(ks, kNot)
			var extra []string
			for _, k := range ks {
				if k != kEve && k != kNot {
					extra = append(extra, k)
				}
			}
			det := "forced harvest = day + 1 under {" + strings.Join(ks, " ; ") + "}"
			if ok && len(extra) == 0 {
				uncond++
				det += " — independent of crop development"
			}
			r.Ob("forced-harvest", p.Pos(e.Pos), ok, det)
		case v.Equal(z):
			ok := hasKey(ks, kNot)
			// ERNTE2 set to the same day
			e2 := false
			for _, f := range x.Events {
				if f.Kind == "assign" && f.Root == "GlobalVarsMain.ERNTE2" && f.Seq > e.Seq && f.Seq-e.Seq <= 2 && guardKeys(f.Guards) == guardKeys(e.Guards) {
					e2 = true
				}
			}
			r.Ob("auto-harvest", p.Pos(e.Pos), ok && e2, fmt.Sprintf("automatic harvest = day, guarded by not-yet-harvested: %v, latest date set to the same day: %v", ok, e2))
		default:
			r.Ob("harvest-store", p.Pos(e.Pos), false, "unrecognised store to the harvest date: "+clip(v.String(), 100))
		}
	}
	if uncond == 0 {
		r.Ob("forced-harvest:unconditional", "-", false, "no forced harvest that is independent of crop development: a crop that has not emerged on the eve of its latest harvest date is never harvested and the rotation stops")
	} else {
		r.Ob("forced-harvest:unconditional", "-", true, fmt.Sprintf("%d forced-harvest store(s) guarded only by (eve of latest date ∧ not yet harvested)", uncond))
	}
}

// ---------------------------------------------------------------- irrigation

func c16Irrigation(p *Prog, r *Report) {
	r.Rule("C16.R4", "automatic irrigation: booked only in automatic mode after sowing, between the configured development stages (first ≤ stage < last + 1), with the amount capped by the configured daily maximum of the current entry, for today at the cursor slot", 1)
	x := walked(p, "hermes.HermesSession.Run")
	if x == nil {
		return
	}
	day := dayLoop(x)
	akf := cellP("GlobalVarsMain.AKF.Index")
	n := 0
	for _, e := range x.Events {
		if e.Kind != "call" || e.Name != "hermes.GlobalVarsMain.setIrrigation" {
			continue
		}
		n++
		ks := nonLoopGuardKeys(e)
		stage := cellP("GlobalVarsMain.INTWICK.Index").Add(PInt(1))
		k1 := stripCondVersions(mkCmp(stage, cellP("GlobalVarsMain.IRRST1", akf), token.GEQ, nil))
		k2 := stripCondVersions(mkCmp(stage, cellP("GlobalVarsMain.IRRST2", akf).Add(PInt(1)), token.LSS, nil))
		kA := "?GlobalVarsMain.AUTOIRRI"
		kS := stripCondVersions(mkCmp(PAtom(day.Var), cellP("GlobalVarsMain.SAAT", akf), token.GTR, nil))
		// "after sowing" alone is true on every day while the sowing day is still 0 (automatic sowing pending): the entry must be sown
		kSown := stripCondVersions(mkCmp(cellP("GlobalVarsMain.SAAT", akf), PZero(), token.GTR, nil))
		ok := hasKey(ks, k1) && hasKey(ks, k2) && hasKey(ks, kA) && hasKey(ks, kS) && hasKey(ks, kSown)
		det := fmt.Sprintf("stage window guards present: %v/%v, automatic mode: %v, after sowing: %v, sowing day set: %v", hasKey(ks, k1), hasKey(ks, k2), hasKey(ks, kA), hasKey(ks, kS), hasKey(ks, kSown))
		if len(e.Args) == 3 {
			am := stripVersions(e.Args[2])
			t := am.single()
			capOK := false
			if t != nil && len(t.M) == 1 && t.M[0].A.Kind == "call" && t.M[0].A.Fn == "min" && t.C.Cmp(ratInt(1)) == 0 {
				for _, a := range t.M[0].A.Args {
					if stripVersions(a).Equal(cellP("GlobalVarsMain.IRRMAX", akf)) {
						capOK = true
					}
				}
			}
			if !capOK {
				ok = false
				det += "; amount " + clip(am.String(), 120) + " is not min(·, IRRMAX[current entry])"
			} else {
				det += "; amount = min(deficit, IRRMAX[current entry])"
			}
			if !e.Args[0].Equal(PAtom(day.Var)) || !stripVersions(e.Args[1]).Equal(cellP("GlobalVarsMain.NBR").Sub(PInt(1))) {
				ok = false
				det += "; not booked for today at the cursor slot"
			}
		} else {
			ok = false
		}
		r.Ob("auto-irrigation", p.Pos(e.Pos), ok, det)
	}
	if n == 0 {
		r.Ob("auto-irrigation", "-", false, "no automatic irrigation booking found")
	}
}

// ---------------------------------------------------------------- automatic N

func c16AutoN(p *Prog, r *Report) {
	r.Rule("C16.R5", "automatic N applications are never negative: every computed dose is max(·, 0) and the automatic arm adds nothing else to the applied-fertiliser counters than such doses and table-derived organic amounts", 7)
	x := walked(p, "hermes.Nitro")
	if x == nil {
		return
	}
	doses := map[string]bool{}
	n := 0
	for _, e := range x.Events {
		if e.Kind == "assign" && e.Local != nil && e.Local.Name() == "ndung" {
			n++
			v := stripVersions(e.Val)
			t := v.single()
			ok := false
			if t != nil && len(t.M) == 1 && t.M[0].A.Kind == "call" && t.M[0].A.Fn == "max" && t.C.Cmp(ratInt(1)) == 0 {
				for _, a := range t.M[0].A.Args {
					if a.IsZero() {
						ok = true
					}
				}
			}
			doses[e.Val.String()] = true
			r.Ob("dose", p.Pos(e.Pos), ok, "automatic dose = "+clip(v.String(), 140)+" (must be max(·, 0))")
		}
	}
	if n == 0 {
		r.Ob("dose", "-", false, "no automatic dose computation found")
	}
	// increments of the counters in the automatic arm
	var keys []string
	for _, e := range x.Events {
		if e.Kind != "assign" || (e.Root != "GlobalVarsMain.DSUMM" && e.Root != "GlobalVarsMain.NFERTSIM") {
			continue
		}
		if !e.HasGuard(func(c *Cond) bool { return c.Key() == "?GlobalVarsMain.AUTOFERT" }) {
			continue
		}
		d := e.Val.Sub(e.Old)
		ok := doses[d.String()]
		if !ok {
			// table-derived organic amount NDIR[entry]
			if t := stripVersions(d).single(); t != nil && t.C.Sign() > 0 && len(t.M) == 1 && t.M[0].A.Root == "GlobalVarsMain.NDIR" {
				ok = true
			}
		}
		keys = append(keys, p.Pos(e.Pos))
		r.Ob("counter:"+shortRoot(e.Root), p.Pos(e.Pos), ok, fmt.Sprintf("Δ%s = %s in the automatic arm", shortRoot(e.Root), clip(d.String(), 120)))
	}
	sort.Strings(keys)
}

// c16TableRow: the automatic-management table row of a rotation entry is the
// row of that entry's own crop: every store that copies a column of the table
// into a per-entry array is guarded by the equality of the row's crop code
// (converted with the same crop-type lookup) with the entry's crop.
func c16TableRow(p *Prog, r *Report) {
	r.Rule("C16.R6", "automatic-management table lookup: every per-entry value taken from a table row is stored under the guard ToCropType(row's crop code) == FRUCHT[that entry] (exact match; a prefix or substring test can select the row of another crop and with it that crop's sowing window, latest harvest date and irrigation settings)", 20)
	x := walked(p, "hermes.Input")
	if x == nil {
		return
	}
	n, bad := 0, 0
	seen := map[string]bool{}
	for _, e := range x.Events {
		if e.Kind != "assign" || !strings.HasPrefix(e.Root, "GlobalVarsMain.") && !strings.HasPrefix(e.Root, "InputSharedVars.") || len(e.Idx) != 1 {
			continue
		}
		fromRow := false
		e.Val.walkAtoms(func(a *Atom) {
			if strings.Contains(a.Key, "‹crpman[") || strings.Contains(a.Key, "crpman[") {
				fromRow = true
			}
		})
		if !fromRow {
			continue
		}
		n++
		slot := stripVersions(e.Idx[0])
		// the entry's crop: the cell FRUCHT[slot] or the value stored into it earlier in this iteration (forwarded)
		crop := []Poly{cellP("GlobalVarsMain.FRUCHT", slot)}
		for _, f := range x.Events {
			if f.Kind == "assign" && f.Root == "GlobalVarsMain.FRUCHT" && f.Seq < e.Seq && len(f.Idx) == 1 && stripVersions(f.Idx[0]).Equal(slot) {
				crop = append(crop, f.Val)
			}
		}
		ok := e.HasGuard(func(c *Cond) bool {
			if c.Kind != "cmp" || c.Op != token.EQL {
				return false
			}
			ts := c.P.sortedTerms()
			if len(ts) != 2 || len(ts[0].M) != 1 || len(ts[1].M) != 1 {
				return false
			}
			for i := 0; i < 2; i++ {
				rowT, cropT := ts[i], ts[1-i]
				if !strings.Contains(rowT.M[0].A.Key, "ToCropType") {
					continue
				}
				for _, cp := range crop {
					if ct := cp.single(); ct != nil && len(ct.M) == 1 && (ct.M[0].A == cropT.M[0].A || stripVersions(PAtom(ct.M[0].A)).Equal(stripVersions(PAtom(cropT.M[0].A)))) && rowT.M[0].A != cropT.M[0].A {
						return true
					}
				}
			}
			return false
		})
		key := shortRoot(e.Root)
		if !ok {
			bad++
		}
		if seen[key] && ok {
			continue
		}
		seen[key] = true
		r.Ob("row:"+key, p.Pos(e.Pos), ok, fmt.Sprintf("%s[entry] is taken from the table row selected by exact crop-code equality with FRUCHT[entry]: %v", key, ok))
	}
	if n == 0 {
		r.Ob("row", "-", false, "no store from the automatic-management table found")
	}
}

// ---------------------------------------------------------------- skip decision

// c16Skip: after the harvest the rotation index moves to the next entry; that
// entry may be skipped (second advance) only when ITS sowing window has
// already closed.  The window end that is tested must therefore be read at the
// index the first advance produced.
func c16Skip(p *Prog, r *Report) {
	r.Rule("C16.R7", "skipping a rotation entry at harvest: the second advance of the rotation index in the harvest branch is guarded by 'latest sowing date of the entry the first advance moved to ≤ today' in automatic mode — the window that is tested belongs to the entry that is skipped", 1)
	x := walked(p, "hermes.Nitro")
	if x == nil {
		r.Ob("Nitro", "-", false, "hermes.Nitro not found")
		return
	}
	akf := "GlobalVarsMain.AKF.Index"
	var incs []*Event
	for _, e := range x.Events {
		if e.Kind == "assign" && e.Root == akf && e.Val.Sub(e.Old).Equal(PInt(1)) {
			incs = append(incs, e)
		}
	}
	if len(incs) != 2 {
		r.Ob("skip-guard", "-", false, fmt.Sprintf("%d advances of the rotation index in Nitro, expected the harvest advance and the skip", len(incs)))
		return
	}
	first, second := incs[0], incs[1]
	var idx Poly
	found := false
	for _, g := range flattenGuards(second.Guards) {
		if g.Kind != "cmp" || !(g.Op == token.LEQ || g.Op == token.LSS) {
			continue
		}
		g.P.walkAtoms(func(a *Atom) {
			if a.Kind == "cell" && a.Root == "GlobalVarsMain.SAAT2" && len(a.Idx) == 1 && !hasGuardKey(first, g) {
				idx = a.Idx[0]
				found = true
			}
		})
	}
	if !found {
		r.Ob("skip-guard", p.Pos(second.Pos), false, "the skip is not guarded by a test of a latest sowing date")
		return
	}
	ok := stripVersions(idx).Equal(stripVersions(first.Val))
	r.Ob("skip-guard", p.Pos(second.Pos), ok, fmt.Sprintf("the skip tests the window end of entry %s; the entry that would be skipped is %s (the index after the harvest advance)", clip(stripVersions(idx).String(), 60), clip(stripVersions(first.Val).String(), 60)))
}

func hasGuardKey(e *Event, g *Cond) bool {
	for _, h := range flattenGuards(e.Guards) {
		if h.Key() == g.Key() {
			return true
		}
	}
	return false
}

// ---------------------------------------------------------------- harvest sites agree

// c16HarvestSites: every site of the crop routine that sets an automatic
// harvest date moves a following FIXED sowing date that is not later than the
// harvest just set to harvest + 4 (sowing window start and end).  A site
// without the shift, or with a shift that misses the boundary days, leaves the
// next crop's sowing day in the past: its sowing initialisation never runs and
// the crop routine indexes the development stage −1 (the panic ends the whole
// batch process).
func c16HarvestSites(p *Prog, r *Report) {
	r.Rule("C16.R8", "harvest-setting sites agree: every store of an automatically determined harvest date in the crop routine is followed, in the same arm, by 'if the next entry has a sowing date and it is not later than that harvest date, move sowing date and window end to harvest + 4'", 3)
	x := walked(p, "hermes.PhytoOut")
	if x == nil {
		r.Ob("PhytoOut", "-", false, "hermes.PhytoOut not found")
		return
	}
	akf := cellP("GlobalVarsMain.AKF.Index")
	next := akf.Add(PInt(1))
	n := 0
	for _, h := range x.Events {
		if h.Kind != "assign" || h.Root != "GlobalVarsMain.ERNTE" || len(h.Idx) != 1 || !stripVersions(h.Idx[0]).Equal(akf) {
			continue
		}
		n++
		hv := stripVersions(h.Val)
		hk := map[string]bool{}
		for _, g := range flattenGuards(h.Guards) {
			hk[stripCondVersions(g)] = true
		}
		var sa, s2 *Event
		for _, e := range x.Events {
			if e.Kind != "assign" || e.Seq < h.Seq || len(e.Idx) != 1 || !stripVersions(e.Idx[0]).Equal(next) {
				continue
			}
			// same arm: the harvest store's guards are among the shift's guards
			sub := true
			ek := map[string]bool{}
			for _, g := range flattenGuards(e.Guards) {
				ek[stripCondVersions(g)] = true
			}
			for k := range hk {
				if !ek[k] {
					sub = false
				}
			}
			if !sub {
				continue
			}
			if e.Root == "GlobalVarsMain.SAAT" && sa == nil {
				sa = e
			}
			if e.Root == "GlobalVarsMain.SAAT2" && s2 == nil {
				s2 = e
			}
		}
		ok := sa != nil && s2 != nil
		det := fmt.Sprintf("harvest date := %s", hv)
		if !ok {
			det += ": no shift of the next entry's sowing date and window end in the same arm"
		} else {
			valOK := stripVersions(sa.Val).Equal(hv.Add(PInt(4))) && stripVersions(s2.Val).Equal(hv.Add(PInt(4)))
			// own guards of the shift: SAAT[next] > 0 and SAAT[next] − harvest ≤ 0
			has, notLater := false, false
			var extra []string
			for _, g := range flattenGuards(sa.Guards) {
				k := stripCondVersions(g)
				if hk[k] {
					continue
				}
				if g.Kind == "cmp" {
					gp := stripVersions(g.P)
					sn := cellP("GlobalVarsMain.SAAT", next)
					switch {
					case g.Op == token.GTR && gp.Equal(sn):
						has = true
						continue
					case g.Op == token.LEQ && gp.Equal(sn.Sub(hv)):
						notLater = true
						continue
					case g.Op == token.GEQ && gp.Equal(hv.Sub(sn)):
						notLater = true
						continue
					}
				}
				extra = append(extra, k)
			}
			ok = valOK && has && notLater && len(extra) == 0
			det += fmt.Sprintf("; next sowing date and window end := %s (must be harvest + 4: %v) under 'has a sowing date': %v and 'sowing date ≤ harvest date': %v; other conditions: %v", stripVersions(sa.Val), valOK, has, notLater, extra)
		}
		r.Ob("shift-after-harvest", p.Pos(h.Pos), ok, det)
	}
	if n < 3 {
		r.Ob("harvest-sites", "-", false, fmt.Sprintf("%d stores of an automatic harvest date found in the crop routine, 3 confirmed", n))
	}
}

// C16.R10 — "with fixed dates sowing happens on the date of the rotation file":
// for a table row without a sowing window (first window field 0) the reader
// takes the sowing date from the rotation file and derives the window from it:
// window = [that date − 1, that date].  The window must be derived from the
// date converted in this very branch (a window derived from the slot's previous
// content is [−1, 0]: "window already passed" for every later test).
func c16FixedWindow(p *Prog, r *Report) {
	r.Rule("C16.R10", "fixed sowing date under automatic sowing: in the table-row arm without a sowing window the sowing date of the entry is the converted rotation-file date and the window is [that date − 1, that date], derived from the value stored in that arm", 3)
	x := walked(p, "hermes.Input")
	if x == nil {
		return
	}
	// the arm: stores to SAAT whose value is the second result of the date conversion, inside the automan table loop
	var sow *Event
	for _, e := range x.Events {
		if e.Kind == "assign" && e.Root == "GlobalVarsMain.SAAT" && len(e.Idx) == 1 && len(e.Loops) >= 2 {
			if t := e.Val.single(); t != nil && len(t.M) == 1 && t.M[0].A.Kind != "cell" && !e.Val.IsZero() && e.HasGuard(func(c *Cond) bool {
				return strings.Contains(c.Key(), "GlobalVarsMain.AUTOMAN") && !strings.HasPrefix(c.Key(), "!")
			}) {
				sow = e
			}
		}
	}
	if sow == nil {
		r.Ob("fixed-date", "-", false, "no store of the converted rotation-file sowing date in the automatic-sowing table arm")
		return
	}
	r.Ob("fixed-date", p.Pos(sow.Pos), true, fmt.Sprintf("SAAT[%s] = %s in the arm without a sowing window", sow.Idx[0], clip(sow.Val.String(), 60)))
	for _, w := range []struct {
		root string
		off  int64
	}{{"GlobalVarsMain.SAAT1", -1}, {"GlobalVarsMain.SAAT2", 0}} {
		ok := false
		det := "no store of the window bound in that arm"
		pos := "-"
		for _, e := range x.Events {
			if e.Kind != "assign" || e.Root != w.root || len(e.Idx) != 1 || guardKeys(e.Guards) != guardKeys(sow.Guards) {
				continue
			}
			pos = p.Pos(e.Pos)
			want := sow.Val.Add(PInt(w.off))
			ok = e.Val.Equal(want) && e.Seq > sow.Seq && e.Idx[0].Equal(sow.Idx[0])
			det = fmt.Sprintf("%s[%s] = %s (must be the date just converted %+d, stored after it, same entry)", shortRoot(w.root), e.Idx[0], clip(e.Val.String(), 70), w.off)
		}
		r.Ob("fixed-window:"+shortRoot(w.root), pos, ok, det)
	}
}

// ---------------------------------------------------------------- one field, one reference frame for dates

// dateFrameRule: the date converter returns two numbers — the day of the year and the absolute day number the day
// loop counts in.  A state variable that receives the absolute number at one site and the day of the year at another
// is compared with the day counter in the wrong frame after the second (a latest harvest date of a few hundred lies
// decades before the start: the crop is never grown and the rotation stalls).  Contradiction rule, no table: the
// frame of a variable is what the majority of its stores from converter results say; a store in the other frame is
// reported.  Variables that only ever receive one kind are fine either way.
func dateFrameRule(p *Prog, r *Report, rule string) {
	r.Rule(rule, "one reference frame per date variable: a state variable fed from the date converter receives either its day-of-the-year result or its absolute-day result at every site, never both (directly or through a local that was assigned that result)", 1)
	type site struct {
		pos  string
		kind int // 0 day of year, 1 absolute
		via  string
	}
	fields := map[string][]site{}
	var keys []string
	for k := range p.Funcs {
		keys = append(keys, k)
	}
	sort.Strings(keys)
	nCalls := 0
	for _, k := range keys {
		fi := p.Funcs[k]
		if fi.Pkg != p.Hermes || fi.Decl.Body == nil {
			continue
		}
		info := fi.Pkg.TypesInfo
		fieldOf := func(e ast.Expr) string {
			for {
				switch t := e.(type) {
				case *ast.ParenExpr:
					e = t.X
					continue
				case *ast.IndexExpr:
					e = t.X
					continue
				case *ast.SelectorExpr:
					if sel, ok := info.Selections[t]; ok && sel.Kind() == types.FieldVal {
						name, _ := namedStruct(sel.Recv())
						return name + "." + t.Sel.Name
					}
				}
				return ""
			}
		}
		isConv := func(e ast.Expr) bool {
			c, ok := ast.Unparen(e).(*ast.CallExpr)
			if !ok {
				return false
			}
			switch f := c.Fun.(type) {
			case *ast.SelectorExpr:
				return f.Sel.Name == "Datum"
			case *ast.Ident:
				return f.Name == "Datum"
			}
			return false
		}
		locals := map[types.Object]int{}
		// pass 1: results of converter calls
		ast.Inspect(fi.Decl.Body, func(n ast.Node) bool {
			as, ok := n.(*ast.AssignStmt)
			if !ok || len(as.Lhs) != 2 || len(as.Rhs) != 1 || !isConv(as.Rhs[0]) {
				return true
			}
			nCalls++
			for kind, l := range as.Lhs {
				if id, ok := l.(*ast.Ident); ok {
					if id.Name == "_" {
						continue
					}
					o := info.Defs[id]
					if o == nil {
						o = info.Uses[id]
					}
					if o != nil {
						if old, seen := locals[o]; seen && old != kind {
							locals[o] = 2 // reused for both: no statement
						} else if !seen {
							locals[o] = kind
						}
					}
					continue
				}
				if f := fieldOf(l); f != "" {
					fields[f] = append(fields[f], site{p.Pos(l.Pos()), kind, "converter result"})
				}
			}
			return true
		})
		// pass 2: plain copies of such locals into fields
		ast.Inspect(fi.Decl.Body, func(n ast.Node) bool {
			as, ok := n.(*ast.AssignStmt)
			if !ok || len(as.Lhs) != len(as.Rhs) {
				return true
			}
			for i, l := range as.Lhs {
				id, ok := ast.Unparen(as.Rhs[i]).(*ast.Ident)
				if !ok {
					continue
				}
				kind, has := locals[info.Uses[id]]
				if !has || kind == 2 {
					continue
				}
				if f := fieldOf(l); f != "" {
					fields[f] = append(fields[f], site{p.Pos(l.Pos()), kind, "local " + id.Name})
				}
			}
			return true
		})
	}
	var fs []string
	for f := range fields {
		fs = append(fs, f)
	}
	sort.Strings(fs)
	nBad := 0
	for _, f := range fs {
		n := [2]int{}
		for _, s := range fields[f] {
			n[s.kind]++
		}
		if n[0] == 0 || n[1] == 0 {
			continue
		}
		minority := 0
		if n[0] > n[1] {
			minority = 1
		}
		for _, s := range fields[f] {
			if s.kind == minority || n[0] == n[1] {
				nBad++
				r.Ob("date-frame:"+f, s.pos, false, fmt.Sprintf("%s receives the converter's %s here (%s) but its %s at %d other site(s): the variable is compared with the day counter in one frame only", f, [2]string{"day of the year", "absolute day number"}[s.kind], s.via, [2]string{"day of the year", "absolute day number"}[1-s.kind], n[1-s.kind]))
			}
		}
	}
	r.Ob("date-frame:scanned", "-", nCalls >= 10 && nBad == 0, fmt.Sprintf("%d converter calls with both results bound, %d state variables fed from them, none in two frames", nCalls, len(fs)))
}

// ---------------------------------------------------------------- a due tillage is postponed only while a crop stands

// tillagePostponement: the nitrogen routine moves a due tillage two days on while the current crop waits for its
// automatic harvest.  "The crop stands" needs three facts: a sowing date is set, the day is not before it, and no
// harvest date is set yet.  Without the second, a tillage between the previous harvest and a FIXED sowing date (set
// from the start of the rotation entry) is pushed on every second day, through sowing and the whole season, until the
// harvest is set and the "tillage inside the crop period" error ends the run.
func tillagePostponement(p *Prog, r *Report, rule string) {
	r.Rule(rule, "a due tillage is postponed only while a crop stands: every store that moves a tillage date forward in the nitrogen routine outside the harvest branch is guarded by 'a sowing date is set', 'today is not before the sowing date' and 'no harvest date is set'", 1)
	x := walked(p, "hermes.Nitro")
	if x == nil {
		r.Ob("tillage:postponement", "-", false, "hermes.Nitro not found")
		return
	}
	n := 0
	for _, e := range x.Events {
		if e.Kind != "assign" || e.Root != "GlobalVarsMain.EINTE" || !e.Val.MentionsRoot("GlobalVarsMain.EINTE") {
			continue
		}
		d := stripVersions(e.Val.Sub(e.Old))
		if c, ok := d.ConstInt(); !ok || c <= 0 {
			continue
		}
		// only the "due today" postponement: guarded by day == date of the next tillage
		due := e.HasGuard(func(c *Cond) bool {
			return c.Kind == "cmp" && c.Op == token.EQL && c.P.MentionsRoot("GlobalVarsMain.EINTE") && strings.Contains(c.Key(), "zeit")
		})
		if !due {
			continue
		}
		n++
		set := e.HasGuard(func(c *Cond) bool {
			return c.Kind == "cmp" && c.P.MentionsRoot("GlobalVarsMain.SAAT") && !strings.Contains(c.Key(), "zeit") && !c.P.MentionsRoot("GlobalVarsMain.EINTE") && (c.Op == token.GTR || c.Op == token.LSS || c.Op == token.NEQ)
		})
		sown := e.HasGuard(func(c *Cond) bool {
			return c.Kind == "cmp" && c.P.MentionsRoot("GlobalVarsMain.SAAT") && strings.Contains(c.Key(), "zeit") && (c.Op == token.GEQ || c.Op == token.LEQ || c.Op == token.GTR || c.Op == token.LSS)
		})
		standing := e.HasGuard(func(c *Cond) bool {
			return c.Kind == "cmp" && c.Op == token.EQL && c.P.MentionsRoot("GlobalVarsMain.ERNTE") && !c.P.MentionsRoot("GlobalVarsMain.ERNTE2")
		})
		r.Ob("tillage:postponement", p.Pos(e.Pos), set && sown && standing, fmt.Sprintf("tillage date += %s under: sowing date set %v, today compared with the sowing date %v, no harvest date yet %v (guards: %s)", d, set, sown, standing, clip(guardKeys(e.Guards), 200)))
	}
	if n == 0 {
		r.Ob("tillage:postponement", "-", false, "the postponement of a due tillage was not found in the nitrogen routine")
	}
}
