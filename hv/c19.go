package main

// C19 — soil temperature stays within the envelope of its boundary
// temperatures.  The envelope is a discrete maximum principle; it is decided by
// obligations that are together sufficient in real arithmetic: the interior
// update is a convex stencil (O1) whose diffusion number, extracted from
// today's source, lies in [0, 1/2] for every admissible bulk density, water
// content and humus content (O2, interval analysis); daily values are averages
// of sub-step values (O3); the boundary nodes are only assigned the surface
// formula and the constant lower-boundary temperature and the sweep excludes
// them (O4); the bulk density handed to the routine is the horizon's bulk
// density itself and the class constants lie in the declared domain (O5).

import (
	"fmt"
	"go/ast"
	"go/constant"
	"go/token"
	"go/types"
	"sort"
	"strings"
)

func init() { register("C19", checkC19) }

// dualBases reads the base index of each DualType from the constructor literal.
func dualBases(p *Prog) map[string]int64 {
	out := map[string]int64{}
	fi := p.Funcs["hermes.NewGlobalVarsMain"]
	if fi == nil {
		return out
	}
	info := fi.Pkg.TypesInfo
	ast.Inspect(fi.Decl.Body, func(n ast.Node) bool {
		kv, ok := n.(*ast.KeyValueExpr)
		if !ok {
			return true
		}
		id, ok := kv.Key.(*ast.Ident)
		if !ok {
			return true
		}
		call, ok := kv.Value.(*ast.CallExpr)
		if !ok {
			return true
		}
		if f := callee(info, call); f != nil && f.Name() == "NewDualType" && len(call.Args) == 2 {
			if tv, ok := info.Types[call.Args[0]]; ok && tv.Value != nil {
				if v, ok := constant.Int64Val(tv.Value); ok {
					out["GlobalVarsMain."+id.Name] = v
				}
			}
		}
		return true
	})
	return out
}

// coeffOf returns the coefficient polynomial of atom a (degree 1) in v and
// whether a occurs only linearly.
func coeffOf(v Poly, a *Atom) (Poly, bool) {
	c := PZero()
	lin := true
	for _, t := range v.sortedTerms() {
		d := t.DegreeIn(a.Key)
		if d == 0 {
			continue
		}
		if d != 1 {
			lin = false
			continue
		}
		q := PRat(t.C)
		for _, f := range t.M {
			if f.A == a {
				continue
			}
			q = q.Mul(PAtom(f.A).PowIntSigned(f.E))
		}
		c = c.Add(q)
	}
	return c, lin
}

// PowIntSigned raises to a possibly negative integer power.
func (p Poly) PowIntSigned(n int) Poly {
	if n >= 0 {
		return p.PowInt(n)
	}
	return PInv(p.PowInt(-n))
}

func checkC19(p *Prog, r *Report) {
	x := walked(p, "hermes.Soiltemp")
	if x == nil {
		r.Rule("C19.O1", "stencil", 1)
		r.Ob("Soiltemp", "-", false, "hermes.Soiltemp not found")
		return
	}
	// the interior update
	var upd *Event
	for _, e := range x.Events {
		if e.Kind == "assign" && e.Root == "GlobalVarsMain.TSOIL" && len(e.Idx) == 2 && len(e.Loops) >= 2 {
			if c, ok := e.Idx[0].ConstInt(); ok && c == 1 && e.Val.MentionsRoot("GlobalVarsMain.HEATCOND") {
				upd = e
			}
		}
	}
	r.Rule("C19.O1", "interior update is the explicit three-point stencil: new T_i ≡ (1−2r)·T_i + r·T_{i+1} + r·T_{i−1} with one diffusion number r for both neighbours and nothing else", 1)
	if upd == nil {
		r.Ob("stencil", "-", false, "the explicit interior update of the layer temperature was not found")
		return
	}
	inner := upd.Loops[len(upd.Loops)-1]
	outer := upd.Loops[len(upd.Loops)-2]
	i := upd.Idx[1]
	v := stripVersions(upd.Val)
	Tp := cellAtom("GlobalVarsMain.TSOIL", 0, []Poly{PInt(0), i.Add(PInt(1))})
	T0 := cellAtom("GlobalVarsMain.TSOIL", 0, []Poly{PInt(0), i})
	Tm := cellAtom("GlobalVarsMain.TSOIL", 0, []Poly{PInt(0), i.Sub(PInt(1))})
	rP, l1 := coeffOf(v, Tp)
	rM, l2 := coeffOf(v, Tm)
	c0, l3 := coeffOf(v, T0)
	rest := v.Sub(rP.Mul(PAtom(Tp))).Sub(rM.Mul(PAtom(Tm))).Sub(c0.Mul(PAtom(T0)))
	okSt := l1 && l2 && l3 && rest.IsZero() && !rP.IsZero() && rP.Equal(rM) && c0.Equal(PInt(1).Sub(rP.Scale(ratInt(2))))
	r.Ob("stencil", p.Pos(upd.Pos), okSt, fmt.Sprintf("T_i' = c0·T_i + r+·T_(i+1) + r−·T_(i−1) + rest with r+ = %s; r+ ≡ r−: %v; c0 ≡ 1 − 2r: %v; rest ≡ 0: %v", clip(rP.String(), 160), rP.Equal(rM), c0.Equal(PInt(1).Sub(rP.Scale(ratInt(2)))), rest.IsZero()))

	// ---------------------------------------------------------------- O2
	r.Rule("C19.O2", "diffusion number in [0, 1/2]: r, with conductivity and capacity substituted from their defining stores of the same layer and the sub-step divisor, DT and DZ read from the tree, is bounded over bulk density ∈ [0.8, 2.2] g/cm³, water content ∈ [0, 1 − BD/2.65], humus ∈ [0, 0.15] by interval evaluation with subdivision", 2)
	bases := dualBases(p)
	defs := map[string]*Event{}
	for _, e := range x.Events {
		if e.Kind == "assign" && (e.Root == "GlobalVarsMain.HEATCOND" || e.Root == "GlobalVarsMain.HEATCAP") && len(e.Idx) == 1 && len(e.Loops) == 1 && e.Seq < upd.Seq {
			defs[e.Root] = e
		}
	}
	bd, wg, hum := varAtom("bd"), varAtom("wg"), varAtom("hum")
	var layer *Poly
	problems := []string{}
	subst := func(q Poly) Poly {
		var f func(a *Atom) (Poly, bool)
		f = func(a *Atom) (Poly, bool) {
			if a.Kind != "cell" {
				return Poly{}, false
			}
			switch a.Root {
			case "GlobalVarsMain.HEATCOND", "GlobalVarsMain.HEATCAP":
				d := defs[a.Root]
				if d == nil || len(a.Idx) != 1 {
					problems = append(problems, "no defining store for "+a.Root)
					return Poly{}, false
				}
				L := d.Loops[0]
				if !d.Idx[0].Equal(PAtom(L.Var)) {
					problems = append(problems, a.Root+" is not defined per layer")
					return Poly{}, false
				}
				idx := a.Idx[0]
				body := stripVersions(d.Val).Subst(func(b *Atom) (Poly, bool) {
					if b == L.Var {
						return idx, true
					}
					return Poly{}, false
				})
				return body.Subst(f), true
			case "GlobalVarsMain.BD", "GlobalVarsMain.HUMUS":
				if len(a.Idx) == 1 {
					if layer == nil {
						l := a.Idx[0]
						layer = &l
					} else if !layer.Equal(a.Idx[0]) {
						problems = append(problems, "r mixes parameters of different layers")
					}
					if a.Root == "GlobalVarsMain.BD" {
						return PAtom(bd), true
					}
					return PAtom(hum), true
				}
			case "GlobalVarsMain.WG":
				if len(a.Idx) == 2 {
					if layer == nil {
						l := a.Idx[1]
						layer = &l
					} else if !layer.Equal(a.Idx[1]) {
						problems = append(problems, "r mixes parameters of different layers")
					}
					return PAtom(wg), true
				}
			case "GlobalVarsMain.DT.Index", "GlobalVarsMain.DZ.Index":
				base := strings.TrimSuffix(a.Root, ".Index")
				if b, ok := bases[base]; ok {
					// constant only if nobody else writes it
					for _, w := range p.Fields().Writers(FieldRef{"GlobalVarsMain", strings.TrimPrefix(base, "GlobalVarsMain.")}) {
						if w.Key != "hermes.NewGlobalVarsMain" && !strings.HasPrefix(w.Key, "hermes.NewDefault") && !(base == "GlobalVarsMain.DT" && w.Key == "hermes.Input") {
							problems = append(problems, base+" is written in "+w.Key)
						}
					}
					return PInt(b), true
				}
			}
			return Poly{}, false
		}
		return q.Subst(f)
	}
	rr := subst(rP)
	// remaining atoms must be the three variables (and pure functions of them)
	rr.walkAtoms(func(a *Atom) {
		if a.Kind == "cell" || a.Kind == "opq" || a.Kind == "phi" || a.Kind == "loop" {
			problems = append(problems, "r depends on "+a.Key)
		}
	})
	if len(problems) > 0 {
		r.Ob("r:form", p.Pos(upd.Pos), false, "the diffusion number could not be reduced to a function of bulk density, water content and humus: "+strings.Join(uniq(problems), "; "))
	} else {
		vars := []*Atom{bd, wg, hum}
		box := map[string]Iv{bd.Key: {0.8, 2.2}, wg.Key: {0, 0.7}, hum.Key: {0, 0.15}}
		// wg ≤ 1 − bd/2.65
		cons := []ivConstraint{{F: PAtom(wg).Sub(PInt(1)).Add(PAtom(bd).Scale(ratFrac(100, 265))), Nm: "water content ≤ pore space 1 − BD/2.65"}}
		for _, g := range []ivGoal{{Name: "r>=0", F: rr, Op: ">=", C: 0}, {Name: "r<=1/2", F: rr, Op: "<=", C: 0.5}} {
			res := proveOnBox(g, vars, box, cons, 40, nil)
			det := fmt.Sprintf("%s with r = %s: ", g.Name, clip(rr.String(), 220))
			if res.Proved {
				det += fmt.Sprintf("proved on %d boxes (depth ≤ %d); r ∈ [%.4g, %.4g] over the domain", res.Boxes, res.MaxDepth, res.Bound.Lo, res.Bound.Hi)
			} else {
				det += fmt.Sprintf("NOT established after %d boxes: on %s r is only known to lie in [%.4g, %.4g] %s — the explicit scheme may overshoot or oscillate there", res.Boxes, boxString(res.FailBox), res.FailValue.Lo, res.FailValue.Hi, res.Err)
			}
			r.Ob(g.Name, p.Pos(upd.Pos), res.Proved, det)
		}
	}

	// ---------------------------------------------------------------- O3
	r.Rule("C19.O3", "daily layer temperature is the mean of the sub-step values: the accumulator is reset per layer, takes the new interior value once per sub-step, the sub-step loop's trip count equals the divisor of the mean and the divisor in the diffusion number, and the mean becomes the next day's start value; nothing leaves the sub-step loop early", 4)
	lo, hi, unit, why := loopBounds(x, outer)
	trips := PZero()
	okLoop := why == "" && unit
	if okLoop {
		trips = hi.Sub(lo).Add(PInt(1))
	}
	nTrips, isC := trips.ConstInt()
	// divisor in r: coefficient structure 1/k
	kr := int64(0)
	if t := rP.single(); t != nil && t.C.IsInt() == false && t.C.Num().Int64() == 1 {
		kr = t.C.Denom().Int64()
	}
	r.Ob("substeps", p.Pos(outer.Stmt.Pos()), okLoop && isC && nTrips > 0 && kr == nTrips, fmt.Sprintf("sub-step loop runs %s times; the diffusion number divides the day by %d", polyOr(trips), kr))
	// the trip count is only the number of sub-steps if nothing leaves the loop early
	{
		exits := ""
		ast.Inspect(outer.Stmt, func(n ast.Node) bool {
			switch t := n.(type) {
			case *ast.BranchStmt:
				if t.Tok == token.BREAK || t.Tok == token.GOTO {
					exits += t.Tok.String() + " at " + p.Pos(t.Pos()) + "; "
				}
			case *ast.ReturnStmt:
				exits += "return at " + p.Pos(t.Pos()) + "; "
			}
			return true
		})
		r.Ob("substeps:no-early-exit", p.Pos(outer.Stmt.Pos()), exits == "", "statements that leave the sub-step loop before its last iteration (the mean divides by the full count): "+orStr(exits, "none"))
	}
	var acc, mean, carry *Event
	for _, e := range x.Events {
		switch {
		case e.Kind == "assign" && e.Root == "GlobalVarsMain.TDSUM" && innermost(e, inner):
			acc = e
		case e.Kind == "assign" && e.Root == "GlobalVarsMain.TD" && e.Val.MentionsRoot("GlobalVarsMain.TDSUM"):
			mean = e
		case e.Kind == "assign" && e.Root == "GlobalVarsMain.TSOIL" && e.Val.MentionsRoot("GlobalVarsMain.TD") && len(e.Loops) == 1:
			carry = e
		}
	}
	if acc == nil || mean == nil {
		r.Ob("mean", "-", false, "accumulator or mean store not found")
	} else {
		d := stripVersions(acc.Val.Sub(acc.Old))
		okAcc := d.Equal(v) && len(acc.Idx) == 1 && acc.Idx[0].Equal(i.Sub(PInt(1)))
		mv := stripVersions(mean.Val)
		okMean := false
		if t := mv.single(); t != nil && len(t.M) == 1 && t.M[0].A.Root == "GlobalVarsMain.TDSUM" && isC && t.C.Cmp(ratFrac(1, nTrips)) == 0 {
			// TD[j] = TDSUM[j−1]/n, same offset as the accumulator
			if len(mean.Idx) == 1 && len(t.M[0].A.Idx) == 1 && t.M[0].A.Idx[0].Equal(mean.Idx[0].Sub(PInt(1))) {
				okMean = true
			}
		}
		// reset
		reset := false
		for _, e := range x.Events {
			if e.Kind == "assign" && e.Root == "GlobalVarsMain.TDSUM" && e.Val.IsZero() && e.Seq < acc.Seq && len(e.Loops) == 1 && len(e.Idx) == 1 {
				// every accumulator cell that the sub-steps add to (layers 0..N−2) is cleared: the reset sweep starts
				// at 0, reaches at least N−2, addresses its own loop variable and is unconditional
				L := e.Loops[0]
				lo, hi, unit, why := loopBounds(x, L)
				Nn := cellP("GlobalVarsMain.N")
				h := stripVersions(hi)
				if why == "" && unit && lo.IsZero() && (h.Equal(Nn.Sub(PInt(1))) || h.Equal(Nn.Sub(PInt(2))) || h.Equal(Nn)) && e.Idx[0].Equal(PAtom(L.Var)) && len(inLoopGuards(e, L)) == 0 {
					reset = true
				}
			}
		}
		r.Ob("mean", p.Pos(mean.Pos), okAcc && okMean && reset, fmt.Sprintf("accumulator takes the new interior value of its layer once per sub-step: %v; daily value = accumulator/%d at the same layer offset: %v; accumulator cleared for every layer 0..N−2 before the sub-steps (a cell that is not cleared keeps growing from day to day): %v", okAcc, nTrips, okMean, reset))
	}
	if carry == nil {
		r.Ob("carry", "-", false, "the daily mean is not carried into the next day's start profile")
	} else {
		okC := len(carry.Idx) == 2 && carry.Idx[0].IsZero() && stripVersions(carry.Val).Equal(cellP("GlobalVarsMain.TD", carry.Idx[1]))
		r.Ob("carry", p.Pos(carry.Pos), okC, fmt.Sprintf("%s = %s", carry.Target(), carry.Val))
	}

	// ---------------------------------------------------------------- O4
	r.Rule("C19.O4", "boundaries: the lowest node holds the constant lower-boundary temperature in both time levels and in the daily value, the surface node is assigned only the surface formula (before the sweep), the explicit sweep runs over the interior nodes 1..N−1 only, and only the temperature routine and the initialisation write the profile", 5)
	N := cellP("GlobalVarsMain.N")
	tb := cellP("GlobalVarsMain.TBASE")
	for lvl := int64(0); lvl <= 1; lvl++ {
		found := false
		for _, e := range x.Events {
			if e.Kind == "assign" && e.Root == "GlobalVarsMain.TSOIL" && len(e.Idx) == 2 && len(e.Loops) == 0 && e.Idx[0].Equal(PInt(lvl)) && stripVersions(e.Idx[1]).Equal(N) && e.Seq < upd.Seq {
				found = true
				r.Ob(fmt.Sprintf("bottom:level%d", lvl), p.Pos(e.Pos), stripVersions(e.Val).Equal(tb), fmt.Sprintf("%s = %s (must be the lower-boundary temperature)", e.Target(), e.Val))
			}
		}
		if !found {
			r.Ob(fmt.Sprintf("bottom:level%d", lvl), "-", false, "the lowest node is not set to the lower-boundary temperature before the sweep")
		}
	}
	ilo, ihi, iunit, iwhy := loopBounds(x, inner)
	okSweep := iwhy == "" && iunit && ilo.Equal(PInt(1)) && stripVersions(ihi).Equal(N.Sub(PInt(1))) && upd.Idx[1].Equal(PAtom(inner.Var))
	r.Ob("sweep-range", p.Pos(inner.Stmt.Pos()), okSweep, fmt.Sprintf("explicit sweep over nodes %s..%s (must be 1..N−1: node 0 is the surface, node N the fixed lower boundary; sweeping node N diffuses it against an unwritten ghost node)", polyOr(ilo), polyOr(ihi)))
	// surface node writers inside Soiltemp: level 1 node 0 only outside loops
	ns := 0
	okSurf := true
	for _, e := range x.Events {
		if e.Kind == "assign" && e.Root == "GlobalVarsMain.TSOIL" && len(e.Idx) == 2 && e.Idx[0].Equal(PInt(1)) && e.Idx[1].IsZero() {
			ns++
			if len(e.Loops) != 0 || e.Seq > upd.Seq {
				okSurf = false
			}
		}
	}
	r.Ob("surface", p.Pos(upd.Pos), okSurf && ns == 2, fmt.Sprintf("%d stores to the surface node, all before the sweep and outside loops (one per arm of the radiation test)", ns))
	for _, w := range p.Fields().Writers(FieldRef{"GlobalVarsMain", "TSOIL"}) {
		if strings.HasPrefix(w.Key, "hermes.NewDefault") || w.Key == "hermes.NewGlobalVarsMain" {
			continue
		}
		ok := w.Key == "hermes.Soiltemp" || w.Key == "hermes.Init"
		r.Ob("writer:TSOIL:"+strings.TrimPrefix(w.Key, "hermes."), p.Pos(w.Decl.Pos()), ok, "only the temperature routine and the initialisation may write the profile")
	}
	for _, w := range p.Fields().Writers(FieldRef{"GlobalVarsMain", "TBASE"}) {
		if strings.HasPrefix(w.Key, "hermes.NewDefault") || w.Key == "hermes.NewGlobalVarsMain" {
			continue
		}
		r.Ob("writer:TBASE:"+strings.TrimPrefix(w.Key, "hermes."), p.Pos(w.Decl.Pos()), w.Key == "hermes.readConfig", "the lower-boundary temperature is a configuration constant")
	}

	// ---------------------------------------------------------------- O5
	r.Rule("C19.O5", "input domain: the bulk density handed to the temperature routine is the horizon's bulk density itself (single writer, no correction factor), and the class constants lie inside the domain over which O2 is proved", 2)
	in := walked(p, "hermes.Input")
	nb := 0
	for _, w := range p.Fields().Writers(FieldRef{"GlobalVarsMain", "BD"}) {
		if strings.HasPrefix(w.Key, "hermes.NewDefault") || w.Key == "hermes.NewGlobalVarsMain" {
			continue
		}
		if w.Key != "hermes.Input" {
			r.Ob("BD-writer:"+strings.TrimPrefix(w.Key, "hermes."), p.Pos(w.Decl.Pos()), false, "unexpected writer of the layer bulk density")
		}
	}
	if in != nil {
		for _, e := range in.Events {
			if e.Kind == "assign" && e.Root == "GlobalVarsMain.BD" {
				nb++
				t := stripVersions(e.Val).single()
				ok := t != nil && t.C.Cmp(ratInt(1)) == 0 && len(t.M) == 1 && t.M[0].E == 1 && (t.M[0].A.Root == "GlobalVarsMain.BULK" || strings.HasSuffix(t.M[0].A.Root, ".BULK"))
				// stored for the 10 cm layer being expanded (same index as the layer's field capacity), from that layer's horizon
				idxOK := false
				if len(e.Loops) > 0 && len(e.Idx) == 1 {
					L := e.Loops[len(e.Loops)-1]
					for _, w := range in.Events {
						if w.Kind == "assign" && w.Root == "GlobalVarsMain.W" && innermost(w, L) && len(w.Idx) == 1 && w.Idx[0].Equal(e.Idx[0]) {
							idxOK = true
						}
					}
					if ok && idxOK && len(inLoopGuards(e, L)) > 0 {
						// conditional stores must together cover every path of the layer loop
						var fam [][]*Cond
						for _, o := range in.Events {
							if o.Kind == "assign" && o.Root == "GlobalVarsMain.BD" && innermost(o, L) {
								fam = append(fam, inLoopGuards(o, L))
							}
						}
						if cov, _ := coversAllPaths(fam, nil); !cov {
							idxOK = false
						}
					}
				}
				if !idxOK {
					ok = false
				}
				r.Ob("BD-source", p.Pos(e.Pos), ok, fmt.Sprintf("BD[%s] = %s (must be BULK[horizon] unchanged, stored for every expanded layer at the layer's own index: %v; a layer left at 0 or a corrected density makes 3·BD − 1.7 negative)", idxSig(e.Idx), e.Val, idxOK))
			}
		}
	}
	if nb == 0 {
		r.Ob("BD-source", "-", false, "no store to the layer bulk density in the input routine")
	}
	// class constants
	for _, key := range []string{"hermes.SoilFileData.bulkDensityClassToDensity", "hermes.LoadSoil", "hermes.LoadSoilCSV", "hermes.bulkDensityClassToDensity"} {
		_ = key
	}
	nconst, okConst := 0, true
	var vals []string
	for key := range p.Funcs {
		if !strings.HasPrefix(key, "hermes.") {
			continue
		}
		w := p.Funcs[key]
		info := w.Pkg.TypesInfo
		ast.Inspect(w.Decl.Body, func(n ast.Node) bool {
			as, ok := n.(*ast.AssignStmt)
			if !ok || len(as.Lhs) != 1 || len(as.Rhs) != 1 {
				return true
			}
			if fieldOf(info, as.Lhs[0]) != "BULK" {
				return true
			}
			if tv, ok := info.Types[as.Rhs[0]]; ok && tv.Value != nil {
				f, _ := constant.Float64Val(tv.Value)
				nconst++
				vals = append(vals, fmt.Sprintf("%g", f))
				if f < 0.8 || f > 2.2 {
					okConst = false
				}
			}
			return true
		})
	}
	// the class table itself: every admissible class 1..5 has its own arm (tested by equality on the class of the
	// horizon the routine was called for) that stores a density into that same horizon, densities rising with the class
	if cfi := p.Funcs["hermes.SoilFileData.BulkDensityClassToDensity"]; cfi != nil {
		cinfo := cfi.Pkg.TypesInfo
		var iObj types.Object
		if names := cfi.Decl.Type.Params.List; len(names) == 1 && len(names[0].Names) == 1 {
			iObj = cinfo.Defs[names[0].Names[0]]
		}
		arms := map[int64]float64{}
		okArms := iObj != nil
		det := ""
		ast.Inspect(cfi.Decl.Body, func(n ast.Node) bool {
			as, ok := n.(*ast.AssignStmt)
			if !ok || len(as.Lhs) != 1 || len(as.Rhs) != 1 || fieldOf(cinfo, as.Lhs[0]) != "BULK" {
				return true
			}
			tv := cinfo.Types[as.Rhs[0]]
			if tv.Value == nil {
				okArms = false
				det += "a density that is not a constant; "
				return true
			}
			val, _ := constant.Float64Val(tv.Value)
			if ix, ok := as.Lhs[0].(*ast.IndexExpr); !ok || useObj(cinfo, ix.Index) != iObj {
				okArms = false
				det += fmt.Sprintf("density %g is stored into another horizon than the one asked for; ", val)
			}
			conds, _ := astPathConds(cinfo, cfi.Decl.Body, as)
			class := int64(-1)
			for _, c := range conds {
				be, ok := stripParens(c.E).(*ast.BinaryExpr)
				if !ok || be.Op != token.EQL {
					okArms = false
					det += "arm tested by " + c.String() + "; "
					continue
				}
				ix, ok := stripParens(be.X).(*ast.IndexExpr)
				kv := cinfo.Types[be.Y].Value
				if !ok || fieldOf(cinfo, ix.X) != "LD" || useObj(cinfo, ix.Index) != iObj || kv == nil {
					okArms = false
					det += "arm tested by " + c.String() + " (not the class of the horizon asked for); "
					continue
				}
				k, _ := constant.Int64Val(kv)
				if !c.Neg {
					class = k
				}
			}
			if class < 0 {
				okArms = false
				det += fmt.Sprintf("density %g is not under a positive class test; ", val)
			} else if _, dup := arms[class]; dup {
				okArms = false
				det += fmt.Sprintf("class %d has two arms; ", class)
			} else {
				arms[class] = val
			}
			return true
		})
		for k := int64(1); k <= 5; k++ {
			if _, ok := arms[k]; !ok {
				okArms = false
				det += fmt.Sprintf("class %d has no arm; ", k)
			}
			if k > 1 && arms[k] <= arms[k-1] {
				okArms = false
				det += fmt.Sprintf("density of class %d (%g) is not above that of class %d (%g); ", k, arms[k], k-1, arms[k-1])
			}
		}
		r.Ob("class-table", p.Pos(cfi.Decl.Pos()), okArms && len(arms) == 5, fmt.Sprintf("bulk-density classes → densities %v %s", arms, det))
	} else {
		r.Ob("class-table", "-", false, "class table routine not found")
	}
	// every layer gets its horizon's density: the store is a statement of the layer loop's own body and nothing
	// before it in that body can skip the rest of the iteration (continue / break / goto)
	if ifi := p.Funcs["hermes.Input"]; ifi != nil {
		iinfo := ifi.Pkg.TypesInfo
		okBD, detBD := false, "store of the layer bulk density not found in a loop of the input routine"
		ast.Inspect(ifi.Decl.Body, func(n ast.Node) bool {
			fs, ok := n.(*ast.ForStmt)
			if !ok {
				return true
			}
			for i, st := range fs.Body.List {
				as, ok := st.(*ast.AssignStmt)
				if !ok || len(as.Lhs) != 1 || fieldOf(iinfo, as.Lhs[0]) != "BD" {
					continue
				}
				skips := ""
				for _, prev := range fs.Body.List[:i] {
					ast.Inspect(prev, func(m ast.Node) bool {
						switch t := m.(type) {
						case *ast.ForStmt, *ast.RangeStmt:
							return false // a break/continue in an inner loop concerns that loop
						case *ast.BranchStmt:
							skips += t.Tok.String() + " at " + p.Pos(t.Pos()) + "; "
						}
						return true
					})
				}
				okBD = skips == ""
				detBD = "BD store is a statement of the layer loop body; statements before it that can skip it: " + orStr(skips, "none")
			}
			return true
		})
		r.Ob("BD-every-layer", p.Pos(ifi.Decl.Pos()), okBD, detBD)
	}
	r.Ob("class-constants", "-", okConst && nconst >= 5, fmt.Sprintf("%d bulk-density class constants %v, all inside [0.8, 2.2]: %v (measured values from the soil file are assumed admissible)", nconst, vals, okConst))
	// the horizon's bulk density is the class constant or the soil file's measured number as parsed: no routine of the
	// package computes with it before it reaches the layers (a "corrected" density leaves the proved box)
	{
		nB, bad := 0, []string{}
		for _, fi := range p.Funcs {
			if fi.Pkg != p.Hermes || fi.Decl.Body == nil {
				continue
			}
			info := fi.Pkg.TypesInfo
			ast.Inspect(fi.Decl.Body, func(n ast.Node) bool {
				as, ok := n.(*ast.AssignStmt)
				if !ok {
					return true
				}
				for k, l := range as.Lhs {
					ix, ok := l.(*ast.IndexExpr)
					if !ok {
						continue
					}
					se, ok := ix.X.(*ast.SelectorExpr)
					if !ok || se.Sel.Name != "BULK" {
						continue
					}
					if sel, ok := info.Selections[se]; !ok || sel.Kind() != types.FieldVal {
						continue
					}
					nB++
					okRhs := as.Tok == token.ASSIGN && len(as.Rhs) == len(as.Lhs)
					if okRhs {
						rhs := ast.Unparen(as.Rhs[k])
						if tv, has := info.Types[rhs]; has && tv.Value != nil {
							// class constant
						} else if c, isCall := rhs.(*ast.CallExpr); isCall {
							name := ""
							switch f := c.Fun.(type) {
							case *ast.Ident:
								name = f.Name
							case *ast.SelectorExpr:
								name = f.Sel.Name
							}
							if name != "ValAsFloat" && name != "TryValAsFloat" && name != "ParseFloat" {
								okRhs = false
							}
						} else {
							okRhs = false
						}
					}
					if !okRhs {
						bad = append(bad, fmt.Sprintf("%s in %s", p.Pos(as.Pos()), short(fi.Key)))
					}
				}
				return true
			})
		}
		sort.Strings(bad)
		r.Ob("BULK-source", "-", nB >= 6 && len(bad) == 0, fmt.Sprintf("%d stores of a horizon's bulk density in the package; each stores a class constant or the parsed number of the soil file; others: %v", nB, bad))
	}
	// the measured bulk density of the csv soil layout is the column of that exact name (shared with C13.headers)
	c13Headers(p, r, "C19.O5b")
	// ---------------------------------------------------------------- O6
	r.Rule("C19.O6", "initial profile inside the envelope: at initialisation every node i = 1..N is the convex combination (1 − i/N)·T_surface + (i/N)·T_lower-boundary of the start surface temperature and the constant lower-boundary temperature", 1)
	if ix := walked(p, "hermes.Init"); ix != nil {
		var t0 Poly
		var st *Event
		for _, e := range ix.Events {
			if e.Kind != "assign" || e.Root != "GlobalVarsMain.TSOIL" || len(e.Idx) != 2 {
				continue
			}
			if len(e.Loops) == 0 && e.Idx[0].IsZero() && e.Idx[1].IsZero() {
				t0 = e.Val
			}
			if len(e.Loops) == 1 && e.Idx[0].IsZero() {
				st = e
			}
		}
		if t0.T == nil || st == nil {
			r.Ob("init-profile", "-", false, "start surface temperature or profile loop not found in Init")
		} else {
			L := st.Loops[0]
			v := st.Val.Subst(func(a *Atom) (Poly, bool) {
				if a.Kind == "cell" && a.Root == "GlobalVarsMain.TSOIL" && len(a.Idx) == 2 && a.Idx[0].IsZero() && a.Idx[1].IsZero() {
					return t0, true
				}
				return Poly{}, false
			})
			iv := PAtom(L.Var)
			Np := cellP("GlobalVarsMain.N")
			want := t0.Sub(t0.Sub(cellP("GlobalVarsMain.TBASE")).Mul(iv).Div(Np))
			lo, hi, unit, why := loopBounds(ix, L)
			okR := why == "" && unit && lo.Equal(PInt(1)) && stripVersions(hi).Equal(Np) && st.Idx[1].Equal(iv)
			r.Ob("init-profile", p.Pos(st.Pos), stripVersions(v).Equal(stripVersions(want)) && okR, fmt.Sprintf("TSOIL[0][i] = %s for i = %s..%s (must be T0 − (T0 − TBASE)·i/N, i.e. a convex combination; an absolute value or another slope extrapolates beyond the boundary temperatures)", clip(stripVersions(v).String(), 160), polyOr(lo), polyOr(hi)))
		}
	}
	r.Assume = append(r.Assume, "bulk density ∈ [0.8, 2.2] g/cm³, water content ∈ [0, 1 − BD/2.65], humus fraction ∈ [0, 0.15] (organic carbon 0–6 % × 1.72/100 ≤ 0.1032)", "the maximum principle argument is in real arithmetic; floating-point round-off is outside the claim")
	// the radiation that raises the surface boundary is the normalised one: the sentinel of a missing radiation value
	// must have been replaced BEFORE the unit transformation halves it (a halved sentinel no longer equals the
	// sentinel and stays in the series: 999.9 → 499.95 "MJ/m²") — shared with C04.R3
	c04Pipeline(p, r, "C19.O7")
	// a gap marker left in the radiation series is a radiation of several hundred MJ to the surface formula (shared with C04.R8)
	sentinelFallback(p, r, "C19.O8")
	// the surface boundary is the air temperature of the weather record of the day: a day without a record (zeros left
	// in the arrays) imposes 0 degC — every stored value is guarded by the consecutive-day test (shared with C04.R2)
	c04ReadersAs(p, r, "C19.O9")
	// the lower boundary temperature of a run is its own configured value: no parsed configuration is kept in the session (shared with C03.R2b)
	c03Session(p, r, p.SSA(), "C19.O10")
}

func uniq(ss []string) []string {
	seen := map[string]bool{}
	var o []string
	for _, s := range ss {
		if !seen[s] {
			seen[s] = true
			o = append(o, s)
		}
	}
	return o
}
