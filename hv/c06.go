package main

// C06 — soil water content stays within physical bounds.  Structural
// conditions: the evaporation cascade cannot take a layer below a third of
// its wilting point (floor on the per-layer limit with the right bound, every
// store of the new layer water is at or above that limit), the overflow
// cascade caps every layer at field capacity, runs over all layers top-down
// and is the last writer before the conversion back to water content (except
// the tabulated capillary rise), the uptake clip (shared with C08) and the
// saturation below the groundwater table (shared with C15), and the domain
// obligations of every partial floating point operation on the run path
// (domain.go, sign.go, assume.go): where NaN and ±Inf could be created.

import (
	"fmt"
	"go/ast"
	"go/constant"
	"go/token"
	"go/types"
	"strings"
)

func init() { register("C06", checkC06) }

func checkC06(p *Prog, r *Report) {
	c06Evaporation(p, r)
	c06Overflow(p, r)
	c08Clip(p, r, "C06.R3")
	c15Saturation(p, r, "C06.R4")
	// field capacity must fall back from pore volume when the table falls: the restore/recompute covers every layer (shared with C15.R4)
	c15History(p, r, "C06.R5")
	domainRule(p, r, "C06.R6", "the functions of the run path", nil, 180)
	solarClamps(p, r, "C06.R7")
	c06MeasuredWater(p, r)
	// field capacity below the table is stated against the table the inputs describe: the configured phase reaches the model unchanged (shared with C20.R5)
	c20PhaseAs(p, r, "C06.R9")
	c20SeriesIdAs(p, r, "C06.R10")
	r.Note("not decided: NaN/Inf created inside the functions excluded by name (solar geometry, photosynthesis light response, crop development, residue tables), overflow to infinity of finite operands, NaN read from input files, and bounds over multi-day histories")
}

func c06Evaporation(p *Prog, r *Report) {
	r.Rule("C06.R1", "evaporation stops at a third of the wilting point: in the evaporation cascade the per-layer limit is floored at (WMIN/3)·DZ (floor idiom whose test and stored bound are the same expression), the deficit is handed to the next layer's demand, and every store of the layer's new water is the limit itself or exceeds it by a quantity its own guard makes positive; the limit is that of the visited layer and is computed afresh in every iteration", 5)
	x := walked(p, "hermes.Water")
	if x == nil {
		r.Ob("Water", "-", false, "hermes.Water not found")
		return
	}
	var floorE *Event
	for _, e := range x.Events {
		if e.Kind == "assign" && e.Root == "WaterSharedVars.LIMIT" && len(e.Idx) == 1 && len(e.Loops) == 1 && isFloorStore(e) {
			floorE = e
		}
	}
	if floorE == nil {
		// is there a store with the right bound but a different test?
		for _, e := range x.Events {
			if e.Kind == "assign" && e.Root == "WaterSharedVars.LIMIT" && len(e.Idx) == 1 && e.Val.MentionsRoot("GlobalVarsMain.WMIN") {
				r.Ob("limit-floor", p.Pos(e.Pos), false, fmt.Sprintf("LIMIT[k] = %s is stored under %s: the test does not compare the limit with the stored bound, so the floor engages at a different dryness than (WMIN/3)·DZ", e.Val, guardKeysOf(inLoopGuards(e, e.Loops[0]))))
				return
			}
		}
		r.Ob("limit-floor", "-", false, "no floor on the evaporation limit")
		return
	}
	L := floorE.Loops[0]
	k := floorE.Idx[0]
	want := cellP("GlobalVarsMain.WMIN", k).Scale(ratFrac(1, 3)).Mul(cellP("GlobalVarsMain.DZ.Index"))
	okB := stripVersions(floorE.Val).Equal(want) && k.Equal(PAtom(L.Var))
	r.Ob("limit-floor", p.Pos(floorE.Pos), okB, fmt.Sprintf("LIMIT[%s] floored at %s (must be WMIN[k]/3 · DZ)", k, floorE.Val))
	gs := inLoopGuards(floorE, L)
	r.Ob("limit-floor:every-layer", p.Pos(floorE.Pos), len(gs) == 1, fmt.Sprintf("the floor is applied under its own comparison alone (%d condition(s): %s) — a further condition exempts some layer, e.g. the last one, from the dryness limit", len(gs), clip(guardKeysOf(gs), 160)))
	// loop covers every layer
	lo, hi, unit, why := loopBounds(x, L)
	r.Ob("all-layers", p.Pos(L.Stmt.Pos()), why == "" && unit && lo.IsZero() && stripVersions(hi).Equal(cellP("GlobalVarsMain.N").Sub(PInt(1))), fmt.Sprintf("evaporation cascade over layers %s..%s (must be 0..N−1)", polyOr(lo), polyOr(hi)))
	// the limit of the visited layer is computed afresh in every iteration, before it is floored and used
	fresh := false
	for _, e := range x.Events {
		if e.Kind == "assign" && e.Root == "WaterSharedVars.LIMIT" && innermost(e, L) && len(e.Idx) == 1 && e.Idx[0].Equal(k) && e.Seq < floorE.Seq && len(inLoopGuards(e, L)) == 0 {
			fresh = true
		}
	}
	r.Ob("limit-fresh", p.Pos(floorE.Pos), fresh, fmt.Sprintf("LIMIT[%s] is assigned unconditionally in the same iteration before it is floored and read (otherwise the value left by an earlier call decides how far the layer may dry): %v", k, fresh))
	// deficit handed down: EV[k+1] += EV[k] − (WATER[0][k] − bound) under the floor's guard
	handed := false
	for _, e := range x.Events {
		if e.Kind == "assign" && e.Root == "WaterSharedVars.EV" && innermost(e, L) && len(e.Idx) == 1 && e.Idx[0].Equal(k.Add(PInt(1))) && guardKeys(e.Guards) == guardKeys(floorE.Guards) {
			handed = true
		}
	}
	r.Ob("deficit-down", p.Pos(floorE.Pos), handed, fmt.Sprintf("the unmet evaporation of a layer at its limit is added to the next layer's share: %v", handed))
	// every store to WATER[1][k] in the loop ≥ LIMIT[k]
	n := 0
	for _, e := range x.Events {
		if e.Kind != "assign" || e.Root != "WATER" || len(e.Idx) != 2 || !innermost(e, L) || !e.Idx[1].Equal(k) {
			continue
		}
		if c, ok := e.Idx[0].ConstInt(); !ok || c != 1 {
			continue
		}
		n++
		// LIMIT atom as loaded in this iteration
		var lim *Atom
		e.Val.walkAtoms(func(a *Atom) {
			if a.Kind == "cell" && a.Root == "WaterSharedVars.LIMIT" {
				lim = a
			}
		})
		for _, g := range flattenGuards(e.Guards) {
			if g.Kind == "cmp" {
				g.P.walkAtoms(func(a *Atom) {
					if a.Kind == "cell" && a.Root == "WaterSharedVars.LIMIT" && lim == nil {
						lim = a
					}
				})
			}
		}
		ok := false
		how := "no relation to the limit established"
		if lim != nil && (len(lim.Idx) != 1 || !lim.Idx[0].Equal(k)) {
			how = fmt.Sprintf("the limit it is compared with is LIMIT[%s], not the visited layer's LIMIT[%s]", lim.Idx[0], k)
			lim = nil
		}
		if lim != nil {
			d := e.Val.Sub(PAtom(lim))
			if d.IsZero() {
				ok, how = true, "equals the limit"
			} else if guardedBy(e, d, token.GTR, token.GEQ) {
				ok, how = true, "exceeds the limit by "+clip(d.String(), 80)+", positive by its own guard"
			}
		}
		r.Ob("new-water", p.Pos(e.Pos), ok, fmt.Sprintf("WATER[1][k] = %s: %s", clip(e.Val.String(), 90), how))
	}
	if n < 2 {
		r.Ob("new-water", "-", false, fmt.Sprintf("%d stores of the layer's new water in the evaporation cascade, 2 confirmed", n))
	}
}

func c06Overflow(p *Prog, r *Report) {
	r.Rule("C06.R2", "water above field capacity cascades down: a loop over all layers 0..N−1 in ascending order caps the layer at W·DZ (cap idiom), adds the surplus to the next layer only, and between this loop and the conversion WG = WATER/DZ only the tabulated capillary-rise increment writes the layer water", 3)
	x := walked(p, "hermes.Water")
	if x == nil {
		return
	}
	var capE *Event
	for _, e := range x.Events {
		if e.Kind != "assign" || e.Root != "WATER" || len(e.Idx) != 2 || len(e.Loops) != 1 {
			continue
		}
		i := e.Idx[1]
		if stripVersions(e.Val).Equal(cellP("GlobalVarsMain.W", i).Mul(cellP("GlobalVarsMain.DZ.Index"))) && len(inLoopGuards(e, e.Loops[0])) == 1 {
			// not the infiltration cascade (that one is in the FLUSS0 > 0 arm)
			if len(allNonLoopKeys(e)) == 1 {
				capE = e
			}
		}
	}
	if capE == nil {
		r.Ob("cap", "-", false, "overflow cap WATER[1][i] = W[i]·DZ not found")
		return
	}
	L := capE.Loops[0]
	i := capE.Idx[1]
	// cap idiom up to the positive factor DZ: guard  WATER/DZ − W > 0  ⇔  WATER − W·DZ > 0
	d := capE.Old.Sub(capE.Val)
	okCap := guardedBy(capE, d, token.GTR, token.GEQ) || guardedBy(capE, d.Div(cellP("GlobalVarsMain.DZ.Index")), token.GTR, token.GEQ)
	r.Ob("cap", p.Pos(capE.Pos), okCap && i.Equal(PAtom(L.Var)), fmt.Sprintf("WATER[1][%s] capped at W·DZ when it exceeds field capacity (cap idiom up to the positive factor DZ): %v", i, okCap))
	lo, hi, unit, why := loopBounds(x, L)
	r.Ob("all-layers", p.Pos(L.Stmt.Pos()), why == "" && unit && lo.IsZero() && stripVersions(hi).Equal(cellP("GlobalVarsMain.N").Sub(PInt(1))), fmt.Sprintf("overflow pass over layers %s..%s in ascending order (must be 0..N−1: a layer left out keeps everything that cascades into it)", polyOr(lo), polyOr(hi)))
	// surplus goes to i+1 only, same amount
	okDown := false
	for _, e := range x.Events {
		if e.Kind == "assign" && e.Root == "WATER" && innermost(e, L) && len(e.Idx) == 2 && e.Idx[1].Equal(i.Add(PInt(1))) && guardKeys(e.Guards) == guardKeys(capE.Guards) {
			if e.Val.Sub(e.Old).Equal(d) {
				okDown = true
			}
		}
	}
	r.Ob("surplus-down", p.Pos(capE.Pos), okDown, fmt.Sprintf("the surplus %s is added to layer i+1: %v", clip(d.String(), 80), okDown))
	// last writer before the conversion
	var conv *Event
	for _, e := range x.Events {
		if e.Kind == "assign" && e.Root == "GlobalVarsMain.WG" && len(e.Idx) == 2 && e.Seq > capE.Seq && e.Val.MentionsRoot("WATER") {
			if c, ok := e.Idx[0].ConstInt(); ok && c == 1 {
				conv = e
			}
		}
	}
	if conv == nil {
		r.Ob("last-writer", "-", false, "conversion WG[1] = WATER[1]/DZ after the overflow pass not found")
		return
	}
	var others []string
	for _, e := range x.Events {
		if e.Kind == "assign" && e.Root == "WATER" && e.Seq > capE.Seq && e.Seq < conv.Seq && !innermost(e, L) {
			delta := e.Val.Sub(e.Old)
			if delta.MentionsRoot("GlobalVarsMain.CAPS") {
				continue // capillary rise from the table: the increment the property allows
			}
			others = append(others, p.Pos(e.Pos)+" "+clip(e.Val.String(), 60))
		}
	}
	r.Ob("last-writer", p.Pos(conv.Pos), len(others) == 0, fmt.Sprintf("between the overflow pass and WG = WATER/DZ only the capillary-rise increment writes the layer water; other writers: %s", orStr(strings.Join(others, "; "), "none")))
}

// ---------------------------------------------------------------- measured water contents replace the state only where measured

// c06MeasuredWater: on a sampling date the run takes over measured water contents.  A measurement file may cover the
// upper layers only (nine columns, or a csv without the deep columns); the readers leave 0 for the others.  The
// overwrite of a layer's water content is therefore conditional on a positive measured value of the same layer —
// otherwise the deep layers drop to exactly 0, below the dryness limit, and the concentrations derived from them are
// 0/0.
func c06MeasuredWater(p *Prog, r *Report) {
	r.Rule("C06.R8", "measured water contents replace the simulated state only where a value was measured: the store of a layer's water content from the measurement slot is guarded by a positivity test of a measurement-slot cell of the same layer", 1)
	fi := p.Funcs["hermes.HermesSession.Run"]
	if fi == nil {
		r.Ob("measured-water:guarded", "-", false, "hermes.HermesSession.Run not found")
		return
	}
	info := fi.Pkg.TypesInfo
	// g.WG[a][b] → (a text, b text)
	wg := func(e ast.Expr) (string, string, bool) {
		outer, ok := ast.Unparen(e).(*ast.IndexExpr)
		if !ok {
			return "", "", false
		}
		inner, ok := outer.X.(*ast.IndexExpr)
		if !ok {
			return "", "", false
		}
		se, ok := inner.X.(*ast.SelectorExpr)
		if !ok || se.Sel.Name != "WG" {
			return "", "", false
		}
		if sel, ok := info.Selections[se]; !ok || sel.Kind() != types.FieldVal {
			return "", "", false
		}
		return types.ExprString(inner.Index), types.ExprString(outer.Index), true
	}
	n := 0
	ast.Inspect(fi.Decl.Body, func(m ast.Node) bool {
		as, ok := m.(*ast.AssignStmt)
		if !ok || len(as.Lhs) != 1 || len(as.Rhs) != 1 {
			return true
		}
		ls, lz, okL := wg(as.Lhs[0])
		rs, rz, okR := wg(as.Rhs[0])
		if !okL || !okR || ls != "1" || !strings.Contains(rs, "MZ") || lz != rz {
			return true
		}
		n++
		conds, _ := astPathConds(info, fi.Decl.Body, as)
		guarded := false
		for _, c := range conds {
			be, ok := c.E.(*ast.BinaryExpr)
			if !ok || c.Neg {
				continue
			}
			for _, pair := range [][2]ast.Expr{{be.X, be.Y}, {be.Y, be.X}} {
				_, z, isWG := wg(pair[0])
				tv, has := info.Types[pair[1]]
				if isWG && z == lz && has && tv.Value != nil && constant.Sign(tv.Value) == 0 {
					if (pair[0] == be.X && be.Op == token.GTR) || (pair[0] == be.Y && be.Op == token.LSS) {
						guarded = true
					}
				}
			}
		}
		r.Ob("measured-water:guarded", p.Pos(as.Pos()), guarded, fmt.Sprintf("water content of layer %s is taken from the measurement slot only where a measured value is positive: %v", lz, guarded))
		return true
	})
	if n == 0 {
		r.Ob("measured-water:guarded", "-", false, "the take-over of measured water contents was not found in the run routine")
	}
}
