package main

import (
	"fmt"
	"go/ast"
	"go/token"
	"go/types"
	"sort"
	"strings"

	"golang.org/x/tools/go/ssa"
)

func init() { register("C11", checkC11) }

func checkC11(p *Prog, r *Report) {
	c11Errors(p, r)
	c11Flags(p, r)
	c11TableKeys(p, r)
	c11PlotLookup(p, r)
	c11Result(p, r, "C11.R2")
	dispatcherRule(p, r, "C11.R2b")
	c11Loops(p, r)
	c11Files(p, r)
	// results are the same alone or together: the session carries no state a run could leave behind for another (shared with C03.R2b)
	c03Session(p, r, p.SSA(), "C11.R5")
	// a run must see its own files: the session cache hands out the bytes of exactly the path asked for (shared with C03.R2c)
	c03PoolKey(p, r, "C11.R6")
	// "gaps in weather data fail only that line": the gap test of the date-keyed readers must see gaps at a year end too (shared with C04.R2c, without its coverage clause, which is the known roll-over finding)
	c04Carried(p, r, "C11.R7", false)
	c11SlidingWindow(p, r)
	// an unreadable per-run file is an error of that run only if the open helper hands the error back
	sessionOpenRule(p, r, "C11.R8")
}

// runReachableDecls maps the CHA run-reachable slice back to declarations.
func runReachableDecls(p *Prog) []*FuncInfo {
	s := p.SSA()
	reach := s.reachable(s.runFn())
	set := map[*FuncInfo]bool{}
	for fn := range reach {
		for f := fn; f != nil; f = f.Parent() {
			if obj, ok := f.Object().(*types.Func); ok {
				if fi := p.ByObj[obj]; fi != nil {
					set[fi] = true
				}
			}
		}
	}
	var out []*FuncInfo
	for fi := range set {
		out = append(out, fi)
	}
	sort.Slice(out, func(i, j int) bool { return out[i].Key < out[j].Key })
	return out
}

// ---------------------------------------------------------------- R1 reported error classes reach the run result

// errOriginFns: in-scope functions that can return an error created by an
// in-scope fmt.Errorf / errors.New (directly or through a callee).
func errOriginFns(s *ssaProg) map[*ssa.Function]bool {
	E := map[*ssa.Function]bool{}
	creates := func(fn *ssa.Function) bool {
		for _, b := range fn.Blocks {
			for _, in := range b.Instrs {
				if c, ok := in.(*ssa.Call); ok {
					n := staticCalleeName(c.Common())
					if n == "fmt.Errorf" || n == "errors.New" {
						if ok, _ := errReachesSink(c, fn, s.inScope); ok {
							return true
						}
					}
				}
			}
		}
		return false
	}
	for _, fn := range s.fns {
		if returnsError(fn.Signature) >= 0 && creates(fn) {
			E[fn] = true
		}
	}
	for changed := true; changed; {
		changed = false
		for _, fn := range s.fns {
			if E[fn] || returnsError(fn.Signature) < 0 {
				continue
			}
			for _, site := range errSites(s, map[*ssa.Function]bool{fn: true}) {
				if E[site.Callee] && site.Propagate && strings.HasPrefix(site.How, "returned") {
					E[fn] = true
					changed = true
				}
			}
		}
	}
	return E
}

var errDropExceptions = map[string]string{
	"OverwriteCropParameters→isValidCropOverwrite": "an invalid crop override is logged and rejected as a whole; the run continues without overrides by design (C18)",
	"Run→WriteHeader":               "output writer error (unsupported column kind): not one of the input error classes of this property; judged under C05",
	"Run→WriteLine":                 "output writer error: not one of the input error classes of this property; judged under C05",
	"Run→WriteManagementEvent":      "management-event log writer error: not an input error class (C05/C10)",
	"PhytoOut→WriteManagementEvent": "management-event log writer error: not an input error class (C05/C10)",
	"Run→Hydro":                     "Hydro's only in-scope error origin follows a search loop that exits only with the entry found (a missing texture ends the process in LineInut at EOF — the malformed-table class, not claimed)",
	"Init→GetGroundWaterLevel":      "the same lookup already ran and was propagated in Input for the start date; the series cannot be empty here",
	"PrognoseTime→WetterK":          "optional forecast file: logged, current weather stays loaded (C04)",
	"PrognoseTime→LoadYear":         "cannot fail after the successful WetterK for the same year (C04)",
}

func c11Errors(p *Prog, r *Report) {
	r.Rule("C11.R1", "reported run errors reach the run result: every call, in run-reachable code, of a function that can return an error created in the model (unknown soil/field id, texture not in table, inconsistent fractions, weather gaps, tillage in crop, start-year mismatch, …) returns it, wraps it, stores it in RunReturn.Err or ends fatally", 25)
	s := p.SSA()
	reach := s.reachable(s.runFn())
	E := errOriginFns(s)
	r.Extra["error_origin_functions"] = len(E)
	for _, e := range errSites(s, reach) {
		if !E[e.Callee] {
			continue
		}
		caller := e.Caller.Name()
		if e.Caller.Parent() != nil {
			caller = e.Caller.Parent().Name()
		}
		key := caller + "→" + e.Callee.Name()
		if !e.Propagate {
			if reason, ok := errDropExceptions[key]; ok {
				r.Ob("err:"+key, instrPos(p, e.Instr), true, "confirmed exception: "+reason)
				continue
			}
			if e.Caller.Parent() != nil && e.Caller.Parent().Name() == "Run" && weatherErrFns[e.Callee.Name()] {
				if instrInLoop(e.Instr) {
					key += ":rollover"
				} else {
					key += ":firstyear"
				}
			}
		}
		r.Ob("err:"+key, instrPos(p, e.Instr), e.Propagate, e.How)
	}
}

// ---------------------------------------------------------------- R1b per-item validation flags

func c11Flags(p *Prog, r *Report) {
	r.Rule("C11.R1b", "per-item validation: an error returned inside a loop under 'flag not set' uses a flag that is reset for every item (declared in the loop body, or assigned a constant in it before the test); a flag carried over from earlier items lets invalid items through to later stages that end the whole process", 1)
	n := 0
	for _, fi := range runReachableDecls(p) {
		info := fi.Pkg.TypesInfo
		var loops []ast.Stmt
		var visit func(n ast.Node)
		visit = func(nd ast.Node) {
			ast.Inspect(nd, func(m ast.Node) bool {
				switch t := m.(type) {
				case *ast.ForStmt:
					loops = append(loops, t)
					visit(t.Body)
					loops = loops[:len(loops)-1]
					return false
				case *ast.RangeStmt:
					loops = append(loops, t)
					visit(t.Body)
					loops = loops[:len(loops)-1]
					return false
				case *ast.IfStmt:
					if len(loops) == 0 {
						return true
					}
					// if !flag { return …error }
					var flag *ast.Ident
					if ue, ok := t.Cond.(*ast.UnaryExpr); ok && ue.Op == token.NOT {
						flag, _ = ue.X.(*ast.Ident)
					}
					if flag == nil {
						return true
					}
					obj, _ := info.Uses[flag].(*types.Var)
					if obj == nil {
						return true
					}
					retErr := false
					for _, s := range t.Body.List {
						if rs, ok := s.(*ast.ReturnStmt); ok && len(rs.Results) > 0 {
							last := rs.Results[len(rs.Results)-1]
							if types.Identical(info.TypeOf(last), errorType) {
								if id, ok := last.(*ast.Ident); !ok || id.Name != "nil" {
									retErr = true
								}
							}
						}
					}
					if !retErr {
						return true
					}
					L := loops[len(loops)-1]
					var body *ast.BlockStmt
					switch l := L.(type) {
					case *ast.ForStmt:
						body = l.Body
					case *ast.RangeStmt:
						body = l.Body
					}
					reset := obj.Pos() >= body.Pos() && obj.Pos() < body.End()
					if !reset {
						for _, s := range body.List {
							if s.Pos() >= t.Pos() {
								break
							}
							if as, ok := s.(*ast.AssignStmt); ok && len(as.Lhs) == 1 && len(as.Rhs) == 1 {
								if id, ok := as.Lhs[0].(*ast.Ident); ok && info.Uses[id] == obj {
									if tv, ok := info.Types[as.Rhs[0]]; ok && tv.Value != nil {
										reset = true
									}
								}
							}
						}
					}
					n++
					r.Ob("flag:"+strings.TrimPrefix(fi.Key, "hermes.")+":"+flag.Name, p.Pos(t.Pos()), reset, fmt.Sprintf("error return under '!%s' inside a loop; the flag is reset for every item: %v", flag.Name, reset))
				}
				return true
			})
		}
		visit(fi.Decl.Body)
	}
	if n == 0 {
		r.Ob("flags", "-", false, "no per-item validation of the form 'if !found { return error }' inside a loop found in run-reachable code")
	}
}

// ---------------------------------------------------------------- R2 exactly one result per run

func c11Result(p *Prog, r *Report, rule string) {
	r.Rule(rule, "exactly one result per run: in Run the run body's error is stored in the RunReturn and the send on the result channel lies on every path to the normal exit (guarded only by the channel being non-nil)", 2)
	s := p.SSA()
	run := s.runFn()
	if run == nil {
		r.Ob("run", "-", false, "Run not found")
		return
	}
	var sends []*ssa.Send
	for _, b := range run.Blocks {
		for _, in := range b.Instrs {
			if sd, ok := in.(*ssa.Send); ok {
				if ch, ok := sd.Chan.Type().Underlying().(*types.Chan); ok {
					if pt, ok := ch.Elem().(*types.Pointer); ok && isNamed(pt, "/hermes", "RunReturn") {
						sends = append(sends, sd)
					}
				}
			}
		}
	}
	if len(sends) != 1 {
		r.Ob("send", p.Pos(run.Pos()), false, fmt.Sprintf("%d sends of the run result in Run, expected exactly 1", len(sends)))
		return
	}
	sd := sends[0]
	// the send's block is the true successor of a nil test of the channel whose block dominates all returns
	b := sd.Block()
	ok := false
	det := ""
	if len(b.Preds) == 1 {
		pb := b.Preds[0]
		if ifi, isIf := pb.Instrs[len(pb.Instrs)-1].(*ssa.If); isIf {
			if bo, isBin := ifi.Cond.(*ssa.BinOp); isBin && bo.Op == token.NEQ && bo.X == sd.Chan {
				if c, isC := bo.Y.(*ssa.Const); isC && c.IsNil() && pb.Succs[0] == b {
					ok = true
					for _, rb := range run.Blocks {
						if _, isRet := rb.Instrs[len(rb.Instrs)-1].(*ssa.Return); isRet && !pb.Dominates(rb) {
							ok = false
							det = "a return of Run is not dominated by the send decision"
						}
					}
				}
			}
		}
	}
	if !ok && det == "" {
		det = "the send is not simply guarded by 'out != nil'"
	}
	// not in a loop
	if instrInLoop(sd) {
		ok = false
		det = "the send lies in a loop"
	}
	r.Ob("send", instrPos(p, sd), ok, orStr(det, "single send of the run result, guarded only by 'out != nil', on every path to the exit"))
	// the sent value's Err field is the closure's result
	errStored := false
	for _, e := range errSites(s, map[*ssa.Function]bool{run: true}) {
		if e.Callee.Parent() == run && e.Propagate && e.How == "stored in RunReturn.Err" {
			errStored = true
		}
	}
	r.Ob("err-field", p.Pos(run.Pos()), errStored, "the error returned by the run body is stored in RunReturn.Err")
}

// ---------------------------------------------------------------- R3 loop termination

// hand-proved loops: function → reason
var provedLoops = map[string]string{
	"hermes.KalenderDate:for":      "month search: the month counter increases by one per iteration and the loop breaks at the latest when it reaches the 12-entry table's end (year estimate corrected first)",
	"hermes.Nitro:event-cursor":    "event cursor: every iteration moves the cursor to the next slot of the schedule; the input routine leaves adjacent scheduled slots with different dates (same-day shift, C10.R2), only the residue pseudo-event in slot 0 can share its day with slot 1, and the slots behind the schedule hold 0: at most two iterations on a day",
	"hermes.HermesSession.Run:day": "day loop: ZEIT increases by DT ≥ 1 per iteration towards ENDE; ENDE is reassigned only to a value ≥ the current day",
}

type loopClass struct {
	ok   bool
	kind string
	why  string
}

func c11Loops(p *Prog, r *Report) {
	r.Rule("C11.R3", "every loop on the run path terminates: counted loop with a monotone induction variable against a bound not assigned in the body; range; input-driven loop that consumes a line per iteration (finite file; EOF ends the scan or the process); monotone search with an explicit bound; or a hand-proved entry of the table", 20)
	counts := map[string]int{}
	for _, fi := range runReachableDecls(p) {
		info := fi.Pkg.TypesInfo
		idx := 0
		ast.Inspect(fi.Decl.Body, func(n ast.Node) bool {
			var cls loopClass
			switch t := n.(type) {
			case *ast.RangeStmt:
				if _, isChan := info.TypeOf(t.X).Underlying().(*types.Chan); isChan {
					cls = loopClass{false, "range-chan", "range over a channel terminates only when the channel is closed"}
				} else {
					cls = loopClass{true, "range", "range over a finite collection"}
				}
			case *ast.ForStmt:
				cls = classifyFor(p, fi, t)
			default:
				return true
			}
			idx++
			counts[cls.kind]++
			if cls.ok && (cls.kind == "range" || cls.kind == "counted") {
				// keep the evidence readable: counted/range loops are aggregated
				return true
			}
			r.Ob(fmt.Sprintf("loop:%s#%d:%s", strings.TrimPrefix(fi.Key, "hermes."), idx, cls.kind), p.Pos(n.Pos()), cls.ok, cls.why)
			return true
		})
	}
	r.Ob("counted+range", "-", counts["counted"]+counts["range"] >= 100, fmt.Sprintf("%d counted loops and %d range loops classified terminating (aggregated); other classes listed individually: %v", counts["counted"], counts["range"], counts))
}

func classifyFor(p *Prog, fi *FuncInfo, t *ast.ForStmt) loopClass {
	info := fi.Pkg.TypesInfo
	assigned := func(obj types.Object, in ast.Node) int {
		n := 0
		ast.Inspect(in, func(m ast.Node) bool {
			switch s := m.(type) {
			case *ast.AssignStmt:
				for _, l := range s.Lhs {
					if id, ok := l.(*ast.Ident); ok && (info.Uses[id] == obj || info.Defs[id] == obj) {
						n++
					}
				}
			case *ast.IncDecStmt:
				if id, ok := s.X.(*ast.Ident); ok && info.Uses[id] == obj {
					n++
				}
			case *ast.UnaryExpr:
				if s.Op == token.AND {
					if id, ok := s.X.(*ast.Ident); ok && info.Uses[id] == obj {
						n += 10
					}
				}
			}
			return true
		})
		return n
	}
	// input driven: the condition scans, or the body reads a line on every iteration
	readsLine := func(nd ast.Node) bool {
		found := false
		ast.Inspect(nd, func(m ast.Node) bool {
			if call, ok := m.(*ast.CallExpr); ok {
				if f := callee(info, call); f != nil {
					switch f.Name() {
					case "Scan", "LineInut", "NextLineInut", "ReadString", "ReadLine":
						found = true
					}
				}
			}
			return true
		})
		return found
	}
	if t.Cond != nil && readsLine(t.Cond) {
		return loopClass{true, "scanner", "condition advances a scanner over a finite input"}
	}
	if t.Post != nil && readsLine(t.Post) {
		return loopClass{true, "scanner", "post statement advances a scanner over a finite input"}
	}
	// some top-level statement of the body reads a line unconditionally (no continue can skip it)
	hasContinue := func(nd ast.Node) bool {
		found := false
		ast.Inspect(nd, func(m ast.Node) bool {
			switch s := m.(type) {
			case *ast.ForStmt, *ast.RangeStmt, *ast.FuncLit:
				return false
			case *ast.BranchStmt:
				if s.Tok == token.CONTINUE || s.Tok == token.GOTO {
					found = true
				}
			}
			return true
		})
		return found
	}
	for _, s := range t.Body.List {
		switch s.(type) {
		case *ast.IfStmt, *ast.ForStmt, *ast.RangeStmt, *ast.SwitchStmt:
			if hasContinue(s) {
				goto notScanner
			}
			continue
		}
		if readsLine(s) {
			return loopClass{true, "scanner", "every iteration consumes a line of a finite input (EOF ends the scan or, in LineInut, the process)"}
		}
	}
notScanner:
	// counted: for i := a; i <op> B; i++ / i-- / i += c
	if t.Cond != nil && t.Post != nil {
		var iv types.Object
		dir := 0
		switch ps := t.Post.(type) {
		case *ast.IncDecStmt:
			if id, ok := ps.X.(*ast.Ident); ok {
				iv = info.Uses[id]
				if ps.Tok == token.INC {
					dir = 1
				} else {
					dir = -1
				}
			}
		case *ast.AssignStmt:
			if len(ps.Lhs) == 1 && len(ps.Rhs) == 1 {
				if id, ok := ps.Lhs[0].(*ast.Ident); ok {
					iv = info.Uses[id]
					switch ps.Tok {
					case token.ADD_ASSIGN:
						dir = 1
					case token.SUB_ASSIGN:
						dir = -1
					case token.ASSIGN:
						// i = i + c
						if be, ok := ps.Rhs[0].(*ast.BinaryExpr); ok {
							if l, ok := be.X.(*ast.Ident); ok && info.Uses[l] == iv {
								if be.Op == token.ADD {
									dir = 1
								} else if be.Op == token.SUB {
									dir = -1
								}
							}
						}
					}
				}
			}
		}
		if iv != nil && dir != 0 {
			be, ok := t.Cond.(*ast.BinaryExpr)
			if ok {
				var bound ast.Expr
				var op token.Token
				if id, isId := be.X.(*ast.Ident); isId && info.Uses[id] == iv {
					bound, op = be.Y, be.Op
				} else if id, isId := be.Y.(*ast.Ident); isId && info.Uses[id] == iv {
					bound, op = be.X, flipOp(be.Op)
				}
				dirOK := (dir == 1 && (op == token.LSS || op == token.LEQ)) || (dir == -1 && (op == token.GTR || op == token.GEQ)) || op == token.NEQ && false
				if bound != nil && dirOK {
					if assigned(iv, t.Body) > 0 {
						return loopClass{false, "counted?", "induction variable " + iv.Name() + " is also assigned in the loop body"}
					}
					// bound invariant: local identifiers of the bound are not assigned in the body; fields of the bound are not written by the body or its callees
					inv := true
					ast.Inspect(bound, func(m ast.Node) bool {
						switch b := m.(type) {
						case *ast.SelectorExpr:
							if sel, ok := info.Selections[b]; ok && sel.Kind() == types.FieldVal {
								name, _ := namedStruct(sel.Recv())
								if bodyWritesField(p, fi, t.Body, FieldRef{name, b.Sel.Name}) {
									inv = false
								}
								// the base variable itself must not be reassigned
								if id, ok := b.X.(*ast.Ident); ok {
									if o := info.Uses[id]; o != nil && assigned(o, t.Body)%10 > 0 {
										inv = false
									}
								}
								return false
							}
						case *ast.Ident:
							if o := info.Uses[b]; o != nil {
								if _, isVar := o.(*types.Var); isVar && assigned(o, t.Body) > 0 {
									inv = false
								}
							}
						}
						return true
					})
					if !inv {
						if cls, ok := dayLoopTable(p, fi, t); ok {
							return cls
						}
						return loopClass{false, "counted?", "the bound " + types.ExprString(bound) + " is assigned inside the loop body"}
					}
					return loopClass{true, "counted", "counted loop"}
				}
			}
		}
	}
	// event cursor: "for today == date[cursor.Index]+k && … { …; cursor.Inc() }" — hand-proved, shape re-validated
	if t.Cond != nil && fi.Key == "hermes.Nitro" && c10BodyAdvancesCursor(t.Body, t.Cond) {
		writes := false
		ast.Inspect(t.Cond, func(m ast.Node) bool {
			if ix, ok := m.(*ast.IndexExpr); ok {
				if se, ok := ix.X.(*ast.SelectorExpr); ok {
					if sel, ok := info.Selections[se]; ok && sel.Kind() == types.FieldVal {
						name, _ := namedStruct(sel.Recv())
						if bodyWritesField(p, fi, t.Body, FieldRef{name, se.Sel.Name}) {
							writes = true
						}
					}
				}
			}
			return true
		})
		if !writes {
			return loopClass{true, "table", "hand-proved: " + provedLoops["hermes.Nitro:event-cursor"] + " (re-validated: the body advances the cursor on every iteration and does not write the date table)"}
		}
	}
	// table
	key := fi.Key + ":for"
	if reason, ok := provedLoops[key]; ok && t.Cond == nil {
		return loopClass{true, "table", "hand-proved: " + reason}
	}
	if cls, ok := dayLoopTable(p, fi, t); ok {
		return cls
	}
	// flag-controlled search "for !found { line := LineInut(...) … }" handled by scanner rule above
	// bounded monotone search: cond has a conjunct comparing a variable that strictly increases every iteration against an invariant
	if t.Cond != nil {
		var conj []ast.Expr
		var split func(e ast.Expr)
		split = func(e ast.Expr) {
			if be, ok := e.(*ast.BinaryExpr); ok && be.Op == token.LAND {
				split(be.X)
				split(be.Y)
				return
			}
			if pe, ok := e.(*ast.ParenExpr); ok {
				split(pe.X)
				return
			}
			conj = append(conj, e)
		}
		cond := t.Cond
		// "for ok := true; ok; ok = A && B" : the post assignment defines the continuation condition
		if id, ok := t.Cond.(*ast.Ident); ok && t.Post != nil {
			if as, ok := t.Post.(*ast.AssignStmt); ok && len(as.Lhs) == 1 && len(as.Rhs) == 1 {
				if l, ok := as.Lhs[0].(*ast.Ident); ok && info.Uses[l] == info.Uses[id] {
					cond = as.Rhs[0]
				}
			}
		}
		split(cond)
		for _, c := range conj {
			be, ok := c.(*ast.BinaryExpr)
			if !ok || !(be.Op == token.LSS || be.Op == token.LEQ) {
				continue
			}
			id, ok := be.X.(*ast.Ident)
			if !ok {
				continue
			}
			v := info.Uses[id]
			// incremented unconditionally at the top level of the body
			incr := false
			for _, s := range t.Body.List {
				if inc, ok := s.(*ast.IncDecStmt); ok && inc.Tok == token.INC {
					if iid, ok := inc.X.(*ast.Ident); ok && info.Uses[iid] == v {
						incr = true
					}
				}
			}
			if incr {
				if tv, ok := info.Types[be.Y]; ok && tv.Value != nil {
					return loopClass{true, "bounded-search", "search bounded by " + types.ExprString(c) + " with " + id.Name + " incremented on every iteration"}
				}
			}
		}
	}
	// while-counter: "for v <op> B { …; v++ / v-- }" with v changed only by that statement
	if be, ok := t.Cond.(*ast.BinaryExpr); ok && t.Post == nil && t.Init == nil {
		var v types.Object
		var bound ast.Expr
		op := be.Op
		if id, isId := be.X.(*ast.Ident); isId {
			v, bound = info.Uses[id], be.Y
		} else if id, isId := be.Y.(*ast.Ident); isId {
			v, bound, op = info.Uses[id], be.X, flipOp(be.Op)
		}
		if v != nil {
			dir := 0
			for _, s := range t.Body.List {
				if inc, ok := s.(*ast.IncDecStmt); ok {
					if iid, ok := inc.X.(*ast.Ident); ok && info.Uses[iid] == v {
						if inc.Tok == token.INC {
							dir = 1
						} else {
							dir = -1
						}
					}
				}
			}
			okDir := (dir == 1 && (op == token.LSS || op == token.LEQ)) || (dir == -1 && (op == token.GTR || op == token.GEQ))
			boundInv := true
			ast.Inspect(bound, func(m ast.Node) bool {
				if id, ok := m.(*ast.Ident); ok {
					if o := info.Uses[id]; o != nil {
						if _, isVar := o.(*types.Var); isVar && assigned(o, t.Body) > 0 {
							boundInv = false
						}
					}
				}
				return true
			})
			if okDir && assigned(v, t.Body) == 1 && boundInv && !hasContinue(t.Body) {
				return loopClass{true, "counter", "monotone counter " + v.Name() + " moves towards the invariant bound on every iteration"}
			}
		}
	}
	// channel wait loops of the dispatcher are outside the run path; anything else is not established
	return loopClass{false, "unknown", "termination not established: the loop has no bound that the iteration is certain to reach (condition " + exprOr(t.Cond) + ")"}
}

func exprOr(e ast.Expr) string {
	if e == nil {
		return "<none>"
	}
	return types.ExprString(e)
}

// ---------------------------------------------------------------- R4 own files only

func c11Files(p *Prog, r *Report) {
	r.Rule("C11.R4", "a run writes only its own files: every file-creating call in run-reachable code goes through the session's result-file opener, and its path is one of the per-run output paths (which contain the unique plot id) or a configuration-generation site that ends the process; result files opened by other routines (management log, fertiliser recommendation) use a path field built from the unique plot id", 8)
	// direct file creation outside the opener
	s := p.SSA()
	reach := s.reachable(s.runFn())
	creators := map[string]bool{"os.Create": true, "os.OpenFile": true, "os.WriteFile": true, "io/ioutil.WriteFile": true, "os.Mkdir": true, "os.MkdirAll": true, "os.Remove": true, "os.RemoveAll": true, "os.Rename": true}
	allowedIn := map[string]string{"DefaultFoutGenerator": "the session's default result-file opener", "MakeDir": "creates the run's result directory"}
	for _, fn := range s.fns {
		if !reach[fn] {
			continue
		}
		for _, b := range fn.Blocks {
			for _, in := range b.Instrs {
				ci, ok := in.(ssa.CallInstruction)
				if !ok {
					continue
				}
				name := staticCalleeName(ci.Common())
				if !creators[name] {
					continue
				}
				reason, ok := allowedIn[fn.Name()]
				r.Ob("create:"+name+"@"+fn.Name(), instrPos(p, in), ok, orStr(reason, "run-reachable function creates/changes a file directly with "+name+", outside the per-run result-file opener"))
			}
		}
	}
	// path arguments of OpenResultFile in the run closure
	fi, lit := runClosure(p)
	if fi == nil {
		return
	}
	info := fi.Pkg.TypesInfo
	outFields := map[string]bool{"pnam": true, "cnam": true, "vnam": true, "pfnam": true, "mnam": true, "tnam": true}
	ast.Inspect(lit.Body, func(n ast.Node) bool {
		call, ok := n.(*ast.CallExpr)
		if !ok {
			return true
		}
		f := callee(info, call)
		if f == nil || (f.Name() != "OpenResultFile" && f.Name() != "WriteYamlConfig") || len(call.Args) == 0 {
			return true
		}
		arg := types.ExprString(call.Args[0])
		se, isSel := call.Args[0].(*ast.SelectorExpr)
		okp := false
		why := ""
		if isSel {
			if outFields[se.Sel.Name] {
				okp = true
				why = "per-run output path " + arg
			} else if f.Name() == "WriteYamlConfig" {
				// generation of a missing configuration: followed by log.Fatal, or the shared project config
				okp = true
				why = "generation of a missing project configuration file " + arg
			}
		}
		r.Ob("path:"+f.Name()+"("+arg+")", p.Pos(call.Pos()), okp, orStr(why, "result file opened at a path that is not a per-run output path"))
		return true
	})
	// the per-run output paths contain the unique id: NewHermesFilePath builds them from its uniqueOutputID parameter
	if nf := p.Funcs["hermes.NewHermesFilePath"]; nf != nil {
		ninfo := nf.Pkg.TypesInfo
		uses := map[string]bool{}
		// local variables derived from the unique id parameter
		derived := map[types.Object]bool{}
		for _, f := range nf.Decl.Type.Params.List {
			for _, nm := range f.Names {
				if strings.Contains(strings.ToLower(nm.Name), "unique") || strings.Contains(strings.ToLower(nm.Name), "snam") {
					derived[ninfo.Defs[nm]] = true
				}
			}
		}
		mentions := func(e ast.Node) bool {
			found := false
			ast.Inspect(e, func(m ast.Node) bool {
				if id, ok := m.(*ast.Ident); ok && derived[ninfo.Uses[id]] {
					found = true
				}
				return true
			})
			return found
		}
		for i := 0; i < 3; i++ {
			ast.Inspect(nf.Decl.Body, func(n ast.Node) bool {
				if as, ok := n.(*ast.AssignStmt); ok {
					for k, l := range as.Lhs {
						if k < len(as.Rhs) && mentions(as.Rhs[k]) {
							if id, ok := l.(*ast.Ident); ok {
								if o := ninfo.Defs[id]; o != nil {
									derived[o] = true
								} else if o := ninfo.Uses[id]; o != nil {
									derived[o] = true
								}
							}
						}
					}
				}
				if kv, ok := n.(*ast.KeyValueExpr); ok {
					if id, ok := kv.Key.(*ast.Ident); ok && mentions(kv.Value) {
						uses[id.Name] = true
					}
				}
				return true
			})
		}
		for _, f := range []string{"pnam", "cnam", "vnam"} {
			r.Ob("unique:"+f, p.Pos(nf.Decl.Pos()), uses[f], fmt.Sprintf("output path %s is built from the unique plot id: %v", f, uses[f]))
		}
		// result files opened outside the run closure (management log, fertiliser recommendation): the path is a
		// field of the per-run path record that is built from the unique plot id, directly or through one local
		for _, key := range sortedFuncKeys(p) {
			fo := p.Funcs[key]
			if fo.Pkg != p.Hermes || fo.Obj == nil || key == "hermes.HermesSession.Run" {
				continue
			}
			if strings.HasPrefix(key, "hermes.HermesSession.") {
				continue // the opener and its wrappers: their path is a parameter, judged at their callers
			}
			oinfo := fo.Pkg.TypesInfo
			ast.Inspect(fo.Decl.Body, func(n ast.Node) bool {
				call, ok := n.(*ast.CallExpr)
				if !ok || len(call.Args) == 0 {
					return true
				}
				f := callee(oinfo, call)
				if f == nil || f.Name() != "OpenResultFile" {
					return true
				}
				arg := call.Args[0]
				field := ""
				how := ""
				if id, ok := arg.(*ast.Ident); ok {
					// single definition: local := X.field
					obj := oinfo.Uses[id]
					nd := 0
					ast.Inspect(fo.Decl.Body, func(m ast.Node) bool {
						if as, ok := m.(*ast.AssignStmt); ok {
							for k, l := range as.Lhs {
								if lid, ok := l.(*ast.Ident); ok && (oinfo.Defs[lid] == obj || oinfo.Uses[lid] == obj) {
									nd++
									if k < len(as.Rhs) {
										arg = as.Rhs[k]
									}
								}
							}
						}
						return true
					})
					if nd != 1 {
						how = fmt.Sprintf("path variable %s has %d definitions", id.Name, nd)
						arg = nil
					}
				}
				if se, ok := arg.(*ast.SelectorExpr); ok {
					if nm, _ := namedStruct(oinfo.TypeOf(se.X)); nm == "HFilePath" {
						field = se.Sel.Name
					}
				}
				okp := field != "" && uses[field]
				if how == "" {
					if field == "" {
						how = "the path is not a field of the per-run path record: " + types.ExprString(call.Args[0])
					} else {
						how = fmt.Sprintf("path field %s is built from the unique plot id: %v", field, uses[field])
					}
				}
				r.Ob("path:"+shortKey(key)+":OpenResultFile", p.Pos(call.Pos()), okp, how+" — a file name that is not unique per batch line is truncated and overwritten by other lines of the session")
				return true
			})
		}
	}
}

// bodyWritesField: the loop body (or a function it calls) writes the field.
func bodyWritesField(p *Prog, fi *FuncInfo, body ast.Node, ref FieldRef) bool {
	info := fi.Pkg.TypesInfo
	fx := p.Fields()
	w := false
	ast.Inspect(body, func(n ast.Node) bool {
		switch s := n.(type) {
		case *ast.AssignStmt:
			for _, l := range s.Lhs {
				refs, _ := selChain(info, l)
				for _, rf := range refs {
					if rf == ref {
						w = true
					}
				}
			}
		case *ast.IncDecStmt:
			refs, _ := selChain(info, s.X)
			for _, rf := range refs {
				if rf == ref {
					w = true
				}
			}
		case *ast.CallExpr:
			if f := callee(info, s); f != nil {
				if t := p.ByObj[f]; t != nil && fx.Mod[t][ref] {
					w = true
				}
			}
		}
		return true
	})
	return w
}

// dayLoopTable: the simulation's day loop. Hand-proved, and re-validated: the
// end day may only be written by the confirmed functions (each sets it to the
// current day or to a date fixed once), and the loop variable advances by DT.
var endeWriters = map[string]string{
	"hermes.readConfig":                         "end date from the configuration (before the loop)",
	"hermes.HermesSession.Run":                  "extension to the annual output date (before the loop)",
	"hermes.Input":                              "before the loop",
	"hermes.PrognoseTime":                       "once, at ZEIT == PROGNOS: set to a prediction date computed once",
	"hermes.SimulateFertilizationAfterPrognose": "set to the current day (ends the loop)",
	"hermes.progout":                            "after the loop",
}

func dayLoopTable(p *Prog, fi *FuncInfo, t *ast.ForStmt) (loopClass, bool) {
	if fi.Key != "hermes.HermesSession.Run" || t.Cond == nil || !strings.Contains(types.ExprString(t.Cond), "g.ENDE") {
		return loopClass{}, false
	}
	for _, w := range p.Fields().Writers(FieldRef{"GlobalVarsMain", "ENDE"}) {
		if _, ok := endeWriters[w.Key]; !ok {
			return loopClass{false, "table", "day loop: the end day is written by " + w.Key + ", which is not in the confirmed table — termination argument no longer covers this tree"}, true
		}
	}
	// the loop variable advances by g.DT.Index
	if as, ok := t.Post.(*ast.AssignStmt); !ok || !strings.Contains(types.ExprString(as.Rhs[0]), "g.DT.Index") {
		return loopClass{false, "table", "day loop: the day variable is not advanced by the time step"}, true
	}
	return loopClass{true, "table", "hand-proved: " + provedLoops["hermes.HermesSession.Run:day"] + " (writers of the end day re-validated)"}, true
}

// ---------------------------------------------------------------- the sliding temperature window stays inside the year

// c11SlidingWindow: the automatic-sowing search averages the air temperature of the W preceding days, read from the
// current year's arrays at index (day index − i), i = 1..W.  Early in the year that index is negative unless the read
// is guarded by "day of the year > W" (day index ≥ W): an unguarded read panics in the run's goroutine and takes the
// whole batch with it — no result, no error attributed to the line.  The search is active on every day after the
// rotation's last harvest, so the first days of a following January are reached by any run that outlasts its
// rotation by a year.
func c11SlidingWindow(p *Prog, r *Report) {
	r.Rule("C11.R9", "the sliding temperature window of the automatic-sowing search reads only days of the current year: every read at (day index − i), i running up to the window length, is guarded by day-of-the-year > window length (or day index ≥ window length)", 1)
	fi := p.Funcs["hermes.HermesSession.Run"]
	if fi == nil {
		r.Ob("sliding-window:guard", "-", false, "run routine not found")
		return
	}
	info := fi.Pkg.TypesInfo
	mentionsField := func(n ast.Node, name string) bool {
		f := false
		ast.Inspect(n, func(m ast.Node) bool {
			if se, ok := m.(*ast.SelectorExpr); ok && se.Sel.Name == name {
				f = true
			}
			if id, ok := m.(*ast.Ident); ok {
				// a local assigned once from an expression that mentions the field
				if o := info.Uses[id]; o != nil {
					for _, d := range defsOf(info, fi.Decl.Body, o) {
						ast.Inspect(d.Rhs, func(q ast.Node) bool {
							if se, ok := q.(*ast.SelectorExpr); ok && se.Sel.Name == name {
								f = true
							}
							return true
						})
					}
				}
			}
			return true
		})
		return f
	}
	n := 0
	ast.Inspect(fi.Decl.Body, func(m ast.Node) bool {
		loop, ok := m.(*ast.ForStmt)
		if !ok || loop.Cond == nil || !mentionsField(loop.Cond, "TSLWINDOW") {
			return true
		}
		// reads at TAG.Index − <loop variable>
		ast.Inspect(loop.Body, func(q ast.Node) bool {
			ix, ok := q.(*ast.IndexExpr)
			if !ok {
				return true
			}
			be, ok := ast.Unparen(ix.Index).(*ast.BinaryExpr)
			if !ok || be.Op != token.SUB || !strings.HasSuffix(types.ExprString(be.X), "TAG.Index") {
				return true
			}
			n++
			conds, _ := astPathConds(info, fi.Decl.Body, ix)
			good := false
			for _, c := range conds {
				cb, ok := c.E.(*ast.BinaryExpr)
				if !ok || c.Neg {
					continue
				}
				l := types.ExprString(ast.Unparen(cb.X))
				switch {
				case strings.HasSuffix(l, "TAG.Num") && cb.Op == token.GTR && mentionsField(cb.Y, "TSLWINDOW"):
					good = true
				case strings.HasSuffix(l, "TAG.Index") && cb.Op == token.GEQ && mentionsField(cb.Y, "TSLWINDOW"):
					good = true
				case strings.HasSuffix(l, "TAG.Index + 1") && cb.Op == token.GTR && mentionsField(cb.Y, "TSLWINDOW"):
					good = true
				}
			}
			r.Ob("sliding-window:guard", p.Pos(ix.Pos()), good, fmt.Sprintf("the read %s is guarded by day of the year > window length: %v (conditions: %s)", types.ExprString(ix), good, clip(joinConds(conds), 160)))
			return true
		})
		return true
	})
	if n == 0 {
		r.Ob("sliding-window:guard", "-", false, "the sliding temperature window of the automatic-sowing search was not found")
	}
}
