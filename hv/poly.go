package main

// E3 — algebraic normal form: Laurent polynomials with rational coefficients
// over atoms.  Two program expressions are "the same value" iff their normal
// forms are identical.  No search, no solver.

import (
	"fmt"
	"math/big"
	"sort"
	"strings"
)

// Atom is an uninterpreted leaf of a polynomial.
type Atom struct {
	Key      string // canonical, unique
	Kind     string // cell | var | call | inv | phi | loop | opq | str
	Root     string // cell: canonical root ("GlobalVarsMain.TP"); var: name
	Idx      []Poly // cell indices
	Args     []Poly // call / inv arguments
	Fn       string // call name
	Ver      int
	IntTyped bool // static Go type of the expression it came from is an integer type
}

type Factor struct {
	A *Atom
	E int
}

type Term struct {
	C *big.Rat
	M []Factor // sorted by atom key
}

func (t *Term) monoKey() string {
	if len(t.M) == 0 {
		return ""
	}
	var sb strings.Builder
	for i, f := range t.M {
		if i > 0 {
			sb.WriteByte('*')
		}
		sb.WriteString(f.A.Key)
		if f.E != 1 {
			fmt.Fprintf(&sb, "^%d", f.E)
		}
	}
	return sb.String()
}

// Poly is immutable by convention.
type Poly struct {
	T map[string]*Term
}

var atomTab = map[string]*Atom{}

func internAtom(a *Atom) *Atom {
	if old, ok := atomTab[a.Key]; ok {
		return old
	}
	atomTab[a.Key] = a
	return a
}

func PZero() Poly { return Poly{T: map[string]*Term{}} }

func PRat(r *big.Rat) Poly {
	p := PZero()
	if r.Sign() != 0 {
		p.T[""] = &Term{C: new(big.Rat).Set(r)}
	}
	return p
}
func PInt(n int64) Poly { return PRat(new(big.Rat).SetInt64(n)) }
func PFrac(a, b int64) Poly {
	return PRat(big.NewRat(a, b))
}

// nilAtom stands in for an atom a recogniser did not find (a loop without a
// recognisable induction variable on a changed tree): every comparison with it
// fails, so the obligation that needed it is reported instead of the analyser
// stopping.
var nilAtom = &Atom{Key: "⊥unrecognised", Kind: "opq", Root: "⊥unrecognised"}

func PAtom(a *Atom) Poly {
	if a == nil {
		a = nilAtom
	}
	p := PZero()
	t := &Term{C: big.NewRat(1, 1), M: []Factor{{A: a, E: 1}}}
	p.T[t.monoKey()] = t
	return p
}

func (p Poly) IsZero() bool { return len(p.T) == 0 }

func (p Poly) Const() (*big.Rat, bool) {
	if len(p.T) == 0 {
		return new(big.Rat), true
	}
	if len(p.T) == 1 {
		if t, ok := p.T[""]; ok {
			return t.C, true
		}
	}
	return nil, false
}

func (p Poly) ConstInt() (int64, bool) {
	r, ok := p.Const()
	if !ok || !r.IsInt() {
		return 0, false
	}
	return r.Num().Int64(), true
}

func (p Poly) add(q Poly, sign int64) Poly {
	r := PZero()
	for k, t := range p.T {
		r.T[k] = t
	}
	for k, t := range q.T {
		c := new(big.Rat).Set(t.C)
		if sign < 0 {
			c.Neg(c)
		}
		if o, ok := r.T[k]; ok {
			c.Add(c, o.C)
			if c.Sign() == 0 {
				delete(r.T, k)
				continue
			}
		}
		r.T[k] = &Term{C: c, M: t.M}
	}
	return r
}

func (p Poly) Add(q Poly) Poly { return p.add(q, 1) }
func (p Poly) Sub(q Poly) Poly { return p.add(q, -1) }
func (p Poly) Neg() Poly       { return PZero().add(p, -1) }

func mulMono(a, b []Factor) []Factor {
	out := make([]Factor, 0, len(a)+len(b))
	i, j := 0, 0
	for i < len(a) && j < len(b) {
		switch {
		case a[i].A.Key == b[j].A.Key:
			e := a[i].E + b[j].E
			if e != 0 {
				out = append(out, Factor{A: a[i].A, E: e})
			}
			i++
			j++
		case a[i].A.Key < b[j].A.Key:
			out = append(out, a[i])
			i++
		default:
			out = append(out, b[j])
			j++
		}
	}
	out = append(out, a[i:]...)
	out = append(out, b[j:]...)
	return out
}

func (p Poly) Mul(q Poly) Poly {
	r := PZero()
	for _, t := range p.T {
		for _, u := range q.T {
			c := new(big.Rat).Mul(t.C, u.C)
			mm := mulMono(t.M, u.M)
			// (P)^k with k > 0 is the polynomial P^k again
			expand := -1
			for i, f := range mm {
				if f.A.Kind == "inv" && f.E > 0 && len(f.A.Args) == 1 {
					expand = i
					break
				}
			}
			if expand >= 0 {
				rest := append(append([]Factor{}, mm[:expand]...), mm[expand+1:]...)
				base := PZero()
				bt := &Term{C: c, M: rest}
				base.T[bt.monoKey()] = bt
				r = r.Add(base.Mul(mm[expand].A.Args[0].PowInt(mm[expand].E)))
				continue
			}
			nt := &Term{C: c, M: mm}
			k := nt.monoKey()
			if o, ok := r.T[k]; ok {
				c.Add(c, o.C)
				if c.Sign() == 0 {
					delete(r.T, k)
					continue
				}
			}
			r.T[k] = nt
		}
	}
	return r
}

func (p Poly) Scale(c *big.Rat) Poly { return p.Mul(PRat(c)) }

func (p Poly) PowInt(n int) Poly {
	if n < 0 {
		return PInv(p).PowInt(-n)
	}
	r := PInt(1)
	for i := 0; i < n; i++ {
		r = r.Mul(p)
	}
	return r
}

// single returns the only term of p, if p has exactly one.
func (p Poly) single() *Term {
	if len(p.T) != 1 {
		return nil
	}
	for _, t := range p.T {
		return t
	}
	return nil
}

// sortedTerms returns the terms ordered by monomial key.
func (p Poly) sortedTerms() []*Term {
	ks := make([]string, 0, len(p.T))
	for k := range p.T {
		ks = append(ks, k)
	}
	sort.Strings(ks)
	out := make([]*Term, len(ks))
	for i, k := range ks {
		out[i] = p.T[k]
	}
	return out
}

// PInv returns 1/p.  A monomial is inverted exactly; a sum becomes an "inv"
// atom over the sum normalised to leading coefficient 1.
func PInv(p Poly) Poly {
	if t := p.single(); t != nil {
		c := new(big.Rat).Inv(t.C)
		m := make([]Factor, len(t.M))
		for i, f := range t.M {
			m[i] = Factor{A: f.A, E: -f.E}
		}
		r := PZero()
		nt := &Term{C: c, M: m}
		r.T[nt.monoKey()] = nt
		return r
	}
	if p.IsZero() {
		a := internAtom(&Atom{Key: "inv(0)", Kind: "inv"})
		return PAtom(a)
	}
	ts := p.sortedTerms()
	lead := new(big.Rat).Set(ts[0].C)
	norm := p.Scale(new(big.Rat).Inv(lead))
	a := internAtom(&Atom{Key: "(" + norm.String() + ")", Kind: "inv", Args: []Poly{norm}})
	r := PZero()
	nt := &Term{C: new(big.Rat).Inv(lead), M: []Factor{{A: a, E: -1}}}
	r.T[nt.monoKey()] = nt
	return r
}

func (p Poly) Div(q Poly) Poly { return p.Mul(PInv(q)) }

func (p Poly) Equal(q Poly) bool {
	if len(p.T) != len(q.T) {
		return false
	}
	for k, t := range p.T {
		u, ok := q.T[k]
		if !ok || t.C.Cmp(u.C) != 0 {
			return false
		}
	}
	return true
}

func ratStr(r *big.Rat) string {
	if r.IsInt() {
		return r.Num().String()
	}
	return r.RatString()
}

func (p Poly) String() string {
	if len(p.T) == 0 {
		return "0"
	}
	var sb strings.Builder
	for i, t := range p.sortedTerms() {
		c := t.C
		mk := t.monoKey()
		if i > 0 {
			if c.Sign() < 0 {
				sb.WriteString(" - ")
				c = new(big.Rat).Neg(c)
			} else {
				sb.WriteString(" + ")
			}
		} else if c.Sign() < 0 {
			sb.WriteString("-")
			c = new(big.Rat).Neg(c)
		}
		one := c.Cmp(big.NewRat(1, 1)) == 0
		switch {
		case mk == "":
			sb.WriteString(ratStr(c))
		case one:
			sb.WriteString(mk)
		default:
			sb.WriteString(ratStr(c) + "*" + mk)
		}
	}
	return sb.String()
}

// PCall builds an opaque application atom f(args).
func PCall(fn string, args ...Poly) Poly {
	ss := make([]string, len(args))
	for i, a := range args {
		ss[i] = a.String()
	}
	a := internAtom(&Atom{Key: fn + "(" + strings.Join(ss, ", ") + ")", Kind: "call", Fn: fn, Args: args})
	return PAtom(a)
}

// PCallComm builds a commutative application (arguments sorted).
func PCallComm(fn string, args ...Poly) Poly {
	sort.Slice(args, func(i, j int) bool { return args[i].String() < args[j].String() })
	return PCall(fn, args...)
}

// walkAtoms visits every atom of p, including those nested in indices and
// arguments.
func (p Poly) walkAtoms(f func(a *Atom)) {
	for _, t := range p.T {
		for _, fc := range t.M {
			walkAtom(fc.A, f)
		}
	}
}

func walkAtom(a *Atom, f func(a *Atom)) {
	f(a)
	for _, q := range a.Idx {
		q.walkAtoms(f)
	}
	for _, q := range a.Args {
		q.walkAtoms(f)
	}
}

// MentionsRoot reports whether any atom (deeply) of p is a cell of root.
func (p Poly) MentionsRoot(root string) bool {
	found := false
	p.walkAtoms(func(a *Atom) {
		if a.Kind == "cell" && a.Root == root {
			found = true
		}
	})
	return found
}

// Roots returns the set of cell roots mentioned (deeply).
func (p Poly) Roots() map[string]bool {
	m := map[string]bool{}
	p.walkAtoms(func(a *Atom) {
		if a.Kind == "cell" {
			m[a.Root] = true
		}
	})
	return m
}

func atomMentionsRoot(a *Atom, root string) bool {
	found := false
	walkAtom(a, func(b *Atom) {
		if b.Kind == "cell" && b.Root == root {
			found = true
		}
	})
	return found
}

// DegreeIn returns the exponent of atom key k in term t (top level only).
func (t *Term) DegreeIn(k string) int {
	for _, f := range t.M {
		if f.A.Key == k {
			return f.E
		}
	}
	return 0
}

// Subst replaces atoms (deeply) according to f; f returns (replacement, true)
// to substitute.
func (p Poly) Subst(f func(a *Atom) (Poly, bool)) Poly {
	r := PZero()
	for _, t := range p.T {
		tp := PRat(t.C)
		for _, fc := range t.M {
			ap := substAtom(fc.A, f)
			tp = tp.Mul(ap.PowInt(fc.E))
		}
		r = r.Add(tp)
	}
	return r
}

func substAtom(a *Atom, f func(a *Atom) (Poly, bool)) Poly {
	if q, ok := f(a); ok {
		return q
	}
	changed := false
	var idx, args []Poly
	for _, q := range a.Idx {
		nq := q.Subst(f)
		if !nq.Equal(q) {
			changed = true
		}
		idx = append(idx, nq)
	}
	for _, q := range a.Args {
		nq := q.Subst(f)
		if !nq.Equal(q) {
			changed = true
		}
		args = append(args, nq)
	}
	if !changed {
		return PAtom(a)
	}
	switch a.Kind {
	case "cell":
		return PAtom(cellAtom(a.Root, a.Ver, idx))
	case "call":
		return PCall(a.Fn, args...)
	case "inv":
		return PInv(PInv(args[0])) // renormalise
	}
	return PAtom(a)
}

func cellKey(root string, ver int, idx []Poly) string {
	var sb strings.Builder
	sb.WriteString(root)
	if ver != 0 {
		fmt.Fprintf(&sb, "#%d", ver)
	}
	for _, i := range idx {
		sb.WriteString("[" + i.String() + "]")
	}
	return sb.String()
}

func cellAtom(root string, ver int, idx []Poly) *Atom {
	return internAtom(&Atom{Key: cellKey(root, ver, idx), Kind: "cell", Root: root, Idx: idx, Ver: ver})
}

// provablyDistinct: two index vectors differ by a non-zero constant in some
// dimension.
func provablyDistinct(a, b []Poly) bool {
	if len(a) != len(b) {
		return false
	}
	for i := range a {
		if c, ok := a[i].Sub(b[i]).Const(); ok && c.Sign() != 0 {
			return true
		}
	}
	return false
}

func idxEqual(a, b []Poly) bool {
	if len(a) != len(b) {
		return false
	}
	for i := range a {
		if !a[i].Equal(b[i]) {
			return false
		}
	}
	return true
}

// MentionsAtom reports whether atom a occurs (deeply) in p.
func (p Poly) MentionsAtom(a *Atom) bool {
	found := false
	p.walkAtoms(func(b *Atom) {
		if b == a {
			found = true
		}
	})
	return found
}
