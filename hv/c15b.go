package main

// C15.R4 (recompute arm) — "recomputed from the texture table exactly as the
// input routine does".  The daily groundwater update has two arms; the restore
// arm was checked store by store, the recompute arm (table route, CAPPAR == 0)
// only for the order of its calls.  After the sweep of the update block (89 of
// 176 mutants unreported) it is compared with its sibling in Input: for each of
// the four parameter arrays the store of the table arm has the same value shape
// (table value of the horizon × (1 − stone content of the horizon)), the same
// layer index, the same layer range of the horizon and the same horizon range,
// under the same "layer inside the profile" test; horizons with explicit
// values take all four arrays from the backups of the same layer.

import (
	"fmt"
	"go/token"
	"strings"
)

type tableStore struct {
	val, idx, loLT, hiLT, loL, hiL string
	inProfile                      bool
	pos                            token.Pos
	found                          bool
}

func tableArm(x *Exec, root, src string) tableStore {
	var out tableStore
	for _, e := range x.Events {
		if e.Kind != "assign" || e.Root != root || len(e.Idx) != 1 || len(e.Loops) < 2 {
			continue
		}
		if !e.Val.MentionsRoot("GlobalVarsMain."+src) || !e.Val.MentionsRoot("GlobalVarsMain.STEIN") {
			continue
		}
		LT := e.Loops[len(e.Loops)-1]
		L := e.Loops[len(e.Loops)-2]
		if LT.Var == nil || L.Var == nil {
			continue
		}
		// the input routine has just copied the profile description into the run's state: currentSoil.X and g.X denote the same value there
		norm := func(q Poly) Poly {
			return stripVersions(q).Subst(func(a *Atom) (Poly, bool) {
				switch a {
				case LT.Var:
					return pVar("$LT"), true
				case L.Var:
					return pVar("$L"), true
				}
				if a.Kind == "cell" && strings.HasPrefix(a.Root, "currentSoil.") && len(a.Idx) == 0 {
					return cellP("GlobalVarsMain." + strings.TrimPrefix(a.Root, "currentSoil.")), true
				}
				return Poly{}, false
			})
		}
		ren := func(q Poly) string { return norm(q).String() }
		loLT, hiLT, u1, w1 := loopBounds(x, LT)
		loL, hiL, u2, w2 := loopBounds(x, L)
		if w1 != "" || w2 != "" || !u1 || !u2 {
			continue
		}
		out = tableStore{val: ren(e.Val), idx: ren(e.Idx[0]), loLT: ren(loLT), hiLT: ren(hiLT), loL: ren(loL), hiL: ren(hiL), pos: e.Pos, found: true}
		// LT < N+1
		want := pVar("$LT").Sub(cellP("GlobalVarsMain.N")).Sub(PInt(1))
		out.inProfile = e.HasGuard(func(c *Cond) bool {
			if c.Kind != "cmp" {
				return false
			}
			P := norm(c.P)
			return (P.Equal(stripVersions(want)) && c.Op == token.LSS) || (P.Equal(stripVersions(want).Neg()) && c.Op == token.GTR) ||
				(P.Equal(stripVersions(want).Add(PInt(1))) && c.Op == token.LEQ) || (P.Equal(stripVersions(want).Add(PInt(1)).Neg()) && c.Op == token.GEQ)
		})
	}
	return out
}

func c15Recompute(p *Prog, r *Report) {
	run := walked(p, "hermes.HermesSession.Run")
	in := walked(p, "hermes.Input")
	if run == nil || in == nil {
		r.Ob("recompute", "-", false, "Run or Input not analysable")
		return
	}
	pairs := [][2]string{{"W", "FELDW"}, {"WMIN", "LIM"}, {"PORGES", "PRGES"}, {"WNOR", "NORMFK"}}
	for _, pr := range pairs {
		a := tableArm(in, "GlobalVarsMain."+pr[0], pr[1])
		b := tableArm(run, "GlobalVarsMain."+pr[0], pr[1])
		if !a.found || !b.found {
			r.Ob("recompute:"+pr[0], "-", false, fmt.Sprintf("table-arm store of %s not found (input routine: %v, daily update: %v)", pr[0], a.found, b.found))
			continue
		}
		same := a.val == b.val && a.idx == b.idx && a.loLT == b.loLT && a.hiLT == b.hiLT && a.loL == b.loL && a.hiL == b.hiL && a.inProfile && b.inProfile
		det := fmt.Sprintf("input routine: %s[%s] = %s for layers %s..%s of horizons %s..%s, inside the profile: %v; daily update: %s[%s] = %s for layers %s..%s of horizons %s..%s, inside the profile: %v",
			pr[0], a.idx, clip(a.val, 90), a.loLT, a.hiLT, a.loL, a.hiL, a.inProfile, pr[0], b.idx, clip(b.val, 90), b.loLT, b.hiLT, b.loL, b.hiL, b.inProfile)
		r.Ob("recompute:"+pr[0], p.Pos(b.pos), same, det)
	}
	// horizons with explicit values: all four arrays from the backup of the same layer, in the arm  FKA[horizon] > 0
	for _, pr := range pairs {
		root := "GlobalVarsMain." + pr[0]
		ok := false
		pos := "-"
		det := "no restore of " + pr[0] + " for horizons with explicit values inside the recompute arm"
		for _, e := range run.Events {
			if e.Kind != "assign" || e.Root != root || len(e.Idx) != 1 || len(e.Loops) < 3 {
				continue
			}
			if !stripVersions(e.Val).Equal(stripVersions(cellP(root+"_Backup", e.Idx[0]))) {
				continue
			}
			LT := e.Loops[len(e.Loops)-1]
			L := e.Loops[len(e.Loops)-2]
			if LT.Var == nil || L.Var == nil {
				continue
			}
			okIdx := stripVersions(e.Idx[0]).Equal(PAtom(LT.Var).Sub(PInt(1)))
			// explicit: FKA[L-1] > 0 (forwarded through the local)
			expl := e.HasGuard(func(c *Cond) bool {
				k := c.Key()
				return c.Kind != "not" && !strings.HasPrefix(k, "!") && strings.Contains(k, "GlobalVarsMain.FKA") && strings.Contains(k, "-1 + "+L.Var.Key) && strings.Contains(k, "> 0")
			})
			ok = okIdx && expl
			pos = p.Pos(e.Pos)
			det = fmt.Sprintf("%s[%s] = backup of the same layer: %v, in the arm 'the horizon has explicit values': %v [%s]", pr[0], stripVersions(e.Idx[0]), okIdx, expl, clip(guardKeys(inLoopGuards(e, L)), 200))
		}
		r.Ob("recompute:explicit:"+pr[0], pos, ok, det)
	}
	// the table row is re-read for every horizon, before the stores, with the horizon number
	{
		ok := false
		det := "no call of the texture-table routine in the recompute arm"
		for _, e := range run.Events {
			if e.Kind == "call" && e.Name == "hermes.Hydro" && len(e.Loops) >= 2 && len(e.Args) >= 1 {
				L := e.Loops[len(e.Loops)-1]
				if L.Var != nil {
					ok = stripVersions(e.Args[0]).Equal(PAtom(L.Var)) && len(inLoopGuards(e, L)) == 0
					det = fmt.Sprintf("Hydro(%s, …) once per horizon, unconditionally inside the horizon loop: %v", stripVersions(e.Args[0]), ok)
				}
			}
		}
		r.Ob("recompute:table-read", "-", ok, det)
	}
	// the saturated zone is re-imposed over the whole profile
	{
		ok := false
		det := "no sweep 'water content of layers at or below the table = field capacity' after the saturation call"
		for _, e := range run.Events {
			if e.Kind != "assign" || e.Root != "GlobalVarsMain.WG" || len(e.Idx) != 2 || len(e.Loops) < 2 {
				continue
			}
			if !stripVersions(e.Val).Equal(stripVersions(cellP("GlobalVarsMain.W", e.Idx[1]))) {
				continue
			}
			Lz := e.Loops[len(e.Loops)-1]
			lo, hi, unit, why := loopBounds(run, Lz)
			if why != "" || Lz.Var == nil {
				continue
			}
			full := unit && lo.IsZero() && stripVersions(hi).Equal(cellP("GlobalVarsMain.N").Sub(PInt(1))) && stripVersions(e.Idx[1]).Equal(PAtom(Lz.Var))
			ok = full
			det = fmt.Sprintf("sweep over layers %s..%s (must be 0..N−1, index = loop variable): %v", polyOr(lo), polyOr(hi), full)
		}
		r.Ob("recompute:saturated-zone", "-", ok, det)
	}
}

// c15RecomputeRest: route decision, field-capacity fallback and the moisture
// threshold of the daily update, compared with the input routine where it has
// the same statement.
func c15RecomputeRest(p *Prog, r *Report) {
	run := walked(p, "hermes.HermesSession.Run")
	in := walked(p, "hermes.Input")
	if run == nil || in == nil {
		return
	}
	day := dayLoop(run)
	// route: the table is re-read exactly when no transfer function is used and some horizon takes its values from the table
	var hydro *Event
	for _, e := range run.Events {
		if e.Kind == "call" && e.Name == "hermes.Hydro" && len(e.Loops) >= 2 {
			hydro = e
		}
	}
	if hydro != nil && day != nil {
		var ptf, cap_ bool
		extra := ""
		for _, g := range flattenGuards(inLoopGuards(hydro, day)) {
			if g.Loop {
				continue
			}
			P := stripVersions(g.P)
			switch {
			case g.Kind == "cmp" && g.Op == token.EQL && (P.Equal(cellP("GlobalVarsMain.PTF")) || P.Equal(cellP("GlobalVarsMain.PTF").Neg())):
				ptf = true
			case g.Kind == "cmp" && g.Op == token.EQL && (P.Equal(cellP("GlobalVarsMain.CAPPAR")) || P.Equal(cellP("GlobalVarsMain.CAPPAR").Neg())):
				cap_ = true
			case g.Kind == "cmp" && g.Op == token.NEQ && g.P.MentionsRoot("GlobalVarsMain.GRW"):
			default:
				extra += g.Key() + " "
			}
		}
		r.Ob("recompute:route", p.Pos(hydro.Pos), ptf && cap_ && extra == "", fmt.Sprintf("the table arm of the daily update runs under: no transfer function (PTF == 0): %v, table route flag (CAPPAR == 0): %v, other conditions: %s", ptf, cap_, orStr(extra, "none")))
	}
	// fallback of an empty table field capacity: same statement as in the input routine
	fb := func(x *Exec) (string, token.Pos) {
		for _, e := range x.Events {
			if e.Kind != "assign" || e.Root != "GlobalVarsMain.FELDW" || len(e.Idx) != 1 || len(e.Loops) == 0 {
				continue
			}
			L := e.Loops[len(e.Loops)-1]
			if L.Var == nil || !stripVersions(e.Val).MentionsRoot("GlobalVarsMain.FELDW") {
				continue
			}
			ren := func(q Poly) string {
				return stripVersions(q).Subst(func(a *Atom) (Poly, bool) {
					if a == L.Var {
						return pVar("$L"), true
					}
					return Poly{}, false
				}).String()
			}
			g := ""
			for _, c := range flattenGuards(inLoopGuards(e, L)) {
				if strings.Contains(c.Key(), "nil") {
					continue // error exit of the table routine (the daily update ignores that error: C11)
				}
				if c.Kind == "cmp" {
					g += ren(c.P) + " " + c.Op.String() + " 0; "
				} else {
					g += c.Key() + "; "
				}
			}
			return fmt.Sprintf("FELDW[%s] = %s under [%s]", ren(e.Idx[0]), ren(e.Val), g), e.Pos
		}
		return "", token.NoPos
	}
	a, _ := fb(in)
	b, bpos := fb(run)
	r.Ob("recompute:fallback", p.Pos(bpos), a != "" && a == b, fmt.Sprintf("empty table field capacity of a horizon — input routine: %s; daily update: %s", orStr(a, "not found"), orStr(b, "not found")))
	// the moisture threshold is recomputed on both arms of the update
	var calls []*Event
	for _, e := range run.Events {
		if e.Kind == "call" && e.Name == "hermes.calcWRed" && day != nil && e.InLoop(day) {
			calls = append(calls, e)
		}
	}
	okTable, okRestore := false, false
	det := ""
	for _, e := range calls {
		if len(e.Args) < 2 {
			continue
		}
		a0, a1 := stripVersions(e.Args[0]), stripVersions(e.Args[1])
		if len(e.Loops) >= 2 {
			// table arm: horizon 1 with explicit values: calcWRed(WP[L-1], FKA[L-1]) under L == 1
			L := e.Loops[len(e.Loops)-1]
			if L.Var == nil {
				continue
			}
			idx := PAtom(L.Var).Sub(PInt(1))
			first := e.HasGuard(func(c *Cond) bool {
				return c.Kind == "cmp" && c.Op == token.EQL && (stripVersions(c.P).Equal(PAtom(L.Var).Sub(PInt(1))) || stripVersions(c.P).Equal(PInt(1).Sub(PAtom(L.Var))))
			})
			expl := e.HasGuard(func(c *Cond) bool {
				k := c.Key()
				return c.Kind != "not" && !strings.HasPrefix(k, "!") && strings.Contains(k, "GlobalVarsMain.FKA") && strings.Contains(k, "> 0")
			})
			// after the table routine of the same horizon (which sets the threshold from the table texture as a side effect)
			after := hydro != nil && e.Seq > hydro.Seq
			okTable = a0.Equal(stripVersions(cellP("GlobalVarsMain.WP", idx))) && a1.Equal(stripVersions(cellP("GlobalVarsMain.FKA", idx))) && first && expl && after
			det += fmt.Sprintf("table arm: calcWRed(%s, %s) for the first horizon (%v) with explicit values (%v), after the table routine has run for that horizon (%v); ", a0, a1, first, expl, after)
		} else {
			want0 := cellP("GlobalVarsMain.WMIN", PInt(0)).Scale(ratInt(100))
			want1 := cellP("GlobalVarsMain.W", PInt(0)).Scale(ratInt(100))
			// the restore loop has just copied the backups: accept the forwarded backup cells as well
			b0 := cellP("GlobalVarsMain.WMIN_Backup", PInt(0)).Scale(ratInt(100))
			b1 := cellP("GlobalVarsMain.W_Backup", PInt(0)).Scale(ratInt(100))
			okRestore = (a0.Equal(stripVersions(want0)) || a0.Equal(stripVersions(b0))) && (a1.Equal(stripVersions(want1)) || a1.Equal(stripVersions(b1)))
			det += fmt.Sprintf("restore arm: calcWRed(%s, %s); ", clip(a0.String(), 50), clip(a1.String(), 50))
		}
	}
	r.Ob("recompute:threshold", "-", okTable && okRestore, "the mineralisation moisture threshold follows the restored / recomputed top layer on both arms: "+orStr(det, "no call found"))
}
