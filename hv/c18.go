package main

// C18 — a crop-parameter override on the batch line equals the same edit in
// the crop file.  Structural conditions: the accepted / applied / range-checked
// name tables agree per arity class, validation dominates every store and gets
// the right bounds, each override lands in the destination both readers fill,
// with the same scale and guards, quantities the readers derive from an
// overridable parameter are re-derived, and the override runs right after the
// reader, before anything consumes the parameters.

import (
	"fmt"
	"go/ast"
	"go/token"
	"go/types"
	"sort"
	"strings"
)

func init() { register("C18", checkC18) }

const (
	owApply    = "hermes.CropOverwrite.OverwriteCropParameters"
	owValidate = "hermes.CropOverwrite.isValidCropOverwrite"
)

type owStore struct {
	cat, name string
	e         *Event
	coef      string // coefficient of the single term
	extra     []string
}

// keyName extracts NAME from a guard  "NAME" − key == 0.
func keyName(c *Cond) (string, bool) {
	if c.Kind != "cmp" || c.Op != token.EQL {
		return "", false
	}
	ts := c.P.sortedTerms()
	if len(ts) != 2 {
		return "", false
	}
	var name string
	var haveKey bool
	for _, t := range ts {
		if len(t.M) != 1 || t.M[0].E != 1 {
			return "", false
		}
		a := t.M[0].A
		switch {
		case a.Kind == "str" && strings.HasPrefix(a.Key, "\""):
			name = strings.Trim(a.Key, "\"")
		case a.Kind == "loop" || a.Kind == "var":
			haveKey = true
		}
	}
	return name, name != "" && haveKey
}

func catOf(info *types.Info, e *Event) string {
	for _, L := range e.Loops {
		if L.Range && L.RangeX != nil {
			if t, ok := info.TypeOf(L.RangeX).Underlying().(*types.Map); ok && t != nil {
				if f := fieldOf(info, L.RangeX); f != "" {
					return f
				}
			}
		}
	}
	return ""
}

func c18ApplyTable(p *Prog) ([]owStore, *Exec) {
	x := walked(p, owApply)
	if x == nil {
		return nil, nil
	}
	var out []owStore
	for _, e := range x.Events {
		if e.Kind != "assign" || !(strings.HasPrefix(e.Root, "GlobalVarsMain.") || strings.HasPrefix(e.Root, "CropSharedVars.")) {
			continue
		}
		s := owStore{e: e, cat: catOf(x.Info, e)}
		for _, g := range flattenGuards(e.Guards) {
			if g.Loop {
				continue
			}
			if n, ok := keyName(g); ok {
				s.name = n
				continue
			}
			if g.Kind == "cmp" && g.Op == token.NEQ {
				if _, ok := keyName(&Cond{Kind: "cmp", Op: token.EQL, P: g.P}); ok {
					continue
				}
			}
			s.extra = append(s.extra, g.Key())
		}
		if t := e.Val.single(); t != nil {
			s.coef = ratStr(t.C)
		}
		out = append(out, s)
	}
	return out, x
}

func checkC18(p *Prog, r *Report) {
	stores, ax := c18ApplyTable(p)
	if ax == nil {
		r.Rule("C18.R1", "override tables", 1)
		r.Ob("apply", "-", false, owApply+" not found")
		return
	}
	c18Tables(p, r, stores)
	c18Validate(p, r, stores, ax)
	c18Transform(p, r, stores, ax)
	c18Derived(p, r, stores, ax)
	c18CallSite(p, r)
	c18Ranges(p, r)
	c18IndexTests(p, r)
	c18CropCode(p, r)
	c18ParseShape(p, r)
}

// ---------------------------------------------------------------- R1 tables

func c18Tables(p *Prog, r *Report, stores []owStore) {
	r.Rule("C18.R1", "three tables agree: every name the parser accepts is applied and range-checked in exactly one arity class (base, per stage, per stage and organ), and nothing is applied without a range check or range-checked without being applied; asked about each applied name the parser's filter answers yes, and no for a name that is no parameter", 39)
	// accepted names
	accepted := map[string]bool{}
	if fi := p.Funcs["hermes.isValidCropParameter"]; fi != nil {
		info := fi.Pkg.TypesInfo
		ast.Inspect(fi.Decl.Body, func(n ast.Node) bool {
			be, ok := n.(*ast.BinaryExpr)
			if !ok || be.Op != token.EQL {
				return true
			}
			for _, side := range []ast.Expr{be.X, be.Y} {
				if tv, ok := info.Types[side]; ok && tv.Value != nil && tv.Value.Kind().String() == "String" {
					accepted[strings.Trim(tv.Value.ExactString(), "\"")] = true
				}
			}
			return true
		})
	}
	applied := map[string]map[string]bool{}
	for _, s := range stores {
		if s.name == "" || s.cat == "" {
			continue
		}
		if applied[s.cat] == nil {
			applied[s.cat] = map[string]bool{}
		}
		applied[s.cat][s.name] = true
	}
	// validated names per category: error returns under "NAME" == key
	validated := map[string]map[string]bool{}
	rejectsUnknown := map[string]bool{}
	vx := walked(p, owValidate)
	if vx != nil {
		for _, e := range vx.Events {
			if e.Kind != "return" || len(e.Rets) < 2 || e.Rets[0].String() != "false" {
				continue
			}
			cat := catOf(vx.Info, e)
			if cat == "" {
				continue
			}
			named := false
			for _, g := range flattenGuards(e.Guards) {
				if n, ok := keyName(g); ok {
					if validated[cat] == nil {
						validated[cat] = map[string]bool{}
					}
					validated[cat][n] = true
					named = true
				}
			}
			if !named {
				// an error return with only negative name tests: unknown names are rejected
				neg := 0
				for _, g := range flattenGuards(e.Guards) {
					if g.Kind == "cmp" && g.Op == token.NEQ {
						if _, ok := keyName(&Cond{Kind: "cmp", Op: token.EQL, P: g.P}); ok {
							neg++
						}
					}
				}
				if neg > 0 {
					rejectsUnknown[cat] = true
				}
			}
		}
	}
	cats := map[string]bool{}
	for c := range applied {
		cats[c] = true
	}
	for c := range validated {
		cats[c] = true
	}
	var cl []string
	for c := range cats {
		cl = append(cl, c)
	}
	sort.Strings(cl)
	seenIn := map[string][]string{}
	for _, c := range cl {
		names := map[string]bool{}
		for n := range applied[c] {
			names[n] = true
		}
		for n := range validated[c] {
			names[n] = true
		}
		var nl []string
		for n := range names {
			nl = append(nl, n)
		}
		sort.Strings(nl)
		for _, n := range nl {
			a, v, acc := applied[c][n], validated[c][n], accepted[n]
			ok := a && v && acc
			det := fmt.Sprintf("%s/%s: accepted by the parser: %v, range-checked: %v, applied: %v", c, n, acc, v, a)
			if a && !v {
				det += " — applied without a range check (an out-of-range value is not rejected)"
				if rejectsUnknown[c] {
					det += "; the range check even rejects the name as unknown, so the override is never applied"
				}
			}
			if v && !a {
				det += " — accepted and checked but never applied: the run silently ignores the override"
			}
			r.Ob("name:"+c+":"+n, "-", ok, det)
			seenIn[n] = append(seenIn[n], c)
		}
	}
	var al []string
	for n := range accepted {
		al = append(al, n)
	}
	sort.Strings(al)
	for _, n := range al {
		if len(seenIn[n]) != 1 {
			r.Ob("accepted:"+n, "-", false, fmt.Sprintf("the parser accepts %s but it is applied in %d arity classes %v", n, len(seenIn[n]), seenIn[n]))
		}
	}
	var appliedNames []string
	for n := range seenIn {
		appliedNames = append(appliedNames, n)
	}
	sort.Strings(appliedNames)
	c18ParserAccepts(p, r, appliedNames)
}

// ---------------------------------------------------------------- R2 validation

func c18Validate(p *Prog, r *Report, stores []owStore, ax *Exec) {
	r.Rule("C18.R2", "validate-then-apply: every store of the override is guarded by a successful range validation of the whole set (a failed validation returns before any store), the validation checks stage indices against the number of stages and organ indices against the number of organs, and receives those two numbers in that order", 3)
	n, bad := 0, 0
	var firstBad *Event
	for _, s := range stores {
		n++
		ok := s.e.HasGuard(func(c *Cond) bool {
			return c.Kind == "opq" && strings.HasPrefix(c.Text, owValidate+".0(")
		})
		if !ok {
			bad++
			if firstBad == nil {
				firstBad = s.e
			}
		}
	}
	pos := "-"
	det := fmt.Sprintf("%d stores of the override, %d not guarded by the validation result", n, bad)
	if firstBad != nil {
		pos = p.Pos(firstBad.Pos)
		det += "; first: " + firstBad.Target()
	}
	r.Ob("stores-guarded", pos, bad == 0 && n > 0, det)
	// roles of the validation's parameters
	vfi := p.Funcs[owValidate]
	vx := walked(p, owValidate)
	if vfi == nil || vx == nil {
		r.Ob("validate", "-", false, owValidate+" not found")
		return
	}
	names := paramNames(vfi.Decl)
	role := map[string]string{} // param → "stage" | "part"
	lower := map[string]bool{}
	for _, e := range vx.Events {
		if e.Kind != "return" || len(e.Rets) < 2 || e.Rets[0].String() != "false" {
			continue
		}
		for _, g := range flattenGuards(e.Guards) {
			if g.Kind != "or" {
				continue
			}
			for _, sub := range g.Sub {
				if sub.Kind != "cmp" {
					continue
				}
				be, ok := sub.Expr.(*ast.BinaryExpr)
				if !ok {
					continue
				}
				what := ""
				for _, side := range []ast.Expr{be.X, be.Y} {
					switch t := side.(type) {
					case *ast.SelectorExpr:
						if t.Sel.Name == "Stage" {
							what = "stage"
						} else if t.Sel.Name == "Part" {
							what = "part"
						}
					case *ast.Ident:
						if obj := vx.Info.Uses[t]; obj != nil {
							// key of a range over DevelopmentStageParameters' inner map
							if t.Name == "stage" {
								what = "stage"
							}
						}
					}
				}
				if what == "" {
					continue
				}
				for _, side := range []ast.Expr{be.X, be.Y} {
					if id, ok := side.(*ast.Ident); ok {
						for _, pn := range names {
							if id.Name == pn {
								// index > param
								if (be.Op == token.GTR && side == be.Y) || (be.Op == token.LSS && side == be.X) {
									if role[pn] != "" && role[pn] != what {
										role[pn] = "conflict"
									} else {
										role[pn] = what
									}
								}
							}
						}
					}
					if tv, ok := vx.Info.Types[side]; ok && tv.Value != nil {
						onY := side == be.Y
						switch v := tv.Value.String(); {
						case v == "1" && ((onY && be.Op == token.LSS) || (!onY && be.Op == token.GTR)):
							lower[what] = true
						case v == "0" && ((onY && be.Op == token.LEQ) || (!onY && be.Op == token.GEQ)):
							lower[what] = true
						}
					}
				}
			}
		}
	}
	var stageP, partP string
	for pn, ro := range role {
		if ro == "stage" {
			stageP = pn
		}
		if ro == "part" {
			partP = pn
		}
	}
	// exact accepted ranges: [1, bound] for every index test
	exact := true
	exactDet := ""
	nTests := 0
	for _, e := range vx.Events {
		if e.Kind != "return" || len(e.Rets) < 2 || e.Rets[0].String() != "false" {
			continue
		}
		for _, g := range flattenGuards(e.Guards) {
			if g.Kind != "or" {
				continue
			}
			isIndexTest := false
			for _, sub := range g.Sub {
				if sub.Kind == "cmp" && (sub.P.MentionsAtom(varAtom(stageP)) || sub.P.MentionsAtom(varAtom(partP))) {
					isIndexTest = true
				}
			}
			if !isIndexTest {
				continue
			}
			nTests++
			lo, hi, ok := acceptedRange(g, names)
			exactDet += fmt.Sprintf("[%s] accepts %s..%s; ", clip(g.Key(), 60), lo, hi)
			if !ok || lo != "1" || !(hi == stageP || hi == partP) {
				exact = false
			}
		}
	}
	if nTests < 3 {
		exact = false
		exactDet += fmt.Sprintf("only %d index range tests found, 3 confirmed", nTests)
	}
	r.Ob("index-ranges-exact", p.Pos(vfi.Decl.Pos()), exact, "every stage/organ index test rejects exactly the indices outside [1, bound]: "+exactDet)
	r.Ob("bounds-in-validation", p.Pos(vfi.Decl.Pos()), stageP != "" && partP != "" && stageP != partP && lower["stage"] && lower["part"], fmt.Sprintf("stage indices are checked against [1, %s], organ indices against [1, %s] (roles derived from the comparisons: %v)", stageP, partP, role))
	// which fields are the number of stages / organs: from the classic reader's loops
	stageField, partField := c18CountFields(p)
	// call site
	for _, e := range ax.Events {
		if e.Kind != "call" || e.Name != owValidate {
			continue
		}
		ok := stageP != "" && partP != "" && len(e.Args) == len(names)
		det := ""
		for i, a := range e.Args {
			if i >= len(names) {
				break
			}
			arg := shortRoot(stripVersions(a).String())
			want := ""
			if names[i] == stageP {
				want = stageField
			} else if names[i] == partP {
				want = partField
			}
			det += fmt.Sprintf("%s ← %s (expected %s); ", names[i], arg, want)
			if want == "" || !strings.HasSuffix(stripVersions(a).String(), "."+want) {
				ok = false
			}
		}
		r.Ob("bounds-at-call", p.Pos(e.Pos), ok, det+fmt.Sprintf("the readers loop stages up to %s and organs up to %s", stageField, partField))
	}
}

// c18CountFields finds, in the classic reader, the loop bounds of the stage
// index (first index of PRO, index of TSUM) and of the organ index.
func c18CountFields(p *Prog) (stage, part string) {
	x := walked(p, "hermes.ReadCropParamClassic")
	if x == nil {
		return
	}
	for _, e := range x.Events {
		if e.Kind != "assign" || e.Root != "GlobalVarsMain.PRO" || len(e.Idx) != 2 || len(e.Loops) < 2 {
			continue
		}
		if c, ok := e.Val.ConstInt(); ok && c == 0 {
			continue
		}
		for _, L := range e.Loops {
			if L.Var == nil {
				continue
			}
			// the bound as written in the loop header (the walker forwards the stored count)
			f := ""
			if L.Cond != nil {
				if be, ok := L.Cond.Expr.(*ast.BinaryExpr); ok && (be.Op == token.LSS || be.Op == token.LEQ) {
					f = fieldOf(x.Info, be.Y)
				}
			}
			if f == "" {
				continue
			}
			if e.Idx[0].Equal(PAtom(L.Var)) {
				stage = f
			}
			if e.Idx[1].Equal(PAtom(L.Var)) {
				part = f
			}
		}
	}
	return
}

// ---------------------------------------------------------------- R3 transform

type readerStore struct {
	coef   string
	guards string
	src    string
	idx    string
}

func readerStores(p *Prog, key string) map[string][]readerStore {
	x := walked(p, key)
	out := map[string][]readerStore{}
	if x == nil {
		return out
	}
	for _, e := range x.Events {
		if e.Kind != "assign" || !(strings.HasPrefix(e.Root, "GlobalVarsMain.") || strings.HasPrefix(e.Root, "CropSharedVars.")) {
			continue
		}
		if _, isC := e.Val.Const(); isC {
			continue
		}
		t := e.Val.single()
		if t == nil {
			continue
		}
		var gs []string
		for _, g := range flattenGuards(e.Guards) {
			if g.Loop || strings.Contains(g.Key(), "@L") && g.Kind == "cmp" && !strings.Contains(g.Key(), "GlobalVarsMain.") {
				continue
			}
			gs = append(gs, stripCondVersions(g))
		}
		src := ""
		for _, f := range t.M {
			src += f.A.Key
		}
		var idx []string
		for _, ix := range e.Idx {
			idx = append(idx, ix.String())
		}
		out[e.Root] = append(out[e.Root], readerStore{coef: ratStr(t.C), guards: strings.Join(gs, " ; "), src: src, idx: strings.Join(idx, ",")})
	}
	return out
}

func stripCondVersions(c *Cond) string {
	switch c.Kind {
	case "cmp":
		return (&Cond{Kind: "cmp", Op: c.Op, P: stripVersions(c.P)}).Key()
	case "and", "or":
		n := &Cond{Kind: c.Kind}
		var ss []string
		for _, s := range c.Sub {
			ss = append(ss, stripCondVersions(s))
		}
		sep := " && "
		if c.Kind == "or" {
			sep = " || "
		}
		_ = n
		return "(" + strings.Join(ss, sep) + ")"
	case "not":
		return "!(" + stripCondVersions(c.Sub[0]) + ")"
	}
	k := verRe.ReplaceAllString(c.Key(), "")
	// the two readers spell the perennial flag differently before it is stored
	k = strings.ReplaceAll(k, "conv:bool(cropParam.DAUERKULT)", "GlobalVarsMain.DAUERKULT")
	return k
}

func c18Transform(p *Prog, r *Report, stores []owStore, ax *Exec) {
	r.Rule("C18.R3", "same transform as the crop file: each override is stored to the destination both crop-parameter readers fill from the file field of that name, with the same scale factor, under the same state guards, at index (stage−1[, organ−1])", 19)
	yml := readerStores(p, "hermes.ReadCropParamYml")
	cls := readerStores(p, "hermes.ReadCropParamClassic")
	done := map[string]bool{}
	for _, s := range stores {
		if s.name == "" {
			continue
		}
		key := s.cat + ":" + s.name
		if done[key] {
			// a second store under the same name: derived quantities (R4)
			continue
		}
		done[key] = true
		ok := true
		det := fmt.Sprintf("%s → %s × %s", s.name, s.e.Target(), s.coef)
		ys := yml[s.e.Root]
		var ym *readerStore
		for i := range ys {
			// the yaml source field carries the parameter's name (case-insensitive)
			if strings.HasSuffix(strings.ToUpper(fieldTail(ys[i].src)), strings.ToUpper(s.name)) {
				ym = &ys[i]
			}
		}
		if ym == nil {
			ok = false
			det += fmt.Sprintf("; the YAML reader does not fill %s from a field named %s (it fills it from %v)", shortRoot(s.e.Root), s.name, srcs(ys))
		} else {
			if ym.coef != s.coef {
				ok = false
				det += fmt.Sprintf("; scale differs from the YAML reader (× %s)", ym.coef)
			}
			sg := applyStateGuards(s)
			if sg != ym.guards && !(sg == "" && onlyCountGuards(ym.guards)) {
				ok = false
				det += fmt.Sprintf("; state guards differ: override {%s} vs YAML reader {%s}", sg, ym.guards)
			}
		}
		cs := cls[s.e.Root]
		if len(cs) == 0 {
			ok = false
			det += "; the classic reader does not fill this destination"
		} else {
			match := false
			for _, c := range cs {
				if c.coef == s.coef {
					match = true
				}
			}
			if !match {
				ok = false
				det += fmt.Sprintf("; scale differs from the classic reader (× %s)", cs[0].coef)
			}
		}
		// index form
		switch s.cat {
		case "DevelopmentStageParameters":
			if len(s.e.Idx) != 1 || !isKeyMinusOne(s.e.Idx[0]) {
				ok = false
				det += "; index is not stage − 1"
			}
		case "PartitioningParameters":
			if len(s.e.Idx) != 2 || !isFieldMinusOne(s.e.Idx[0], "Stage") || !isFieldMinusOne(s.e.Idx[1], "Part") {
				ok = false
				det += "; index is not [stage − 1][organ − 1]"
			}
		default:
			if len(s.e.Idx) != 0 {
				ok = false
			}
		}
		r.Ob("transform:"+s.cat+":"+s.name, p.Pos(s.e.Pos), ok, det)
	}
}

func fieldTail(s string) string {
	// "cropParam.CropDevelopmentStages.TSUM[i@L7]" → "TSUM"
	if i := strings.Index(s, "["); i >= 0 {
		s = s[:i]
	}
	if i := strings.LastIndex(s, "."); i >= 0 {
		s = s[i+1:]
	}
	return s
}

func srcs(rs []readerStore) []string {
	var o []string
	for _, x := range rs {
		o = append(o, fieldTail(x.src))
	}
	return o
}

func onlyCountGuards(g string) bool {
	// guards that only stem from preceding loops' exits in the reader
	return !strings.Contains(g, "GlobalVarsMain.") || g == ""
}

func applyStateGuards(s owStore) string {
	var gs []string
	for _, k := range s.extra {
		if strings.HasPrefix(k, "?"+owValidate) || strings.Contains(k, "cropOW.CropFile") {
			continue
		}
		gs = append(gs, k)
	}
	return strings.Join(gs, " ; ")
}

func isKeyMinusOne(q Poly) bool {
	ts := q.sortedTerms()
	if len(ts) != 2 {
		return false
	}
	c, a := false, false
	for _, t := range ts {
		if len(t.M) == 0 && t.C.Cmp(ratInt(-1)) == 0 {
			c = true
		}
		if len(t.M) == 1 && t.M[0].E == 1 && t.C.Cmp(ratInt(1)) == 0 && t.M[0].A.Kind == "loop" {
			a = true
		}
	}
	return c && a
}

func isFieldMinusOne(q Poly, field string) bool {
	ts := q.sortedTerms()
	if len(ts) != 2 {
		return false
	}
	c, a := false, false
	for _, t := range ts {
		if len(t.M) == 0 && t.C.Cmp(ratInt(-1)) == 0 {
			c = true
		}
		if len(t.M) == 1 && t.M[0].E == 1 && t.C.Cmp(ratInt(1)) == 0 && strings.HasSuffix(t.M[0].A.Key, "."+field) || len(t.M) == 1 && strings.Contains(t.M[0].A.Key, "."+field) {
			a = true
		}
	}
	return c && a
}

// ---------------------------------------------------------------- R4 derived quantities

func c18Derived(p *Prog, r *Report, stores []owStore, ax *Exec) {
	r.Rule("C18.R4", "quantities the readers derive from an overridable parameter at read time are re-derived by the override: for every reader assignment D = f(P, …) with P an overridable destination and D another field, the override arm of P also assigns D, after P, from P, with the recurrence (reset, increment, trip range) both readers use", 3)
	dests := map[string]string{} // field → override name
	for _, s := range stores {
		if s.name != "" {
			f := s.e.Root[strings.Index(s.e.Root, ".")+1:]
			if _, ok := dests[f]; !ok {
				dests[f] = s.name
			}
		}
	}
	type derived struct{ D, P, fn, pos string }
	var ds []derived
	seen := map[string]bool{}
	for _, key := range []string{"hermes.ReadCropParamClassic", "hermes.ReadCropParamYml"} {
		fi := p.Funcs[key]
		if fi == nil {
			continue
		}
		info := fi.Pkg.TypesInfo
		ast.Inspect(fi.Decl.Body, func(n ast.Node) bool {
			as, ok := n.(*ast.AssignStmt)
			if !ok {
				return true
			}
			for i, l := range as.Lhs {
				D := fieldOf(info, l)
				if D == "" || i >= len(as.Rhs) && len(as.Rhs) != 1 {
					continue
				}
				rhs := as.Rhs[0]
				if i < len(as.Rhs) {
					rhs = as.Rhs[i]
				}
				ast.Inspect(rhs, func(m ast.Node) bool {
					se, ok := m.(*ast.SelectorExpr)
					if !ok {
						return true
					}
					if sel, ok := info.Selections[se]; ok && sel.Kind() == types.FieldVal {
						stName, _ := namedStruct(sel.Recv())
						if (stName == "GlobalVarsMain" || stName == "CropSharedVars") && dests[se.Sel.Name] != "" && se.Sel.Name != D {
							k := D + "←" + se.Sel.Name
							if !seen[k+key] {
								seen[k+key] = true
								ds = append(ds, derived{D: D, P: se.Sel.Name, fn: key, pos: p.Pos(as.Pos())})
							}
						}
					}
					return true
				})
			}
			return true
		})
	}
	if len(ds) == 0 {
		r.Ob("derived", "-", false, "no derived-at-read quantity found (the total temperature sum was confirmed by hand)")
	}
	done := map[string]bool{}
	for _, d := range ds {
		k := d.D + "←" + d.P
		if done[k] {
			continue
		}
		done[k] = true
		name := dests[d.P]
		// in the apply arm of P: a store to D after the store to P whose value (unforwarded AST) reads P
		var pStore *Event
		okD := false
		for _, s := range stores {
			if s.name == name && strings.HasSuffix(s.e.Root, "."+d.P) {
				pStore = s.e
			}
		}
		fi := p.Funcs[owApply]
		info := fi.Pkg.TypesInfo
		if pStore != nil {
			for _, s := range stores {
				if s.name == name && strings.HasSuffix(s.e.Root, "."+d.D) && s.e.Seq > pStore.Seq {
					// its statement reads P
					if as, ok := s.e.Stmt.(*ast.AssignStmt); ok {
						for _, rhs := range as.Rhs {
							ast.Inspect(rhs, func(m ast.Node) bool {
								if se, ok := m.(*ast.SelectorExpr); ok && se.Sel.Name == d.P {
									if sel, ok := info.Selections[se]; ok && sel.Kind() == types.FieldVal {
										okD = true
									}
								}
								return true
							})
						}
					}
				}
			}
		}
		pos := d.pos
		if pStore != nil {
			pos = p.Pos(pStore.Pos)
		}
		c18DerivShape(p, r, d.D, []string{"hermes.ReadCropParamClassic", "hermes.ReadCropParamYml"})
		r.Ob("derived:"+k, pos, okD, fmt.Sprintf("%s derives %s from %s at %s; the override arm %s re-derives it after overriding %s: %v", strings.TrimPrefix(d.fn, "hermes."), d.D, d.P, d.pos, name, d.P, okD))
	}
}

// ---------------------------------------------------------------- R5 call site

func c18CallSite(p *Prog, r *Report) {
	r.Rule("C18.R5", "the override runs right after the crop parameter file is read, for both file formats, unconditionally (apart from the presence of an override set), and nothing reads or derives from the parameters in between", 1)
	x := walked(p, "hermes.PhytoOut")
	if x == nil {
		r.Ob("PhytoOut", "-", false, "hermes.PhytoOut not found")
		return
	}
	var readers []*Event
	var ow *Event
	for _, e := range x.Events {
		if e.Kind != "call" {
			continue
		}
		if e.Name == "hermes.ReadCropParamYml" || e.Name == "hermes.ReadCropParamClassic" {
			readers = append(readers, e)
		}
		if e.Name == owApply {
			if ow != nil {
				r.Ob("call", p.Pos(e.Pos), false, "the override is applied more than once")
			}
			ow = e
		}
	}
	if ow == nil || len(readers) == 0 {
		r.Ob("call", "-", false, fmt.Sprintf("override call found: %v, reader calls found: %d", ow != nil, len(readers)))
		return
	}
	last := readers[len(readers)-1]
	ok := ow.Seq > last.Seq
	det := ""
	// nothing in between
	for _, e := range x.Events[last.Seq+1 : ow.Seq] {
		if e.Kind == "assign" || e.Kind == "call" {
			ok = false
			det += fmt.Sprintf("; %s at %s runs between the reader and the override", orStr(e.Name, e.Target()), p.Pos(e.Pos))
			break
		}
	}
	// guards: those common to the reader calls plus the presence test
	common := map[string]int{}
	for _, rd := range readers {
		for _, g := range flattenGuards(rd.Guards) {
			common[g.Key()]++
		}
	}
	for _, g := range flattenGuards(ow.Guards) {
		if common[g.Key()] == len(readers) {
			continue
		}
		if g.Kind == "cmp" && g.Op == token.NEQ && strings.Contains(g.Key(), "CropOverwrite") && strings.Contains(g.Key(), "nil") {
			continue
		}
		ok = false
		det += "; the override additionally depends on " + g.Key()
	}
	// same file name as the reader
	if len(ow.Args) > 0 && len(last.Args) > 0 && !ow.Args[0].Equal(last.Args[0]) {
		ok = false
		det += "; the override is matched against a different file name than the one read"
	}
	r.Ob("call", p.Pos(ow.Pos), ok, "override applied directly after the reader"+det)
}

// acceptedRange turns a rejection guard  (idx < L) || (idx > U)  into the accepted integer range [lo, hi];
// hi is rendered as "<param>" or "<param>+k".
func acceptedRange(g *Cond, params []string) (lo, hi string, ok bool) {
	isParam := func(a *Atom) bool {
		for _, n := range params {
			if a.Kind == "var" && a.Root == n {
				return true
			}
		}
		return false
	}
	lo, hi = "?", "?"
	for _, sub := range g.Sub {
		if sub.Kind != "cmp" {
			return lo, hi, false
		}
		var idx, par *Atom
		var a, c, b int64
		good := true
		for _, t := range sub.P.sortedTerms() {
			if !t.C.IsInt() {
				good = false
				continue
			}
			v := t.C.Num().Int64()
			switch {
			case len(t.M) == 0:
				b = v
			case len(t.M) == 1 && t.M[0].E == 1 && isParam(t.M[0].A):
				par, c = t.M[0].A, v
			case len(t.M) == 1 && t.M[0].E == 1 && idx == nil:
				idx, a = t.M[0].A, v
			default:
				good = false
			}
		}
		if !good || idx == nil || (a != 1 && a != -1) {
			return lo, hi, false
		}
		op := sub.Op
		if a == -1 {
			b, c = -b, -c
			op = flipOp(op)
		}
		// idx + c·par + b  op  0   is the REJECTED region
		switch {
		case par == nil && (op == token.LSS || op == token.LEQ):
			m := -b // idx < −b  → accept ≥ −b
			if op == token.LEQ {
				m = -b + 1
			}
			lo = fmt.Sprintf("%d", m)
		case par != nil && c == -1 && (op == token.GTR || op == token.GEQ):
			k := -b // idx > par − b → accept ≤ par − b
			if op == token.GEQ {
				k = -b - 1
			}
			if k == 0 {
				hi = par.Root
			} else {
				hi = fmt.Sprintf("%s%+d", par.Root, k)
			}
		default:
			return lo, hi, false
		}
	}
	return lo, hi, lo != "?" && hi != "?"
}
