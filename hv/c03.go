package main

import (
	"fmt"
	"go/ast"
	"go/token"
	"go/types"
	"sort"
	"strconv"
	"strings"

	"golang.org/x/tools/go/ssa"
)

func init() { register("C03", checkC03) }

func checkC03(p *Prog, r *Report) {
	s := p.SSA()
	r.Extra["ssa_functions"] = len(s.fns)
	r.Extra["callgraph_nodes"] = len(s.cg.Nodes)
	c03Globals(p, r, s)
	c03Locks(p, r, s)
	c03PoolKey(p, r, "C03.R2c")
	c03Session(p, r, s, "C03.R2b")
	c03Pooled(p, r, s)
	c03Go(p, r, s)
	c03MapRanges(p, r, s)
	c03Ambient(p, r, s)
	dispatcherRule(p, r, "C03.R7")
	c03PartialOverlay(p, r)
	sessionOpenRule(p, r, "C03.R8")
}

// ---------------------------------------------------------------- R1 package state

var globalWriteAllowed = map[string]string{
	"main.main→concurrentOperations": "set while parsing the command line, before doConcurrentBatchRun starts the first goroutine",
}

func c03Globals(p *Prog, r *Report, s *ssaProg) {
	r.Rule("C03.R1", "no shared mutable package state: no store, map update or element store through a package-level variable of the in-scope packages outside package initialisation (concurrent runs share nothing but the session)", 1)
	nglob := 0
	for pk := range s.pkgs {
		for _, m := range pk.Members {
			if _, ok := m.(*ssa.Global); ok {
				nglob++
			}
		}
	}
	r.Extra["package_level_variables"] = nglob
	found := 0
	for _, fn := range s.fns {
		if fn.Name() == "init" && fn.Parent() == nil {
			continue
		}
		for _, b := range fn.Blocks {
			for _, in := range b.Instrs {
				var g *ssa.Global
				switch t := in.(type) {
				case *ssa.Store:
					g, _ = addrRoot(t.Addr).(*ssa.Global)
				case *ssa.MapUpdate:
					g, _ = addrRoot(t.Map).(*ssa.Global)
				}
				if g == nil || g.Pkg == nil || !s.pkgs[g.Pkg] {
					continue
				}
				found++
				key := fmt.Sprintf("%s.%s→%s", fnPkgName(fn), fn.Name(), g.Name())
				reason, ok := globalWriteAllowed[key]
				r.Ob("write:"+key, instrPos(p, in), ok, orStr(reason, "package-level variable "+g.Name()+" is written at run time: concurrent runs of one session would share it (data race / results depend on scheduling)"))
			}
		}
	}
	r.Ob("scanned", "-", nglob > 0, fmt.Sprintf("%d package-level variables, %d functions scanned, %d run-time writes", nglob, len(s.fns), found))
	// a package-level map, slice or pointer is a reference: handed to a struct field, a return value, an interface or a
	// callee it becomes reachable from per-run objects, and a store through that alias (a decoder filling a
	// configuration, say) changes the table for every other run.  Outside initialisation the loaded value of such a
	// variable may only be looked up, ranged over, indexed, measured or compared.
	nref, nesc := 0, 0
	for _, fn := range s.fns {
		if fn.Name() == "init" && fn.Parent() == nil {
			continue
		}
		for _, b := range fn.Blocks {
			for _, in := range b.Instrs {
				ld, ok := in.(*ssa.UnOp)
				if !ok || ld.Op != token.MUL {
					continue
				}
				g, ok := ld.X.(*ssa.Global)
				if !ok || g.Pkg == nil || !s.pkgs[g.Pkg] {
					continue
				}
				switch ld.Type().Underlying().(type) {
				case *types.Map, *types.Slice, *types.Pointer, *types.Chan:
				default:
					continue
				}
				nref++
				if ld.Referrers() == nil {
					continue
				}
				for _, u := range *ld.Referrers() {
					okUse := false
					switch t := u.(type) {
					case *ssa.Lookup:
						okUse = t.X == ld
					case *ssa.Range, *ssa.DebugRef:
						okUse = true
					case *ssa.Index:
						okUse = t.X == ld
					case *ssa.IndexAddr:
						// element address: reads only
						okUse = t.X == ld
						if t.Referrers() != nil {
							for _, uu := range *t.Referrers() {
								if st, isSt := uu.(*ssa.Store); isSt && st.Addr == t {
									okUse = false // element store: reported by the write rule above as well
								}
							}
						}
					case *ssa.BinOp:
						okUse = t.Op == token.EQL || t.Op == token.NEQ
					case *ssa.Call:
						if bi, isB := t.Call.Value.(*ssa.Builtin); isB && (bi.Name() == "len" || bi.Name() == "cap") {
							okUse = true
						}
					case *ssa.MapUpdate:
						okUse = false
					}
					if !okUse {
						nesc++
						r.Ob(fmt.Sprintf("alias:%s.%s→%s", fnPkgName(fn), fn.Name(), g.Name()), instrPos(p, u), false, fmt.Sprintf("the package-level %s %s is handed on (%T): from there it is reachable from per-run objects, and a store through that alias changes it for every concurrent and later run", ld.Type().String(), g.Name(), u))
					}
				}
			}
		}
	}
	r.Ob("alias:scanned", "-", nref > 0 && nesc == 0, fmt.Sprintf("%d run-time loads of package-level maps, slices and pointers; all are only looked up, ranged over, indexed, measured or compared", nref))
}

// ---------------------------------------------------------------- R2 lock discipline

type lockState struct{ locked, deferred int } // 0 no, 1 yes, 2 conflicting

func joinBit(a, b int) int {
	if a == b {
		return a
	}
	return 2
}

func c03Locks(p *Prog, r *Report, s *ssaProg) {
	r.Rule("C03.R2", "the file pool's map is only touched while its mutex is held: every access to FilePool.list is dominated by mux.Lock() with no Unlock in between on any path, and the lock is released exactly once on every exit", 2)
	n := 0
	for _, fn := range s.fns {
		touches := false
		for _, b := range fn.Blocks {
			for _, in := range b.Instrs {
				if fa, ok := in.(*ssa.FieldAddr); ok && isPoolList(fa) {
					touches = true
				}
			}
		}
		if !touches {
			continue
		}
		n++
		// forward dataflow
		in := map[*ssa.BasicBlock]lockState{}
		out := map[*ssa.BasicBlock]lockState{}
		seen := map[*ssa.BasicBlock]bool{}
		type viol struct {
			pos, what string
		}
		var viols []viol
		for iter := 0; iter < 10; iter++ {
			changed := false
			viols = nil
			for _, b := range fn.Blocks {
				var st lockState
				first := true
				for _, pb := range b.Preds {
					if !seen[pb] {
						continue
					}
					if first {
						st, first = out[pb], false
					} else {
						st = lockState{joinBit(st.locked, out[pb].locked), joinBit(st.deferred, out[pb].deferred)}
					}
				}
				if b == fn.Blocks[0] {
					st = lockState{}
				}
				in[b] = st
				for _, ins := range b.Instrs {
					switch t := ins.(type) {
					case *ssa.Call:
						switch mutexOp(t.Common()) {
						case "Lock":
							if st.locked == 1 {
								viols = append(viols, viol{instrPos(p, ins), "Lock while already held (self-deadlock)"})
							}
							st.locked = 1
						case "Unlock":
							if st.locked != 1 {
								viols = append(viols, viol{instrPos(p, ins), "Unlock without holding the lock on some path"})
							}
							st.locked = 0
						}
					case *ssa.Defer:
						if mutexOp(t.Common()) == "Unlock" {
							st.deferred = 1
						}
					case *ssa.FieldAddr:
						if isPoolList(t) && st.locked != 1 {
							viols = append(viols, viol{instrPos(p, ins), "the pool map is accessed without holding the mutex on some path (another run may be inserting a file: data race)"})
						}
					case *ssa.Return:
						rel := (st.locked == 1 && st.deferred == 1) || (st.locked == 0 && st.deferred == 0)
						if !rel {
							viols = append(viols, viol{instrPos(p, ins), fmt.Sprintf("at return: locked=%d deferredUnlock=%d — the mutex is not released exactly once on this exit", st.locked, st.deferred)})
						}
					case *ssa.RunDefers:
						// deferred Unlock runs here
					}
				}
				if !seen[b] || out[b] != st {
					out[b] = st
					seen[b] = true
					changed = true
				}
			}
			if !changed {
				break
			}
		}
		key := "pool:" + shortFn(fn)
		if len(viols) == 0 {
			r.Ob(key, p.Pos(fn.Pos()), true, "all accesses to the pool map are inside the locked region; lock released once on every exit")
		}
		for _, v := range viols {
			r.Ob(key, v.pos, false, v.what)
		}
		// only methods of FilePool may touch it
		if fn.Signature.Recv() == nil || !isNamed(fn.Signature.Recv().Type(), "/hermes", "FilePool") {
			r.Ob("pool-owner:"+shortFn(fn), p.Pos(fn.Pos()), false, "the pool map is accessed outside the methods of FilePool")
		}
	}
	if n == 0 {
		r.Ob("pool", "-", false, "no function accesses FilePool.list: mechanism not recognised")
	}
}

func isPoolList(fa *ssa.FieldAddr) bool {
	t := fa.X.Type()
	if pt, ok := t.Underlying().(*types.Pointer); ok {
		if st, ok := pt.Elem().Underlying().(*types.Struct); ok && isNamed(pt.Elem(), "/hermes", "FilePool") {
			return st.Field(fa.Field).Name() == "list"
		}
	}
	return false
}

func mutexOp(c *ssa.CallCommon) string {
	f := c.StaticCallee()
	if f == nil || f.Signature.Recv() == nil {
		return ""
	}
	if !isNamed(f.Signature.Recv().Type(), "sync", "Mutex") && !isNamed(f.Signature.Recv().Type(), "sync", "RWMutex") {
		return ""
	}
	switch f.Name() {
	case "Lock", "RLock":
		return "Lock"
	case "Unlock", "RUnlock":
		return "Unlock"
	}
	return ""
}

// ---------------------------------------------------------------- R2b session state

var sessionFieldsOnRunPath = map[string]string{
	"HermesFilePool":  "shared read-only file cache, accessed through its locked methods (R2)",
	"HermesOutWriter": "output writer factory; read on the run path, lazily defaulted only when nil (never nil: R2c)",
}

func c03Session(p *Prog, r *Report, s *ssaProg, rule string) {
	r.Rule(rule, "the session is the only object shared by concurrent runs and carries no run-dependent state: run-reachable code touches only the confirmed session fields, and sessions are constructed only by NewHermesSession (which sets the writer factory)", 3)
	run := s.runFn()
	if run == nil {
		r.Ob("run", "-", false, "HermesSession.Run not found")
		return
	}
	reach := s.reachable(run)
	r.Extra["run_reachable_functions"] = len(reach)
	seen := map[string]bool{}
	for _, fn := range s.fns {
		if !reach[fn] {
			continue
		}
		for _, b := range fn.Blocks {
			for _, in := range b.Instrs {
				var st *types.Struct
				var idx int
				var xt types.Type
				switch t := in.(type) {
				case *ssa.FieldAddr:
					xt = t.X.Type()
					idx = t.Field
				case *ssa.Field:
					xt = t.X.Type()
					idx = t.Field
				default:
					continue
				}
				if !isNamed(xt, "/hermes", "HermesSession") {
					continue
				}
				if pt, ok := xt.Underlying().(*types.Pointer); ok {
					st, _ = pt.Elem().Underlying().(*types.Struct)
				} else {
					st, _ = xt.Underlying().(*types.Struct)
				}
				if st == nil {
					continue
				}
				name := st.Field(idx).Name()
				key := "field:" + name + "@" + shortFn(fn)
				if seen[key] {
					continue
				}
				seen[key] = true
				reason, ok := sessionFieldsOnRunPath[name]
				r.Ob(key, instrPos(p, in), ok, orStr(reason, "session field "+name+" is used by run-reachable code but is not a confirmed run-independent field: state cached in the session makes a run depend on the runs before it and on scheduling"))
			}
		}
	}
	// stores to session fields on the run path: only the lazy default
	for _, fn := range s.fns {
		if !reach[fn] {
			continue
		}
		for _, b := range fn.Blocks {
			for _, in := range b.Instrs {
				st, ok := in.(*ssa.Store)
				if !ok {
					continue
				}
				fa, ok := st.Addr.(*ssa.FieldAddr)
				if !ok || !isNamed(fa.X.Type(), "/hermes", "HermesSession") {
					continue
				}
				// must be control-dependent on "field == nil"
				lazy := false
				if len(b.Preds) == 1 {
					if ifi, ok := b.Preds[0].Instrs[len(b.Preds[0].Instrs)-1].(*ssa.If); ok {
						if bo, ok := ifi.Cond.(*ssa.BinOp); ok && bo.Op == token.EQL && b.Preds[0].Succs[0] == b {
							if c, ok := bo.Y.(*ssa.Const); ok && c.IsNil() {
								lazy = true
							}
						}
					}
				}
				r.Ob("store@"+shortFn(fn), instrPos(p, in), lazy, "store to a session field on the run path; accepted only as lazy default under '== nil'")
			}
		}
	}
	// who constructs sessions
	n := 0
	for _, pk := range p.Pkgs {
		for _, f := range pk.Syntax {
			ast.Inspect(f, func(nd ast.Node) bool {
				cl, ok := nd.(*ast.CompositeLit)
				if !ok {
					return true
				}
				if name, _ := namedStruct(pk.TypesInfo.TypeOf(cl)); name != "HermesSession" {
					return true
				}
				n++
				// enclosing function
				encl := ""
				for _, d := range f.Decls {
					if fd, ok := d.(*ast.FuncDecl); ok && fd.Pos() <= cl.Pos() && cl.End() <= fd.End() {
						encl = fd.Name.Name
					}
				}
				setsWriter := false
				for _, el := range cl.Elts {
					if kv, ok := el.(*ast.KeyValueExpr); ok {
						if id, ok := kv.Key.(*ast.Ident); ok && id.Name == "HermesOutWriter" {
							setsWriter = true
						}
					}
				}
				r.Ob("constructor:"+encl, p.Pos(cl.Pos()), encl == "NewHermesSession" && setsWriter, fmt.Sprintf("HermesSession literal in %s, sets the writer factory: %v", encl, setsWriter))
				return true
			})
		}
	}
	if n == 0 {
		r.Ob("constructor", "-", false, "no HermesSession constructor literal found")
	}
}

// ---------------------------------------------------------------- R3 pooled bytes are read-only

var readOnlySinks = map[string]bool{
	"bytes.NewReader":                    true,
	"gopkg.in/yaml.v3.Unmarshal":         true,
	"bytes.NewBuffer":                    false,
	"(*bytes.Reader).Read":               true,
	"bufio.NewScanner":                   true,
	"string":                             true,
	"len":                                true,
	"gopkg.in/yaml.v3.NewDecoder":        true,
	"encoding/json.Unmarshal":            true,
	"bytes.Contains":                     true,
	"bytes.Split":                        false, // returns sub-slices that alias
	"strings.NewReader":                  true,
	"(*gopkg.in/yaml.v3.Decoder).Decode": true,
}

func c03Pooled(p *Prog, r *Report, s *ssaProg) {
	r.Rule("C03.R3", "pooled file contents are read-only: the byte slice handed out by FilePool.Get flows only into readers/decoders, length/indexed loads and returns; never into an element store, append, copy destination or an unknown callee", 2)
	var get *ssa.Function
	for _, fn := range s.fns {
		if fn.Name() == "Get" && fn.Signature.Recv() != nil && isNamed(fn.Signature.Recv().Type(), "/hermes", "FilePool") {
			get = fn
		}
	}
	if get == nil {
		r.Ob("Get", "-", false, "FilePool.Get not found")
		return
	}
	type item struct {
		v    ssa.Value
		from string
	}
	var work []item
	seen := map[ssa.Value]bool{}
	fnDone := map[*ssa.Function]bool{}
	var addCallers func(fn *ssa.Function, depth int)
	addCallers = func(fn *ssa.Function, depth int) {
		if fnDone[fn] || depth > 4 {
			return
		}
		fnDone[fn] = true
		n := s.cg.Nodes[fn]
		if n == nil {
			return
		}
		for _, e := range n.In {
			if e.Site == nil || !s.inScope[e.Caller.Func] {
				continue
			}
			if v := e.Site.Value(); v != nil {
				work = append(work, item{v, shortFn(fn) + " called in " + shortFn(e.Caller.Func)})
			}
		}
	}
	addCallers(get, 0)
	sites := 0
	for len(work) > 0 {
		it := work[len(work)-1]
		work = work[:len(work)-1]
		if seen[it.v] {
			continue
		}
		seen[it.v] = true
		refs := it.v.Referrers()
		if refs == nil {
			continue
		}
		for _, in := range *refs {
			pos := instrPos(p, in)
			switch t := in.(type) {
			case *ssa.Extract:
				// tuple result: only the []byte component carries the data
				if _, ok := t.Type().Underlying().(*types.Slice); ok {
					work = append(work, item{t, it.from})
				}
			case *ssa.Phi, *ssa.ChangeType, *ssa.MakeInterface, *ssa.Slice:
				work = append(work, item{in.(ssa.Value), it.from})
			case *ssa.Convert:
				// string(b) copies
			case *ssa.Return:
				sites++
				r.Ob("flow:return@"+shortFn(in.Parent()), pos, true, "returned to the caller (followed)")
				addCallers(in.Parent(), 1)
			case *ssa.Call:
				name := staticCalleeName(t.Common())
				if b, ok := t.Common().Value.(*ssa.Builtin); ok {
					name = b.Name()
				}
				// which argument position?
				okSink, known := readOnlySinks[name]
				if name == "append" {
					// append(pooled, ...) may write into spare capacity; append(x, pooled...) only reads
					if len(t.Common().Args) > 0 && t.Common().Args[0] == it.v {
						okSink, known = false, true
					} else {
						okSink, known = true, true
					}
				}
				if name == "copy" {
					okSink, known = len(t.Common().Args) > 0 && t.Common().Args[0] != it.v, true
				}
				sites++
				if !known {
					// in-scope callee: follow the parameter
					if f := t.Common().StaticCallee(); f != nil && s.inScope[f] {
						for i, a := range t.Common().Args {
							if a == it.v && i < len(f.Params) {
								work = append(work, item{f.Params[i], it.from})
							}
						}
						r.Ob("flow:"+name+"@"+shortFn(in.Parent()), pos, true, "passed to in-scope function (parameter followed)")
						continue
					}
					r.Ob("flow:"+name+"@"+shortFn(in.Parent()), pos, false, "pooled bytes are passed to "+name+", which is not a confirmed read-only sink: a write through the shared slice would corrupt other runs")
					continue
				}
				r.Ob("flow:"+name+"@"+shortFn(in.Parent()), pos, okSink, orStr(map[bool]string{true: "read-only sink", false: ""}[okSink], "pooled bytes reach "+name+" in a position that can write through the shared slice"))
			case *ssa.IndexAddr:
				// element address: loads are fine, stores are not
				if rr := t.Referrers(); rr != nil {
					for _, u := range *rr {
						if st, ok := u.(*ssa.Store); ok && st.Addr == t {
							sites++
							r.Ob("flow:store@"+shortFn(in.Parent()), instrPos(p, u), false, "element store into the pooled slice: other runs of the session read the same bytes")
						}
					}
				}
			case *ssa.Store:
				if t.Val == it.v {
					// stored into a variable/field: follow loads of that address
					if al, ok := t.Addr.(*ssa.Alloc); ok {
						if rr := al.Referrers(); rr != nil {
							for _, u := range *rr {
								if ld, ok := u.(*ssa.UnOp); ok && ld.Op == token.MUL {
									work = append(work, item{ld, it.from})
								}
							}
						}
					} else if _, isMapPool := addrRoot(t.Addr).(*ssa.Parameter); isMapPool && in.Parent() == get {
						// the pool's own map
					} else {
						sites++
						r.Ob("flow:escape@"+shortFn(in.Parent()), pos, in.Parent() == get, "pooled bytes are stored into a longer-lived location (not followed further)")
					}
				}
			case *ssa.MapUpdate:
				if in.Parent() != get {
					sites++
					r.Ob("flow:mapstore@"+shortFn(in.Parent()), pos, false, "pooled bytes stored into a map outside the pool")
				}
			case *ssa.Range, *ssa.Lookup, *ssa.Index, *ssa.BinOp, *ssa.DebugRef, *ssa.If:
			default:
				sites++
				r.Ob("flow:other@"+shortFn(in.Parent()), pos, false, fmt.Sprintf("unclassified use %T of pooled bytes", in))
			}
		}
	}
	if sites < 2 {
		r.Ob("flows", "-", false, fmt.Sprintf("only %d uses of pooled bytes found", sites))
	}
}

// ---------------------------------------------------------------- R4 goroutines

func c03Go(p *Prog, r *Report, s *ssaProg) {
	r.Rule("C03.R4", "goroutines that run simulations share nothing mutable with the dispatcher: every go statement that reaches Run calls a plain method/function (no closure over dispatcher variables), and every slice it passes is created in the same loop iteration", 1)
	run := s.runFn()
	n := 0
	for _, fn := range s.fns {
		for _, b := range fn.Blocks {
			for _, in := range b.Instrs {
				g, ok := in.(*ssa.Go)
				if !ok {
					continue
				}
				callee := g.Common().StaticCallee()
				reaches := callee != nil && (callee == run || s.reachable(callee)[run])
				if _, isClosure := g.Common().Value.(*ssa.MakeClosure); isClosure {
					mc := g.Common().Value.(*ssa.MakeClosure)
					reaches = s.reachable(mc.Fn.(*ssa.Function))[run]
				}
				if !reaches {
					continue
				}
				n++
				key := "go@" + shortFn(fn)
				if mc, isClosure := g.Common().Value.(*ssa.MakeClosure); isClosure && len(mc.Bindings) > 0 {
					var caps []string
					for _, bd := range mc.Bindings {
						caps = append(caps, bd.Name())
					}
					r.Ob(key, instrPos(p, in), false, fmt.Sprintf("simulation goroutine is a closure capturing %v by reference: dispatcher state is shared with the run", caps))
					continue
				}
				ok2 := true
				var det []string
				for _, a := range g.Common().Args {
					if _, isSlice := a.Type().Underlying().(*types.Slice); !isSlice {
						continue
					}
					// fresh per iteration: defined by a call in the same block or a dominating block inside the loop
					_, isCall := a.(*ssa.Call)
					det = append(det, fmt.Sprintf("slice argument %s defined by %T", a.Name(), a))
					if !isCall {
						ok2 = false
					}
				}
				r.Ob(key, instrPos(p, in), ok2, "go "+staticCalleeName(g.Common())+": "+strings.Join(det, "; "))
			}
		}
	}
	if n == 0 {
		r.Ob("go", "-", false, "no go statement reaching Run found")
	}
}

// ---------------------------------------------------------------- R5 map ranges

// Confirmed order-insensitive map iterations in run-reachable code, keyed by
// function and ranged expression.  Reason per entry (Appendix B.5).
var mapRangeOK = map[string]string{}

func c03MapRanges(p *Prog, r *Report, s *ssaProg) {
	r.Rule("C03.R5", "map-iteration order cannot reach results: every range over a map in run-reachable code is classified order-insensitive by an enumerated idiom (writes keyed by the loop key, boolean any/all, collect-then-sort, key lookup with distinct values, log-only effects)", 20)
	run := s.runFn()
	if run == nil {
		return
	}
	reach := s.reachable(run)
	reachDecl := map[*types.Func]bool{}
	for fn := range reach {
		if obj, ok := fn.Object().(*types.Func); ok {
			reachDecl[obj] = true
		}
		if fn.Parent() != nil {
			for f := fn; f != nil; f = f.Parent() {
				if obj, ok := f.Object().(*types.Func); ok {
					reachDecl[obj] = true
				}
			}
		}
	}
	var keys []string
	for k := range p.Funcs {
		keys = append(keys, k)
	}
	sort.Strings(keys)
	for _, k := range keys {
		fi := p.Funcs[k]
		if fi.Obj == nil || !reachDecl[fi.Obj] {
			continue
		}
		info := fi.Pkg.TypesInfo
		ast.Inspect(fi.Decl.Body, func(n ast.Node) bool {
			rs, ok := n.(*ast.RangeStmt)
			if !ok {
				return true
			}
			if _, isMap := info.TypeOf(rs.X).Underlying().(*types.Map); !isMap {
				return true
			}
			cls, why := classifyMapRange(p, fi, rs)
			r.Ob("range:"+strings.TrimPrefix(k, "hermes.")+":"+types.ExprString(rs.X), p.Pos(rs.Pos()), cls, why)
			return true
		})
	}
}

// Frozen exceptions for "returns an entry selected by value": reason per site.
var distinctByConstruction = map[string]string{
	"hermes.GlobalVarsMain.CropTypeToString:g.CropTypeLookup": "dynamic crop codes are assigned numSysCrops+len(map)+1 at insertion by ToCropType (the only writer): pairwise distinct",
}

// classifyMapRange decides order-insensitivity of one map range by idiom.
// K = objects derived from the loop key (injective per entry), V = objects
// derived from the loop value.
func classifyMapRange(p *Prog, fi *FuncInfo, rs *ast.RangeStmt) (bool, string) {
	info := fi.Pkg.TypesInfo
	K := map[types.Object]bool{}
	V := map[types.Object]bool{}
	if o := identObj(info, rs.Key); o != nil {
		K[o] = true
	}
	if o := identObj(info, rs.Value); o != nil {
		V[o] = true
	}
	mentions := func(e ast.Node, set map[types.Object]bool) bool {
		found := false
		ast.Inspect(e, func(m ast.Node) bool {
			if id, ok := m.(*ast.Ident); ok {
				if o := info.Uses[id]; o != nil && set[o] {
					found = true
				}
			}
			return true
		})
		return found
	}
	localTo := func(o types.Object) bool { return o != nil && o.Pos() >= rs.Pos() && o.Pos() < rs.End() }
	// taint fixpoint over definitions inside the body
	for changed := true; changed; {
		changed = false
		mark := func(lhs ast.Expr, rhs ast.Node) {
			o := identObj(info, lhs)
			if o == nil || !localTo(o) {
				return
			}
			if mentions(rhs, K) && !K[o] {
				K[o] = true
				changed = true
			}
			if mentions(rhs, V) && !V[o] {
				V[o] = true
				changed = true
			}
		}
		ast.Inspect(rs.Body, func(n ast.Node) bool {
			switch t := n.(type) {
			case *ast.AssignStmt:
				for i, l := range t.Lhs {
					if len(t.Rhs) == len(t.Lhs) {
						mark(l, t.Rhs[i])
					} else if len(t.Rhs) == 1 {
						mark(l, t.Rhs[0])
					}
				}
			case *ast.RangeStmt:
				if t.Key != nil {
					mark(t.Key, t.X)
				}
				if t.Value != nil {
					mark(t.Value, t.X)
				}
			case *ast.ValueSpec:
				for i, nm := range t.Names {
					if i < len(t.Values) {
						mark(nm, t.Values[i])
					}
				}
			}
			return true
		})
	}
	var problems []string
	effects := 0
	sorted := false
	var appended []types.Object
	guardTargets := map[string]map[string]bool{} // target → set of key constants
	rangedKey := fi.Key + ":" + types.ExprString(rs.X)
	valuesDistinct := func() (bool, string) {
		if reason, ok := distinctByConstruction[rangedKey]; ok {
			// validated: single writer of the map's elements
			return true, reason
		}
		if distinctMapValues(p, fi, rs.X) {
			return true, "map literal values are pairwise distinct constants"
		}
		return false, ""
	}
	// key-constant guard of a condition: conjunct  <K ident> == const
	keyConst := func(cond ast.Expr) string {
		out := ""
		var visit func(e ast.Expr)
		visit = func(e ast.Expr) {
			switch t := e.(type) {
			case *ast.ParenExpr:
				visit(t.X)
			case *ast.BinaryExpr:
				if t.Op == token.LAND {
					visit(t.X)
					visit(t.Y)
				} else if t.Op == token.EQL {
					for _, pair := range [][2]ast.Expr{{t.X, t.Y}, {t.Y, t.X}} {
						if id, ok := pair[0].(*ast.Ident); ok && K[info.Uses[id]] {
							if tv, ok := info.Types[pair[1]]; ok && tv.Value != nil {
								out = tv.Value.ExactString()
							}
						}
					}
				}
			}
		}
		visit(cond)
		return out
	}
	record := func(target, kc string) {
		if guardTargets[target] == nil {
			guardTargets[target] = map[string]bool{}
		}
		guardTargets[target][kc] = true
	}
	baseObj := func(e ast.Expr) types.Object {
		for {
			switch t := e.(type) {
			case *ast.ParenExpr:
				e = t.X
			case *ast.SelectorExpr:
				e = t.X
			case *ast.IndexExpr:
				e = t.X
			case *ast.StarExpr:
				e = t.X
			case *ast.Ident:
				return info.Uses[t]
			default:
				return nil
			}
		}
	}
	indexMentions := func(e ast.Expr, set map[types.Object]bool) bool {
		found := false
		ast.Inspect(e, func(n ast.Node) bool {
			if ix, ok := n.(*ast.IndexExpr); ok && mentions(ix.Index, set) {
				found = true
			}
			return true
		})
		return found
	}
	var check func(n ast.Node, kc string)
	check = func(n ast.Node, kc string) {
		switch t := n.(type) {
		case nil:
		case *ast.BlockStmt:
			for _, s := range t.List {
				check(s, kc)
			}
		case *ast.IfStmt:
			if t.Init != nil {
				check(t.Init, kc)
			}
			in := kc
			if c := keyConst(t.Cond); c != "" {
				in = c
			}
			check(t.Body, in)
			if t.Else != nil {
				check(t.Else, kc)
			}
		case *ast.SwitchStmt:
			onKey := false
			if id, ok := t.Tag.(*ast.Ident); ok && K[info.Uses[id]] {
				onKey = true
			}
			for _, c := range t.Body.List {
				cc := c.(*ast.CaseClause)
				in := kc
				if onKey && len(cc.List) >= 1 {
					var cs []string
					for _, e := range cc.List {
						if tv, ok := info.Types[e]; ok && tv.Value != nil {
							cs = append(cs, tv.Value.ExactString())
						}
					}
					if len(cs) == len(cc.List) {
						in = strings.Join(cs, "|")
					}
				}
				for _, s := range cc.Body {
					check(s, in)
				}
			}
		case *ast.ForStmt:
			check(t.Body, kc)
		case *ast.RangeStmt:
			check(t.Body, kc)
		case *ast.LabeledStmt:
			check(t.Stmt, kc)
		case *ast.DeclStmt, *ast.EmptyStmt, *ast.BranchStmt:
		case *ast.IncDecStmt:
			effects++
			o := baseObj(t.X)
			if localTo(o) || isIntegerType(info.TypeOf(t.X)) {
				return // counting is commutative on integers
			}
			problems = append(problems, fmt.Sprintf("%s: floating-point accumulation in iteration order", p.Pos(t.Pos())))
		case *ast.AssignStmt:
			for i, l := range t.Lhs {
				if id, ok := l.(*ast.Ident); ok {
					o := info.Defs[id]
					if o == nil {
						o = info.Uses[id]
					}
					if id.Name == "_" || localTo(o) {
						continue
					}
					effects++
					var rhs ast.Expr
					if i < len(t.Rhs) {
						rhs = t.Rhs[i]
					}
					if call, ok := rhs.(*ast.CallExpr); ok {
						if fid, ok := call.Fun.(*ast.Ident); ok && fid.Name == "append" {
							appended = append(appended, o)
							continue
						}
					}
					if rhs != nil {
						if tv, ok := info.Types[rhs]; ok && tv.Value != nil && t.Tok == token.ASSIGN {
							continue // constant flag
						}
					}
					if kc != "" {
						record(id.Name, kc)
						continue
					}
					if (t.Tok == token.ADD_ASSIGN || t.Tok == token.SUB_ASSIGN) && isIntegerType(info.TypeOf(l)) {
						continue
					}
					// an error value assigned for a later return
					if named, ok := info.TypeOf(l).(*types.Named); ok && named.Obj().Name() == "error" {
						continue
					}
					problems = append(problems, fmt.Sprintf("%s: assignment to outer variable %s depends on iteration order", p.Pos(t.Pos()), id.Name))
					continue
				}
				effects++
				o := baseObj(l)
				switch {
				case o != nil && localTo(o):
					// body-local object or the visited entry itself
				case o != nil && (K[o] || V[o]):
				case indexMentions(l, K):
				case kc != "":
					record(types.ExprString(stripIndex(l)), kc)
				case indexMentions(l, V):
					if ok, _ := valuesDistinct(); !ok {
						problems = append(problems, fmt.Sprintf("%s: store to %s is selected by the map VALUE and the map's values are not pairwise distinct (aliases): which entry wins depends on iteration order", p.Pos(t.Pos()), types.ExprString(l)))
					}
				default:
					problems = append(problems, fmt.Sprintf("%s: store to %s is not keyed by the loop key", p.Pos(t.Pos()), types.ExprString(l)))
				}
			}
		case *ast.ReturnStmt:
			for _, res := range t.Results {
				if tv, ok := info.Types[res]; ok && (tv.Value != nil || tv.IsNil()) {
					continue
				}
				if call, ok := res.(*ast.CallExpr); ok {
					if f := callee(info, call); f != nil && (f.FullName() == "fmt.Errorf" || f.FullName() == "errors.New") {
						continue // which message is reported may vary; that the run fails does not
					}
				}
				if named, ok := info.TypeOf(res).(*types.Named); ok && named.Obj().Name() == "error" {
					continue
				}
				if mentions(res, K) || mentions(res, V) {
					if ok, _ := valuesDistinct(); !ok && kc == "" {
						problems = append(problems, fmt.Sprintf("%s: returns an entry selected during iteration; with non-distinct values the first match depends on iteration order", p.Pos(t.Pos())))
					}
				}
			}
		case *ast.ExprStmt:
			call, ok := t.X.(*ast.CallExpr)
			if !ok {
				return
			}
			effects++
			f := callee(info, call)
			name := ""
			if f != nil {
				name = f.FullName()
			}
			confined := true
			for _, a := range call.Args {
				o := baseObj(a)
				if tv, ok := info.Types[a]; ok && tv.Value != nil {
					continue
				}
				if o != nil && (localTo(o) || K[o] || V[o]) {
					continue
				}
				confined = false
			}
			recvKeyed := false
			if se, ok := call.Fun.(*ast.SelectorExpr); ok {
				if o := baseObj(se.X); o != nil && (K[o] || V[o] || localTo(o)) {
					recvKeyed = true
				}
			}
			switch {
			case strings.HasPrefix(name, "fmt.Print"), strings.HasPrefix(name, "log.Print"), strings.HasPrefix(name, "log.Fatal"), strings.HasPrefix(name, "fmt.Fprint"):
			case types.ExprString(call.Fun) == "delete" || types.ExprString(call.Fun) == "panic":
			case kc != "":
			case recvKeyed:
			case confined && len(call.Args) > 0:
			case f != nil && p.ByObj[f] != nil && len(p.Fields().Mod[p.ByObj[f]]) == 0 && !p.Fields().Unk[p.ByObj[f]]:
			default:
				problems = append(problems, fmt.Sprintf("%s: call %s has effects that are not confined to the visited entry", p.Pos(t.Pos()), types.ExprString(call.Fun)))
			}
		case *ast.SendStmt:
			effects++
			ch := strings.ToLower(types.ExprString(t.Chan))
			if !strings.Contains(ch, "debug") && !strings.Contains(ch, "log") {
				problems = append(problems, fmt.Sprintf("%s: channel send inside a map range", p.Pos(t.Pos())))
			}
		default:
			problems = append(problems, fmt.Sprintf("%s: unclassified statement %T", p.Pos(n.Pos()), n))
		}
	}
	check(rs.Body, "")
	// a reflective store keyed by the loop key (FieldByName(key).Set…) can reach every field of the struct: an explicit
	// store to one of its fields under another key's constant is a second writer of that field — the entry visited
	// last wins
	reflectByKey := false
	ast.Inspect(rs.Body, func(n ast.Node) bool {
		if call, ok := n.(*ast.CallExpr); ok {
			if se, ok := call.Fun.(*ast.SelectorExpr); ok && se.Sel.Name == "FieldByName" && len(call.Args) == 1 && mentions(call.Args[0], K) {
				reflectByKey = true
			}
		}
		return true
	})
	if reflectByKey {
		for tgt, cs := range guardTargets {
			i := strings.LastIndex(tgt, ".")
			if i < 0 {
				continue
			}
			fld := tgt[i+1:]
			for c := range cs {
				if uq, err := strconv.Unquote(c); err == nil && uq != fld {
					problems = append(problems, fmt.Sprintf("field %s is stored under the key %s and, through the reflective store keyed by the loop key, under the key %q: when both keys are given the entry visited last wins", tgt, c, fld))
				}
			}
		}
	}
	for tgt, cs := range guardTargets {
		if len(cs) > 1 {
			var l []string
			for c := range cs {
				l = append(l, c)
			}
			sort.Strings(l)
			problems = append(problems, fmt.Sprintf("target %s is written under several key constants %v: the last visited entry wins", tgt, l))
		}
	}
	for _, o := range appended {
		ok := false
		ast.Inspect(fi.Decl.Body, func(n ast.Node) bool {
			if call, isCall := n.(*ast.CallExpr); isCall && call.Pos() > rs.End() {
				if f := callee(info, call); f != nil && f.Pkg() != nil && (f.Pkg().Path() == "sort" || f.Pkg().Path() == "slices") {
					for _, a := range call.Args {
						if refsRoot(info, a, o) {
							ok = true
						}
					}
				}
			}
			return true
		})
		if ok {
			sorted = true
		} else {
			problems = append(problems, fmt.Sprintf("slice %s collects entries in iteration order and is not sorted afterwards", o.Name()))
		}
	}
	if len(problems) > 0 {
		sort.Strings(problems)
		return false, "order-sensitive: " + strings.Join(problems, "; ")
	}
	return true, fmt.Sprintf("order-insensitive: %d effects, all keyed by the loop key / confined to the visited entry / constant flags / failure-only returns%s", effects, map[bool]string{true: " / collected then sorted", false: ""}[sorted])
}

func stripIndex(e ast.Expr) ast.Expr {
	for {
		switch t := e.(type) {
		case *ast.IndexExpr:
			e = t.X
		case *ast.ParenExpr:
			e = t.X
		default:
			return e
		}
	}
}

func identObj(info *types.Info, e ast.Expr) types.Object {
	id, ok := e.(*ast.Ident)
	if !ok || id.Name == "_" {
		return nil
	}
	if o := info.Defs[id]; o != nil {
		return o
	}
	return info.Uses[id]
}

func refsRoot(info *types.Info, e ast.Expr, o types.Object) bool {
	if o == nil {
		return false
	}
	found := false
	ast.Inspect(e, func(n ast.Node) bool {
		if id, ok := n.(*ast.Ident); ok && info.Uses[id] == o {
			found = true
		}
		return true
	})
	return found
}

// distinctMapValues: the ranged map is a package-level literal whose values
// are pairwise distinct constants.
func distinctMapValues(p *Prog, fi *FuncInfo, x ast.Expr) bool {
	info := fi.Pkg.TypesInfo
	id, ok := x.(*ast.Ident)
	if !ok {
		return false
	}
	obj := info.Uses[id]
	v, ok := obj.(*types.Var)
	if !ok || v.Parent() != v.Pkg().Scope() {
		return false
	}
	distinct := false
	for _, f := range fi.Pkg.Syntax {
		ast.Inspect(f, func(n ast.Node) bool {
			vs, ok := n.(*ast.ValueSpec)
			if !ok {
				return true
			}
			for i, nm := range vs.Names {
				if info.Defs[nm] != obj || i >= len(vs.Values) {
					continue
				}
				cl, ok := vs.Values[i].(*ast.CompositeLit)
				if !ok {
					continue
				}
				seen := map[string]bool{}
				distinct = true
				for _, el := range cl.Elts {
					kv, ok := el.(*ast.KeyValueExpr)
					if !ok {
						distinct = false
						continue
					}
					tv, ok := info.Types[kv.Value]
					if !ok || tv.Value == nil {
						distinct = false
						continue
					}
					if seen[tv.Value.ExactString()] {
						distinct = false
					}
					seen[tv.Value.ExactString()] = true
				}
			}
			return true
		})
	}
	return distinct
}

// ---------------------------------------------------------------- R6 ambient nondeterminism

var ambient = []string{"time.Now", "time.Since", "math/rand.", "os.Getpid", "os.Hostname", "os.Getenv", "os.Environ", "crypto/rand.", "runtime.NumGoroutine"}

func c03Ambient(p *Prog, r *Report, s *ssaProg) {
	r.Rule("C03.R6", "no ambient nondeterminism on the run path: run-reachable in-scope code does not call the clock, random sources, process identity or the environment", 1)
	run := s.runFn()
	if run == nil {
		return
	}
	reach := s.reachable(run)
	calls := 0
	for _, fn := range s.fns {
		if !reach[fn] {
			continue
		}
		for _, b := range fn.Blocks {
			for _, in := range b.Instrs {
				ci, ok := in.(ssa.CallInstruction)
				if !ok {
					continue
				}
				calls++
				name := staticCalleeName(ci.Common())
				for _, a := range ambient {
					if strings.HasPrefix(name, a) {
						r.Ob("ambient:"+name+"@"+shortFn(fn), instrPos(p, in), false, "run-reachable code calls "+name+": results would depend on when/where the run executes")
					}
				}
			}
		}
	}
	r.Ob("scanned", "-", calls > 100, fmt.Sprintf("%d call sites in %d run-reachable functions scanned against %v", calls, len(reach), ambient))
}

// ---------------------------------------------------------------- R2c cache key identity

// c03PoolKey: the shared file pool may only hand a run the bytes of the file
// that run asked for: every key used to index the pool's map is the very
// path expression that is read from disk (no normalisation that can merge two
// distinct files into one slot).
func c03PoolKey(p *Prog, r *Report, rule string) {
	r.Rule(rule, "cache key identity: in the file pool every index of the map is the same expression as the path handed to the file read, so two distinct files can never share a slot (a run never receives another file's bytes from the session cache); the file is read exactly on a miss, the bytes read are the ones stored, a failed read ends the run, the map is created only when nil", 7)
	fi := p.Funcs["hermes.FilePool.Get"]
	if fi == nil {
		r.Ob("Get", "-", false, "hermes.FilePool.Get not found")
		return
	}
	info := fi.Pkg.TypesInfo
	// single-assignment local aliases
	defs := map[types.Object][]ast.Expr{}
	ast.Inspect(fi.Decl.Body, func(n ast.Node) bool {
		if as, ok := n.(*ast.AssignStmt); ok && len(as.Lhs) == len(as.Rhs) {
			for i, l := range as.Lhs {
				if id, ok := l.(*ast.Ident); ok {
					obj := info.Defs[id]
					if obj == nil {
						obj = info.Uses[id]
					}
					if obj != nil {
						defs[obj] = append(defs[obj], as.Rhs[i])
					}
				}
			}
		}
		return true
	})
	var canon func(e ast.Expr, depth int) string
	canon = func(e ast.Expr, depth int) string {
		if id, ok := e.(*ast.Ident); ok && depth < 5 {
			if obj := info.Uses[id]; obj != nil && len(defs[obj]) == 1 {
				return canon(defs[obj][0], depth+1)
			}
		}
		if pe, ok := e.(*ast.ParenExpr); ok {
			return canon(pe.X, depth)
		}
		return types.ExprString(e)
	}
	var readArg string
	var readPos token.Pos
	ast.Inspect(fi.Decl.Body, func(n ast.Node) bool {
		if call, ok := n.(*ast.CallExpr); ok {
			if f := callee(info, call); f != nil && f.Pkg() != nil && (f.Pkg().Path() == "os" || f.Pkg().Path() == "io/ioutil") && (f.Name() == "ReadFile" || f.Name() == "Open") && len(call.Args) >= 1 {
				readArg = canon(call.Args[0], 0)
				readPos = call.Pos()
			}
		}
		return true
	})
	if readArg == "" {
		r.Ob("read", p.Pos(fi.Decl.Pos()), false, "no file read found in FilePool.Get")
		return
	}
	n := 0
	ast.Inspect(fi.Decl.Body, func(m ast.Node) bool {
		ie, ok := m.(*ast.IndexExpr)
		if !ok || fieldOf(info, ie.X) != "list" {
			return true
		}
		n++
		k := canon(ie.Index, 0)
		r.Ob("key", p.Pos(ie.Pos()), k == readArg, fmt.Sprintf("pool indexed by %s; the file read at %s uses %s", k, p.Pos(readPos), readArg))
		return true
	})
	if n == 0 {
		r.Ob("key", "-", false, "the pool's map is never indexed")
	}
	// load on miss: the file is read exactly when the key is absent, the bytes read are what is stored, a failed read ends the run
	var readCall *ast.CallExpr
	var readStmt *ast.AssignStmt
	ast.Inspect(fi.Decl.Body, func(m ast.Node) bool {
		if as, ok := m.(*ast.AssignStmt); ok && len(as.Rhs) == 1 {
			if call, ok := as.Rhs[0].(*ast.CallExpr); ok && call.Pos() == readPos {
				readCall, readStmt = call, as
			}
		}
		return true
	})
	if readCall == nil || len(readStmt.Lhs) != 2 {
		r.Ob("load-on-miss", p.Pos(readPos), false, "the file read is not bound to (data, err)")
		return
	}
	dataObj, errObj := useObj(info, readStmt.Lhs[0]), useObj(info, readStmt.Lhs[1])
	conds, loops := astPathConds(info, fi.Decl.Body, readCall)
	miss := len(conds) == 1 && len(loops) == 0
	for _, c := range conds {
		o := useObj(info, c.E)
		good := false
		if o != nil && c.Neg {
			for _, d := range defsOf(info, fi.Decl.Body, o) {
				if ie, ok := stripParens(d.Rhs).(*ast.IndexExpr); ok && d.Idx == 1 && fieldOf(info, ie.X) == "list" && canon(ie.Index, 0) == readArg {
					good = true
				}
			}
		}
		if !good {
			miss = false
		}
	}
	r.Ob("load-on-miss", p.Pos(readPos), miss, fmt.Sprintf("the file is read under [%s] (must be exactly 'the key is not in the pool': reading when present makes the result depend on whether an earlier run cached the file, not reading when absent hands out nothing)", joinConds(conds)))
	okErr, why := errorLeadsToExit(info, fi.Decl.Body, readCall)
	r.Ob("read-error-exit", p.Pos(readPos), okErr, fmt.Sprintf("a failed read ends the run instead of caching empty bytes for every later run: %v %s", okErr, why))
	stored := false
	det := "the bytes read are never stored in the pool"
	ast.Inspect(fi.Decl.Body, func(m ast.Node) bool {
		as, ok := m.(*ast.AssignStmt)
		if !ok || len(as.Lhs) != 1 || len(as.Rhs) != 1 {
			return true
		}
		ie, ok := as.Lhs[0].(*ast.IndexExpr)
		if !ok || fieldOf(info, ie.X) != "list" {
			return true
		}
		sc, _ := astPathConds(info, fi.Decl.Body, as)
		extra := ""
		for _, c := range sc {
			if c.Neg && c.Exit != nil && isNilCmp(info, c.E, errObj, token.NEQ) {
				continue
			}
			isMiss := false
			for _, rc := range conds {
				if rc.Neg == c.Neg && types.ExprString(rc.E) == types.ExprString(c.E) {
					isMiss = true
				}
			}
			if !isMiss {
				extra += c.String() + " "
			}
		}
		stored = useObj(info, as.Rhs[0]) == dataObj && dataObj != nil && extra == "" && as.Pos() > readCall.Pos()
		det = fmt.Sprintf("pool[%s] = %s under [%s]", canon(ie.Index, 0), types.ExprString(as.Rhs[0]), joinConds(sc))
		return true
	})
	r.Ob("store-what-was-read", p.Pos(readPos), stored, det+" (must store the bytes just read, on the miss path only)")
	// lazy initialisation of the map
	initOK := false
	initDet := "no initialisation of the pool's map"
	ast.Inspect(fi.Decl.Body, func(m ast.Node) bool {
		as, ok := m.(*ast.AssignStmt)
		if !ok || len(as.Lhs) != 1 || fieldOf(info, as.Lhs[0]) != "list" {
			return true
		}
		if _, isSel := as.Lhs[0].(*ast.SelectorExpr); !isSel {
			return true
		}
		ic, _ := astPathConds(info, fi.Decl.Body, as)
		initOK = len(ic) == 1 && !ic[0].Neg && as.Pos() < readCall.Pos()
		if initOK {
			be, ok := stripParens(ic[0].E).(*ast.BinaryExpr)
			initOK = ok && be.Op == token.EQL && fieldOf(info, be.X) == "list" && types.ExprString(stripParens(be.Y)) == "nil"
		}
		if c, ok := as.Rhs[0].(*ast.CallExpr); !ok || types.ExprString(c.Fun) != "make" {
			initOK = false
		}
		initDet = fmt.Sprintf("map created under [%s]", joinConds(ic))
		return true
	})
	r.Ob("lazy-init", p.Pos(fi.Decl.Pos()), initOK, initDet+" (must be exactly 'the map is nil', before the lookup: creating it otherwise throws the cache away)")
}

// ---------------------------------------------------------------- a partially applied overlay must end the run

// c03PartialOverlay: the batch-line overlay ranges over the argument MAP and returns at the first value it cannot
// parse — the entries visited before it are applied, the ones after it are not, and which those are depends on the
// iteration order of the map.  The range is order-insensitive only because the failure ends the run (R5 classifies
// such returns as "failure-only").  Demanded: the caller of the overlay ends the run on its error.
func c03PartialOverlay(p *Prog, r *Report) {
	r.Rule("C03.R9", "an overlay that fails half way ends the run: the caller of the map-ordered batch-line overlay leads its error to a fatal exit or an error return (continuing would keep the overrides visited before the bad one and drop the ones after it — which those are changes from execution to execution)", 1)
	fi := p.Funcs["hermes.readConfig"]
	if fi == nil {
		r.Ob("overlay-failure-ends-run", "-", false, "hermes.readConfig not found")
		return
	}
	info := fi.Pkg.TypesInfo
	n := 0
	ast.Inspect(fi.Decl.Body, func(m ast.Node) bool {
		c, ok := m.(*ast.CallExpr)
		if !ok {
			return true
		}
		if id, ok := c.Fun.(*ast.Ident); !ok || id.Name != "commandlineOverride" {
			return true
		}
		n++
		okE, why := errorLeadsToExit(info, fi.Decl.Body, c)
		r.Ob("overlay-failure-ends-run", p.Pos(c.Pos()), okE, fmt.Sprintf("the error of the batch-line overlay ends the run: %v %s", okE, why))
		return true
	})
	if n == 0 {
		r.Ob("overlay-failure-ends-run", "-", false, "the call of the batch-line overlay was not found in the configuration reader")
	}
}
