package main

import (
	"fmt"
	"go/ast"
	"go/token"
	"go/types"
	"sort"
	"strings"
)

func init() { register("C07", checkC07) }

func checkC07(p *Prog, r *Report) {
	c07Decay(p, r)
	rateScaling(p, r, "C07.R3", dayRatesN, 6)
	c07Tillage(p, r)
	c07SignSafe(p, r)
	c07Writers(p, r)
	mineralBooks(p, r, "C07.R8")
	nmoveSweeps(p, r, "C07.R9")
	uptakeReset(p, r, "C07.R10")
	c07AppliedDissolved(p, r)
	c07CounterSigns(p, r)
	// "finite": the partial operations of the nitrogen routines stay inside their domains (shared machinery with C06.R6)
	domainRule(p, r, "C07.R7", "the nitrogen routines (denitrification, mineralisation, transport, daily bookkeeping) and the set-up of the organic N pools from the soil description", []string{"hermes.Denitr", "hermes.Denitmo", "hermes.mineral", "hermes.nmove", "hermes.Nitro", "hermes.SoilFileData.cNSetup", "hermes.Init"}, 60)
	c07CropShareOfFixation(p, r)
	// a residue-table row lost to a header skip leaves the crop without parameters: 0/0 in the residue split (shared with C10.R13)
	headerLineCounts(p, r, "C07.R14")
}

// ---------------------------------------------------------------- R1 decay pairing

func c07Decay(p *Prog, r *Report) {
	r.Rule("C07.R1", "decay pairing in the mineralisation routine: what leaves an organic pool (NAOS, NFOS) enters its mineralised-amount counter (MINAOS, MINFOS) with the same amount, layer and arm; dissolved fertiliser (UMS, NH4UMS) grows by exactly the per-layer dissolution term that feeds the source", 6)
	x := walked(p, "hermes.mineral")
	if x == nil {
		r.Ob("mineral", "-", false, "hermes.mineral not found")
		return
	}
	pairs := [][2]string{{"GlobalVarsMain.NAOS", "GlobalVarsMain.MINAOS"}, {"GlobalVarsMain.NFOS", "GlobalVarsMain.MINFOS"}}
	for _, pr := range pairs {
		n := 0
		for _, e := range x.Events {
			if e.Kind != "assign" || e.Root != pr[0] {
				continue
			}
			n++
			d := e.Val.Sub(e.Old)
			ok := false
			det := fmt.Sprintf("Δ%s[%s] = %s", shortRoot(pr[0]), e.Idx[0], d)
			// amount is a single decay term with coefficient −1
			t := d.single()
			if t == nil || t.C.Cmp(ratInt(-1)) != 0 {
				r.Ob("pool:"+shortRoot(pr[0]), p.Pos(e.Pos), false, det+": the pool changes by something other than minus one decay term")
				continue
			}
			for _, c := range x.Events {
				if c.Kind == "assign" && c.Root == pr[1] && idxEqual(c.Idx, e.Idx) && guardKeys(c.Guards) == guardKeys(e.Guards) {
					dc := c.Val.Sub(c.Old)
					if dc.Add(d).IsZero() {
						ok = true
						det += fmt.Sprintf("; Δ%s[%s] = %s at %s", shortRoot(pr[1]), c.Idx[0], dc, p.Pos(c.Pos))
					} else {
						det += fmt.Sprintf("; but Δ%s[%s] = %s at %s (pool + counter is not preserved)", shortRoot(pr[1]), c.Idx[0], dc, p.Pos(c.Pos))
					}
				}
			}
			if !ok && !strings.Contains(det, "but Δ") {
				det += "; no matching counter increment in the same arm and layer"
			}
			// the same term feeds the source
			src := false
			for _, c := range x.Events {
				if c.Kind == "assign" && c.Root == "GlobalVarsMain.DN" && idxEqual(c.Idx, e.Idx) && guardKeys(c.Guards) == guardKeys(e.Guards) {
					for _, f := range t.M {
						if c.Val.MentionsAtom(f.A) {
							src = true
						}
					}
				}
			}
			if !src {
				ok = false
				det += "; the decay term does not reach the mineralisation source DN of that layer"
			}
			r.Ob("pool:"+shortRoot(pr[0]), p.Pos(e.Pos), ok, det)
		}
		if n == 0 {
			r.Ob("pool:"+shortRoot(pr[0]), "-", false, "no decay of "+pr[0]+" in mineral")
		}
		// counters change only here (in this function) next to a pool decrement
		for _, c := range x.Events {
			if c.Kind == "assign" && c.Root == pr[1] {
				has := false
				for _, e := range x.Events {
					if e.Kind == "assign" && e.Root == pr[0] && idxEqual(c.Idx, e.Idx) && guardKeys(c.Guards) == guardKeys(e.Guards) && e.Val.Sub(e.Old).Add(c.Val.Sub(c.Old)).IsZero() {
						has = true
					}
				}
				r.Ob("counter:"+shortRoot(pr[1]), p.Pos(c.Pos), has, fmt.Sprintf("Δ%s[%s] = %s is mirrored by an equal decrement of %s", shortRoot(pr[1]), c.Idx[0], c.Val.Sub(c.Old), shortRoot(pr[0])))
			}
		}
	}
	// dissolution: UMS += DUMS[z], NH4UMS += DNH4UMS[z]; DUMS ∝ (DSUMM − UMS)
	diss := [][3]string{{"GlobalVarsMain.UMS", "NitroSharedVars.DUMS", "GlobalVarsMain.DSUMM"}, {"GlobalVarsMain.NH4UMS", "NitroSharedVars.DNH4UMS", "GlobalVarsMain.NH4Sum"}}
	for _, ds := range diss {
		n := 0
		for _, e := range x.Events {
			if e.Kind != "assign" || e.Root != ds[0] {
				continue
			}
			n++
			d := e.Val.Sub(e.Old)
			t := d.single()
			ok := t != nil && t.C.Cmp(ratInt(1)) == 0 && len(t.M) == 1 && t.M[0].A.Kind == "cell" && t.M[0].A.Root == ds[1] && t.M[0].E == 1
			r.Ob("dissolved:"+shortRoot(ds[0]), p.Pos(e.Pos), ok, fmt.Sprintf("Δ%s = %s (must be exactly the layer's dissolution term %s[z])", shortRoot(ds[0]), d, shortRoot(ds[1])))
		}
		if n == 0 {
			r.Ob("dissolved:"+shortRoot(ds[0]), "-", false, "no accumulation of "+ds[0])
		}
		// proportional to the undissolved remainder: value = k·(applied − dissolved), k free of both
		for _, e := range x.Events {
			if e.Kind != "assign" || e.Root != ds[1] {
				continue
			}
			if c, isC := e.Val.Const(); isC && c.Sign() == 0 {
				continue
			}
			v := stripVersions(e.Val)
			applied, dissolved := PAtom(cellAtom(ds[2], 0, nil)), PAtom(cellAtom(ds[0], 0, nil))
			// v / (applied − dissolved) must not mention either
			k := v.Div(applied.Sub(dissolved))
			ok := !k.MentionsRoot(ds[2]) && !k.MentionsRoot(ds[0])
			// Div by a sum produces an inv atom; test by substitution instead: v(applied:=dissolved) ≡ 0 and linear
			zero := v.Subst(func(a *Atom) (Poly, bool) {
				if a.Kind == "cell" && a.Root == ds[2] {
					return dissolved, true
				}
				return Poly{}, false
			})
			lin := true
			for _, t := range v.sortedTerms() {
				deg := 0
				for _, f := range t.M {
					if f.A.Kind == "cell" && (f.A.Root == ds[2] || f.A.Root == ds[0]) {
						deg += f.E
					}
				}
				if deg != 1 {
					lin = false
				}
			}
			_ = ok
			r.Ob("dissolution-form:"+shortRoot(ds[1]), p.Pos(e.Pos), zero.IsZero() && lin, fmt.Sprintf("%s[z] = %s must be k·(%s − %s): vanishes when everything is dissolved: %v, linear: %v", shortRoot(ds[1]), v, shortRoot(ds[2]), shortRoot(ds[0]), zero.IsZero(), lin))
		}
	}
}

// ---------------------------------------------------------------- R4 tillage

func c07Tillage(p *Prog, r *Report) {
	r.Rule("C07.R4", "tillage mixing preserves sums: for each mixed pool the summation loop and the averaging loop run over the same layers and the divisor equals their trip count; all mixed pools have the same array capacity; the mixing depth is capped at the number of soil layers", 11)
	x := walked(p, "hermes.Nitro")
	if x == nil {
		r.Ob("Nitro", "-", false, "hermes.Nitro not found")
		return
	}
	arrays := []string{"GlobalVarsMain.NFOS", "GlobalVarsMain.NAOS", "GlobalVarsMain.MINFOS", "GlobalVarsMain.MINAOS", "GlobalVarsMain.C1"}
	for _, A := range arrays {
		// averaging store: A[z] = v / D inside a loop, v an exit atom of a summation loop
		found := false
		for _, e := range x.Events {
			if e.Kind != "assign" || e.Root != A || len(e.Loops) == 0 || len(e.Idx) != 1 {
				continue
			}
			M := e.Loops[len(e.Loops)-1]
			if M.Var == nil || !e.Idx[0].Equal(PAtom(M.Var)) {
				continue
			}
			t := e.Val.single()
			if t == nil {
				continue
			}
			var sumAtom *Atom
			for _, f := range t.M {
				if f.A.Kind == "loop" && f.E == 1 && strings.HasSuffix(f.A.Key, "x") {
					sumAtom = f.A
				}
			}
			if sumAtom == nil {
				continue
			}
			D := PAtom(sumAtom).Div(e.Val)
			// the summation loop
			var S *LoopCtx
			var acc *Event
			for _, s := range x.Events {
				if s.Kind == "assign" && s.Local != nil && len(s.Loops) > 0 && s.Local.Name() == sumAtom.Root {
					L := s.Loops[len(s.Loops)-1]
					if fmt.Sprintf("%s@L%dx", s.Local.Name(), L.ID) == sumAtom.Key {
						S, acc = L, s
					}
				}
			}
			if S == nil {
				continue
			}
			found = true
			pos := p.Pos(e.Pos)
			d := acc.Val.Sub(acc.Old)
			okAcc := S.Var != nil && stripVersions(d).Equal(cellP(A, PAtom(S.Var)))
			zero := false
			if v, ok := S.Entry.vars[acc.Local]; ok && v.IsZero() {
				zero = true
			}
			slo, shi, sunit, swhy := loopBounds(x, S)
			mlo, mhi, munit, mwhy := loopBounds(x, M)
			okB := swhy == "" && mwhy == "" && sunit && munit && stripInt(slo).Equal(stripInt(mlo)) && stripInt(shi).Equal(stripInt(mhi))
			okD := false
			if swhy == "" {
				trip := stripInt(shi).Sub(stripInt(slo)).Add(PInt(1))
				okD = stripInt(D).Equal(trip)
			}
			// both the summation and the redistribution are unconditional within their loops
			uncond := len(inLoopGuards(acc, S)) == 0 && len(inLoopGuards(e, M)) == 0
			if !uncond {
				swhy += fmt.Sprintf(" — the pool is summed or written back only under {%s %s}: the layers left out keep their share while the divisor counts them", guardKeysOf(inLoopGuards(acc, S)), guardKeysOf(inLoopGuards(e, M)))
			}
			okAcc = okAcc && uncond
			r.Ob("mix:"+shortRoot(A), pos, okAcc && zero && okB && okD, fmt.Sprintf("sum over z=%s..%s of %s (accumulates %s, starts at zero: %v); redistributed over z=%s..%s divided by %s; bounds agree: %v, divisor equals trip count: %v %s%s", polyOr(slo), polyOr(shi), shortRoot(A), d, zero, polyOr(mlo), polyOr(mhi), D, okB, okD, swhy, mwhy))
		}
		if !found {
			r.Ob("mix:"+shortRoot(A), "-", false, "tillage mixing of "+A+" (sum loop + averaging loop) not found")
		}
	}
	// the mixing depth must not exceed the profile: layers beyond N are not part of the simulated soil (no transport,
	// no uptake), N moved there has left every balance
	{
		capN := false
		for _, e := range x.Events {
			if e.Kind == "assign" && e.Local != nil && e.Local.Name() == "mixtief" && isCapStore(e) {
				v := stripVersions(e.Val)
				if v.Equal(cellP("GlobalVarsMain.N")) || v.Equal(PCall("float64", cellP("GlobalVarsMain.N"))) {
					capN = true
				}
			}
			if e.Kind == "assign" && e.Local != nil && e.Local.Name() == "mixtief" && strings.Contains(e.Val.String(), "min(") && e.Val.MentionsRoot("GlobalVarsMain.N") {
				capN = true
			}
		}
		r.Ob("mix:depth<=profile", "-", capN, fmt.Sprintf("the mixing depth is capped at the number of soil layers before the pools are summed and redistributed: %v — on a soil shallower than the tillage depth the pools are otherwise averaged over, and written into, layers below the profile", capN))
	}
	// the mixing depth is a run-time value (tillage depth / layer thickness) bounded only by the profile: every
	// pool mixed by the same loops must have room for all layers the per-layer pools have, otherwise a tillage
	// deeper than the shortest array ends the whole process with an index panic instead of mixing
	if st := structOf(p, "GlobalVarsMain"); st != nil {
		lens := map[string]int64{}
		var maxLen int64
		for _, A := range arrays {
			name := shortRoot(A)
			for i := 0; i < st.NumFields(); i++ {
				if st.Field(i).Name() == name {
					if at, ok := st.Field(i).Type().Underlying().(*types.Array); ok {
						lens[name] = at.Len()
						if at.Len() > maxLen {
							maxLen = at.Len()
						}
					}
				}
			}
		}
		for _, A := range arrays {
			name := shortRoot(A)
			n, has := lens[name]
			r.Ob("mix:capacity:"+name, "-", has && n == maxLen, fmt.Sprintf("%s has %d elements; the pools mixed by the same loops have up to %d (the mixing loops run to the tillage depth, which is bounded by the profile only)", name, n, maxLen))
		}
	}
}

func structOf(p *Prog, name string) *types.Struct {
	if p.Hermes == nil {
		return nil
	}
	o := p.Hermes.Types.Scope().Lookup(name)
	if o == nil {
		return nil
	}
	st, _ := o.Type().Underlying().(*types.Struct)
	return st
}

// ---------------------------------------------------------------- R5 sign safety of mineral N stores

// confirmed overwrites (no arithmetic on the old value): reason per function
var c1Overwrites = map[string]string{
	"hermes.Init":              "initial profile from input",
	"hermes.HermesSession.Run": "measurement overwrite C1[z] = CN[MZ][z] (observed values)",
}

func lits(fi *FuncInfo) []*ast.FuncLit { return findFuncLits(fi.Decl.Body) }

func c07SignSafe(p *Prog, r *Report) {
	r.Rule("C07.R5", "every store to the per-layer mineral N is sign-safe: it stores 0, is the non-negative arm of its own <0 test, is followed by a floor at 0 on the same cell, adds a term guarded positive, or is a confirmed overwrite", 14)
	fx := p.Fields()
	fns := map[string]bool{}
	for _, a := range fx.WriteSites(FieldRef{"GlobalVarsMain", "C1"}) {
		if !a.Addr || a.Fn.Key == "hermes.Denitmo" {
			fns[a.Fn.Key] = true
		}
	}
	var keys []string
	for k := range fns {
		keys = append(keys, k)
	}
	sort.Strings(keys)
	for _, k := range keys {
		x := walked(p, k)
		if x == nil {
			continue
		}
		fn := strings.TrimPrefix(k, "hermes.")
		c07SignSafeIn(p, r, x, fn, k, "GlobalVarsMain.C1")
		// closures that write through a pointer to a C1 cell (Denitmo)
		fi := p.Funcs[k]
		for _, fl := range lits(fi) {
			if k == "hermes.HermesSession.Run" {
				continue // the run closure is what walked() analyses
			}
			lx := NewExec(p, fi)
			lx.RunBody(fl.Body)
			// pointer parameter cells: root is the parameter name
			for _, f := range fl.Type.Params.List {
				if _, isPtr := f.Type.(*ast.StarExpr); isPtr {
					for _, nm := range f.Names {
						// only if some call passes &g.C1[..] for it
						passes := false
						ast.Inspect(fi.Decl.Body, func(n ast.Node) bool {
							if call, ok := n.(*ast.CallExpr); ok {
								for _, a := range call.Args {
									if ue, ok := a.(*ast.UnaryExpr); ok && ue.Op == token.AND {
										refs, _ := selChain(fi.Pkg.TypesInfo, ue.X)
										for _, rf := range refs {
											if rf.Struct == "GlobalVarsMain" && rf.Field == "C1" {
												passes = true
											}
										}
									}
								}
							}
							return true
						})
						if passes {
							c07SignSafeIn(p, r, lx, fn+":closure", k, nm.Name)
						}
					}
				}
			}
		}
	}
}

func c07SignSafeIn(p *Prog, r *Report, x *Exec, fn, key, root string) {
	evs := x.Events
	for i, e := range evs {
		if e.Kind != "assign" || e.Root != root {
			continue
		}
		how := ""
		val := stripVersions(e.Val)
		switch {
		case e.Val.IsZero():
			how = "stores 0"
		case e.HasGuard(func(c *Cond) bool {
			return c.Kind == "cmp" && stripVersions(c.P).Equal(mkCmp(val, PZero(), token.GEQ, nil).P) && isCmp(&Cond{Kind: "cmp", P: stripVersions(c.P), Op: c.Op}, val, token.GEQ, token.GTR)
		}):
			how = "non-negative arm of its own <0 test"
		}
		if how == "" {
			// floor follows on the same cell
			for _, f := range evs[i+1:] {
				if f.Kind == "assign" && f.Root == root && idxEqual(f.Idx, e.Idx) {
					if f.Val.IsZero() && f.HasGuard(func(c *Cond) bool {
						return c.Kind == "cmp" && isCmp(&Cond{Kind: "cmp", P: stripVersions(c.P), Op: c.Op}, val, token.LSS, token.LEQ)
					}) {
						how = "followed by floor at 0 (" + p.Pos(f.Pos) + ")"
					}
					break
				}
			}
		}
		if how == "" {
			d := stripVersions(e.Val.Sub(e.Old))
			if e.HasGuard(func(c *Cond) bool {
				return c.Kind == "cmp" && isCmp(&Cond{Kind: "cmp", P: stripVersions(c.P), Op: c.Op}, d, token.GTR, token.GEQ)
			}) {
				how = "adds a term guarded positive"
			}
		}
		if how == "" {
			if !e.Val.MentionsRoot(root) {
				if reason, ok := c1Overwrites[key]; ok {
					how = "confirmed overwrite: " + reason
				}
			}
		}
		if how == "" && key == "hermes.SimulateFertilizationAfterPrognose" {
			// adds applied fertiliser amounts; non-negativity of the amounts is C16.R5 (max(·,0))
			d := e.Val.Sub(e.Old)
			neg := false
			for _, t := range d.T {
				if t.C.Sign() < 0 {
					neg = true
				}
			}
			if !neg {
				how = "adds fertiliser amounts with positive coefficients (amounts are floored at 0 where they are computed)"
			}
		}
		idx := ""
		if len(e.Idx) > 0 {
			idx = e.Idx[0].String()
		}
		r.Ob(fmt.Sprintf("%s:C1[%s]", fn, clip(idx, 40)), p.Pos(e.Pos), how != "", fmt.Sprintf("store %s = %s: %s", e.Target(), clip(val.String(), 200), orStr(how, "no floor, guard or test makes this store non-negative")))
	}
}

func orStr(s, alt string) string {
	if s == "" {
		return alt
	}
	return s
}

// ---------------------------------------------------------------- R6 writers of pools and counters

var poolWriters = map[string]map[string]string{
	"NAOS":     {"hermes.Init": "initial", "hermes.Nitro": "fertiliser/residue input, tillage mix", "hermes.PhytoOut": "dead roots / leaf loss input", "hermes.mineral": "decay"},
	"NFOS":     {"hermes.Init": "initial", "hermes.Nitro": "fertiliser/residue input, tillage mix", "hermes.PhytoOut": "dead roots input", "hermes.mineral": "decay"},
	"MINAOS":   {"hermes.Init": "initial", "hermes.Nitro": "tillage mix", "hermes.mineral": "decay counter"},
	"MINFOS":   {"hermes.Init": "initial", "hermes.Nitro": "tillage mix", "hermes.mineral": "decay counter"},
	"UMS":      {"hermes.Init": "initial", "hermes.mineral": "dissolution", "hermes.HermesSession.Run": "reset with the measurement overwrite"},
	"AUFNASUM": {"hermes.nmove": "uptake on the first sub-step"},
}

func c07Writers(p *Prog, r *Report) {
	r.Rule("C07.R6", "who may write the organic pools and their counters: only the confirmed functions", 6)
	fx := p.Fields()
	var fields []string
	for f := range poolWriters {
		fields = append(fields, f)
	}
	sort.Strings(fields)
	for _, f := range fields {
		for _, w := range fx.Writers(FieldRef{"GlobalVarsMain", f}) {
			if strings.HasPrefix(w.Key, "hermes.NewDefault") {
				continue // output bindings take addresses for reading
			}
			reason, ok := poolWriters[f][w.Key]
			r.Ob("writer:"+f+":"+strings.TrimPrefix(w.Key, "hermes."), p.Pos(w.Decl.Pos()), ok, orStr(reason, "not a confirmed writer of "+f+": pool plus counter would change without an accounted input"))
		}
	}
}

// C07.R11 — "dissolved fertiliser never exceeds fertiliser applied" across
// resets: the dissolution routine keeps dissolved ≤ applied day by day (R1,
// R8), but the applied counters are also reset (re-initialisation on a
// measurement date).  A reset of an applied counter without the reset of its
// dissolved counter leaves dissolved > applied = 0, and the next days'
// dissolution increment (proportional to applied − dissolved) is negative.
func c07AppliedDissolved(p *Prog, r *Report) {
	r.Rule("C07.R11", "applied and dissolved fertiliser counters are reset together: every store to an applied counter (DSUMM, NH4Sum) that is not an increment of its own previous value is a reset to 0 and is accompanied, in the same function under the same conditions, by a reset to 0 of its dissolved counter (UMS, NH4UMS)", 2)
	pairs := [][2]string{{"DSUMM", "UMS"}, {"NH4Sum", "NH4UMS"}}
	n := 0
	for _, pr := range pairs {
		A, D := "GlobalVarsMain."+pr[0], "GlobalVarsMain."+pr[1]
		for _, w := range p.Fields().Writers(FieldRef{"GlobalVarsMain", pr[0]}) {
			if strings.HasPrefix(w.Key, "hermes.NewDefault") || w.Key == "hermes.NewGlobalVarsMain" {
				continue
			}
			wx := walked(p, w.Key)
			if wx == nil {
				r.Ob("pair:"+pr[0]+":"+short(w.Key), p.Pos(w.Decl.Pos()), false, "writer of the applied counter not analysable")
				continue
			}
			k := 0
			for _, e := range wx.Events {
				if e.Kind != "assign" || e.Root != A {
					continue
				}
				d := e.Val.Sub(e.Old)
				if !d.MentionsRoot(A) && !e.Val.Sub(d).IsZero() && e.Val.Sub(d).Equal(e.Old) && !d.IsZero() {
					// Val = Old + d with d free of the counter: an increment
					if !stripVersions(e.Val).IsZero() {
						continue
					}
				}
				k++
				n++
				ok := stripVersions(e.Val).IsZero()
				det := fmt.Sprintf("%s = %s", pr[0], clip(stripVersions(e.Val).String(), 60))
				if ok {
					found := false
					for _, e2 := range wx.Events {
						if e2.Kind == "assign" && e2.Root == D && stripVersions(e2.Val).IsZero() && guardKeys(e2.Guards) == guardKeys(e.Guards) {
							found = true
						}
					}
					ok = found
					det += fmt.Sprintf("; %s reset under the same conditions: %v", pr[1], found)
				} else {
					det += " — neither an increment nor a reset"
				}
				key := fmt.Sprintf("pair:%s:%s", pr[0], short(w.Key))
				if k > 1 {
					key += fmt.Sprintf("#%d", k)
				}
				r.Ob(key, p.Pos(e.Pos), ok, det)
			}
		}
	}
	if n == 0 {
		r.Ob("pair", "-", false, "no reset of an applied-fertiliser counter found (the re-initialisation on a measurement date was confirmed by hand)")
	}
}

// C07.R12 — "all cumulative N counters are … never negative": a counter that starts at 0 and only ever receives
// non-negative amounts stays non-negative.  For the loss counters of the denitrification routines the amount
// added on a call is decided by the sign analysis of the domain rule (path condition, stored values, named
// assumptions); an amount that may be negative is reported with what the analysis knows about it.
var c07LossCounters = map[string][]string{
	"hermes.Denitr":  {"GlobalVarsMain.CUMDENIT", "GlobalVarsMain.N2Odencum"},
	"hermes.Denitmo": {"GlobalVarsMain.CUMDENIT", "GlobalVarsMain.N2Odencum"},
}

func c07CounterSigns(p *Prog, r *Report) {
	r.Rule("C07.R12", "loss counters only grow: in the denitrification routines the amount added to the cumulative denitrification counter and to the cumulative N2O counter on a call is non-negative (factor-wise sign evaluation of the added expression on the syntax tree: constants, products and quotients, sums of equal-sign terms, powers of non-negative bases, floors and caps, max/min with a non-negative argument, the saturating response 1 − exp(t) for t ≤ 0, and the named non-negativity assumptions on mineral N, water content and pore volume); the daily N2O amount is the quantity added", 4)
	as := newAssumptions()
	var keys []string
	for k := range c07LossCounters {
		keys = append(keys, k)
	}
	sort.Strings(keys)
	for _, key := range keys {
		fi := p.Funcs[key]
		if fi == nil {
			r.Ob("counter-sign:"+short(key), "-", false, key+" not found")
			continue
		}
		info := fi.Pkg.TypesInfo
		for _, root := range c07LossCounters[key] {
			field := shortRoot(root)
			n := 0
			ast.Inspect(fi.Decl.Body, func(nd ast.Node) bool {
				as1, ok := nd.(*ast.AssignStmt)
				if !ok || len(as1.Lhs) != 1 || len(as1.Rhs) != 1 {
					return true
				}
				sel, ok := stripParens(as1.Lhs[0]).(*ast.SelectorExpr)
				if !ok || sel.Sel.Name != field {
					return true
				}
				n++
				// added amount: X = X + a + b …  or  X += a
				var added []ast.Expr
				okForm := true
				switch as1.Tok {
				case token.ADD_ASSIGN:
					added = []ast.Expr{as1.Rhs[0]}
				case token.ASSIGN:
					e := stripParens(as1.Rhs[0])
					for {
						be, isB := e.(*ast.BinaryExpr)
						if !isB || be.Op != token.ADD {
							break
						}
						added = append(added, be.Y)
						e = stripParens(be.X)
					}
					if types.ExprString(e) != types.ExprString(sel) {
						okForm = false
					}
				default:
					okForm = false
				}
				if !okForm {
					r.Ob("counter-sign:"+short(key)+":"+field, p.Pos(as1.Pos()), false, "the counter is not updated as 'counter + amount': "+clip(types.ExprString(as1.Rhs[0]), 100))
					return true
				}
				sg := newAstSigner(info, fi.Decl.Body, as)
				var tot Sg = sZ
				for _, a := range added {
					tot = sgAdd(tot, sg.sign(a))
				}
				var names []string
				for nme := range sg.used {
					names = append(names, nme)
				}
				sort.Strings(names)
				txt := ""
				for i := len(added) - 1; i >= 0; i-- {
					txt += " + " + types.ExprString(added[i])
				}
				r.Ob("counter-sign:"+short(key)+":"+field, p.Pos(as1.Pos()), tot&sN == 0, fmt.Sprintf("amount added to %s:%s has sign %s; assuming %v", field, clip(txt, 90), tot, names))
				// the daily amount reported is the amount added
				return true
			})
			if n == 0 {
				r.Ob("counter-sign:"+short(key)+":"+field, "-", false, "no accumulation of "+field+" in "+short(key))
			}
		}
	}
}

// ---------------------------------------------------------------- the per-crop share of the fixed N

// c07CropShareOfFixation: the per-crop record reports the N a crop fixed as "cumulative fixation minus what earlier
// crops were credited".  The cumulative counter is never reset, so the base must ACCUMULATE the shares of all earlier
// crops (base += previous share); a base that only remembers the previous crop's share credits the fixation of
// every crop before it a second time, from the third crop of a run on.
func c07CropShareOfFixation(p *Prog, r *Report) {
	r.Rule("C07.R13", "per-crop share of the fixed N in the crop record: share = cumulative fixation − base with base += previous share (accumulating) before it, in the same block of the run routine", 1)
	fi := p.Funcs["hermes.HermesSession.Run"]
	if fi == nil {
		r.Ob("fixation:crop-share", "-", false, "hermes.HermesSession.Run not found")
		return
	}
	info := fi.Pkg.TypesInfo
	isNFIXSUM := func(e ast.Expr) bool {
		se, ok := ast.Unparen(e).(*ast.SelectorExpr)
		if !ok || se.Sel.Name != "NFIXSUM" {
			return false
		}
		sel, ok := info.Selections[se]
		return ok && sel.Kind() == types.FieldVal
	}
	elem := func(e ast.Expr) (types.Object, string) {
		ix, ok := ast.Unparen(e).(*ast.IndexExpr)
		if !ok {
			return nil, ""
		}
		id, ok := ix.X.(*ast.Ident)
		if !ok {
			return nil, ""
		}
		tv, has := info.Types[ix.Index]
		if !has || tv.Value == nil {
			return nil, ""
		}
		return info.Uses[id], tv.Value.ExactString()
	}
	n, good := 0, false
	pos := "-"
	ast.Inspect(fi.Decl.Body, func(m ast.Node) bool {
		blk, ok := m.(*ast.BlockStmt)
		if !ok {
			return true
		}
		for i, st := range blk.List {
			as, ok := st.(*ast.AssignStmt)
			if !ok || len(as.Lhs) != 1 || len(as.Rhs) != 1 {
				continue
			}
			// A[1] = NFIXSUM − A[0]
			be, ok := ast.Unparen(as.Rhs[0]).(*ast.BinaryExpr)
			if !ok || be.Op != token.SUB || !isNFIXSUM(be.X) {
				continue
			}
			share, si := elem(as.Lhs[0])
			base, bi := elem(be.Y)
			if share == nil || share != base || si == bi {
				continue
			}
			n++
			pos = p.Pos(as.Pos())
			// before it in the block: A[bi] = A[bi] + A[si]
			for _, prev := range blk.List[:i] {
				pa, ok := prev.(*ast.AssignStmt)
				if !ok || len(pa.Lhs) != 1 || len(pa.Rhs) != 1 {
					continue
				}
				lo, li := elem(pa.Lhs[0])
				if lo != base || li != bi {
					continue
				}
				good = false
				if pa.Tok == token.ADD_ASSIGN {
					if o, k := elem(pa.Rhs[0]); o == base && k == si {
						good = true
					}
				} else if pb, ok := ast.Unparen(pa.Rhs[0]).(*ast.BinaryExpr); ok && pb.Op == token.ADD {
					o1, k1 := elem(pb.X)
					o2, k2 := elem(pb.Y)
					if o1 == base && o2 == base && ((k1 == bi && k2 == si) || (k1 == si && k2 == bi)) {
						good = true
					}
				}
			}
		}
		return true
	})
	r.Ob("fixation:crop-share", pos, n == 1 && good, fmt.Sprintf("%d site(s) derive a crop's share of the cumulative fixation; the base accumulates the shares of all earlier crops: %v", n, good))
}
