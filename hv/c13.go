package main

// C13 — alternative input encodings of the same content give identical
// results.  Sibling-reader agreement: the two (or three) readers of one input
// kind must fill the same destinations of the model state, with the same
// scale chain, parse kind, index shape and state guards.  Allowed differences
// are an explicit table with one reason per row.  Positions of fixed columns
// versus header-resolved tokens are data and are not compared.

import (
	"fmt"
	"go/ast"
	"go/constant"
	"go/token"
	"go/types"
	"math/big"
	"os"
	"path/filepath"
	"reflect"
	"regexp"
	"sort"
	"strings"

	"golang.org/x/tools/go/types/typeutil"
)

func init() { register("C13", checkC13) }

type sibStore struct {
	sig string
	pos string
}

var loopNameRe = regexp.MustCompile(`[A-Za-z_][A-Za-z0-9_]*@L[0-9]+x?`)
var verRe = regexp.MustCompile(`#-?[0-9]+`)
var opqRe = regexp.MustCompile(`‹[^›]*›[0-9]+`)
var callNoRe = regexp.MustCompile(`\(\)#[0-9]+\.[0-9]+`)

// valueSig renders a stored value with every parse source erased:
//
//	$F float parse, $I integer parse, $T tolerant float parse, $S raw text;
//
// cells of the model/record structs are kept (they are dependencies).
var sigGuards bool // include the model-state guards of a store in its signature

// stateGuardSig renders the guards of e that test model state (not file content or loop counters), with the
// reader-specific spelling of the perennial flag mapped back to the field.
func stateGuardSig(x *Exec, e *Event) string {
	flagKey := ""
	for _, f := range x.Events {
		if f.Kind == "assign" && f.Root == "GlobalVarsMain.DAUERKULT" && f.Seq < e.Seq {
			flagKey = stripVersions(f.Val).String()
		}
	}
	var gs []string
	for _, g := range flattenGuards(e.Guards) {
		if g.Loop {
			continue
		}
		k := stripCondVersions(g)
		if flagKey != "" {
			k = strings.ReplaceAll(k, flagKey, "GlobalVarsMain.DAUERKULT")
		}
		if !strings.Contains(k, "GlobalVarsMain.AKF") && !strings.Contains(k, "GlobalVarsMain.FRUCHT") && !strings.Contains(k, "GlobalVarsMain.DAUERKULT") {
			continue
		}
		gs = append(gs, k)
	}
	sort.Strings(gs)
	return strings.Join(gs, " ; ")
}

var sigUnify bool // erase the parse kind too (readers that go through local records)

func valueSig(q Poly, keep func(root string) bool) string {
	sub := q.Subst(func(a *Atom) (Poly, bool) {
		switch a.Kind {
		case "call", "opq":
			fn := a.Fn
			if fn == "" {
				// opaque call result atoms carry the callee in the key: name()#n.k
				if i := strings.Index(a.Key, "()#"); i > 0 {
					fn = a.Key[:i]
				}
			}
			switch {
			case strings.HasSuffix(fn, "TryValAsFloat") || strings.Contains(fn, "TryValAsFloat."):
				return pVar("$T"), true
			case strings.HasSuffix(fn, "ValAsFloat"):
				return pVar("$F"), true
			case strings.HasSuffix(fn, "ValAsInt"):
				return pVar("$I"), true
			case strings.HasSuffix(fn, "ValAsBool"):
				return pVar("$B"), true
			case fn == "float64" || fn == "int" || fn == "conv:float64" || fn == "conv:int":
				return Poly{}, false
			case fn == "conv:bool":
				return pVar("$S"), true
			case a.Kind == "opq" && strings.HasPrefix(a.Key, "‹"):
				return pVar("$S"), true
			case strings.Contains(fn, "Datum") || strings.Contains(a.Key, "Datum"):
				return pVar("$D"), true
			}
			if a.Kind == "opq" {
				return pVar("$S"), true
			}
		case "cell":
			if keep(a.Root) {
				return Poly{}, false
			}
			return pVar("$S"), true
		case "var", "loop", "phi":
			if strings.HasPrefix(a.Key, "$") {
				return Poly{}, false
			}
			return pVar("$v"), true
		case "str":
			return Poly{}, false
		}
		return Poly{}, false
	})
	if sigUnify {
		sub = sub.Subst(func(a *Atom) (Poly, bool) {
			if a.Kind == "var" && strings.HasPrefix(a.Key, "$") {
				return pVar("$"), true
			}
			return Poly{}, false
		})
	}
	s := sub.String()
	s = loopNameRe.ReplaceAllString(s, "i")
	s = verRe.ReplaceAllString(s, "")
	return s
}

func idxSig(idx []Poly) string {
	var ss []string
	for _, ix := range idx {
		s := ix.String()
		s = loopNameRe.ReplaceAllString(s, "i")
		s = verRe.ReplaceAllString(s, "")
		s = opqRe.ReplaceAllString(s, "$S")
		s = callNoRe.ReplaceAllString(s, "()")
		ss = append(ss, s)
	}
	return strings.Join(ss, ",")
}

// collectStores maps destination → set of signatures for one reader.
func collectStores(p *Prog, key string, destOK func(root string) bool, keep func(root string) bool, withIdx bool) map[string][]sibStore {
	out := map[string][]sibStore{}
	x := walked(p, key)
	if x == nil {
		return nil
	}
	seen := map[string]bool{}
	for _, e := range x.Events {
		if e.Kind != "assign" || !destOK(e.Root) {
			continue
		}
		d := e.Root
		if withIdx && len(e.Idx) > 0 {
			d += "[" + idxSig(e.Idx) + "]"
		}
		sig := valueSig(e.Val, keep)
		if sigGuards && len(e.Idx) > 0 {
			// the range each index runs over (the count field written in the loop header, or the ranged collection)
			var bs []string
			for _, ix := range e.Idx {
				for _, L := range e.Loops {
					if L.Var != nil && ix.Equal(PAtom(L.Var)) {
						switch {
						case L.Range && L.RangeX != nil:
							bs = append(bs, "range "+fieldOf(x.Info, L.RangeX))
						case headerBoundField(x, L) != "":
							bs = append(bs, "< "+headerBoundField(x, L))
						default:
							if _, hi, unit, why := loopBounds(x, L); why == "" && unit {
								if c, ok := hi.ConstInt(); ok {
									bs = append(bs, fmt.Sprintf("<= %d", c))
								}
							}
						}
					}
				}
			}
			if len(bs) > 0 {
				sig += "  for " + strings.Join(bs, ", ")
			}
		}
		if sigGuards && len(e.Idx) == 0 && len(e.Loops) > 0 && e.Val.MentionsRoot(e.Root) {
			// a scalar accumulated in a loop: the range it is accumulated over is part of its value
			L := e.Loops[len(e.Loops)-1]
			switch {
			case L.Range && L.RangeX != nil:
				sig += "  accumulated over range " + fieldOf(x.Info, L.RangeX)
			case headerBoundField(x, L) != "":
				sig += "  accumulated over < " + headerBoundField(x, L)
			default:
				if _, hi, unit, why := loopBounds(x, L); why == "" && unit {
					sig += "  accumulated up to " + verRe.ReplaceAllString(hi.String(), "")
				} else {
					sig += "  accumulated over an unrecognised loop"
				}
			}
		}
		if sigGuards {
			if gs := stateGuardSig(x, e); gs != "" {
				sig += "  if " + gs
			}
		}
		if seen[d+"\x00"+sig] {
			continue
		}
		seen[d+"\x00"+sig] = true
		out[d] = append(out[d], sibStore{sig: sig, pos: p.Pos(e.Pos)})
	}
	return out
}

type sibPair struct {
	guards  bool
	unify   bool
	name    string
	a, b    string
	destOK  func(string) bool
	keep    func(string) bool
	withIdx bool
	allowed map[string]string // dest → reason (difference accepted)
	min     int
}

func prefixIn(ps ...string) func(string) bool {
	return func(r string) bool {
		for _, p := range ps {
			if strings.HasPrefix(r, p) {
				return true
			}
		}
		return false
	}
}

func checkC13(p *Prog, r *Report) {
	model := prefixIn("GlobalVarsMain.", "CropSharedVars.", "InputSharedVars.")
	pairs := []sibPair{
		{guards: true, unify: true, name: "crop-parameters", a: "hermes.ReadCropParamClassic", b: "hermes.ReadCropParamYml", destOK: model, keep: model, withIdx: true, min: 40,
			allowed: map[string]string{
				"CropSharedVars.AboveGroundOrgans":    "the YAML reader assigns the typed list as a whole, the classic reader builds it digit by digit (same content; range check of the digits is done by both)",
				"CropSharedVars.AboveGroundOrgans[i]": "see CropSharedVars.AboveGroundOrgans",
			}},
		{name: "soil", a: "hermes.LoadSoil", b: "hermes.LoadSoilCSV", destOK: prefixIn("soildata."), keep: prefixIn("soildata."), withIdx: true, min: 20,
			allowed: map[string]string{
				"soildata.BULK[i]": "the csv layout may give a measured bulk density directly; the text layout always goes through the class table (both call the same class helper afterwards)",
			}},
		{unify: true, name: "measurements", a: "hermes.ExtractMeasuredDataTxt", b: "hermes.ExtractMeasuredDataCSV", destOK: prefixIn("GlobalVarsMain."), keep: prefixIn("GlobalVarsMain."), withIdx: false, min: 10,
			allowed: map[string]string{}},
	}
	siblingPairs(p, r, "C13.", pairs)
	c13Guards(p, r)
	c13Converter(p, r)
	c13Weather(p, r)
	c13Rotation(p, r)
	c13StaleItem(p, r)
	c13Headers(p, r, "C13.headers")
	c13RestOfC13(p, r)
}

func siblingPairs(p *Prog, r *Report, prefix string, pairs []sibPair) {
	for _, sp := range pairs {
		r.Rule(prefix+sp.name, fmt.Sprintf("sibling readers %s and %s fill the same destinations with the same value shape (scale factor, parse kind, dependencies on other fields) at the same index shape; accepted differences are listed with a reason", strings.TrimPrefix(sp.a, "hermes."), strings.TrimPrefix(sp.b, "hermes.")), sp.min)
		sigUnify = sp.unify
		sigGuards = sp.guards
		A := collectStores(p, sp.a, sp.destOK, sp.keep, sp.withIdx)
		B := collectStores(p, sp.b, sp.destOK, sp.keep, sp.withIdx)
		if A == nil || B == nil {
			r.Ob("readers", "-", false, "reader not found")
			continue
		}
		dests := map[string]bool{}
		for d := range A {
			dests[d] = true
		}
		for d := range B {
			dests[d] = true
		}
		var dl []string
		for d := range dests {
			dl = append(dl, d)
		}
		sort.Strings(dl)
		for _, d := range dl {
			sa, sb := sigSet(A[d]), sigSet(B[d])
			pos := "-"
			if len(A[d]) > 0 {
				pos = A[d][0].pos
			} else if len(B[d]) > 0 {
				pos = B[d][0].pos
			}
			same := strings.Join(sa, " | ") == strings.Join(sb, " | ")
			if reason, ok := sp.allowed[d]; ok {
				r.Ob("dest:"+d, pos, true, fmt.Sprintf("accepted difference: %s [%s: {%s}; %s: {%s}]", reason, short(sp.a), strings.Join(sa, " | "), short(sp.b), strings.Join(sb, " | ")))
				continue
			}
			det := fmt.Sprintf("%s: {%s}; %s: {%s}", short(sp.a), strings.Join(sa, " | "), short(sp.b), strings.Join(sb, " | "))
			if len(sa) == 0 || len(sb) == 0 {
				det = "filled by only one of the two readers — " + det
			} else if !same {
				det = "different value shape (scale, parse kind or dependencies) — " + det
			}
			r.Ob("dest:"+d, pos, same, det)
		}
	}
	sigUnify = false
	sigGuards = false
}

func c13RestOfC13(p *Prog, r *Report) {
	// the four date formats are encodings of the same dates: sibling agreement of the format arms (shared with C12.R6)
	c12ForwardArms(p, r, "C13.date-arms")
	// the three weather layouts meet in one normalisation: it must treat every record of every loaded year alike,
	// whatever the shape of the buffer a layout fills (one year per call, or all years at once) — shared with C04.R4
	c04Transform(p, r, "C13.weather-normalisation")
	c13OptionalColumns(p, r)
	c13OptionalValues(p, r)
	c13DefBeforeUse(p, r)
	c13HeaderNames(p, r)
	yamlKeysRule(p, r, "C13.yaml-keys", []string{"CropParam", "CropDevelopmentStage"})
	inputHelpers(p, r, "C13.input-helpers")
	yearExtensionRule(p, r, "C13.year-files")
	// all three layouts reach the model through the same year lookup: it hands over the days of that year and nothing
	// from the slots behind them, whose content depends on the layout's buffer (shared with C04.R5)
	c04LoadYear(p, r, "C13.year-lookup")
	lostWrites(p, r, "C13.lost-writes")
	c13MeasurementIdFilter(p, r)
	c13YamlWriter(p, r)
	c13RuneSlicing(p, r)
	c13YamlIndexAgreement(p, r)
	c13FlagCharacters(p, r)
	c13SiblingStateCalls(p, r)
	c13MeasurementStores(p, r)
}

// soilSiblingPair: the two soil readers fill the same destinations with the same value shape (shared with C15.R7)
func soilSiblingPair() sibPair {
	return sibPair{name: "soil", a: "hermes.LoadSoil", b: "hermes.LoadSoilCSV", destOK: prefixIn("soildata."), keep: prefixIn("soildata."), withIdx: true, min: 20,
		allowed: map[string]string{
			"soildata.BULK[i]": "the csv layout may give a measured bulk density directly; the text layout always goes through the class table (both call the same class helper afterwards)",
		}}
}

func short(k string) string { return strings.TrimPrefix(k, "hermes.") }

func sigSet(ss []sibStore) []string {
	var o []string
	for _, s := range ss {
		o = append(o, s.sig)
	}
	sort.Strings(o)
	return o
}

// ---------------------------------------------------------------- state guards and reset ranges of the crop readers

func c13Guards(p *Prog, r *Report) {
	r.Rule("C13.crop-state", "the two crop-parameter readers reset and keep the same model state: every reset (store of a constant) covers the same index range under the same perennial/continuation guards in both readers", 10)
	A := cropResets(p, "hermes.ReadCropParamClassic")
	B := cropResets(p, "hermes.ReadCropParamYml")
	keys := map[string]bool{}
	for k := range A {
		keys[k] = true
	}
	for k := range B {
		keys[k] = true
	}
	var kl []string
	for k := range keys {
		kl = append(kl, k)
	}
	sort.Strings(kl)
	for _, k := range kl {
		a, inA := A[k]
		b, inB := B[k]
		pos := a.pos
		if !inA {
			pos = b.pos
		}
		ok := inA && inB && a.val == b.val
		det := "reset " + k
		if !inA {
			det += " — only in the YAML reader"
		} else if !inB {
			det += " — only in the classic reader"
		} else if a.val != b.val {
			det += fmt.Sprintf(" — different constants %s / %s", a.val, b.val)
		}
		r.Ob("reset:"+clip(k, 120), pos, ok, det)
	}
}

// boundSig renders a loop bound: constants as numbers, otherwise the field
// name written in the loop header.
func boundSig(x *Exec, L *LoopCtx, q Poly) string {
	if c, ok := q.ConstInt(); ok {
		return fmt.Sprintf("%d", c)
	}
	if f := headerBoundField(x, L); f != "" {
		// hi = F − 1
		return f + "-1"
	}
	return "?"
}

// ---------------------------------------------------------------- converter

var srcRe = regexp.MustCompile(`‹([^›]*)›`)

func c13Converter(p *Prog, r *Report) {
	r.Rule("C13.converter", "classic → YAML converter: for every destination the classic reader fills from a file column, the converter reads the same column expression into a YAML field and the YAML reader stores that field into the same destination, with scale(classic) ≡ scale(converter)·scale(YAML reader)", 20)
	cl := walked(p, "hermes.ReadCropParamClassic")
	cv := walked(p, "hermes.ConvertCropParamClassicToYml")
	ym := walked(p, "hermes.ReadCropParamYml")
	if cl == nil || cv == nil || ym == nil {
		r.Ob("functions", "-", false, "reader or converter not found")
		return
	}
	type ent struct {
		dest string
		coef string
		pos  string
	}
	srcOf := func(q Poly) (string, string, bool) {
		t := q.single()
		if t == nil || len(t.M) != 1 {
			return "", "", false
		}
		m := srcRe.FindStringSubmatch(t.M[0].A.Key)
		if m == nil {
			return "", "", false
		}
		return strings.ReplaceAll(m[1], " ", ""), ratStr(t.C), true
	}
	classic := map[string]ent{}
	for _, e := range cl.Events {
		if e.Kind == "assign" && (strings.HasPrefix(e.Root, "GlobalVarsMain.") || strings.HasPrefix(e.Root, "CropSharedVars.")) {
			if s, c, ok := srcOf(stripVersions(e.Val)); ok {
				classic[s] = ent{dest: e.Root, coef: c, pos: p.Pos(e.Pos)}
			}
		}
	}
	conv := map[string]ent{}
	for _, e := range cv.Events {
		if e.Kind == "assign" && (strings.HasPrefix(e.Root, "cropParam.") || strings.HasPrefix(e.Root, "developmentStage.")) {
			if s, c, ok := srcOf(stripVersions(e.Val)); ok {
				f := e.Root[strings.LastIndex(e.Root, ".")+1:]
				conv[s] = ent{dest: f, coef: c, pos: p.Pos(e.Pos)}
			}
		}
	}
	yml := map[string]ent{} // yaml field → dest
	for _, e := range ym.Events {
		if e.Kind == "assign" && (strings.HasPrefix(e.Root, "GlobalVarsMain.") || strings.HasPrefix(e.Root, "CropSharedVars.")) {
			t := stripVersions(e.Val).single()
			if t == nil || len(t.M) != 1 || !strings.HasPrefix(t.M[0].A.Key, "cropParam.") {
				continue
			}
			f := fieldTail(t.M[0].A.Key)
			yml[f] = ent{dest: e.Root, coef: ratStr(t.C), pos: p.Pos(e.Pos)}
		}
	}
	var srcs []string
	for s := range classic {
		srcs = append(srcs, s)
	}
	sort.Strings(srcs)
	for _, s := range srcs {
		c := classic[s]
		if strings.HasSuffix(c.dest, ".AboveGroundOrgans") {
			r.Ob("column:"+s, c.pos, true, "accepted difference: the list of above-ground organs is appended digit by digit by the converter (list value, not a scaled number)")
			continue
		}
		v, okV := conv[s]
		if !okV {
			r.Ob("column:"+s, c.pos, false, fmt.Sprintf("classic reader stores column %s into %s; the converter does not read this column", s, shortRoot(c.dest)))
			continue
		}
		y, okY := yml[v.dest]
		if !okY {
			r.Ob("column:"+s, v.pos, false, fmt.Sprintf("converter writes column %s to YAML field %s, which the YAML reader never stores", s, v.dest))
			continue
		}
		ok := y.dest == c.dest
		// scale composition on rationals
		prod := mulRatStr(v.coef, y.coef)
		if prod != c.coef {
			ok = false
		}
		r.Ob("column:"+s, c.pos, ok, fmt.Sprintf("column %s: classic → %s × %s; converter → %s × %s; YAML reader %s → %s × %s (composition × %s)", s, shortRoot(c.dest), c.coef, v.dest, v.coef, v.dest, shortRoot(y.dest), y.coef, prod))
	}
}

func mulRatStr(a, b string) string {
	pa, pb := PRat(parseRat(a)), PRat(parseRat(b))
	c, _ := pa.Mul(pb).Const()
	return ratStr(c)
}

// ---------------------------------------------------------------- weather

func c13Weather(p *Prog, r *Report) {
	r.Rule("C13.weather", "the three weather readers fill the same weather arrays with the same value shape; accepted one-sided destinations are listed with a reason; all three share the normalisation pipeline (C04.R3)", 9)
	readers := []string{"hermes.WetterK", "hermes.ReadWeatherCSV", "hermes.ReadWeatherCZ"}
	dest := prefixIn("WeatherDataShared.", "s.", "bbb.")
	var maps []map[string][]sibStore
	sigUnify = true
	defer func() { sigUnify = false }()
	for _, k := range readers {
		x := walked(p, k)
		if x == nil {
			r.Ob("reader:"+short(k), "-", false, "not found")
			return
		}
		m := map[string][]sibStore{}
		for _, e := range x.Events {
			if e.Kind != "assign" || !dest(e.Root) || len(e.Idx) != 2 {
				continue
			}
			if c, isC := e.Val.Const(); isC && c.Sign() == 0 {
				continue
			}
			f := e.Root[strings.LastIndex(e.Root, ".")+1:]
			sig := valueSig(e.Val, func(string) bool { return false })
			m[f] = append(m[f], sibStore{sig: sig, pos: p.Pos(e.Pos)})
		}
		maps = append(maps, m)
	}
	allowed := map[string]string{
		"ETNULL": "reference evapotranspiration column exists only in the one-file-per-year layout",
		"TEMP":   "the day-of-year layout has no mean temperature column and derives it as (tmax+tmin)/2 — the property's stated exception",
	}
	all := map[string]bool{}
	for _, m := range maps {
		for f := range m {
			all[f] = true
		}
	}
	var fl []string
	for f := range all {
		fl = append(fl, f)
	}
	sort.Strings(fl)
	for _, f := range fl {
		var sigs []string
		same := true
		first := ""
		pos := "-"
		for i, m := range maps {
			ss := uniqStr(sigSet(m[f]))
			s := strings.Join(ss, " | ")
			sigs = append(sigs, short(readers[i])+": {"+s+"}")
			if len(m[f]) > 0 && pos == "-" {
				pos = m[f][0].pos
			}
			if i == 0 {
				first = s
			} else if s != first {
				same = false
			}
		}
		if reason, ok := allowed[f]; ok && !same {
			r.Ob("array:"+f, pos, true, "accepted difference: "+reason+" ["+strings.Join(sigs, "; ")+"]")
			continue
		}
		r.Ob("array:"+f, pos, same, strings.Join(sigs, "; "))
	}
}

func uniqStr(ss []string) []string {
	var o []string
	for i, s := range ss {
		if i == 0 || s != ss[i-1] {
			o = append(o, s)
		}
	}
	return o
}

// ---------------------------------------------------------------- rotation

func c13Rotation(p *Prog, r *Report) {
	r.Rule("C13.rotation", "crop rotation text/csv: one reader code path; the format switch may only select the line splitter and the column indices", 1)
	x := walked(p, "hermes.Input")
	if x == nil {
		return
	}
	// every store to a model field that is guarded by the crop-file-format test must be a column index or splitter local
	n, bad := 0, 0
	first := "-"
	for _, e := range x.Events {
		if e.Kind != "assign" {
			continue
		}
		fmtGuard := e.HasGuard(func(c *Cond) bool {
			return strings.Contains(c.Key(), "CropFileFormat")
		})
		if !fmtGuard {
			continue
		}
		n++
		if strings.HasPrefix(e.Root, "GlobalVarsMain.") || strings.HasPrefix(e.Root, "InputSharedVars.") {
			bad++
			if first == "-" {
				first = p.Pos(e.Pos)
			}
		}
	}
	r.Ob("format-switch", first, bad == 0 && n > 0, fmt.Sprintf("%d assignments depend on the rotation file format, %d of them write model state directly (expected: only the splitter and column positions)", n, bad))
}

func parseRat(s string) *big.Rat {
	r, ok := new(big.Rat).SetString(s)
	if !ok {
		return new(big.Rat)
	}
	return r
}

type cropReset struct {
	dest, rng, guards, val, pos string
}

func cropResets(p *Prog, key string) map[string]cropReset {
	x := walked(p, key)
	out := map[string]cropReset{}
	if x == nil {
		return out
	}
	// the perennial flag is tested through its forwarded (reader-specific) value: map it back
	flagKey := ""
	for _, e := range x.Events {
		if e.Kind == "assign" && e.Root == "GlobalVarsMain.DAUERKULT" {
			flagKey = strings.TrimPrefix(stripVersions(e.Val).String(), "")
		}
	}
	for _, e := range x.Events {
		if e.Kind != "assign" || !(strings.HasPrefix(e.Root, "GlobalVarsMain.") || strings.HasPrefix(e.Root, "CropSharedVars.")) {
			continue
		}
		if _, isC := e.Val.Const(); !isC {
			continue
		}
		// index ranges
		var rg []string
		for _, ix := range e.Idx {
			done := false
			for _, L := range e.Loops {
				if L.Var != nil && ix.Equal(PAtom(L.Var)) {
					lo, hi, unit, why := loopBounds(x, L)
					if why == "" && unit {
						rg = append(rg, fmt.Sprintf("%s..%s", boundSig(x, L, lo), boundSig(x, L, hi)))
						done = true
					}
				}
			}
			if !done {
				rg = append(rg, idxSig([]Poly{ix}))
			}
		}
		var gs []string
		for _, g := range flattenGuards(e.Guards) {
			if g.Loop {
				continue
			}
			k := stripCondVersions(g)
			if flagKey != "" {
				k = strings.ReplaceAll(k, flagKey, "GlobalVarsMain.DAUERKULT")
			}
			if !strings.Contains(k, "GlobalVarsMain.") {
				continue
			}
			gs = append(gs, k)
		}
		sort.Strings(gs)
		k := e.Root + "[" + strings.Join(rg, ",") + "]" + " if " + strings.Join(gs, " ; ")
		out[k] = cropReset{dest: e.Root, rng: strings.Join(rg, ","), guards: strings.Join(gs, " ; "), val: e.Val.String(), pos: p.Pos(e.Pos)}
	}
	return out
}

// c13StaleItem: in the record-by-record readers a local that receives a value
// parsed from the current record only under a condition, is never
// unconditionally (re)set in the loop, and whose loop-entry value is read in
// the loop, carries data of an earlier record into the current one (e.g. a
// blank optional column silently inherits the previous horizon's value).
func c13StaleItem(p *Prog, r *Report) {
	r.Rule("C13.stale-item", "no value parsed from one record leaks into the next: in the record loops of the sibling readers every local that is conditionally assigned from the current record's tokens is re-initialised in each iteration before it is read", 4)
	// only readers whose records are independent of each other (soil horizons, crop stages); the weather and
	// measurement readers carry values forward by design (previous day number, last CO2 value, first record's data)
	readers := []string{"hermes.LoadSoil", "hermes.LoadSoilCSV", "hermes.ReadCropParamClassic", "hermes.ReadCropParamYml"}
	isParse := func(q Poly) bool {
		hit := false
		q.walkAtoms(func(a *Atom) {
			k := a.Key
			if strings.Contains(k, "ValAsFloat") || strings.Contains(k, "ValAsInt") || strings.Contains(k, "TryValAsFloat") || strings.Contains(k, "ParseFloat") || strings.HasPrefix(k, "‹") || strings.HasPrefix(k, "tokens[") {
				hit = true
			}
		})
		return hit
	}
	for _, key := range readers {
		x := walked(p, key)
		if x == nil {
			r.Ob(short(key), "-", false, "reader not found")
			continue
		}
		bad := 0
		for _, L := range loopsOf(x) {
			type info struct {
				nested        bool
				parse, uncond bool
				first         *Event
			}
			vars := map[types.Object]*info{}
			for _, e := range x.Events {
				if e.Kind != "assign" || e.Local == nil || !e.InLoop(L) || len(e.Idx) > 0 {
					continue
				}
				if L.VarObj == e.Local {
					continue
				}
				in := vars[e.Local]
				if in == nil {
					in = &info{first: e}
					vars[e.Local] = in
				}
				if isParse(e.Val) {
					in.parse = true
				}
				if innermost(e, L) && len(inLoopGuards(e, L)) == 0 {
					in.uncond = true
				}
				if !innermost(e, L) {
					in.nested = true
				}
			}
			for obj, in := range vars {
				if !in.parse || in.uncond || in.nested {
					continue // (assignments in a nested loop are judged with that loop)
				}
				// declared outside the loop?
				if obj.Pos() >= L.Stmt.Pos() && obj.Pos() <= L.Stmt.End() {
					continue
				}
				// loop-entry value read inside the loop
				entryKey := fmt.Sprintf("%s@L%d", obj.Name(), L.ID)
				read := false
				for _, e := range x.Events {
					if !e.InLoop(L) {
						continue
					}
					chk := func(q Poly) {
						q.walkAtoms(func(a *Atom) {
							if a.Kind == "loop" && a.Key == entryKey {
								read = true
							}
						})
					}
					if e.Local != obj || e.Kind != "assign" {
						chk(e.Val)
					}
					for _, a := range e.Args {
						chk(a)
					}
					for _, g := range flattenGuards(e.Guards) {
						if g.Kind == "cmp" {
							chk(g.P)
						}
						if g.Kind == "opq" && strings.HasPrefix(g.Text, entryKey) {
							read = true
						}
					}
				}
				if read {
					bad++
					r.Ob(short(key)+":"+obj.Name(), p.Pos(in.first.Pos), false, fmt.Sprintf("%s is assigned from the current record only under a condition, is not reset per record, and its value from the previous record is read in the loop at %s", obj.Name(), p.Pos(L.Stmt.Pos())))
				}
			}
		}
		if bad == 0 {
			r.Ob(short(key), "-", true, "no record-derived local survives from one record to the next")
		}
	}
}

// c13Headers: csv columns are bound to quantities by header name.  The store
// that records a column's position must be guarded by an exact comparison of
// the header token with the known name (string equality or a map lookup by
// the token); a prefix/substring predicate lets "BulkDensity" bind the
// "BulkDensityClass" column.
func c13Headers(p *Prog, r *Report, rule string) {
	r.Rule(rule, "csv header resolution by exact name: in every header resolver the store of a column position is guarded by string equality of the header token with the known column name, or by a map lookup keyed by the token, and by no prefix/substring predicate", 3)
	for _, key := range []string{"hermes.readSoilHeader", "hermes.readHeader", "hermes.ExtractMeasuredDataCSV"} {
		x := walked(p, key)
		if x == nil {
			r.Ob(short(key), "-", false, "header resolver not found")
			continue
		}
		n := 0
		for _, e := range x.Events {
			if e.Kind != "assign" || len(e.Idx) != 1 || !(e.Root == "headers" || strings.HasSuffix(e.Root, "eaders") || strings.HasSuffix(e.Root, "eader")) {
				continue
			}
			n++
			exact, fuzzy := false, ""
			for _, g := range flattenGuards(e.Guards) {
				switch g.Kind {
				case "cmp":
					if g.Op == token.EQL && len(g.P.T) == 2 {
						exact = true
					}
				case "opq":
					if strings.Contains(g.Text, "strings.") || strings.Contains(g.Text, "HasPrefix") || strings.Contains(g.Text, "Contains") {
						fuzzy = g.Text
					} else if ie, isIdx := g.Expr.(*ast.IndexExpr); isIdx {
						// comma-ok of a map lookup keyed by the token
						if _, isMap := x.Info.TypeOf(ie.X).Underlying().(*types.Map); isMap {
							exact = true
						}
					} else if id, isId := g.Expr.(*ast.Ident); isId {
						// the ok variable of "v, ok := m[token]"
						_ = id
						if strings.Contains(g.Text, "[") && strings.Contains(g.Text, "]") {
							exact = true
						}
					}
				}
			}
			ok := exact && fuzzy == ""
			det := "column position stored under an exact name match"
			if fuzzy != "" {
				det = "column position stored under the inexact predicate " + clip(fuzzy, 80) + ": a longer column name with the same prefix binds this quantity"
			} else if !exact {
				det = "no exact name comparison guards the store of the column position"
			}
			r.Ob(short(key)+":position", p.Pos(e.Pos), ok, det)
		}
		if n == 0 {
			r.Ob(short(key)+":position", "-", false, "the resolver never stores a column position")
		}
	}
}

// C13.optional-columns — the CSV layouts address columns through a map built
// from the header line.  Indexing that map with a name the header does not
// have yields 0, i.e. column 0 (the soil id / field id).  For the columns the
// readers treat as optional (parsed with the tolerant parser, value kept only
// when it parses) the lookup must therefore be presence-checked: the fixed-
// width siblings leave such values unset when the line has no such field.
func c13OptionalColumns(p *Prog, r *Report) { c13OptionalColumnsAs(p, r, "C13.optional-columns") }

func c13OptionalColumnsAs(p *Prog, r *Report, rule string) {
	r.Rule(rule, "optional CSV columns: every value handed to the tolerant number parser in the CSV soil and measurement readers is taken from a column whose presence in the header was tested (comma-ok lookup of the header map, the absent case leaving the value unset) — never from header[name] of an absent name, which is column 0", 12)
	for _, key := range []string{"hermes.LoadSoilCSV", "hermes.ExtractMeasuredDataCSV"} {
		fi := p.Funcs[key]
		if fi == nil {
			r.Ob("reader:"+short(key), "-", false, "reader not found")
			continue
		}
		info := fi.Pkg.TypesInfo
		body := fi.Decl.Body
		// header maps: locals of map type with int values
		isHeaderMap := func(e ast.Expr) bool {
			t := info.TypeOf(e)
			if t == nil {
				return false
			}
			m, ok := t.Underlying().(*types.Map)
			if !ok {
				return false
			}
			b, ok := m.Elem().Underlying().(*types.Basic)
			return ok && b.Kind() == types.Int
		}
		n := 0
		ast.Inspect(body, func(nd ast.Node) bool {
			call, ok := nd.(*ast.CallExpr)
			if !ok || len(call.Args) != 1 {
				return true
			}
			f := callee(info, call)
			if f == nil || f.Name() != "TryValAsFloat" {
				return true
			}
			n++
			ix, ok := stripParens(call.Args[0]).(*ast.IndexExpr)
			if !ok {
				r.Ob(fmt.Sprintf("optional:%s#%d", short(key), n), p.Pos(call.Pos()), false, "tolerant parse of something that is not a column of the line: "+types.ExprString(call.Args[0]))
				return true
			}
			okP, det := false, ""
			switch idx := stripParens(ix.Index).(type) {
			case *ast.Ident:
				// col defined by  col, ok := header[K]  with ok tested before the use
				col := useObj(info, idx)
				for _, d := range defsOf(info, body, col) {
					mi, isIdx := stripParens(d.Rhs).(*ast.IndexExpr)
					as, isAs := d.Stmt.(*ast.AssignStmt)
					if !isIdx || !isAs || d.Idx != 0 || len(as.Lhs) != 2 || !isHeaderMap(mi.X) {
						continue
					}
					okObj := useObj(info, as.Lhs[1])
					conds, _ := astPathConds(info, body, call)
					for _, c := range conds {
						// reached only when ok holds: positive ok, or the exit  if !ok [|| …] { return }
						if useObj(info, c.E) == okObj && okObj != nil && ((!c.Neg) || (c.Neg && c.Exit != nil && false)) {
							okP = true
						}
						if c.Exit != nil && c.Neg {
							// the literal came from splitting ¬(!ok || …): it shows up as positive ok
							continue
						}
					}
					det = fmt.Sprintf("column %s from the presence-checked lookup %s", idx.Name, types.ExprString(mi))
				}
			case *ast.IndexExpr:
				if isHeaderMap(idx.X) {
					// tokens[header[K]]: needs an enclosing  _, ok := header[K]; ok
					conds, _ := astPathConds(info, body, call)
					for _, c := range conds {
						o := useObj(info, c.E)
						if o == nil || c.Neg {
							continue
						}
						for _, d := range defsOf(info, body, o) {
							if mi, isIdx := stripParens(d.Rhs).(*ast.IndexExpr); isIdx && d.Idx == 1 && types.ExprString(mi) == types.ExprString(idx) {
								okP = true
							}
						}
					}
					det = "column " + types.ExprString(idx) + " looked up without a presence test: an absent column reads column 0"
					if okP {
						det = "column " + types.ExprString(idx) + " under its own presence test"
					}
				}
			}
			r.Ob(fmt.Sprintf("optional:%s#%d", short(key), n), p.Pos(call.Pos()), okP, det)
			return true
		})
		if n == 0 {
			r.Ob("optional:"+short(key), p.Pos(fi.Decl.Pos()), false, "no tolerant parse found in the reader (the optional columns were confirmed by hand)")
		}
	}
}

// C13.optional-values — both soil readers (and both measurement readers) keep
// an optional value only when its text parses.  The store must use the result
// of the parse made for it (the nearest one before the store) and must be
// conditional on that parse's success — a store under the inverted test, or one
// that reuses the previous column's result, makes one layout drop or invent a
// value the other layout reads.
func c13OptionalValues(p *Prog, r *Report) {
	r.Rule("C13.optional-values", "optional values of the soil and measurement readers: every store of a tolerantly parsed number uses the result of the nearest preceding tolerant parse and is reached exactly when that parse succeeded (err == nil of the same call), each parse feeding one store; the horizon loops of the soil readers read the next line exactly when another horizon follows", 20)
	for _, key := range []string{"hermes.LoadSoil", "hermes.LoadSoilCSV", "hermes.ExtractMeasuredDataCSV"} {
		fi := p.Funcs[key]
		if fi == nil {
			r.Ob("reader:"+short(key), "-", false, "reader not found")
			continue
		}
		info := fi.Pkg.TypesInfo
		body := fi.Decl.Body
		type parse struct {
			pos      token.Pos
			val, err types.Object
		}
		var parses []parse
		ast.Inspect(body, func(n ast.Node) bool {
			as, ok := n.(*ast.AssignStmt)
			if !ok || len(as.Lhs) != 2 || len(as.Rhs) != 1 {
				return true
			}
			c, ok := as.Rhs[0].(*ast.CallExpr)
			if !ok {
				return true
			}
			if f := callee(info, c); f != nil && f.Name() == "TryValAsFloat" {
				parses = append(parses, parse{as.Pos(), useObj(info, as.Lhs[0]), useObj(info, as.Lhs[1])})
			}
			return true
		})
		n := 0
		used := map[token.Pos]int{}
		ast.Inspect(body, func(nd ast.Node) bool {
			as, ok := nd.(*ast.AssignStmt)
			if !ok || len(as.Lhs) != 1 || len(as.Rhs) != 1 || as.Tok != token.ASSIGN {
				return true
			}
			vo := useObj(info, as.Rhs[0])
			if vo == nil {
				return true
			}
			// nearest parse before the store
			var near *parse
			for i := range parses {
				if parses[i].pos < as.Pos() && (near == nil || parses[i].pos > near.pos) {
					near = &parses[i]
				}
			}
			isParsed := false
			for i := range parses {
				if parses[i].val == vo {
					isParsed = true
				}
			}
			if !isParsed {
				return true
			}
			n++
			var bad []string
			if near != nil {
				used[near.pos]++
				if used[near.pos] > 1 {
					bad = append(bad, "the parse at "+p.Pos(near.pos)+" already fed another store: this value was not parsed from its own field")
				}
			}
			if near == nil || near.val != vo {
				bad = append(bad, "the stored variable is not the result of the nearest preceding parse")
			} else {
				conds, _ := astPathConds(info, body, as)
				okE := false
				for _, c := range conds {
					if !c.Neg && isNilCmp(info, c.E, near.err, token.EQL) {
						okE = true
					}
					if c.Neg && c.Exit == nil && isNilCmp(info, c.E, near.err, token.EQL) {
						bad = append(bad, "stored when the parse FAILED")
					}
				}
				if !okE {
					bad = append(bad, "not conditional on the success of its parse")
				}
			}
			r.Ob(fmt.Sprintf("optional-store:%s:%s", short(key), types.ExprString(as.Lhs[0])), p.Pos(as.Pos()), len(bad) == 0, types.ExprString(as.Lhs[0])+" = "+types.ExprString(as.Rhs[0])+problems(bad))
			return true
		})
		if n == 0 {
			r.Ob("optional-store:"+short(key), p.Pos(fi.Decl.Pos()), false, "no store of a tolerantly parsed value found")
		}
		// horizons: the loop over the horizons of a profile reads the next line at the end of every iteration but the last
		if key == "hermes.LoadSoil" || key == "hermes.LoadSoilCSV" {
			okAdv, det := false, "no loop over the horizons that ends by reading the next line"
			ast.Inspect(body, func(nd ast.Node) bool {
				fs, ok := nd.(*ast.ForStmt)
				if !ok || fs.Cond == nil || len(fs.Body.List) == 0 {
					return true
				}
				cb, ok := fs.Cond.(*ast.BinaryExpr)
				if !ok || cb.Op != token.LSS || !strings.HasSuffix(types.ExprString(cb.Y), ".AZHO") {
					return true
				}
				iObj := useObj(info, cb.X)
				last, ok := fs.Body.List[len(fs.Body.List)-1].(*ast.IfStmt)
				if !ok {
					det = "the horizon loop does not end with the conditional read of the next line"
					return true
				}
				c := normExpr(info, last.Cond, iObj)
				want := "(($i + 1) < " + normExpr(info, cb.Y, iObj) + ")"
				want2 := "((1 + $i) < " + normExpr(info, cb.Y, iObj) + ")"
				reads := false
				for _, st := range last.Body.List {
					if as, ok := st.(*ast.AssignStmt); ok && len(as.Rhs) == 1 {
						if call, ok := as.Rhs[0].(*ast.CallExpr); ok {
							if f := callee(info, call); f != nil && f.Name() == "LineInut" {
								reads = true
							}
						}
					}
				}
				okAdv = (c == want || c == want2) && reads && last.Else == nil
				det = fmt.Sprintf("horizon loop ends with: if %s { next line read: %v }", c, reads)
				return true
			})
			r.Ob("horizon-advance:"+short(key), p.Pos(fi.Decl.Pos()), okAdv, det+" (must be exactly 'another horizon follows': otherwise every horizon is read from the first line, or the line after the profile is consumed)")
		}
	}
}

// yamlKeysRule — a YAML key that is the NAME OF ANOTHER FIELD of the same
// struct is a mix-up whatever the intention: the value written under that
// name in every existing file lands in the wrong field (contradiction rule,
// no table needed).  Also: no two fields share a key, no field is skipped.
func yamlKeysRule(p *Prog, r *Report, rule string, structs []string) {
	r.Rule(rule, "YAML keys of the crop-parameter structures: no field carries the name of another field of the same structure as its key, keys are unique and not '-'", len(structs))
	for _, sn := range structs {
		obj := p.Hermes.Types.Scope().Lookup(sn)
		if obj == nil {
			r.Ob("keys:"+sn, "-", false, "type not found")
			continue
		}
		st, ok := obj.Type().Underlying().(*types.Struct)
		if !ok {
			continue
		}
		names := map[string]bool{}
		for i := 0; i < st.NumFields(); i++ {
			names[st.Field(i).Name()] = true
		}
		seen := map[string]string{}
		bad := ""
		for i := 0; i < st.NumFields(); i++ {
			f := st.Field(i)
			key := strings.Split(reflect.StructTag(st.Tag(i)).Get("yaml"), ",")[0]
			if key == "" {
				key = strings.ToLower(f.Name())
			}
			if key == "-" {
				bad += f.Name() + " is not read from the file; "
				continue
			}
			if key != f.Name() && names[key] {
				bad += fmt.Sprintf("field %s is filled from key %q, the name of another field; ", f.Name(), key)
			}
			if prev, dup := seen[key]; dup {
				bad += fmt.Sprintf("fields %s and %s share key %q; ", prev, f.Name(), key)
			}
			seen[key] = f.Name()
		}
		r.Ob("keys:"+sn, p.Pos(obj.Pos()), bad == "", fmt.Sprintf("%d fields of %s: %s", st.NumFields(), sn, orStr(bad, "every key is the field's own name or a name no field has")))
	}
}

// C13.flags-before-use — both crop-parameter readers decide what to reset for
// the new crop by the perennial flag OF THE FILE BEING READ: a state field the
// reader itself sets from the file must not be read earlier in the same reader
// (it would still hold the previous crop's value, and the two readers would
// differ in when they assign it).
func c13DefBeforeUse(p *Prog, r *Report) {
	r.Rule("C13.flags-before-use", "crop-parameter readers: a scalar state field that the reader assigns from the file is not read in the reader before that assignment (the value read would be the previous crop's)", 2)
	for _, key := range []string{"hermes.ReadCropParamClassic", "hermes.ReadCropParamYml"} {
		fi := p.Funcs[key]
		if fi == nil {
			r.Ob("reader:"+short(key), "-", false, "reader not found")
			continue
		}
		info := fi.Pkg.TypesInfo
		firstWrite := map[string]token.Pos{}
		firstRead := map[string]token.Pos{}
		lhs := map[ast.Node]bool{}
		ast.Inspect(fi.Decl.Body, func(n ast.Node) bool {
			if as, ok := n.(*ast.AssignStmt); ok {
				for _, l := range as.Lhs {
					if se, ok := l.(*ast.SelectorExpr); ok {
						if sel, has := info.Selections[se]; has && sel.Kind() == types.FieldVal {
							if nm, _ := namedStruct(sel.Recv()); nm == "GlobalVarsMain" {
								if b, isB := sel.Type().Underlying().(*types.Basic); isB && b != nil {
									lhs[se] = true
									if _, seen := firstWrite[se.Sel.Name]; !seen && as.Tok == token.ASSIGN {
										firstWrite[se.Sel.Name] = as.Pos()
									}
								}
							}
						}
					}
				}
			}
			return true
		})
		ast.Inspect(fi.Decl.Body, func(n ast.Node) bool {
			se, ok := n.(*ast.SelectorExpr)
			if !ok || lhs[se] {
				return true
			}
			if sel, has := info.Selections[se]; has && sel.Kind() == types.FieldVal {
				if nm, _ := namedStruct(sel.Recv()); nm == "GlobalVarsMain" {
					if _, isB := sel.Type().Underlying().(*types.Basic); isB {
						if _, seen := firstRead[se.Sel.Name]; !seen {
							firstRead[se.Sel.Name] = se.Pos()
						}
					}
				}
			}
			return true
		})
		bad := ""
		n := 0
		for f, w := range firstWrite {
			if rd, ok := firstRead[f]; ok {
				n++
				if rd < w {
					bad += fmt.Sprintf("%s read at %s, assigned from the file at %s; ", f, p.Pos(rd), p.Pos(w))
				}
			}
		}
		r.Ob("def-before-use:"+short(key), p.Pos(fi.Decl.Pos()), bad == "", fmt.Sprintf("%d scalar state fields both assigned and read by the reader; read before the assignment: %s", n, orStr(bad, "none")))
	}
}

// C13.header-names — the CSV layouts are addressed by column NAME.  The names
// the readers know are a table in the code; the names people write are the
// ones of the shipped files (the fixed-width measurement files carry the same
// header line as their CSV counterpart).  Every column name of every shipped
// measurement and soil table must be a key of the reader's table: a renamed
// key silently turns a supplied column into an absent optional one.
func c13HeaderNames(p *Prog, r *Report) {
	r.Rule("C13.header-names", "column names: every name in the header line of the shipped measurement files (fixed-width and CSV) is a key of the CSV measurement reader's name table, every name in the header of the shipped CSV soil tables a key of the soil reader's name table", 2)
	mapKeys := func(lit *ast.CompositeLit, info *types.Info) map[string]bool {
		out := map[string]bool{}
		for _, el := range lit.Elts {
			if kv, ok := el.(*ast.KeyValueExpr); ok {
				if tv := info.Types[kv.Key]; tv.Value != nil && tv.Value.Kind() == constant.String {
					out[constant.StringVal(tv.Value)] = true
				}
			}
		}
		return out
	}
	split := func(line string) []string {
		return strings.FieldsFunc(strings.TrimSpace(strings.TrimPrefix(line, "\ufeff")), func(c rune) bool { return c == ',' || c == ';' || c == ' ' || c == '\t' || c == '\r' })
	}
	check := func(kind string, keys map[string]bool, globs []string) {
		var files []string
		for _, g := range globs {
			m, _ := filepath.Glob(filepath.Join(p.Root, g))
			files = append(files, m...)
		}
		sort.Strings(files)
		bad := ""
		for _, f := range files {
			b, err := os.ReadFile(f)
			if err != nil {
				continue
			}
			line := strings.SplitN(string(b), "\n", 2)[0]
			for _, tok := range split(line) {
				if !keys[tok] {
					rel, _ := filepath.Rel(p.Root, f)
					bad += fmt.Sprintf("%q in %s; ", tok, rel)
				}
			}
		}
		r.Ob("names:"+kind, "-", len(keys) > 0 && len(files) > 0 && bad == "", fmt.Sprintf("%d shipped %s files, %d names in the reader's table; names the reader does not know: %s", len(files), kind, len(keys), orStr(bad, "none")))
	}
	// measurement table: the map literal inside the CSV reader
	if fi := p.Funcs["hermes.ExtractMeasuredDataCSV"]; fi != nil {
		var keys map[string]bool
		ast.Inspect(fi.Decl.Body, func(n ast.Node) bool {
			if cl, ok := n.(*ast.CompositeLit); ok && keys == nil {
				if _, isMap := fi.Pkg.TypesInfo.TypeOf(cl).Underlying().(*types.Map); isMap {
					if k := mapKeys(cl, fi.Pkg.TypesInfo); len(k) > 5 {
						keys = k
					}
				}
			}
			return true
		})
		check("measurement", keys, []string{"examples/project/*/endit_*.txt", "examples/project/*/endit_*.csv"})
	}
	// soil table: package-level variable
	for _, f := range p.Hermes.Syntax {
		ast.Inspect(f, func(n ast.Node) bool {
			vs, ok := n.(*ast.ValueSpec)
			if !ok || len(vs.Names) != 1 || vs.Names[0].Name != "soilHeaderNames" || len(vs.Values) != 1 {
				return true
			}
			if cl, ok := vs.Values[0].(*ast.CompositeLit); ok {
				check("soil", mapKeys(cl, p.Hermes.TypesInfo), []string{"examples/project/*/soil_*.csv"})
			}
			return false
		})
	}
}

// ---------------------------------------------------------------- stores to a value receiver are lost

// lostWrites: a method declared on a struct VALUE works on a copy of the record it was called on; an assignment to a
// field of that receiver (not through a pointer, slice element or map the field holds) is gone when the method
// returns.  For a reader that fills a shared record (weather series, soil description, crop parameters) the
// destination then keeps whatever it had: the sibling encodings no longer fill the same destinations.  Exact rule over
// every method of the in-scope packages; none exists on today's tree.
func lostWrites(p *Prog, r *Report, rule string) {
	r.Rule(rule, "no store to a copy: a method with a value receiver never assigns to a field of its receiver (the record the caller holds would keep its old content); every method that stores into its receiver's fields is declared on the pointer", 1)
	nMeth, nStore := 0, 0
	var keys []string
	for k := range p.Funcs {
		keys = append(keys, k)
	}
	sort.Strings(keys)
	for _, k := range keys {
		fi := p.Funcs[k]
		if fi.Decl.Recv == nil || len(fi.Decl.Recv.List) != 1 || fi.Decl.Body == nil {
			continue
		}
		nMeth++
		info := fi.Pkg.TypesInfo
		recvF := fi.Decl.Recv.List[0]
		if len(recvF.Names) != 1 {
			continue
		}
		ro := info.Defs[recvF.Names[0]]
		if ro == nil {
			continue
		}
		_, isStruct := ro.Type().Underlying().(*types.Struct)
		// direct field of the receiver variable: recv.F, recv.F.G (struct-valued fields), recv.F[i] for an ARRAY field
		var direct func(e ast.Expr) bool
		direct = func(e ast.Expr) bool {
			switch t := e.(type) {
			case *ast.ParenExpr:
				return direct(t.X)
			case *ast.Ident:
				return info.Uses[t] == ro
			case *ast.SelectorExpr:
				if sel, ok := info.Selections[t]; !ok || sel.Kind() != types.FieldVal || sel.Indirect() {
					return false
				}
				return direct(t.X)
			case *ast.IndexExpr:
				if _, isArr := info.TypeOf(t.X).Underlying().(*types.Array); !isArr {
					return false // slice and map elements are shared with the caller's record
				}
				return direct(t.X)
			}
			return false
		}
		ast.Inspect(fi.Decl.Body, func(n ast.Node) bool {
			var lhs []ast.Expr
			switch t := n.(type) {
			case *ast.AssignStmt:
				lhs = t.Lhs
			case *ast.IncDecStmt:
				lhs = []ast.Expr{t.X}
			}
			for _, l := range lhs {
				if id, ok := l.(*ast.Ident); ok && info.Uses[id] == ro {
					continue // re-binding the receiver variable itself
				}
				if direct(l) {
					nStore++
					if isStruct {
						r.Ob("lost-write:"+short(fi.Key), p.Pos(l.Pos()), false, fmt.Sprintf("%s has a value receiver and stores into %s: the store changes a copy, the record of the caller keeps its old content", short(fi.Key), types.ExprString(l)))
					}
				}
			}
			return true
		})
	}
	r.Ob("lost-write:scanned", "-", nMeth > 0, fmt.Sprintf("%d methods scanned, %d stores into fields of a receiver", nMeth, nStore))
}

// ---------------------------------------------------------------- measurement readers select by equality of the id

// c13MeasurementIdFilter: both measurement readers take the records of ONE identifier (field, plot, soil id or
// "ALLE").  A record is counted (the measurement counter advances) only under a condition that compares an identifier
// read from the record with the requested one for EQUALITY — in an enclosing if, or in the init/condition/post of an
// enclosing loop.  A prefix test may precede it as a cheap filter but cannot replace it: "10" would also take the
// records of "100".
func c13MeasurementIdFilter(p *Prog, r *Report) {
	r.Rule("C13.measurement-id", "both measurement readers count a record only under an equality comparison with the requested identifier (a prefix or substring test alone would also accept the records of a longer identifier)", 2)
	for _, key := range []string{"hermes.ExtractMeasuredDataTxt", "hermes.ExtractMeasuredDataCSV"} {
		fi := p.Funcs[key]
		if fi == nil {
			r.Ob("id-filter:"+short(key), "-", false, "reader not found")
			continue
		}
		info := fi.Pkg.TypesInfo
		// the requested identifier: the string parameter that is compared; by position (3rd parameter) and type
		var want types.Object
		n := 0
		for _, f := range fi.Decl.Type.Params.List {
			for _, nm := range f.Names {
				n++
				if o := info.Defs[nm]; o != nil && n == 3 {
					if b, ok := o.Type().Underlying().(*types.Basic); ok && b.Kind() == types.String {
						want = o
					}
				}
			}
		}
		if want == nil {
			r.Ob("id-filter:"+short(key), p.Pos(fi.Decl.Pos()), false, "the requested-identifier parameter (third parameter, a string) was not found")
			continue
		}
		hasEq := func(n ast.Node) bool {
			if n == nil {
				return false
			}
			f := false
			ast.Inspect(n, func(m ast.Node) bool {
				if be, ok := m.(*ast.BinaryExpr); ok && be.Op == token.EQL {
					for _, side := range []ast.Expr{be.X, be.Y} {
						if id, ok := ast.Unparen(side).(*ast.Ident); ok && info.Uses[id] == want {
							f = true
						}
					}
				}
				return true
			})
			return f
		}
		nInc, okAll := 0, true
		pos := p.Pos(fi.Decl.Pos())
		ast.Inspect(fi.Decl.Body, func(m ast.Node) bool {
			inc, ok := m.(*ast.IncDecStmt)
			if !ok || inc.Tok != token.INC {
				return true
			}
			se, ok := inc.X.(*ast.SelectorExpr)
			if !ok || se.Sel.Name != "NMESS" {
				return true
			}
			nInc++
			pos = p.Pos(inc.Pos())
			path := nodePath(fi.Decl.Body, inc)
			eq := false
			for i := 0; i+1 < len(path); i++ {
				switch t := path[i].(type) {
				case *ast.IfStmt:
					if path[i+1] == ast.Node(t.Body) && hasEq(t.Cond) {
						eq = true
					}
				case *ast.ForStmt:
					if path[i+1] == ast.Node(t.Body) && (hasEq(t.Init) || hasEq(t.Cond) || hasEq(t.Post)) {
						eq = true
					}
				}
			}
			if !eq {
				okAll = false
			}
			return true
		})
		r.Ob("id-filter:"+short(key), pos, nInc > 0 && okAll, fmt.Sprintf("%d site(s) count a record; each lies under an equality comparison with the requested identifier %s: %v", nInc, want.Name(), nInc > 0 && okAll))
	}
}

// ---------------------------------------------------------------- the converter writes numbers as the encoder renders them

// c13YamlWriter: the converter turns a classic crop file into YAML through a reflective writer that hands every scalar
// to the YAML encoder.  The encoder renders a float64 with the shortest text that parses back to the same number.
// Overwriting that text (a fixed number of decimals, a "nicer" notation) rounds what the YAML reader gets, and the
// converted file no longer carries the classic file's numbers.  Demanded: no routine of the package assigns the Value
// text of a YAML node; the writer only sets comments, kinds and children.
func c13YamlWriter(p *Prog, r *Report) {
	r.Rule("C13.yaml-writer", "the YAML writer behind the converter leaves scalar text to the encoder: no assignment to the Value of a yaml node anywhere in the in-scope packages (a re-formatted number is a rounded number)", 1)
	n, nodes := 0, 0
	var keys []string
	for k := range p.Funcs {
		keys = append(keys, k)
	}
	sort.Strings(keys)
	for _, k := range keys {
		fi := p.Funcs[k]
		if fi.Decl.Body == nil {
			continue
		}
		info := fi.Pkg.TypesInfo
		ast.Inspect(fi.Decl.Body, func(m ast.Node) bool {
			if c, ok := m.(*ast.CallExpr); ok {
				if se, ok := c.Fun.(*ast.SelectorExpr); ok && se.Sel.Name == "Encode" {
					if isNamed(info.TypeOf(se.X), "yaml.v3", "Node") {
						nodes++
					}
				}
			}
			as, ok := m.(*ast.AssignStmt)
			if !ok {
				return true
			}
			for _, l := range as.Lhs {
				se, ok := l.(*ast.SelectorExpr)
				if !ok || se.Sel.Name != "Value" {
					continue
				}
				if isNamed(info.TypeOf(se.X), "yaml.v3", "Node") {
					n++
					r.Ob("yaml-writer:value-text:"+short(fi.Key), p.Pos(as.Pos()), false, fmt.Sprintf("%s overwrites the text of a YAML scalar (%s): the number written is no longer the one the encoder rendered", short(fi.Key), types.ExprString(as.Rhs[0])))
				}
			}
			return true
		})
	}
	r.Ob("yaml-writer:scanned", "-", n == 0 && nodes > 0, fmt.Sprintf("%d call(s) hand a value to the YAML encoder, %d assignment(s) to a node's Value text", nodes, n))
}

// ---------------------------------------------------------------- converter and reader slice a line the same way

// c13RuneSlicing: the classic crop reader indexes the line with the perennial/legume flags and the initial organ
// weights by CHARACTER (it converts the line to runes first), because the label part of that line may hold non-ASCII
// text.  The converter reads the same columns of the same line; it must index by character too, or a label with an
// umlaut shifts every column it reads.  Demanded: the set of column expressions taken from rune-typed lines is the
// same in the reader and in the converter.
func c13RuneSlicing(p *Prog, r *Report) {
	r.Rule("C13.rune-columns", "the classic crop reader and the classic-to-YAML converter take the same columns from character-indexed (rune) lines: a line one of them indexes by character is not indexed by byte in the other", 1)
	cols := func(key string) (map[string]bool, bool) {
		fi := p.Funcs[key]
		if fi == nil {
			return nil, false
		}
		info := fi.Pkg.TypesInfo
		out := map[string]bool{}
		isRunes := func(e ast.Expr) bool {
			sl, ok := info.TypeOf(e).Underlying().(*types.Slice)
			if !ok {
				return false
			}
			b, ok := sl.Elem().Underlying().(*types.Basic)
			return ok && b.Kind() == types.Int32
		}
		ast.Inspect(fi.Decl.Body, func(n ast.Node) bool {
			switch t := n.(type) {
			case *ast.SliceExpr:
				if isRunes(t.X) && t.Low != nil && t.High != nil {
					out["["+types.ExprString(t.Low)+":"+types.ExprString(t.High)+"]"] = true
				}
			case *ast.IndexExpr:
				if isRunes(t.X) {
					out["["+types.ExprString(t.Index)+"]"] = true
				}
			}
			return true
		})
		return out, true
	}
	a, okA := cols("hermes.ReadCropParamClassic")
	b, okB := cols("hermes.ConvertCropParamClassicToYml")
	if !okA || !okB {
		r.Ob("rune-columns", "-", false, "reader or converter not found")
		return
	}
	var onlyA, onlyB []string
	for k := range a {
		if !b[k] {
			onlyA = append(onlyA, k)
		}
	}
	for k := range b {
		if !a[k] {
			onlyB = append(onlyB, k)
		}
	}
	sort.Strings(onlyA)
	sort.Strings(onlyB)
	r.Ob("rune-columns", "-", len(a) > 0 && len(onlyA) == 0 && len(onlyB) == 0, fmt.Sprintf("%d column expression(s) on character-indexed lines in the reader, %d in the converter; only in the reader: %v; only in the converter: %v", len(a), len(b), onlyA, onlyB))
}

// ---------------------------------------------------------------- the YAML reader copies entry i to slot i

// c13YamlIndexAgreement: the YAML crop reader copies list entries of the parsed document into the state arrays.  The
// sibling comparison with the classic reader erases where a value was parsed from, so it cannot see an entry taken
// from another position of the document (stage i+1's temperature sum into stage i).  Demanded: in every assignment of
// the YAML reader whose right-hand side selects from the parsed document, the index expressions on the right are,
// in order, the index expressions on the left.
func c13YamlIndexAgreement(p *Prog, r *Report) {
	r.Rule("C13.yaml-index", "the YAML crop reader copies entry i of a list of the parsed document to slot i of the state array (and [i][L] to [i][L]): left-hand and right-hand index expressions agree in order", 15)
	fi := p.Funcs["hermes.ReadCropParamYml"]
	if fi == nil {
		r.Ob("yaml-index", "-", false, "hermes.ReadCropParamYml not found")
		return
	}
	info := fi.Pkg.TypesInfo
	// the parsed document: the local whose type is the crop parameter struct
	isDoc := func(e ast.Expr) bool {
		for {
			switch t := e.(type) {
			case *ast.ParenExpr:
				e = t.X
			case *ast.SelectorExpr:
				e = t.X
			case *ast.IndexExpr:
				e = t.X
			case *ast.CallExpr:
				if len(t.Args) == 1 {
					e = t.Args[0]
				} else {
					return false
				}
			case *ast.Ident:
				return isNamed(info.TypeOf(t), "/hermes", "CropParam")
			default:
				return false
			}
		}
	}
	indices := func(e ast.Expr) []string {
		var out []string
		var walk func(e ast.Expr)
		walk = func(e ast.Expr) {
			switch t := e.(type) {
			case *ast.ParenExpr:
				walk(t.X)
			case *ast.SelectorExpr:
				walk(t.X)
			case *ast.IndexExpr:
				walk(t.X)
				out = append(out, types.ExprString(t.Index))
			case *ast.CallExpr:
				if len(t.Args) == 1 {
					walk(t.Args[0])
				}
			}
		}
		walk(e)
		return out
	}
	n := 0
	ast.Inspect(fi.Decl.Body, func(m ast.Node) bool {
		as, ok := m.(*ast.AssignStmt)
		if !ok || len(as.Lhs) != 1 || len(as.Rhs) != 1 {
			return true
		}
		ri := indices(as.Rhs[0])
		if len(ri) == 0 || !isDoc(as.Rhs[0]) {
			return true
		}
		li := indices(as.Lhs[0])
		n++
		same := strings.Join(li, ",") == strings.Join(ri, ",")
		r.Ob("yaml-index", p.Pos(as.Pos()), same, fmt.Sprintf("%s = %s: indices [%s] ← [%s]", types.ExprString(as.Lhs[0]), clip(types.ExprString(as.Rhs[0]), 80), strings.Join(li, ","), strings.Join(ri, ",")))
		return true
	})
	if n == 0 {
		r.Ob("yaml-index", "-", false, "no indexed copy from the parsed document found")
	}
}

// ---------------------------------------------------------------- flag characters of the classic crop file

// c13FlagCharacters: the classic crop file marks perennial crops and legumes with one character in a fixed column.
// The sibling comparison maps the comparison back to the destination before comparing, so it cannot see the sense of
// the comparison.  Demanded: every store of a boolean crop flag from a character of a line is an equality test, and
// the reader and the converter test the same column against the same character.
func c13FlagCharacters(p *Prog, r *Report) {
	r.Rule("C13.flag-chars", "a boolean crop flag read from one character of a classic crop file line is `line[col] == 'c'`, with the same column and character in the reader and in the converter", 4)
	type site struct {
		fn, field, col, ch string
		eq                 bool
		pos                string
	}
	var sites []site
	for _, key := range []string{"hermes.ReadCropParamClassic", "hermes.ConvertCropParamClassicToYml"} {
		fi := p.Funcs[key]
		if fi == nil {
			r.Ob("flag-chars:"+key, "-", false, "function not found")
			continue
		}
		ast.Inspect(fi.Decl.Body, func(n ast.Node) bool {
			as, ok := n.(*ast.AssignStmt)
			if !ok || len(as.Lhs) != 1 || len(as.Rhs) != 1 {
				return true
			}
			sel, ok := as.Lhs[0].(*ast.SelectorExpr)
			if !ok {
				return true
			}
			be, ok := ast.Unparen(as.Rhs[0]).(*ast.BinaryExpr)
			if !ok {
				return true
			}
			ix, ok := ast.Unparen(be.X).(*ast.IndexExpr)
			lit, ok2 := ast.Unparen(be.Y).(*ast.BasicLit)
			if !ok || !ok2 || lit.Kind != token.CHAR {
				return true
			}
			sites = append(sites, site{key, sel.Sel.Name, types.ExprString(ix.Index), lit.Value, be.Op == token.EQL, p.Pos(as.Pos())})
			return true
		})
	}
	ref := map[string]site{}
	for _, s := range sites {
		if s.fn == "hermes.ReadCropParamClassic" {
			ref[s.field] = s
		}
	}
	for _, s := range sites {
		ok := s.eq
		detail := fmt.Sprintf("%s: %s = line[%s] == %s (equality: %v)", s.fn, s.field, s.col, s.ch, s.eq)
		if o, has := ref[s.field]; has {
			if o.col != s.col || o.ch != s.ch {
				ok = false
				detail += fmt.Sprintf("; the reader tests column %s against %s", o.col, o.ch)
			}
		} else {
			ok = false
			detail += "; no such flag in the reader"
		}
		r.Ob("flag-chars:"+s.fn+":"+s.field, s.pos, ok, detail)
	}
}

// ---------------------------------------------------------------- helper calls on the run state agree between siblings

// c13SiblingStateCalls: the value-shape comparison of the two crop readers does not enter helper functions that
// receive the run state (reset of the stage-day markers, the partitioning check).  Demanded: both readers call the
// same helpers on the run state, each under the same conditions.
func c13SiblingStateCalls(p *Prog, r *Report) {
	r.Rule("C13.state-calls", "the classic and the YAML crop reader call the same helper functions on the run state, each under the same conditions", 2)
	collect := func(key string) (map[string]string, bool) {
		fi := p.Funcs[key]
		if fi == nil {
			return nil, false
		}
		info := fi.Pkg.TypesInfo
		out := map[string]string{}
		ast.Inspect(fi.Decl.Body, func(n ast.Node) bool {
			call, ok := n.(*ast.CallExpr)
			if !ok {
				return true
			}
			fn, ok := typeutil.Callee(info, call).(*types.Func)
			if !ok || fn.Pkg() == nil || fn.Pkg() != fi.Pkg.Types {
				return true
			}
			state := false
			for _, a := range call.Args {
				if _, ok := info.TypeOf(a).(*types.Pointer); ok && isNamed(info.TypeOf(a), "hermes", "GlobalVarsMain") {
					state = true
				}
			}
			if !state {
				return true
			}
			conds, _ := astPathConds(info, fi.Decl.Body, call)
			var cs []string
			for _, c := range conds {
				if c.Exit == nil { // validation exits before the call differ by format; enclosing conditions must not
					cs = append(cs, c.String())
				}
			}
			sort.Strings(cs)
			out[fn.Name()+" under "+fmt.Sprint(cs)] = p.Pos(call.Pos())
			return true
		})
		return out, true
	}
	a, okA := collect("hermes.ReadCropParamClassic")
	b, okB := collect("hermes.ReadCropParamYml")
	if !okA || !okB {
		r.Ob("state-calls", "-", false, "reader not found")
		return
	}
	keys := map[string]bool{}
	for k := range a {
		keys[k] = true
	}
	for k := range b {
		keys[k] = true
	}
	var ks []string
	for k := range keys {
		ks = append(ks, k)
	}
	sort.Strings(ks)
	for _, k := range ks {
		pa, inA := a[k]
		pb, inB := b[k]
		pos := pa
		if !inA {
			pos = pb
		}
		r.Ob("state-calls:"+k, pos, inA && inB, fmt.Sprintf("classic reader: %v (%s); YAML reader: %v (%s)", inA, pa, inB, pb))
	}
}

// ---------------------------------------------------------------- store sites of the two measurement readers

// c13MeasurementStores: the two measurement readers are the same routine over differently tokenised lines.  The
// value-shape comparison joins the stores of one destination over all arms, so a store deleted in one arm of one reader
// or an element index shifted there stays inside the joined set.  Demanded: for every state array, the multiset of
// store sites (field, index expressions with local variables made anonymous) is the same in both readers.
func c13MeasurementStores(p *Prog, r *Report) {
	r.Rule("C13.measurement-stores", "the text and the CSV measurement reader have the same store sites: per state array the same number of stores with the same index expressions (local variables anonymous)", 5)
	collect := func(key string) (map[string]int, map[string]string, bool) {
		fi := p.Funcs[key]
		if fi == nil {
			return nil, nil, false
		}
		info := fi.Pkg.TypesInfo
		var render func(e ast.Expr) string
		render = func(e ast.Expr) string {
			switch t := stripParens(e).(type) {
			case *ast.Ident:
				if v, ok := info.Uses[t].(*types.Var); ok && !v.IsField() && v.Parent() != v.Pkg().Scope() {
					return "_"
				}
				return t.Name
			case *ast.BasicLit:
				return t.Value
			case *ast.BinaryExpr:
				return "(" + render(t.X) + t.Op.String() + render(t.Y) + ")"
			case *ast.SelectorExpr:
				return render(t.X) + "." + t.Sel.Name
			case *ast.IndexExpr:
				return render(t.X) + "[" + render(t.Index) + "]"
			}
			return types.ExprString(e)
		}
		cnt, pos := map[string]int{}, map[string]string{}
		ast.Inspect(fi.Decl.Body, func(n ast.Node) bool {
			as, ok := n.(*ast.AssignStmt)
			if !ok {
				return true
			}
			for _, l := range as.Lhs {
				var idx []string
				e := stripParens(l)
				for {
					ix, isIx := e.(*ast.IndexExpr)
					if !isIx {
						break
					}
					idx = append([]string{render(ix.Index)}, idx...)
					e = stripParens(ix.X)
				}
				sel, isSel := e.(*ast.SelectorExpr)
				if !isSel || len(idx) == 0 || !isNamed(info.TypeOf(sel.X), "hermes", "GlobalVarsMain") {
					continue
				}
				k := sel.Sel.Name + fmt.Sprint(idx)
				cnt[k]++
				if pos[k] == "" {
					pos[k] = p.Pos(as.Pos())
				}
			}
			return true
		})
		return cnt, pos, true
	}
	a, pa, okA := collect("hermes.ExtractMeasuredDataTxt")
	b, pb, okB := collect("hermes.ExtractMeasuredDataCSV")
	if !okA || !okB {
		r.Ob("measurement-stores", "-", false, "measurement reader not found")
		return
	}
	keys := map[string]bool{}
	for k := range a {
		keys[k] = true
	}
	for k := range b {
		keys[k] = true
	}
	var ks []string
	for k := range keys {
		ks = append(ks, k)
	}
	sort.Strings(ks)
	for _, k := range ks {
		pos := pa[k]
		if pos == "" {
			pos = pb[k]
		}
		r.Ob("measurement-stores:"+k, pos, a[k] == b[k], fmt.Sprintf("store sites of %s: %d in the text reader, %d in the CSV reader", k, a[k], b[k]))
	}
}
