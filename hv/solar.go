package main

// Solar geometry (CalculateDayLenght) is excluded from the sign analysis of the
// domain rule: its operands are trigonometric.  What keeps it total for every
// latitude and day — polar day and polar night included — is visible in its
// shape: every inverse trigonometric function takes an argument that went
// through the clamp Limit(·, 1, −1), every square root of "1 − x²" takes a
// clamped x, and Limit is the clamp it is named after.  Shared by the
// properties that demand finite state at any latitude (C06, C08, C09, C11).

import (
	"fmt"
	"go/ast"
	"go/constant"
	"go/token"
	"go/types"
)

func constFloat(info *types.Info, e ast.Expr) (float64, bool) {
	tv, ok := info.Types[e]
	if !ok || tv.Value == nil {
		return 0, false
	}
	v := constant.ToFloat(tv.Value)
	if v.Kind() != constant.Float && v.Kind() != constant.Int {
		return 0, false
	}
	f, _ := constant.Float64Val(v)
	return f, true
}

// clampedUnit: e is Limit(x, 1, −1), or a local defined once as such.
func clampedUnit(info *types.Info, body ast.Node, e ast.Expr, depth int) bool {
	e = stripParens(e)
	if depth > 6 {
		return false
	}
	switch t := e.(type) {
	case *ast.CallExpr:
		f := callee(info, t)
		if f == nil || f.Name() != "Limit" || f.Pkg() == nil || f.Pkg().Name() != "hermes" || len(t.Args) != 3 {
			return false
		}
		up, ok1 := constFloat(info, t.Args[1])
		lo, ok2 := constFloat(info, t.Args[2])
		return ok1 && ok2 && up == 1 && lo == -1
	case *ast.Ident:
		obj := useObj(info, t)
		if obj == nil {
			return false
		}
		defs := defsOf(info, body, obj)
		return len(defs) == 1 && defs[0].Rhs != nil && clampedUnit(info, body, defs[0].Rhs, depth+1)
	}
	return false
}

func sameExprText(a, b ast.Expr) bool {
	return types.ExprString(stripParens(a)) == types.ExprString(stripParens(b))
}

func solarClamps(p *Prog, r *Report, rule string) {
	r.Rule(rule, "solar geometry is total at every latitude: in the day-length routine every arcsine/arccosine argument and the x of every sqrt(1 − x²) went through the clamp Limit(·, 1, −1), and Limit returns the upper bound above it, the lower bound below it and the value itself otherwise", 4)
	fi := p.Funcs["hermes.CalculateDayLenght"]
	if fi == nil {
		r.Ob("routine", "-", false, "hermes.CalculateDayLenght not found")
		return
	}
	info := fi.Pkg.TypesInfo
	body := fi.Decl.Body
	n := 0
	ast.Inspect(body, func(nd ast.Node) bool {
		call, ok := nd.(*ast.CallExpr)
		if !ok || len(call.Args) < 1 {
			return true
		}
		f := callee(info, call)
		if f == nil || f.Pkg() == nil || f.Pkg().Path() != "math" {
			return true
		}
		switch f.Name() {
		case "Asin", "Acos":
			n++
			ok := clampedUnit(info, body, call.Args[0], 0)
			r.Ob("clamped:"+f.Name(), p.Pos(call.Pos()), ok, fmt.Sprintf("argument of math.%s is clamped to [−1, 1]: %v (%s) — beyond the polar circles the unclamped ratio leaves the domain and the result is NaN", f.Name(), ok, clip(types.ExprString(call.Args[0]), 80)))
		case "Sqrt":
			n++
			ok := false
			if be, isBin := stripParens(call.Args[0]).(*ast.BinaryExpr); isBin && be.Op == token.SUB {
				if one, isC := constFloat(info, be.X); isC && one == 1 {
					switch y := stripParens(be.Y).(type) {
					case *ast.CallExpr:
						if g := callee(info, y); g != nil && g.Name() == "Pow" && len(y.Args) == 2 {
							if ex, isC := constFloat(info, y.Args[1]); isC && ex == 2 {
								ok = clampedUnit(info, body, y.Args[0], 0)
							}
						}
					case *ast.BinaryExpr:
						if y.Op == token.MUL && sameExprText(y.X, y.Y) {
							ok = clampedUnit(info, body, y.X, 0)
						}
					}
				}
			}
			r.Ob("clamped:Sqrt", p.Pos(call.Pos()), ok, fmt.Sprintf("square root of 1 − x² with x clamped to [−1, 1]: %v (%s)", ok, clip(types.ExprString(call.Args[0]), 80)))
		case "Log", "Log10", "Log2":
			n++
			r.Ob("clamped:"+f.Name(), p.Pos(call.Pos()), false, "a logarithm in the day-length routine: no rule decides its argument")
		}
		return true
	})
	if n < 3 {
		r.Ob("sites", p.Pos(fi.Decl.Pos()), false, fmt.Sprintf("%d inverse-trigonometric / square-root sites found, at least 3 expected (day length, hour angle, mean radiation)", n))
	}
	// Limit is the clamp
	x := walked(p, "hermes.Limit")
	lf := p.Funcs["hermes.Limit"]
	if x == nil || lf == nil {
		r.Ob("limit", "-", false, "hermes.Limit not found")
		return
	}
	ns := paramNames(lf.Decl)
	if len(ns) != 3 {
		r.Ob("limit", p.Pos(lf.Decl.Pos()), false, "Limit does not take (value, upper, lower)")
		return
	}
	val, up, lo := pVar(ns[0]), pVar(ns[1]), pVar(ns[2])
	seen := map[string]bool{}
	okAll := true
	det := ""
	for _, e := range x.Events {
		if e.Kind != "return" || len(e.Rets) != 1 {
			continue
		}
		v := stripVersions(e.Rets[0])
		above := guardedBy(e, val.Sub(up), token.GTR)
		below := guardedBy(e, val.Sub(lo), token.LSS)
		switch {
		case v.Equal(up):
			seen["upper"] = true
			if !above || below {
				okAll = false
				det += "the upper bound is not returned exactly under value > upper; "
			}
		case v.Equal(lo):
			seen["lower"] = true
			if !below || above {
				okAll = false
				det += "the lower bound is not returned exactly under value < lower; "
			}
		case v.Equal(val):
			seen["value"] = true
			if above || below {
				okAll = false
				det += "the value itself is returned although it is outside the bounds; "
			}
		default:
			okAll = false
			det += "returns " + v.String() + "; "
		}
	}
	if !(seen["upper"] && seen["lower"] && seen["value"]) {
		okAll = false
		det += fmt.Sprintf("cases found: %v", seen)
	}
	r.Ob("limit", p.Pos(lf.Decl.Pos()), okAll, orStr(det, "Limit(value, upper, lower): upper when value > upper, lower when value < lower, value otherwise"))
}
